package main

import (
	"encoding/hex"
	"errors"
	"fmt"
	"os"
	"path/filepath"
	"strconv"
	"strings"

	"golang.org/x/sys/unix"

	"github.com/fsnotify/fsnotify"
)

// runPure: C15 / C16 / path functions — pure functions of the implementation
// evaluated on generated inputs.
func runPure(r *rec, g *rng, tier, what string) {
	thorough := tier == "thorough"
	if what == "" || what == "C16" {
		pureC16(r, g, thorough)
	}
	if what == "" || what == "C15" {
		pureC15(r, g, thorough)
	}
	if what == "" || what == "path" {
		purePath(r, g, thorough)
	}
}

// evalPure evaluates one pure op line on the implementation (also used by --replay).
func evalPure(op string) (ans string) {
	defer func() { // a pure function that panics on this input: that is its answer
		if r := recover(); r != nil {
			ans = "PANIC"
		}
	}()
	f := strings.Fields(op)
	u := func(i int) uint32 {
		v, _ := strconv.ParseUint(f[i], 16, 32)
		return uint32(v)
	}
	b := func(i int) string {
		if f[i] == "-" {
			return ""
		}
		x, _ := hex.DecodeString(f[i])
		return string(x)
	}
	b2s := func(b bool) string {
		if b {
			return "1"
		}
		return "0"
	}
	switch f[0] {
	case "opstring":
		return fsnotify.Op(u(1)).String()
	case "has":
		h := fsnotify.Op(u(1)).Has(fsnotify.Op(u(2)))
		ans := b2s(h)
		if (fsnotify.Event{Op: fsnotify.Op(u(1))}).Has(fsnotify.Op(u(2))) != h {
			ans += " EVENT-HAS-DISAGREES"
		}
		return ans
	case "evstring":
		return hx(fsnotify.VerifMakeEvent(b(2), fsnotify.Op(u(1)), b(3)).String())
	case "inotifyop":
		return fmt.Sprintf("%x", uint32(fsnotify.VerifNewEventer().NewEvent("n", u(1), 0).Op))
	case "reqseq": // three AddWith calls on one path with different op sets: the kernel's mask after each
		var ans []string
		w := pureWatcher()
		for _, x := range f[1:] {
			ops, _ := strconv.ParseUint(x, 16, 32)
			if err := w.AddWith(pureFile, fsnotify.VerifWithOps(fsnotify.Op(ops))); err != nil {
				ans = append(ans, "ERR")
				continue
			}
			snap := fsnotify.VerifTables(w)
			if len(snap.Wd) != 1 {
				ans = append(ans, "BAD-TABLE")
				continue
			}
			ans = append(ans, fmt.Sprintf("%x", kernelMask(snap.Fd, snap.Wd[0].Wd)))
		}
		w.Remove(pureFile)
		return strings.Join(ans, ",")
	case "request":
		return evalRequest(f[1] == "1", u(2))
	case "xsupports":
		return b2s(fsnotify.VerifSupports(pureWatcher(), fsnotify.Op(u(2))))
	case "clean":
		return hx(filepath.Clean(b(1)))
	case "dir":
		return hx(filepath.Dir(b(1)))
	case "base":
		return hx(filepath.Base(b(1)))
	case "recpath":
		fsnotify.VerifSetRecurse(f[1] == "1")
		q, rec := fsnotify.VerifRecursivePath(b(2))
		fsnotify.VerifSetRecurse(false)
		return hx(q) + " " + b2s(rec)
	}
	return "unknown-op"
}

var (
	pureW    *fsnotify.Watcher
	pureFile string
)

func pureWatcher() *fsnotify.Watcher {
	if pureW == nil {
		dir, err := os.MkdirTemp("", "fsnverif-pure")
		check(err)
		cleanups = append(cleanups, func() { os.RemoveAll(dir) })
		pureFile = filepath.Join(dir, "f")
		check(os.WriteFile(pureFile, nil, 0o644))
		pureW, err = newW()
		check(err)
	}
	return pureW
}

// evalRequest: AddWith(op subset [, noFollow]) on a real file; the flags stored for the watch are
// what was passed to inotify_add_watch; the kernel's own mask is read back from fdinfo.
func evalRequest(noFollow bool, ops uint32) string {
	w := pureWatcher()
	opts := []fsnotify.VerifAddOpt{fsnotify.VerifWithOps(fsnotify.Op(ops))}
	if noFollow {
		opts = append(opts, fsnotify.VerifWithNoFollow())
	}
	if err := w.AddWith(pureFile, opts...); err != nil {
		if errors.Is(err, unix.EINVAL) {
			return "0" // the kernel rejects an empty event mask
		}
		return "ERR " + err.Error()
	}
	snap := fsnotify.VerifTables(w)
	ans := ""
	if len(snap.Wd) != 1 {
		ans = fmt.Sprintf("BAD-TABLE %d", len(snap.Wd))
	} else {
		ans = fmt.Sprintf("%x", snap.Wd[0].Flags)
		if km := kernelMask(snap.Fd, snap.Wd[0].Wd); km != snap.Wd[0].Flags&0xfff {
			ans += fmt.Sprintf(" KERNEL-MASK-%x", km)
		}
	}
	check(w.Remove(pureFile))
	return ans
}

func (r *rec) emitP(kind, op string) { r.emit(kind, op, evalPure(op)) }

func pureC16(r *rec, g *rng, thorough bool) {
	// Op.String: exhaustive over the low 16 bits, random above
	for v := uint32(0); v < 1<<16; v++ {
		r.emitP("opstring", fmt.Sprintf("opstring %x", v))
	}
	n := 20000
	if thorough {
		n = 400000
	}
	for i := 0; i < n; i++ {
		v := g.u32()
		if i%3 == 0 {
			v &^= 0x1ff // only undefined bits
		}
		r.emitP("opstring", fmt.Sprintf("opstring %x", v))
	}
	// Has: pairs of low-9-bit values on a grid + random 32-bit pairs; Event.Has must agree
	step := uint32(7)
	if thorough {
		step = 1
	}
	for a := uint32(0); a < 512; a += step {
		for b := uint32(0); b < 512; b++ {
			r.emitP("has", fmt.Sprintf("has %x %x", a, b))
		}
	}
	for i := 0; i < n; i++ {
		a, b := g.u32(), g.u32()
		if i%2 == 0 {
			b = 1 << uint(g.intn(32))
		}
		if i%5 == 0 {
			a &= b ^ 0xffffffff // disjoint
		}
		r.emitP("has", fmt.Sprintf("has %x %x", a, b))
	}
	// Event.String (the answers of strconv.Quote are passed to the model: %q is a parameter there)
	names := []string{"", "a", "/tmp/file", "with space", "quote\"inside", "multi\nline", "tab\there", "\xff\xfe not utf8",
		"üñíçødé", "back\\slash", "←", "%s%q", "\x00nul", "trailing ", "日本語/ファイル"}
	for _, nm := range names {
		for _, from := range []string{"", "old", "o\"ld\n", "\xffx"} {
			for _, op := range []uint32{0, 1, 2, 4, 8, 0x10, 0x1f, 0x1ff, 0x80, 0x100, 0x180, 0xffffffff, 0x200, g.u32(), g.u32()} {
				r.emitP("evstring", fmt.Sprintf("evstring %x %s %s %s %s", op, hx(nm), hx(from), hx(strconv.Quote(nm)), hx(strconv.Quote(from))))
			}
		}
	}
}

func pureC15(r *rec, g *rng, thorough bool) {
	// every subset of the 12 event bits, with and without IN_ISDIR; every single bit; random
	for m := uint32(0); m < 1<<12; m++ {
		r.emitP("inotifyop", fmt.Sprintf("inotifyop %x", m))
		r.emitP("inotifyop", fmt.Sprintf("inotifyop %x", m|0x40000000))
	}
	for b := 0; b < 32; b++ {
		r.emitP("inotifyop", fmt.Sprintf("inotifyop %x", uint32(1)<<uint(b)))
	}
	n := 20000
	if thorough {
		n = 300000
	}
	for i := 0; i < n; i++ {
		r.emitP("inotifyop", fmt.Sprintf("inotifyop %x", g.u32()))
	}
	// request side: all 2^9 op subsets, with and without noFollow, against the real kernel
	for nf := 0; nf < 2; nf++ {
		for ops := uint32(0); ops < 512; ops++ {
			r.emitP("request", fmt.Sprintf("request %d %x", nf, ops))
		}
	}
	nseq := 150 // what several AddWith calls on ONE path subscribe to: the union, whatever the order
	if thorough {
		nseq = 3000
	}
	for i := 0; i < nseq; i++ {
		r.emitP("reqseq", fmt.Sprintf("reqseq %x %x %x", 1+g.intn(511), 1+g.intn(511), 1+g.intn(511)))
	}
	for i := 0; i < 200; i++ { // undefined bits are ignored
		r.emitP("request", fmt.Sprintf("request 0 %x", g.u32()))
	}
	for ops := uint32(0); ops < 512; ops++ {
		r.emitP("xsupports", fmt.Sprintf("xsupports inotify %x", ops))
	}
	dop, _ := fsnotify.VerifDefaultOps()
	r.emitP("request", fmt.Sprintf("request 0 %x", uint32(dop)))
	r.notes[fmt.Sprintf("defaultOps=%x", uint32(dop))]++
	r.notes[fmt.Sprintf("defaultBufferSize=%d", fsnotify.VerifDefaultBufferSize())]++
}

// kernelMask reads the mask the kernel holds for wd from /proc/self/fdinfo.
func kernelMask(fd int, wd uint32) uint32 {
	for _, m := range readFdinfo(fd) {
		if m.wd == wd {
			return m.mask
		}
	}
	return 0xffffffff
}

func purePath(r *rec, g *rng, thorough bool) {
	alpha := []byte{'a', '.', '/'}
	maxLen := 7
	if thorough {
		maxLen = 9
	}
	emit := func(p string) {
		r.emitP("clean", "clean "+hx(p))
		r.emitP("dir", "dir "+hx(p))
		r.emitP("base", "base "+hx(p))
	}
	var gen func(prefix []byte)
	gen = func(prefix []byte) {
		emit(string(prefix))
		if len(prefix) == maxLen {
			return
		}
		for _, c := range alpha {
			gen(append(append([]byte{}, prefix...), c))
		}
	}
	gen(nil)
	wide := []string{"a", "bb", ".", "..", "...", "", "/", "x y", "ü", "-", ".hidden", "a.b"}
	n := 5000
	if thorough {
		n = 100000
	}
	for i := 0; i < n; i++ {
		p := ""
		if g.chance(40) {
			p = "/"
		}
		k := g.intn(8)
		for j := 0; j < k; j++ {
			p += wide[g.intn(len(wide))]
			if g.chance(80) {
				p += "/"
			}
		}
		emit(p)
		r.emitP("recpath", "recpath 0 "+hx(p))
		r.emitP("recpath", "recpath 1 "+hx(p))
	}
}

// replayPure re-evaluates recorded op lines (one per line, without sequence numbers).
func replayPure(r *rec, lines []string) {
	for _, l := range lines {
		l = strings.TrimSpace(l)
		if l != "" {
			r.emitP("replay", l)
		}
	}
}
