package main

import (
	"errors"
	"fmt"
	"golang.org/x/sys/unix"
	"os"
	"path/filepath"
	"runtime"
	"sort"
	"strings"
	"sync"
	"sync/atomic"
	"time"

	"github.com/anishathalye/porcupine"
	"github.com/fsnotify/fsnotify"
)

// ---------------------------------------------------------------------------
// Genuine mode (NewWatcher / NewBufferedWatcher, nothing replaced): scenarios
// for the concurrency properties C05, C06, C07, C13, C14. Each scenario is one
// op line ("scenario <name> …", answer "ok"); what is checked is the property's
// own statement on the running implementation, reported through monitor.jsonl.

const watchdog = 8 * time.Second

type concCtx struct {
	r      *rec
	report func(prop, sig, what string, detail map[string]interface{})
}

// within runs f under a watchdog; on expiry it reports with a goroutine dump and returns false.
func (c *concCtx) within(prop, sig, what string, f func()) bool {
	beat()
	done := make(chan struct{})
	go func() { defer close(done); f() }()
	for round := 0; ; round++ {
		select {
		case <-done:
			return true
		case <-time.After(watchdog):
			buf := make([]byte, 1<<18)
			n := runtime.Stack(buf, true)
			// a call that sits INSIDE a system call is waiting for the kernel, not for the library: close(2) of an
			// inotify instance waits for an SRCU grace period and takes many seconds on a loaded machine (seen
			// with ten test suites running next to a sweep). Give the kernel up to two minutes; a call blocked
			// on a channel or a mutex is reported at once.
			if round < 15 && inKernel(string(buf[:n])) {
				beat()
				continue
			}
			c.report(prop, sig, what, map[string]interface{}{"goroutines": trimStacks(string(buf[:n]))})
			return false
		}
	}
}

// inKernel: some goroutine of the library (or of os.File.Close on its behalf) is in state [syscall] inside close,
// inotify_rm_watch or inotify_add_watch
func inKernel(stacks string) bool {
	for _, g := range strings.Split(stacks, "\n\n") {
		first, _, _ := strings.Cut(g, "\n")
		if !strings.Contains(first, "[syscall") {
			continue
		}
		if strings.Contains(g, "fsnotify") && (strings.Contains(g, "syscall.Close") || strings.Contains(g, "InotifyRmWatch") || strings.Contains(g, "InotifyAddWatch") || strings.Contains(g, "poll.(*FD).destroy")) {
			return true
		}
	}
	return false
}

func trimStacks(s string) string {
	var keep []string
	for _, g := range strings.Split(s, "\n\n") {
		if strings.Contains(g, "fsnotify") && !strings.Contains(g, "fsnharness") || strings.Contains(g, "readEvents") {
			if len(g) > 900 {
				g = g[:900]
			}
			keep = append(keep, g)
		}
	}
	if len(keep) > 6 {
		keep = keep[:6]
	}
	return strings.Join(keep, "\n\n")
}

func inotifyFds() int {
	ents, _ := os.ReadDir("/proc/self/fd")
	n := 0
	for _, e := range ents {
		if l, err := os.Readlink("/proc/self/fd/" + e.Name()); err == nil && strings.Contains(l, "inotify") {
			n++
		}
	}
	return n
}

func fsnotifyGoroutines() int {
	buf := make([]byte, 1<<20)
	n := runtime.Stack(buf, true)
	return strings.Count(string(buf[:n]), "fsnotify.(*inotify).readEvents")
}

func settle(f func() bool) bool {
	for i := 0; i < 400; i++ {
		if f() {
			return true
		}
		time.Sleep(5 * time.Millisecond)
	}
	return f()
}

// scenarioClose: C05 / C06 — pending events and/or a pending error, a given consumer behaviour
// and buffer size; every control call must return, Close must close both channels, the API goes inert.
func (c *concCtx) scenarioClose(bufsz uint, consumer string, pending string) {
	name := fmt.Sprintf("close buf=%d consumer=%s pending=%s", bufsz, consumer, pending)
	dir, err := os.MkdirTemp("", "fsnverif-conc")
	check(err)
	defer os.RemoveAll(dir)
	var w *fsnotify.Watcher
	if bufsz == 0 {
		w, err = newW()
	} else {
		w, err = newBW(bufsz)
	}
	check(err)
	f := filepath.Join(dir, "watched-file")
	check(os.WriteFile(f, nil, 0o644))
	check(w.Add(dir))
	check(w.Add(f))

	// consumer (paused during an overflow burst, so that the kernel queue really fills up)
	gate := make(chan struct{})
	if pending != "overflow" {
		close(gate)
	}
	stop := make(chan struct{})
	var evDone, erDone atomic.Bool
	var nEv, nEr atomic.Int64
	var lateSend atomic.Bool
	go func() {
		<-gate
		ev, er := w.Events, w.Errors
		if consumer == "onlyErrors" || consumer == "neither" {
			ev = nil
		}
		if consumer == "onlyEvents" || consumer == "neither" {
			er = nil
		}
		for {
			select {
			case <-stop:
				return
			case _, ok := <-ev:
				if !ok {
					evDone.Store(true)
					ev = nil
					continue
				}
				if evDone.Load() {
					lateSend.Store(true)
				}
				if nEv.Add(1) > 3 && consumer == "stopsMidway" {
					return
				}
			case _, ok := <-er:
				if !ok {
					erDone.Store(true)
					er = nil
					continue
				}
				nEr.Add(1)
			}
		}
	}()

	// activity that leaves things pending
	switch pending {
	case "events":
		for i := 0; i < int(bufsz)+20; i++ {
			os.WriteFile(filepath.Join(dir, fmt.Sprintf("n%d", i)), nil, 0o644)
		}
	case "error": // rename-then-delete of the watched file (F1 history), plus a few events
		os.Rename(f, f+".moved")
		os.Remove(f + ".moved")
		for i := 0; i < 5; i++ {
			os.WriteFile(filepath.Join(dir, fmt.Sprintf("n%d", i)), nil, 0o644)
		}
	case "overflow":
		for i := 0; i < 17500; i++ {
			os.WriteFile(filepath.Join(dir, fmt.Sprintf("o%d", i%40)), nil, 0o644)
		}
		close(gate)
	case "idle":
	}
	// let the reader get as far as it can with this consumer: wait until nothing has been
	// received for a while (the interesting states are the ones where it is parked in a send)
	last, stable := int64(-1), 0
	for i := 0; i < 600 && stable < 6; i++ {
		cur := nEv.Load() + nEr.Load()
		if cur == last {
			stable++
		} else {
			stable, last = 0, cur
		}
		time.Sleep(5 * time.Millisecond)
	}

	ok := c.within("C05", "C05:watchlist-blocked", name+": WatchList did not return", func() { w.WatchList() })
	ok = ok && c.within("C05", "C05:add-blocked", name+": Add did not return", func() { w.Add(dir) })
	ok = ok && c.within("C05", "C05:remove-blocked", name+": Remove did not return", func() { w.Remove(filepath.Join(dir, "nope")) })
	// two concurrent Close calls plus a racing Add
	var wg sync.WaitGroup
	var addRes error
	closed := c.within("C05", "C05:close-blocked", name+": Close did not return", func() {
		wg.Add(3)
		go func() { defer wg.Done(); w.Close() }()
		go func() { defer wg.Done(); w.Close() }()
		go func() { defer wg.Done(); addRes = w.Add(dir) }()
		wg.Wait()
	})
	if closed && addRes != nil && !errors.Is(addRes, fsnotify.ErrClosed) {
		c.report("C07", "C07:add-racing-close:"+errClass(addRes), name+": Add racing Close returned "+addRes.Error()+" (neither nil nor ErrClosed)", map[string]interface{}{})
	}
	if ok && closed {
		// a consumer loop over the channel(s) it reads terminates, whatever is left unread on the other
		if consumer == "both" || consumer == "onlyEvents" {
			if !settle(evDone.Load) {
				c.report("C06", "C06:consumer-loop-not-terminated:Events", name+": the consumer's loop over Events did not see the channel close after Close returned", map[string]interface{}{})
			}
		}
		if consumer == "both" || consumer == "onlyErrors" {
			if !settle(erDone.Load) {
				c.report("C06", "C06:consumer-loop-not-terminated:Errors", name+": the consumer's loop over Errors did not see the channel close after Close returned", map[string]interface{}{})
			}
		}
		// channels must close promptly whatever the consumer did: drain them ourselves now, one at a time
		close(stop)
		chk := func(what string, closedNow func() bool) {
			if !settle(closedNow) {
				c.report("C06", "C06:channel-not-closed:"+what, name+": "+what+" not closed after Close returned", map[string]interface{}{})
			}
		}
		chk("Events", func() bool {
			for {
				select {
				case _, ok := <-w.Events:
					if !ok {
						return true
					}
				default:
					return false
				}
			}
		})
		chk("Errors", func() bool {
			for {
				select {
				case _, ok := <-w.Errors:
					if !ok {
						return true
					}
				default:
					return false
				}
			}
		})
		if err := w.Add(dir); !errors.Is(err, fsnotify.ErrClosed) {
			c.report("C06", "C06:add-after-close", fmt.Sprintf("%s: Add after Close = %v, want ErrClosed", name, err), map[string]interface{}{})
		}
		if err := w.Remove(dir); err != nil {
			c.report("C06", "C06:remove-after-close", fmt.Sprintf("%s: Remove after Close = %v, want nil", name, err), map[string]interface{}{})
		}
		if l := w.WatchList(); l != nil {
			c.report("C06", "C06:watchlist-after-close", fmt.Sprintf("%s: WatchList after Close = %v, want nil", name, l), map[string]interface{}{})
		}
		if err := w.Close(); err != nil {
			c.report("C06", "C06:close-again", fmt.Sprintf("%s: third Close = %v", name, err), map[string]interface{}{})
		}
		if lateSend.Load() {
			c.report("C06", "C06:event-after-close-observed", name+": a value arrived on Events after its close was observed", map[string]interface{}{})
		}
	} else {
		if !closed { // Close was called and never completed: neither channel closes, no consumer loop ends
			evClosed := evDone.Load()
			erClosed := erDone.Load()
			c.report("C13", "C13:close-never-completed", name+": Close did not complete: the inotify descriptor, the kernel watches and the reader goroutine are never released", map[string]interface{}{})
			if !evClosed || !erClosed {
				c.report("C06", "C06:channels-never-closed", fmt.Sprintf("%s: Close did not complete; Events closed=%v Errors closed=%v as seen by the consumer", name, evClosed, erClosed), map[string]interface{}{})
			}
		}
		close(stop)
	}
	c.r.emit("scenario", "scenario "+strings.ReplaceAll(name, " ", "_"), "ok")
}

// scenarioLeak: C13 — descriptor and goroutine counts around create/use/close cycles.
func (c *concCtx) scenarioLeak(cycles int) {
	dir, err := os.MkdirTemp("", "fsnverif-leak")
	check(err)
	defer os.RemoveAll(dir)
	runtime.GC()
	fd0, g0 := inotifyFds(), fsnotifyGoroutines()
	for i := 0; i < cycles; i++ {
		var w *fsnotify.Watcher
		if i%2 == 0 {
			w, err = newW()
		} else {
			w, err = newBW(uint(i % 7))
		}
		check(err)
		w.Add(dir)
		switch i % 7 {
		case 0:
		case 1:
			os.WriteFile(filepath.Join(dir, "x"), nil, 0o644) // pending event, never read
		case 2:
			w.Remove(dir)
		case 3:
			go w.Close() // concurrent Close
		case 4:
			go w.Add(dir) // Close racing Add
		case 5:
			go w.Remove(dir) // Close racing Remove
		case 6:
			go w.Remove(dir) // Close racing Remove and Add
			go w.Add(dir)
		}
		if !c.within("C13", "C13:close-blocked", "Close did not return in the leak loop", func() { w.Close() }) {
			return
		}
	}
	if !settle(func() bool { return inotifyFds() == fd0 && fsnotifyGoroutines() == g0 }) {
		c.report("C13", "C13:leak", fmt.Sprintf("after %d create/use/close cycles: inotify descriptors %d -> %d, reader goroutines %d -> %d", cycles, fd0, inotifyFds(), g0, fsnotifyGoroutines()),
			map[string]interface{}{})
	}
	c.r.notes[fmt.Sprintf("leak-cycles=%d", cycles)]++
	c.r.emit("scenario", fmt.Sprintf("scenario leak_cycles=%d", cycles), "ok")
}

// newW / newBW: constructors that wait out a transient EMFILE (the per-user inotify instance limit is
// shared with every other process of this user, e.g. checks running in parallel)
func retryEMFILE(mk func() (*fsnotify.Watcher, error)) (*fsnotify.Watcher, error) {
	var w *fsnotify.Watcher
	var err error
	for i := 0; i < 600; i++ {
		w, err = mk()
		if err == nil || !(errors.Is(err, unix.EMFILE) || errors.Is(err, unix.ENFILE)) {
			return w, err
		}
		time.Sleep(100 * time.Millisecond)
		beat()
	}
	return w, err
}

func newBW(sz uint) (*fsnotify.Watcher, error) {
	return retryEMFILE(func() (*fsnotify.Watcher, error) { return fsnotify.NewBufferedWatcher(sz) })
}

func newW() (*fsnotify.Watcher, error) { return retryEMFILE(fsnotify.NewWatcher) }

// scenarioNewFails: C13 — NewWatcher failing at inotify_init1 (per-user instance limit) leaks nothing.
func (c *concCtx) scenarioNewFails() {
	runtime.GC()
	time.Sleep(20 * time.Millisecond)
	fd0, g0 := inotifyFds(), fsnotifyGoroutines()
	var ws []*fsnotify.Watcher
	failed := 0
	// make inotify_init1 fail with EMFILE through THIS process's descriptor limit: exhausting the
	// per-user instance limit instead would make every other process's NewWatcher fail meanwhile
	var lim, old unix.Rlimit
	check(unix.Getrlimit(unix.RLIMIT_NOFILE, &lim))
	old = lim
	ents, _ := os.ReadDir("/proc/self/fd")
	lim.Cur = uint64(len(ents) + 24)
	check(unix.Setrlimit(unix.RLIMIT_NOFILE, &lim))
	defer unix.Setrlimit(unix.RLIMIT_NOFILE, &old)
	for i := 0; i < 256; i++ {
		w, err := fsnotify.NewWatcher()
		if err != nil {
			failed++
			if failed >= 20 {
				break
			}
			continue
		}
		ws = append(ws, w)
	}
	unix.Setrlimit(unix.RLIMIT_NOFILE, &old) // (counting descriptors needs one itself)
	held := len(ws)
	// (counts are compared after settling: a freshly created reader may not have been scheduled yet)
	settle(func() bool { return inotifyFds() == fd0+held && fsnotifyGoroutines() == g0+held })
	if failed > 0 && inotifyFds() != fd0+held {
		c.report("C13", "C13:failed-new-leaks-fd", fmt.Sprintf("%d failed NewWatcher calls: %d inotify descriptors open for %d live Watchers", failed, inotifyFds()-fd0, held), map[string]interface{}{})
	}
	if failed > 0 && fsnotifyGoroutines() != g0+held {
		c.report("C13", "C13:failed-new-leaks-goroutine", fmt.Sprintf("%d failed NewWatcher calls: %d reader goroutines for %d live Watchers", failed, fsnotifyGoroutines()-g0, held), map[string]interface{}{})
	}
	unix.Setrlimit(unix.RLIMIT_NOFILE, &old)
	for _, w := range ws {
		w.Close()
	}
	if !settle(func() bool { return inotifyFds() == fd0 && fsnotifyGoroutines() == g0 }) {
		c.report("C13", "C13:leak", fmt.Sprintf("after closing %d Watchers: descriptors %d -> %d, goroutines %d -> %d", held, fd0, inotifyFds(), g0, fsnotifyGoroutines()), map[string]interface{}{})
	}
	c.r.notes[fmt.Sprintf("instance-limit-hit=%v", failed > 0)]++
	c.r.emit("scenario", "scenario new_fails", "ok")
}

// ---- C07: linearizability of Add / Remove / WatchList against the set spec --------------------

type linIn struct {
	op   string // add remove list
	path string
}
type linOut struct {
	err  string
	list string
}

var setModel = porcupine.Model{
	Init: func() interface{} { return "" },
	Step: func(state, input, output interface{}) (bool, interface{}) {
		st := state.(string) // sorted, \x00-joined set of paths; "\x01closed" suffix not used (Close is not in these histories)
		set := map[string]bool{}
		for _, p := range strings.Split(st, "\x00") {
			if p != "" {
				set[p] = true
			}
		}
		in, out := input.(linIn), output.(linOut)
		enc := func() string {
			var l []string
			for p := range set {
				l = append(l, p)
			}
			sort.Strings(l)
			return strings.Join(l, "\x00")
		}
		switch in.op {
		case "add":
			if out.err != "nil" {
				return false, st
			}
			set[in.path] = true
			return true, enc()
		case "remove":
			if set[in.path] {
				delete(set, in.path)
				return out.err == "nil", enc()
			}
			return out.err == "ErrNonExistentWatch", st
		default:
			return out.list == st, st
		}
	},
	Equal: func(a, b interface{}) bool { return a.(string) == b.(string) },
}

func (c *concCtx) scenarioLinearizable(g *rng, round int) {
	dir, err := os.MkdirTemp("", "fsnverif-lin")
	check(err)
	defer os.RemoveAll(dir)
	var paths []string
	for i := 0; i < 3; i++ {
		p := filepath.Join(dir, fmt.Sprintf("d%d", i))
		check(os.Mkdir(p, 0o755))
		paths = append(paths, p)
	}
	w, err := newBW(uint(g.intn(3)))
	check(err)
	defer w.Close()
	go func() { // consumer with some pacing
		for range w.Events {
			if round%3 == 0 {
				runtime.Gosched()
			}
		}
	}()
	go func() {
		for range w.Errors {
		}
	}()
	var mu sync.Mutex
	var ops []porcupine.Operation
	var wg sync.WaitGroup
	t0 := time.Now()
	nthreads := 2 + g.intn(3)
	seeds := make([]uint64, nthreads)
	for i := range seeds {
		seeds[i] = g.next()
	}
	stopFS := make(chan struct{})
	go func() { // file-system activity inside the watched directories (never deletes the directories)
		i := 0
		for {
			select {
			case <-stopFS:
				return
			default:
			}
			p := filepath.Join(paths[i%3], fmt.Sprintf("f%d", i%5))
			os.WriteFile(p, nil, 0o644)
			os.Remove(p)
			i++
		}
	}()
	for t := 0; t < nthreads; t++ {
		wg.Add(1)
		go func(t int) {
			defer wg.Done()
			lg := &rng{s: seeds[t]}
			for k := 0; k < 4; k++ {
				in := linIn{op: []string{"add", "remove", "list", "add", "remove"}[lg.intn(5)], path: paths[lg.intn(len(paths))]}
				call := time.Since(t0).Nanoseconds()
				var out linOut
				func() {
					defer func() {
						if r := recover(); r != nil {
							out.err = "PANIC"
						}
					}()
					switch in.op {
					case "add":
						out.err = errClass(w.Add(in.path))
					case "remove":
						out.err = errClass(w.Remove(in.path))
					default:
						l := w.WatchList()
						sort.Strings(l)
						out.list = strings.Join(l, "\x00")
					}
				}()
				ret := time.Since(t0).Nanoseconds()
				mu.Lock()
				ops = append(ops, porcupine.Operation{ClientId: t, Input: in, Call: call, Output: out, Return: ret})
				mu.Unlock()
			}
		}(t)
	}
	if !c.within("C07", "C07:deadlock", "concurrent Add/Remove/WatchList calls did not all return", wg.Wait) {
		close(stopFS)
		return
	}
	close(stopFS)
	// one more WatchList after the reader has caught up with what the calls left in the kernel queue
	// (IN_IGNORED of removed watches): the set must still be explained by the same sequential order
	time.Sleep(time.Duration(1+round%3) * time.Millisecond)
	{
		call := time.Since(t0).Nanoseconds()
		l := w.WatchList()
		sort.Strings(l)
		ops = append(ops, porcupine.Operation{ClientId: nthreads, Input: linIn{op: "list"}, Call: call, Output: linOut{list: strings.Join(l, "\x00")}, Return: time.Since(t0).Nanoseconds()})
	}
	res := porcupine.CheckOperationsTimeout(setModel, ops, 5*time.Second)
	if res == porcupine.Illegal {
		var hist []string
		for _, o := range ops {
			hist = append(hist, fmt.Sprintf("c%d %s %s [%d,%d] -> %s%s", o.ClientId, o.Input.(linIn).op, filepath.Base(o.Input.(linIn).path), o.Call, o.Return,
				o.Output.(linOut).err, strings.ReplaceAll(strings.ReplaceAll(o.Output.(linOut).list, dir+"/", ""), "\x00", ",")))
		}
		c.report("C07", "C07:not-linearizable", "a concurrent history of Add/Remove/WatchList has no sequential explanation", map[string]interface{}{"history": hist})
	}
	c.r.notes["lin-histories"]++
	c.r.notes[fmt.Sprintf("lin-result-%v", res)]++
}

// scenarioIndependence: C14 — several Watchers with different buffer sizes over the same directory
// see the same event sequence for one sequential history, whatever the others do.
func (c *concCtx) scenarioIndependence(g *rng, nw int) {
	dir, err := os.MkdirTemp("", "fsnverif-ind")
	check(err)
	defer os.RemoveAll(dir)
	sub := filepath.Join(dir, "other")
	check(os.Mkdir(sub, 0o755))
	sizes := []uint{0, 1, 2, 4, 64, 4096, 65536, 3}
	type wrec struct {
		w   *fsnotify.Watcher
		sz  uint
		evs []string
		mu  sync.Mutex
	}
	var ws []*wrec
	for i := 0; i < nw; i++ {
		sz := sizes[i%len(sizes)]
		var w *fsnotify.Watcher
		if sz == 0 {
			w, err = newW()
		} else {
			w, err = newBW(sz)
		}
		check(err)
		want := int(sz)
		if sz == 0 {
			want = fsnotify.VerifDefaultBufferSize()
		}
		if cap(w.Events) != want || cap(w.Errors) != 0 {
			c.report("C14", "C14:capacity", fmt.Sprintf("requested buffer %d: cap(Events)=%d cap(Errors)=%d", sz, cap(w.Events), cap(w.Errors)), map[string]interface{}{})
		}
		check(w.Add(dir))
		ws = append(ws, &wrec{w: w, sz: sz})
	}
	// watcher 0 is the one observed; the others are consumed too, but also churned
	for _, x := range ws {
		go func(x *wrec) {
			for e := range x.w.Events {
				if strings.HasPrefix(filepath.Base(e.Name), "h") {
					x.mu.Lock()
					x.evs = append(x.evs, fmt.Sprintf("%s:%x", filepath.Base(e.Name), uint32(e.Op)))
					x.mu.Unlock()
				}
			}
		}(x)
		go func(x *wrec) {
			for range x.w.Errors {
			}
		}(x)
	}
	n := 60
	for i := 0; i < n; i++ {
		p := filepath.Join(dir, fmt.Sprintf("h%d", i))
		os.WriteFile(p, []byte("x"), 0o644)
		if i%3 == 0 {
			os.Chmod(p, 0o600)
		}
		if i%4 == 0 {
			os.Rename(p, p+"r")
		}
		if i%5 == 0 {
			os.Remove(p)
		}
		// churn on the other Watchers
		if len(ws) > 1 {
			o := ws[1+g.intn(len(ws)-1)]
			switch g.intn(4) {
			case 0:
				o.w.Add(sub)
			case 1:
				o.w.Remove(sub)
			case 2:
				o.w.WatchList()
			}
		}
	}
	// one of the others is closed in the middle of the tail
	if len(ws) > 2 {
		ws[len(ws)-1].w.Close()
	}
	os.WriteFile(filepath.Join(dir, "hEND"), nil, 0o644)
	settle(func() bool {
		ws[0].mu.Lock()
		defer ws[0].mu.Unlock()
		return len(ws[0].evs) > 0 && strings.HasPrefix(ws[0].evs[len(ws[0].evs)-1], "hEND")
	})
	time.Sleep(30 * time.Millisecond)
	ws[0].mu.Lock()
	ref := strings.Join(ws[0].evs, " ")
	ws[0].mu.Unlock()
	for i, x := range ws[1:] {
		if len(ws) > 2 && i == len(ws)-2 {
			continue // the closed one
		}
		settle(func() bool {
			x.mu.Lock()
			defer x.mu.Unlock()
			return len(x.evs) > 0 && strings.HasPrefix(x.evs[len(x.evs)-1], "hEND")
		})
		x.mu.Lock()
		got := strings.Join(x.evs, " ")
		x.mu.Unlock()
		if got != ref {
			c.report("C14", "C14:sequence-differs", fmt.Sprintf("Watcher with buffer %d delivered a different event sequence than the one with buffer %d for the same history", x.sz, ws[0].sz),
				map[string]interface{}{"a": ref, "b": got})
		}
	}
	for _, x := range ws {
		x.w.Close()
	}
	c.r.emit("scenario", fmt.Sprintf("scenario independence watchers=%d", nw), "ok")
}

// scenarioLagging: C14 — the same history, watched through a directory watch AND a watch on the file
// itself, by Watchers of several buffer sizes with nobody receiving while the history runs; the
// consumers attach afterwards. A reader that could not hand its events over (small buffer) processes
// the file's renames and removals later than one that could: the delivered sequence must not depend
// on that.
func (c *concCtx) scenarioLagging(g *rng, round int) {
	dir, err := os.MkdirTemp("", "fsnverif-lag")
	check(err)
	defer os.RemoveAll(dir)
	f, gname := filepath.Join(dir, "hf"), filepath.Join(dir, "hg")
	check(os.WriteFile(f, []byte("x"), 0o644))
	sizes := []uint{0, 1, 2, 16, 1024}
	type wrec struct {
		w   *fsnotify.Watcher
		sz  uint
		evs []string
		mu  sync.Mutex
	}
	var ws []*wrec
	for _, sz := range sizes {
		w, err := newBW(sz)
		check(err)
		check(w.Add(dir))
		check(w.Add(f))
		ws = append(ws, &wrec{w: w, sz: sz})
	}
	var hist []string
	cur := f // where the originally watched file lives now ("" = deleted)
	n := 3 + g.intn(6)
	for i := 0; i < n && cur != ""; i++ {
		switch g.intn(6) {
		case 0, 1:
			fh, err := os.OpenFile(cur, os.O_WRONLY|os.O_APPEND, 0)
			if err == nil {
				fh.Write([]byte("y"))
				fh.Close()
				hist = append(hist, "write "+filepath.Base(cur))
			}
		case 2:
			os.Chmod(cur, os.FileMode(0o600+i%2))
			hist = append(hist, "chmod "+filepath.Base(cur))
		case 3, 4:
			to := gname
			if cur == gname {
				to = f
			}
			if os.Rename(cur, to) == nil {
				hist = append(hist, "mv "+filepath.Base(cur)+" "+filepath.Base(to))
				cur = to
			}
		case 5:
			if os.Remove(cur) == nil {
				hist = append(hist, "rm "+filepath.Base(cur))
				cur = ""
			}
		}
		time.Sleep(time.Duration(200+g.intn(800)) * time.Microsecond) // buffered readers keep up, the unbuffered one cannot
	}
	os.WriteFile(filepath.Join(dir, "hEND"), nil, 0o644)
	for _, x := range ws {
		go func(x *wrec) {
			for e := range x.w.Events {
				x.mu.Lock()
				x.evs = append(x.evs, fmt.Sprintf("%s:%x", filepath.Base(e.Name), uint32(e.Op)))
				x.mu.Unlock()
			}
		}(x)
		go func(x *wrec) {
			for range x.w.Errors {
			}
		}(x)
	}
	seq := func(x *wrec) string {
		settle(func() bool {
			x.mu.Lock()
			defer x.mu.Unlock()
			return len(x.evs) > 0 && strings.HasPrefix(x.evs[len(x.evs)-1], "hEND")
		})
		x.mu.Lock()
		defer x.mu.Unlock()
		// the kernel merges an event into an identical one still at the tail of its queue, so a reader
		// that lags sees runs of identical events shortened (inotify(7)): compare modulo such runs
		var out []string
		for _, e := range x.evs {
			if len(out) == 0 || out[len(out)-1] != e {
				out = append(out, e)
			}
		}
		return strings.Join(out, " ")
	}
	ref := seq(ws[len(ws)-1])
	for _, x := range ws[:len(ws)-1] {
		if got := seq(x); got != ref {
			c.report("C14", "C14:sequence-depends-on-buffer", fmt.Sprintf("history %v with the consumer attached afterwards: buffer %d delivered [%s], buffer %d delivered [%s]", hist, x.sz, got, ws[len(ws)-1].sz, ref),
				map[string]interface{}{"history": hist})
			break
		}
	}
	for _, x := range ws {
		x.w.Close()
	}
	beat()
}

// scenarioStaleHandle: C14 / C06 — calls on a closed Watcher are inert: they must not reach a newer
// Watcher that happens to have been handed the same descriptor number.
// scenarioClosedMeanwhile: C14 — one Watcher is closed while its reader still has a record to handle (its
// bookkeeping mutex is held, as by a long-running Add/Remove/WatchList, so the reader waits in front of
// handleEvent with an IN_MOVE_SELF in hand); other Watchers are created and used meanwhile. Whatever the
// closing one still does must stay inside its own inotify instance: the others keep their watches and
// deliver their events.
func (c *concCtx) scenarioClosedMeanwhile() {
	for round := 0; round < 6; round++ {
		dir, err := os.MkdirTemp("", "fsnverif-meanwhile")
		check(err)
		other := filepath.Join(dir, "other")
		check(os.Mkdir(other, 0o755))
		f := filepath.Join(dir, "f")
		check(os.WriteFile(f, nil, 0o644))
		a, err := newW()
		check(err)
		go func() { // A's consumer
			for a.Events != nil {
				select {
				case _, ok := <-a.Events:
					if !ok {
						return
					}
				case _, ok := <-a.Errors:
					if !ok {
						return
					}
				}
			}
		}()
		check(a.Add(f))
		release := fsnotify.VerifHoldMu(a)
		os.Rename(f, f+".moved") // IN_MOVE_SELF: the reader reads it and waits for the mutex
		time.Sleep(20 * time.Millisecond)
		closed := make(chan struct{})
		go func() { a.Close(); close(closed) }()
		time.Sleep(20 * time.Millisecond)
		var bs []*fsnotify.Watcher
		for i := 0; i < 4; i++ { // whoever gets a recycled descriptor number, and the same wd numbers
			b, err := newW()
			check(err)
			check(b.Add(other))
			bs = append(bs, b)
		}
		release()
		okClose := c.within("C05", "C05:close-blocked", "closed-meanwhile: Close did not return after the mutex was released", func() { <-closed })
		p := filepath.Join(other, fmt.Sprintf("n%d", round))
		os.WriteFile(p, nil, 0o644)
		for i, b := range bs {
			if l := b.WatchList(); len(l) != 1 {
				c.report("C14", "C14:other-watcher-disturbed", fmt.Sprintf("Watcher %d created while another one was being closed: WatchList = %v, it added %q and removed nothing", i, l, other),
					map[string]interface{}{"history": []string{"A.Add(f)", "hold A's mutex", "rename f", "go A.Close()", "B_i := NewWatcher(); B_i.Add(other)", "release", "create other/n"}})
			}
			select {
			case e := <-b.Events:
				if e.Name != p {
					c.report("C14", "C14:other-watcher-disturbed", fmt.Sprintf("Watcher %d: unexpected event %v", i, e), map[string]interface{}{})
				}
			case <-time.After(2 * time.Second):
				c.report("C14", "C14:other-watcher-disturbed", fmt.Sprintf("Watcher %d, created while another one was being closed, delivers nothing for a file created in the directory it watches", i),
					map[string]interface{}{"history": []string{"A.Add(f)", "hold A's mutex", "rename f", "go A.Close()", "B_i := NewWatcher(); B_i.Add(other)", "release", "create other/n"}})
			}
			b.Close()
		}
		_ = okClose
		os.RemoveAll(dir)
	}
	c.r.emit("scenario", "scenario closed_meanwhile", "ok")
}

// scenarioReAddBehindReader: C07 — the watched file is replaced (renamed away, a new file under the old
// name); the reader has read IN_MOVE_SELF and waits for the bookkeeping mutex, which is held (as by a
// long-running call) long enough for the runtime to hand the mutex from waiter to waiter; a re-Add of the
// path queues behind the reader. In whichever order the two critical sections run, the path must end up
// listed and the new file's changes must be reported: the calls are consistent with a sequential order
// only if each section is atomic.
func (c *concCtx) scenarioReAddBehindReader() {
	for round := 0; round < 12; round++ {
		dir, err := os.MkdirTemp("", "fsnverif-readd")
		check(err)
		p := filepath.Join(dir, "p")
		check(os.WriteFile(p, nil, 0o644))
		w, err := newBW(64)
		check(err)
		check(w.Add(p))
		release := fsnotify.VerifHoldMu(w)
		os.Rename(p, p+".old")
		check(os.WriteFile(p, nil, 0o644))
		time.Sleep(5 * time.Millisecond) // the reader waits in front of handleEvent
		done := make(chan error, 1)
		go func() { done <- w.Add(p) }()
		time.Sleep(5 * time.Millisecond) // Add waits behind it; both have waited long enough for hand-off mode
		// barge once: the woken reader finds the mutex taken again after waiting > 1 ms, which switches
		// sync.Mutex to hand-off (starvation) mode: from now on every Unlock passes the mutex to the next waiter
		release()
		release2 := fsnotify.VerifHoldMu(w)
		time.Sleep(2 * time.Millisecond)
		release2()
		var addErr error
		if !c.within("C07", "C07:hang", "re-add behind the reader: Add did not return", func() { addErr = <-done }) {
			os.RemoveAll(dir)
			return
		}
		time.Sleep(20 * time.Millisecond)
		listed := false
		for _, x := range w.WatchList() {
			if x == p {
				listed = true
			}
		}
		os.WriteFile(p, []byte("x"), 0o644)
		gotWrite := false
		deadline := time.After(time.Second)
	loop:
		for {
			select {
			case e := <-w.Events:
				if e.Name == p && e.Has(fsnotify.Write) {
					gotWrite = true
					break loop
				}
			case <-w.Errors:
			case <-deadline:
				break loop
			}
		}
		if addErr == nil && (!listed || !gotWrite) {
			c.report("C07", "C07:readd-racing-reader-lost", fmt.Sprintf("Add(p) of a replaced file returned nil while the reader was handling the old file's IN_MOVE_SELF: afterwards WatchList lists p = %v, a write to p is reported = %v — no sequential order of the re-Add and the reader's section gives that", listed, gotWrite),
				map[string]interface{}{"history": []string{"Add(p)", "hold the mutex", "rename p p.old; create p", "go Add(p)", "release", "WatchList; write p"}})
		}
		w.Close()
		os.RemoveAll(dir)
	}
	// the other order: the reader is parked in a send (nobody receives yet) with the old file's IN_MOVE_SELF still
	// queued behind it; the path is re-added for the new file FIRST, the stale notification is handled afterwards
	// and must not touch the new watch (the old descriptor's entry went with the re-Add)
	for round := 0; round < 8; round++ {
		dir, err := os.MkdirTemp("", "fsnverif-readd2")
		check(err)
		p := filepath.Join(dir, "p")
		check(os.WriteFile(p, nil, 0o644))
		w, err := newBW(0)
		check(err)
		check(w.Add(p))
		os.WriteFile(p, []byte("1"), 0o644) // the reader handles this one and parks in sendEvent
		time.Sleep(5 * time.Millisecond)
		os.Rename(p, p+".old") // keeps the old inode alive: only IN_MOVE_SELF is queued
		check(os.WriteFile(p, nil, 0o644))
		var addErr error
		if !c.within("C07", "C07:hang", "re-add ahead of the reader: Add did not return", func() { addErr = w.Add(p) }) {
			os.RemoveAll(dir)
			return
		}
		// now receive: the parked event, then whatever the stale notifications produce
		quiet := time.After(150 * time.Millisecond)
	drain:
		for {
			select {
			case <-w.Events:
			case <-w.Errors:
			case <-quiet:
				break drain
			}
		}
		listed := false
		for _, x := range w.WatchList() {
			if x == p {
				listed = true
			}
		}
		os.WriteFile(p, []byte("x"), 0o644)
		gotWrite := false
		deadline := time.After(time.Second)
	loop2:
		for {
			select {
			case e := <-w.Events:
				if e.Name == p && e.Has(fsnotify.Write) {
					gotWrite = true
					break loop2
				}
			case <-w.Errors:
			case <-deadline:
				break loop2
			}
		}
		if addErr == nil && (!listed || !gotWrite) {
			c.report("C07", "C07:readd-ahead-of-reader-lost", fmt.Sprintf("Add(p) of a replaced file returned nil while the old file's IN_MOVE_SELF was still queued behind a parked reader: after the reader caught up WatchList lists p = %v, a write to p is reported = %v — the re-Add came first, nothing removed p afterwards", listed, gotWrite),
				map[string]interface{}{"history": []string{"Add(p)", "write p (reader parks in the send)", "rename p p.old; create p", "Add(p)", "receive everything", "WatchList; write p"}})
		}
		w.Close()
		os.RemoveAll(dir)
	}
	c.r.emit("scenario", "scenario readd_behind_reader", "ok")
}

func (c *concCtx) scenarioStaleHandle() {
	dir, err := os.MkdirTemp("", "fsnverif-stale")
	check(err)
	defer os.RemoveAll(dir)
	for round := 0; round < 20; round++ {
		a, err := newW()
		check(err)
		check(a.Add(dir))
		a.Close()
		b, err := newW() // usually gets the descriptor number a had
		check(err)
		check(b.Add(dir))
		a.Remove(dir)
		a.Add(dir)
		a.WatchList()
		p := filepath.Join(dir, fmt.Sprintf("s%d", round))
		os.WriteFile(p, nil, 0o644)
		select {
		case e := <-b.Events:
			if e.Name != p {
				c.report("C14", "C14:other-watcher-disturbed", fmt.Sprintf("unexpected event %v on the live Watcher", e), map[string]interface{}{})
			}
		case <-time.After(2 * time.Second):
			c.report("C14", "C14:other-watcher-disturbed", "Remove/Add on a CLOSED Watcher silenced a different, live Watcher on the same directory (stale descriptor number reused)",
				map[string]interface{}{"history": []string{"A.Add(dir)", "A.Close()", "B := NewWatcher()", "B.Add(dir)", "A.Remove(dir)", "create file", "B gets nothing"}})
			b.Close()
			return
		}
		if l := b.WatchList(); len(l) != 1 {
			c.report("C14", "C14:other-watcher-disturbed", fmt.Sprintf("live Watcher's WatchList = %v after calls on a closed one", l), map[string]interface{}{})
		}
		b.Close()
	}
	c.r.emit("scenario", "scenario stale_handle", "ok")
}

// scenarioAbsorb: C14 — a buffered Watcher absorbs `sz` events with no consumer and delivers them intact later.
func (c *concCtx) scenarioAbsorb(sz uint) {
	dir, err := os.MkdirTemp("", "fsnverif-abs")
	check(err)
	defer os.RemoveAll(dir)
	w, err := newBW(sz)
	check(err)
	defer w.Close()
	check(w.Add(dir))
	n := int(sz)
	for i := 0; i < n; i++ {
		os.WriteFile(filepath.Join(dir, fmt.Sprintf("a%04d", i)), nil, 0o644)
	}
	if !settle(func() bool { return len(w.Events) == n }) {
		c.report("C14", "C14:absorb", fmt.Sprintf("buffer %d: %d events buffered with no consumer after %d creates", sz, len(w.Events), n), map[string]interface{}{})
	}
	for i := 0; i < n; i++ {
		select {
		case e := <-w.Events:
			if want := filepath.Join(dir, fmt.Sprintf("a%04d", i)); e.Name != want || e.Op != fsnotify.Create {
				c.report("C14", "C14:absorb-order", fmt.Sprintf("buffer %d: event %d is %v, want CREATE %s", sz, i, e, want), map[string]interface{}{})
				return
			}
		case <-time.After(2 * time.Second):
			c.report("C14", "C14:absorb", fmt.Sprintf("buffer %d: only %d of %d buffered events delivered", sz, i, n), map[string]interface{}{})
			return
		}
	}
	c.r.emit("scenario", fmt.Sprintf("scenario absorb sz=%d", sz), "ok")
}

// scenarioInjectedPending: C05 / C06 / C13 — the pending value is produced by a record the real kernel
// raises only in situations that are hard to stage (unmount, a mark that is already gone, the
// overflow marker, housekeeping records for a listed watch): an injected Watcher (the unmodified
// reader fed through a socket pair, real inotify instance behind Add/Remove) gets one datagram
// with the record, a given consumer behaviour, and then every control call must return.
func (c *concCtx) scenarioInjectedPending(consumer, kind string) {
	name := fmt.Sprintf("injected consumer=%s record=%s", consumer, kind)
	g0 := fsnotifyGoroutines()
	dir, err := os.MkdirTemp("", "fsnverif-concinj")
	check(err)
	defer os.RemoveAll(dir)
	var w *fsnotify.Watcher
	var realFd, injectFd int
	for i := 0; ; i++ {
		w, realFd, injectFd, err = fsnotify.VerifNewInjected(0)
		if err == nil || i > 600 || !(errors.Is(err, unix.EMFILE) || errors.Is(err, unix.ENFILE)) {
			break
		}
		time.Sleep(100 * time.Millisecond)
		beat()
	}
	check(err)
	defer unix.Close(injectFd)
	defer unix.Close(realFd) // Close() closes the reader's end of the socket pair; the instance behind Add/Remove is the harness's
	sub := filepath.Join(dir, "sub")
	check(os.Mkdir(sub, 0o755))
	check(w.Add(dir))
	check(w.Add(sub))
	var wdSub uint32
	var st unix.Stat_t
	check(unix.Stat(sub, &st))
	for _, m := range readFdinfo(realFd) {
		if m.ino == st.Ino {
			wdSub = m.wd
		}
	}
	stop := make(chan struct{})
	var evDone, erDone atomic.Bool
	go func() {
		ev, er := w.Events, w.Errors
		if consumer == "onlyErrors" || consumer == "neither" {
			ev = nil
		}
		if consumer == "onlyEvents" || consumer == "neither" {
			er = nil
		}
		for {
			select {
			case <-stop:
				return
			case _, ok := <-ev:
				if !ok {
					evDone.Store(true)
					ev = nil
				}
			case _, ok := <-er:
				if !ok {
					erDone.Store(true)
					er = nil
				}
			}
		}
	}()
	var recs []rawRec
	switch kind {
	case "unmount":
		recs = []rawRec{{wd: wdSub, mask: inUnmount}, {wd: wdSub, mask: inIgnored}}
	case "ignored":
		recs = []rawRec{{wd: wdSub, mask: inIgnored}}
	case "delete_self":
		recs = []rawRec{{wd: wdSub, mask: inDeleteSelf}, {wd: wdSub, mask: inIgnored}}
	case "move_self": // the mark is still there: the clean-up's inotify_rm_watch succeeds
		recs = []rawRec{{wd: wdSub, mask: inMoveSelf}}
	case "move_self_mark_gone": // the kernel dropped the mark first (renamed, then deleted): EINVAL, not an error
		unix.InotifyRmWatch(realFd, wdSub)
		recs = []rawRec{{wd: wdSub, mask: inMoveSelf}}
	case "overflow":
		recs = []rawRec{{wd: 0xffffffff, mask: inQOverflow}, {wd: wdSub, mask: inModify, name: kernelPad("x")}}
	case "unknown_wd":
		recs = []rawRec{{wd: 987654, mask: inModify, name: kernelPad("x")}, {wd: 987654, mask: inUnmount}}
	case "eof", "short": // the read itself fails: nothing (io.EOF) resp. less than one header
	case "create_dir":
		recs = []rawRec{{wd: wdSub, mask: inCreate | inIsdir, name: kernelPad("newdir")}, {wd: wdSub, mask: inMovedFrom | inIsdir, cookie: 7, name: kernelPad("a")}}
	}
	var buf []byte
	for _, r := range recs {
		buf = append(buf, r.bytes()...)
	}
	if kind == "short" {
		buf = make([]byte, 9)
	}
	_, werr := unix.Write(injectFd, buf) // kind "eof": a zero-length datagram
	check(werr)
	time.Sleep(40 * time.Millisecond) // the reader gets as far as this consumer lets it

	ok := c.within("C05", "C05:watchlist-blocked", name+": WatchList did not return", func() { w.WatchList() })
	ok = ok && c.within("C05", "C05:add-blocked", name+": Add did not return", func() { w.Add(dir) })
	ok = ok && c.within("C05", "C05:remove-blocked", name+": Remove did not return", func() { w.Remove(filepath.Join(dir, "nope")) })
	closed := c.within("C05", "C05:close-blocked", name+": Close did not return", func() {
		var wg sync.WaitGroup
		wg.Add(2)
		go func() { defer wg.Done(); w.Close() }()
		go func() { defer wg.Done(); w.Close() }()
		wg.Wait()
	})
	close(stop)
	if !closed {
		c.report("C13", "C13:close-never-completed", name+": Close did not complete: the inotify descriptor, the kernel watches and the reader goroutine are never released", map[string]interface{}{})
		c.report("C06", "C06:channels-never-closed", name+": Close did not complete, the channels are never closed", map[string]interface{}{})
	} else if ok {
		drained := func(what string, closedNow func() bool) {
			if !settle(closedNow) {
				c.report("C06", "C06:channel-not-closed:"+what, name+": "+what+" not closed after Close returned", map[string]interface{}{})
			}
		}
		drained("Events", func() bool {
			for {
				select {
				case _, ok := <-w.Events:
					if !ok {
						return true
					}
				default:
					return false
				}
			}
		})
		drained("Errors", func() bool {
			for {
				select {
				case _, ok := <-w.Errors:
					if !ok {
						return true
					}
				default:
					return false
				}
			}
		})
		if !settle(func() bool { return fsnotifyGoroutines() <= g0 }) {
			c.report("C13", "C13:reader-goroutine-alive-after-close", fmt.Sprintf("%s: reader goroutines %d -> %d after Close returned", name, g0, fsnotifyGoroutines()), map[string]interface{}{})
		}
		// the notification descriptor (here: the reader's end of the socket pair) is released: the peer sees it
		if !settle(func() bool {
			err := unix.Send(injectFd, []byte{0}, unix.MSG_NOSIGNAL|unix.MSG_DONTWAIT)
			return errors.Is(err, unix.EPIPE) || errors.Is(err, unix.ECONNRESET) || errors.Is(err, unix.ENOTCONN)
		}) {
			c.report("C13", "C13:notification-descriptor-open-after-close", name+": the Watcher's notification descriptor is still open after Close returned and both channels closed", map[string]interface{}{})
		}
	}
	c.r.emit("scenario", "scenario "+strings.ReplaceAll(name, " ", "_"), "ok")
}

// attribute: when set, findings of the termination scenarios are reported for this property instead
var attribute string

func runConc(r *rec, g *rng, tier, what, out string, extra map[string]interface{}) {
	mon, err := os.Create(filepath.Join(out, "monitor.jsonl"))
	check(err)
	defer mon.Close()
	seen := map[string]bool{}
	c := &concCtx{r: r}
	c.report = func(prop, sig, what string, detail map[string]interface{}) {
		if what0 := what; what0 != "" && attribute != "" && (prop == "C05" || prop == "C06" || prop == "C13") {
			// the overflow scenarios run on behalf of C10 ("… keeps delivering and keeps accepting Add/Remove")
			mid := ":after-overflow:"
			if attribute == "C07" {
				mid = ":with-value-pending:"
			}
			sig = attribute + mid + strings.TrimPrefix(strings.TrimPrefix(strings.TrimPrefix(sig, "C05:"), "C06:"), "C13:")
			prop = attribute
		}
		if seen[sig] {
			return
		}
		seen[sig] = true
		detail["seed"], detail["tier"] = seedFromEnv(), tier
		b, _ := jsonMarshal(map[string]interface{}{"property": prop, "signature": sig, "what": what, "detail": detail})
		mon.Write(append(b, '\n'))
	}
	thorough := tier == "thorough"
	if what == "C10" { // overflow is survivable: every control call returns and Close works with the overflow error pending
		attribute = "C10"
		for _, cs := range []string{"neither", "onlyEvents"} {
			c.scenarioClose(0, cs, "overflow")
		}
		for _, cs := range []string{"neither", "onlyEvents", "onlyErrors"} {
			c.scenarioInjectedPending(cs, "overflow")
		}
		attribute = ""
		return
	}
	want := func(ids ...string) bool {
		for _, id := range ids {
			if what == "" || what == id {
				return true
			}
		}
		return false
	}
	if want("C05", "C06") {
		consumers := []string{"both", "onlyEvents", "onlyErrors", "neither", "stopsMidway"}
		pendings := []string{"idle", "events", "error"}
		bufs := []uint{0, 1, 64}
		reps := 1
		if thorough {
			reps = 6
			bufs = []uint{0, 1, 2, 64, 4096}
		}
		for rep := 0; rep < reps; rep++ {
			for _, b := range bufs {
				for _, cs := range consumers {
					for _, p := range pendings {
						c.scenarioClose(b, cs, p)
					}
				}
			}
		}
		// pending values from records that are hard to stage with the real kernel (injected Watcher)
		for _, cs := range []string{"neither", "onlyEvents", "onlyErrors"} {
			for _, k := range []string{"unmount", "ignored", "delete_self", "move_self", "move_self_mark_gone", "overflow", "unknown_wd", "create_dir", "eof", "short"} {
				c.scenarioInjectedPending(cs, k)
			}
		}
		// kernel queue overflow pending (expensive: once per consumer kind)
		for _, cs := range []string{"neither", "onlyEvents"} {
			c.scenarioClose(0, cs, "overflow")
		}
	}
	if want("C06") {
		c.raceClose(r, "C06", thorough)
	}
	if want("C05") {
		c.raceClose(r, "C05", thorough)
	}
	if want("C13") {
		n := 300
		if thorough {
			n = 6000
		}
		c.scenarioLeak(n)
		c.scenarioNewFails()
		c.raceClose(r, "C13", thorough)
		for _, cs := range []string{"onlyEvents", "both", "onlyErrors"} {
			for _, k := range []string{"unmount", "overflow", "move_self_mark_gone", "delete_self", "eof", "short"} {
				c.scenarioInjectedPending(cs, k)
			}
		}
		// Close with an error / an overflow pending and nobody reading Errors: everything is released all the same
		// (with a consumer that reads nothing the reader is parked on the first event: the table still holds
		// the watch of the file that was renamed and deleted — a mark the kernel has dropped already)
		for _, pc := range [][2]string{{"error", "onlyEvents"}, {"overflow", "onlyEvents"}, {"error", "neither"}, {"error", "onlyErrors"}, {"events", "neither"}} {
			p, cs := pc[0], pc[1]
			fd0, g0 := inotifyFds(), fsnotifyGoroutines()
			c.scenarioClose(0, cs, p)
			if !settle(func() bool { return inotifyFds() <= fd0 && fsnotifyGoroutines() <= g0 }) {
				c.report("C13", "C13:leak-after-close-with-pending-"+p, fmt.Sprintf("Close with a pending %s (consumer %s): inotify descriptors %d -> %d, reader goroutines %d -> %d", p, cs, fd0, inotifyFds(), g0, fsnotifyGoroutines()), map[string]interface{}{})
			}
		}
	}
	if want("C07") {
		c.scenarioReAddBehindReader()
		n := 150
		if thorough {
			n = 3000
		}
		for i := 0; i < n; i++ {
			c.scenarioLinearizable(g, i)
		}
		r.emit("scenario", fmt.Sprintf("scenario linearizable histories=%d", n), "ok")
		c.raceClose(r, "C07", thorough)
		// "no deadlock under any consumer pacing": control calls and Close with a value pending on either channel and
		// a consumer that does not take it (the injected scenarios of C05, on behalf of C07)
		attribute = "C07"
		for _, cs := range []string{"neither", "onlyEvents", "onlyErrors"} {
			for _, k := range []string{"overflow", "unmount", "move_self_mark_gone", "create_dir"} {
				c.scenarioInjectedPending(cs, k)
			}
		}
		attribute = ""
	}
	if want("C14") {
		for _, nw := range []int{1, 2, 3, 5, 8} {
			c.scenarioIndependence(g, nw)
		}
		c.scenarioStaleHandle()
		c.scenarioClosedMeanwhile()
		nlag := 40
		if thorough {
			nlag = 600
		}
		for i := 0; i < nlag; i++ {
			c.scenarioLagging(g, i)
		}
		r.emit("scenario", fmt.Sprintf("scenario lagging_consumer histories=%d", nlag), "ok")
		szs := []uint{1, 2, 4, 64}
		if thorough {
			szs = []uint{1, 2, 4, 8, 16, 64, 256, 1024, 4096}
		}
		for _, sz := range szs {
			c.scenarioAbsorb(sz)
		}
	}
}

// raceClose: Add / Remove racing Close, many times (finding F6). A call that acts after Close has
// released the descriptor must say ErrClosed (Add) or nil (Remove) — C06's "from then on", C07's
// "consistent with some sequential order" — never an error from a syscall on the dead descriptor.
func (c *concCtx) raceClose(r *rec, prop string, thorough bool) {
	m := 400
	if thorough {
		m = 6000
	}
	dir, err := os.MkdirTemp("", "fsnverif-race")
	check(err)
	defer os.RemoveAll(dir)
	bad := map[string]int{}
	runtime.GC()
	fd0, g0 := inotifyFds(), fsnotifyGoroutines()
	for i := 0; i < m; i++ {
		w, err := newW()
		check(err)
		var wg sync.WaitGroup
		nrem := 1 + i%3
		rems := make([]error, nrem)
		adds := make([]error, 6-nrem)
		start := make(chan struct{})
		for a := range adds {
			wg.Add(1)
			go func(a int) {
				defer wg.Done()
				<-start
				for k := 0; k < 3 && adds[a] == nil; k++ {
					adds[a] = w.Add(dir)
				}
			}(a)
		}
		for a := range rems {
			wg.Add(1)
			go func(a int) { defer wg.Done(); <-start; rems[a] = w.Remove(dir) }(a)
		}
		wg.Add(1)
		go func() { defer wg.Done(); <-start; runtime.Gosched(); w.Close() }()
		close(start)
		if !c.within(prop, prop+":call-racing-close-blocked", "Add / Remove / Close racing each other did not all return", wg.Wait) {
			break
		}
		// every later Close returns too, and the API is inert
		if !c.within(prop, prop+":close-after-race-blocked", "Close after a Close that raced Add/Remove did not return", func() { w.Close() }) {
			break
		}
		for _, e1 := range adds {
			if e1 != nil && !errors.Is(e1, fsnotify.ErrClosed) {
				bad["add:"+errClass(e1)]++
			}
		}
		for _, e2 := range rems {
			if e2 != nil && !errors.Is(e2, fsnotify.ErrNonExistentWatch) {
				bad["remove:"+errClass(e2)]++
			}
		}
	}
	if prop == "C06" || prop == "C07" {
		for k, n := range bad {
			c.report(prop, prop+":call-racing-close:"+k, fmt.Sprintf("%d of %d calls racing Close returned %s (the syscall ran on the closed descriptor)", n, m, k), map[string]interface{}{})
		}
	}
	if prop == "C13" && !settle(func() bool { return inotifyFds() == fd0 && fsnotifyGoroutines() == g0 }) {
		c.report("C13", "C13:leak-after-race", fmt.Sprintf("after %d rounds of Add/Remove racing Close: inotify descriptors %d -> %d, reader goroutines %d -> %d", m, fd0, inotifyFds(), g0, fsnotifyGoroutines()),
			map[string]interface{}{})
	}
	r.emit("scenario", fmt.Sprintf("scenario race_close rounds=%d", m), "ok")
}
