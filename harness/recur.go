package main

import (
	"fmt"
	"io/fs"
	"os"
	"path/filepath"
	"sort"
	"strings"
	"syscall"

	"github.com/fsnotify/fsnotify"
)

// ---------------------------------------------------------------------------
// C19: recursive watches (enableRecurse), tee mode on the real kernel. Trees
// whose sibling names share string prefixes (dir1/dir10, sub/sub2, roots r/r2);
// directories are created one level at a time, each followed by a drain (the
// property quantifies over exactly that); inner renames within the tree; file
// operations at every depth; Remove of one of several roots.

type recurSess struct {
	*session
	r      *rec
	roots  map[string]bool // recursive roots currently added (absolute dir path)
	dirs   []string        // directories that exist (absolute), sorted
	expect []string        // event names the last file-system step may produce
}

// kmap: what inotify_add_watch answers for every directory of the universe right now
// (by inode identity against the kernel's own mark list).
func (s *recurSess) kmap() string {
	var ents []string
	filepath.WalkDir(s.root, func(p string, d fs.DirEntry, err error) error {
		if err != nil || !d.IsDir() {
			return nil
		}
		if wd, ok := s.wdOf(p, false); ok {
			ents = append(ents, fmt.Sprintf("%s:%d", hx(p), wd))
		}
		return nil
	})
	if len(ents) == 0 {
		return "-"
	}
	return strings.Join(ents, ",")
}

func (s *recurSess) addRec(root string) {
	arg := root + "/..."
	marks := s.marks()
	var walk []string
	notdir := false
	if fi, err := os.Stat(root); err == nil && !fi.IsDir() {
		notdir = true
	}
	filepath.WalkDir(root, func(p string, d fs.DirEntry, err error) error {
		if err == nil && d.IsDir() {
			walk = append(walk, hx(p))
		}
		return nil
	})
	ret := safeCall(func() error { return s.w.AddWith(arg) })
	ws := strings.Join(walk, ",")
	if ws == "" {
		ws = "-"
	}
	if notdir {
		ws = "notdir"
	}
	if ret != "nil" && !notdir {
		ret = "other"
	}
	s.r.emit("addrec", fmt.Sprintf("addrec %s 1f walk=%s kmap=%s marks=%s", hx(arg), ws, s.kmap(), marks),
		fmtOut(ret, nil, nil)+" | "+stateStr(s.w))
	if ret == "nil" {
		s.roots[root] = true
	}
}

func (s *recurSess) removeRec(root string) {
	arg := root + "/..."
	marks := s.marks()
	ret := safeCall(func() error { return s.w.Remove(arg) })
	s.r.emit("remove", fmt.Sprintf("remove %s marks=%s", hx(arg), marks), fmtOut(ret, nil, nil)+" | "+stateStr(s.w))
	if ret == "nil" {
		delete(s.roots, root)
	}
}

// pumpRec drains the kernel queue into the reader (kernel answers for registrations supplied) and
// checks the property's own statement on what came out: every event is named by a true current (or
// just vacated) path of the step, and a step inside a covered tree is reported at all.
func (s *recurSess) pumpRec(step string, names []string, inside, mustReport bool) bool {
	buf := make([]byte, 65536)
	before := s.evSeen
	for {
		n, err := readNonblock(s.realFd, buf)
		if n <= 0 || err != nil {
			break
		}
		marks := s.marks()
		chunk := append([]byte(nil), buf[:n]...)
		evs, errs, ok := s.inject(chunk, watchdog)
		ans := fmtOut("nil", evs, errs) + " | " + stateStr(s.w)
		if !ok {
			ans += " | BARRIER-TIMEOUT"
		}
		s.r.emit("raw", fmt.Sprintf("raw %x kmap=%s marks=%s", chunk, s.kmap(), marks), ans)
		if !ok {
			return false
		}
		for _, e := range errs {
			s.report("C19", "C19:error", "a value was delivered on Errors during a benign history: "+errClass(e), map[string]interface{}{"step": step})
		}
	}
	s.obs.mu.Lock()
	var got []string
	for _, e := range s.obs.events[before:s.evSeen] {
		if !strings.HasPrefix(e.Name, s.sentinel) {
			got = append(got, e.Name)
		}
	}
	s.obs.mu.Unlock()
	allowed := map[string]bool{}
	for _, n := range names {
		allowed[n] = true
	}
	for _, g := range got {
		if !allowed[g] {
			s.report("C19", "C19:untrue-path", fmt.Sprintf("after %q an event was reported for %q, which is not a path this step touched (true paths: %v)", step, g, names),
				map[string]interface{}{"step": step})
		}
	}
	if mustReport && len(got) == 0 {
		s.report("C19", "C19:not-covered", fmt.Sprintf("step %q happened inside a recursive watch but nothing was reported", step), map[string]interface{}{"step": step})
	}
	if !inside && len(got) > 0 {
		s.report("C19", "C19:reported-outside-tree", fmt.Sprintf("step %q happened outside every recursive watch but %v was reported", step, got), map[string]interface{}{"step": step})
	}
	return true
}

func (s *recurSess) covered(p string) bool {
	for r := range s.roots {
		if p == r || strings.HasPrefix(p, r+"/") {
			return true
		}
	}
	return false
}

func (s *recurSess) refreshDirs() {
	s.dirs = nil
	filepath.WalkDir(s.root, func(p string, d fs.DirEntry, err error) error {
		if err == nil && d.IsDir() && p != s.root && !strings.HasPrefix(p, s.sentinel) {
			s.dirs = append(s.dirs, p)
		}
		return nil
	})
	sort.Strings(s.dirs)
}

func runRecur(r *rec, g *rng, tier, what, replay, out string, extra map[string]interface{}) {
	fsnotify.VerifSetRecurse(true)
	defer fsnotify.VerifSetRecurse(false)
	nsess, steps := 30, 40
	if tier == "thorough" {
		nsess, steps = 400, 70
	}
	mon, err := os.Create(filepath.Join(out, "monitor.jsonl"))
	check(err)
	defer mon.Close()
	base := g.s
	cwd, _ := os.Getwd()
	defer os.Chdir(cwd)
	for si := 0; si < nsess; si++ {
		sg := &rng{s: base*3000017 + uint64(si)*15485863}
		root, err := os.MkdirTemp("", "fsnverif-rec")
		check(err)
		root, _ = filepath.EvalSymlinks(root)
		for _, d := range []string{".sentinel", "r/dir1/s", "r/dir10/s", "r/sub", "r/sub2/t", "r2/q", "outside"} {
			check(os.MkdirAll(filepath.Join(root, d), 0o755))
		}
		check(os.Chdir(root))
		base0 := newSession(root, []uint{0, 2, 64}[sg.intn(3)])
		base0.faithful = true
		base0.sentinel = filepath.Join(root, ".sentinel")
		s := &recurSess{session: base0, r: r, roots: map[string]bool{}}
		startSeq := r.seq
		seen := map[string]bool{}
		var hist []string
		s.report = func(prop, sig, what string, detail map[string]interface{}) {
			if seen[sig] {
				return
			}
			seen[sig] = true
			detail["session"], detail["seed"], detail["tier"], detail["first_seq"] = si, base, tier, startSeq+1
			detail["history"] = append([]string(nil), hist...)
			b, _ := jsonMarshal(map[string]interface{}{"property": prop, "signature": sig, "what": what, "detail": detail})
			mon.Write(append(b, '\n'))
		}
		hangCtx.Store("session", si)
		hangCtx.Store("seed", base)
		hangCtx.Store("tier", tier)
		r.emit("reset", fmt.Sprintf("reset recurse session=%d", si), "ok")
		s.opAdd(r, s.sentinel, 0x1f, false)
		if wd, ok := s.wdOf(s.sentinel, false); ok {
			s.sentWd = wd
		}
		s.addRec(filepath.Join(root, "r"))
		s.addRec(filepath.Join(root, "r2"))
		hist = append(hist, "Add(r/...)", "Add(r2/...)")
		names := []string{"file", "x", "x0", "dir1", "dir10", "dir100", "sub", "sub2", "s", "new"}
		alive := true
		for i := 0; i < steps && alive; i++ {
			s.refreshDirs()
			if len(s.dirs) == 0 {
				break
			}
			d := s.dirs[sg.intn(len(s.dirs))]
			var step string
			var touched []string
			switch c := sg.intn(100); {
			case c < 30: // file created / written / removed at some depth
				p := filepath.Join(d, names[sg.intn(len(names))])
				if fi, err := os.Lstat(p); err == nil && fi.IsDir() {
					continue
				}
				switch sg.intn(3) {
				case 0:
					os.WriteFile(p, []byte("x"), 0o644)
					step = "write " + p
				case 1:
					os.Chmod(p, 0o600)
					step = "chmod " + p
				default:
					os.Remove(p)
					step = "unlink " + p
				}
				touched = []string{p}
				hist = append(hist, step)
				alive = s.pumpRec(step, touched, s.covered(d), s.covered(d) && pathChanged(step, p))
			case c < 50: // one new directory level
				p := filepath.Join(d, names[sg.intn(len(names))])
				if os.Mkdir(p, 0o755) != nil {
					continue
				}
				step = "mkdir " + p
				hist = append(hist, step)
				alive = s.pumpRec(step, []string{p}, s.covered(d), s.covered(d))
			case c < 75: // rename an inner directory within its tree
				if d == filepath.Join(root, "r") || d == filepath.Join(root, "r2") || d == filepath.Join(root, "outside") {
					continue
				}
				// stay inside the same root (moves across the boundary are not quantified over)
				top := strings.SplitN(strings.TrimPrefix(d, root+"/"), "/", 2)[0]
				var cands []string
				for _, q := range s.dirs {
					if (q == filepath.Join(root, top) || strings.HasPrefix(q, filepath.Join(root, top)+"/")) && q != d && !strings.HasPrefix(q, d+"/") {
						cands = append(cands, q)
					}
				}
				if len(cands) == 0 {
					continue
				}
				dst := filepath.Join(cands[sg.intn(len(cands))], names[sg.intn(len(names))])
				if sg.chance(30) { // onto an existing (empty) directory of the tree: rename(2) replaces it
					dst = cands[sg.intn(len(cands))]
					if strings.HasPrefix(d, dst+"/") || dst == filepath.Join(root, top) {
						continue
					}
					if ents, err := os.ReadDir(dst); err != nil || len(ents) != 0 {
						continue
					}
					if syscall.Rename(d, dst) != nil {
						continue
					}
					step = "rename-onto " + d + " " + dst
					hist = append(hist, step)
					alive = s.pumpRec(step, []string{d, dst}, s.covered(filepath.Dir(d)), s.covered(filepath.Dir(d)))
					continue
				}
				if _, err := os.Lstat(dst); err == nil {
					continue
				}
				if os.Rename(d, dst) != nil {
					continue
				}
				step = "rename " + d + " " + dst
				hist = append(hist, step)
				alive = s.pumpRec(step, []string{d, dst}, s.covered(filepath.Dir(d)), s.covered(filepath.Dir(d)))
			case c < 80: // remove an (empty) directory
				if os.Remove(d) != nil {
					continue
				}
				step = "rmdir " + d
				hist = append(hist, step)
				alive = s.pumpRec(step, []string{d}, s.covered(filepath.Dir(d)) || s.roots[d], s.covered(filepath.Dir(d)) || s.roots[d])
			case c < 86: // remove one recursive root; the other must stay intact
				for _, rt := range []string{"r", "r2"} {
					p := filepath.Join(root, rt)
					if s.roots[p] && sg.chance(50) {
						s.removeRec(p)
						hist = append(hist, "Remove("+rt+"/...)")
						break
					}
				}
			case c < 90: // re-add a root
				for _, rt := range []string{"r", "r2"} {
					p := filepath.Join(root, rt)
					if !s.roots[p] {
						if _, err := os.Stat(p); err == nil {
							s.addRec(p)
							hist = append(hist, "Add("+rt+"/...)")
						}
						break
					}
				}
			default:
				s.opWatchList(r)
			}
		}
		s.close()
		os.Chdir(cwd)
		os.RemoveAll(root)
	}
	extra["sessions"] = nsess
}

// pathChanged: did the step do anything the kernel reports (unlink / chmod of a missing file do not)?
func pathChanged(step, p string) bool {
	if strings.HasPrefix(step, "write ") {
		return true
	}
	_, err := os.Lstat(p)
	if strings.HasPrefix(step, "chmod ") {
		return err == nil
	}
	return false // unlink: cannot tell afterwards whether it existed; do not demand a report
}
