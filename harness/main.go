// fsnharness: tie D. Drives the real fsnotify code (built from /repo's working
// tree with -tags verif) in-process, writes one operation per line for the
// Lean driver (ops file) and the implementation's canonicalised answer for the
// same line (impl file). bin/check pipes the ops file through the compiled
// Lean model and diffs the two answer streams.
package main

import (
	"bufio"
	"encoding/hex"
	"encoding/json"
	"flag"
	"fmt"
	"os"
	"runtime"
	"sort"
	"strconv"
	"strings"
	"sync"
	"sync/atomic"
	"time"
)

type rec struct {
	ops, impl *bufio.Writer
	seq       int
	kinds     map[string]int // distribution of op kinds (evidence)
	notes     map[string]int // other counters (evidence)
	samples   []string
	distinct  map[string]struct{} // distinct (kind, answer) pairs: the non-triviality measure
}

func newRec(dir string) *rec {
	of, err := os.Create(dir + "/ops.txt")
	check(err)
	inf, err := os.Create(dir + "/impl.txt")
	check(err)
	return &rec{ops: bufio.NewWriterSize(of, 1<<20), impl: bufio.NewWriterSize(inf, 1<<20), kinds: map[string]int{}, notes: map[string]int{}, distinct: map[string]struct{}{}}
}

// emit records one op line and the implementation's answer.
func (r *rec) emit(kind, op, answer string) {
	beat()
	r.seq++
	fmt.Fprintf(r.ops, "%d %s\n", r.seq, op)
	fmt.Fprintf(r.impl, "%d %s\n", r.seq, answer)
	r.kinds[kind]++
	if kind == "scenario" {
		r.distinct[op] = struct{}{} // scenarios differ by their parameters, not by their answer
	} else {
		r.distinct[kind+"\x00"+answer] = struct{}{}
	}
	if len(r.samples) < 12 && r.kinds[kind] <= 2 {
		s := op
		if len(s) > 160 {
			s = s[:160] + "…"
		}
		r.samples = append(r.samples, s)
	}
}

func (r *rec) finish(dir string, extra map[string]interface{}) {
	check(r.ops.Flush())
	check(r.impl.Flush())
	st := map[string]interface{}{"ops": r.seq, "kinds": r.kinds, "notes": r.notes, "samples": r.samples, "distinct_nontrivial": len(r.distinct)}
	for k, v := range extra {
		st[k] = v
	}
	b, _ := json.MarshalIndent(st, "", " ")
	check(os.WriteFile(dir+"/stats.json", b, 0o644))
}

var cleanups []func()

// ---- hang detector: a library call that never returns must not hang the check ----------------
var (
	lastBeat atomic.Int64
	hangCtx  sync.Map // session, seed, tier: where the harness is (for the replay)
)

func beat() { lastBeat.Store(time.Now().UnixNano()) }

func watchHang(r *rec, out string, extra map[string]interface{}, limit time.Duration) {
	beat()
	for {
		time.Sleep(time.Second)
		if time.Since(time.Unix(0, lastBeat.Load())) < limit {
			continue
		}
		buf := make([]byte, 1<<20)
		buf = buf[:runtime.Stack(buf, true)]
		if inKernel(string(buf)) && time.Since(time.Unix(0, lastBeat.Load())) < 4*limit {
			continue // waiting for the kernel (close of an inotify instance on a loaded machine), not for the library
		}
		ctx := map[string]interface{}{"last_seq": r.seq, "goroutines": string(buf), "idle_seconds": limit.Seconds()}
		hangCtx.Range(func(k, v interface{}) bool { ctx[k.(string)] = v; return true })
		b, _ := json.MarshalIndent(ctx, "", " ")
		os.WriteFile(out+"/hang.json", b, 0o644)
		r.finish(out, extra) // the main goroutine is parked inside the library: nobody else writes
		fmt.Fprintln(os.Stderr, "harness: no progress for", limit, "- a library call did not return; see hang.json")
		os.Exit(4)
	}
}

func jsonMarshal(v interface{}) ([]byte, error) { return json.Marshal(v) }

func check(err error) {
	if err != nil {
		fmt.Fprintln(os.Stderr, "harness:", err)
		os.Exit(2)
	}
}

func hx(s string) string {
	if s == "" {
		return "-"
	}
	return hex.EncodeToString([]byte(s))
}

// splitmix64 PRNG: every random choice derives from VERIF_SEED.
type rng struct{ s uint64 }

func (r *rng) next() uint64 {
	r.s += 0x9e3779b97f4a7c15
	z := r.s
	z = (z ^ (z >> 30)) * 0xbf58476d1ce4e5b9
	z = (z ^ (z >> 27)) * 0x94d049bb133111eb
	return z ^ (z >> 31)
}
func (r *rng) intn(n int) int      { return int(r.next() % uint64(n)) }
func (r *rng) u32() uint32         { return uint32(r.next()) }
func (r *rng) chance(pct int) bool { return r.intn(100) < pct }

func seedFromEnv() uint64 {
	s, err := strconv.ParseUint(os.Getenv("VERIF_SEED"), 10, 64)
	if err != nil {
		return 1
	}
	return s
}

func sortedKeys(m map[string]int) []string {
	var ks []string
	for k := range m {
		ks = append(ks, k)
	}
	sort.Strings(ks)
	return ks
}

func main() {
	if len(os.Args) < 2 {
		fmt.Fprintln(os.Stderr, "usage: fsnharness <pure|inject|...> -out DIR [-tier quick|thorough]")
		os.Exit(2)
	}
	cmd := os.Args[1]
	fs := flag.NewFlagSet(cmd, flag.ExitOnError)
	out := fs.String("out", "", "output directory")
	tier := fs.String("tier", "quick", "quick|thorough")
	what := fs.String("what", "", "sub-selection (property id)")
	replay := fs.String("replay", "", "replay file")
	fs.Parse(os.Args[2:])
	if *out == "" {
		fmt.Fprintln(os.Stderr, "need -out")
		os.Exit(2)
	}
	check(os.MkdirAll(*out, 0o755))
	go func() { // a library goroutine that floods a channel must not take the machine down with us
		var ms runtime.MemStats
		for {
			time.Sleep(time.Second)
			runtime.ReadMemStats(&ms)
			if ms.HeapAlloc > 6<<30 {
				fmt.Fprintln(os.Stderr, "harness: heap above 6 GiB, giving up (runaway producer in the library?)")
				os.Exit(3)
			}
		}
	}()
	r := newRec(*out)
	g := &rng{s: seedFromEnv()}
	extra := map[string]interface{}{"seed": seedFromEnv(), "tier": *tier}
	go watchHang(r, *out, extra, 90*time.Second)
	switch cmd {
	case "pure":
		if *replay != "" {
			b, err := os.ReadFile(*replay)
			check(err)
			replayPure(r, strings.Split(string(b), "\n"))
		} else {
			runPure(r, g, *tier, *what)
		}
	case "inject":
		runInject(r, g, *tier, *what, *replay, *out, extra)
	case "live":
		runLive(r, g, *tier, *what, *replay, *out, extra)
	case "recur":
		runRecur(r, g, *tier, *what, *replay, *out, extra)
	case "conc":
		runConc(r, g, *tier, *what, *out, extra)
	default:
		fmt.Fprintln(os.Stderr, "unknown command", cmd)
		os.Exit(2)
	}
	r.finish(*out, extra)
	for _, c := range cleanups {
		c()
	}
}
