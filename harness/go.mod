module fsnharness

go 1.23

require (
	github.com/fsnotify/fsnotify v0.0.0
	github.com/anishathalye/porcupine v1.3.0
	golang.org/x/sys v0.13.0
)

replace github.com/fsnotify/fsnotify => /repo
