package main

import (
	"encoding/json"
	"fmt"
	"os"
	"path/filepath"
	"sort"
	"strings"

	"github.com/fsnotify/fsnotify"
	"golang.org/x/sys/unix"
)

// ---------------------------------------------------------------------------
// Tee mode: real kernel, recorded stream. The Watcher is built as in injected
// mode, but the datagrams handed to the unmodified readEvents are the bytes the
// harness itself reads from the real inotify descriptor after real filesystem
// operations. The kernel queues a notification during the system call that
// causes it, so a non-blocking drain after each step sees everything; when the
// drain happens (after one step or after several) decides how far the reader
// lags behind the file system.

func readNonblock(fd int, buf []byte) (int, error) { return unix.Read(fd, buf) }

// pump forwards everything the kernel has queued, one read() = one datagram.
func (s *session) pump(r *rec) bool {
	buf := make([]byte, 65536)
	for {
		n, err := unix.Read(s.realFd, buf)
		if n <= 0 || err != nil {
			return true
		}
		s.k2check(buf[:n])
		if !s.opRaw(r, append([]byte(nil), buf[:n]...)) {
			return false
		}
	}
}

// k2check: kernel contract monitors on the recorded stream (K2, K4): records are whole, names
// NUL-terminated and padded to a multiple of 16, the overflow marker has wd -1.
func (s *session) k2check(b []byte) {
	for off := 0; off < len(b); {
		if off+16 > len(b) {
			s.report("K", "K2:partial-header", "kernel delivered a partial header", map[string]interface{}{})
			return
		}
		wd := int32(uint32(b[off]) | uint32(b[off+1])<<8 | uint32(b[off+2])<<16 | uint32(b[off+3])<<24)
		mask := uint32(b[off+4]) | uint32(b[off+5])<<8 | uint32(b[off+6])<<16 | uint32(b[off+7])<<24
		l := int(uint32(b[off+12]) | uint32(b[off+13])<<8 | uint32(b[off+14])<<16 | uint32(b[off+15])<<24)
		if off+16+l > len(b) {
			s.report("K", "K2:partial-record", "kernel delivered a partial record", map[string]interface{}{})
			return
		}
		if l%16 != 0 || (l > 0 && b[off+16+l-1] != 0) {
			s.report("K", "K2:padding", "name field not NUL-terminated / not padded to 16", map[string]interface{}{"len": l})
		}
		if mask&inQOverflow != 0 && wd != -1 {
			s.report("K", "K4:overflow-wd", "overflow marker with wd != -1", map[string]interface{}{})
		}
		off += 16 + l
	}
}

// quiescent: C12 in both directions (valid because the stream is the kernel's own): the kernel's
// marks are exactly the wd-table keys, and WatchList is exactly the path table.
func (s *session) quiescent(op string) {
	snap := fsnotify.VerifTables(s.w)
	keys := map[uint32]bool{}
	for _, we := range snap.Wd {
		keys[we.Key] = true
	}
	marks := map[uint32]bool{}
	for _, m := range readFdinfo(s.realFd) {
		marks[m.wd] = true
		if !keys[m.wd] {
			s.report("C12", "C12:orphan-kernel-mark", fmt.Sprintf("quiescent: kernel mark wd=%d (ino %x) has no table entry", m.wd, m.ino), map[string]interface{}{"op": op})
		}
	}
	for k := range keys {
		if !marks[k] {
			s.report("C12", "C12:entry-without-kernel-mark", fmt.Sprintf("quiescent: table entry wd=%d has no kernel mark", k), map[string]interface{}{"op": op})
		}
	}
	wl := s.w.WatchList()
	sort.Strings(wl)
	var pl []string
	for _, pe := range snap.Path {
		pl = append(pl, pe.Path)
	}
	sort.Strings(pl)
	if strings.Join(wl, "\x00") != strings.Join(pl, "\x00") {
		s.report("C04", "C04:watchlist-vs-table", "WatchList differs from the path table", map[string]interface{}{"op": op})
	}
	if len(snap.Path) != len(snap.Wd) {
		s.report("C12", "C12:table-size-mismatch", fmt.Sprintf("quiescent: path table %d entries, wd table %d", len(snap.Path), len(snap.Wd)), map[string]interface{}{"op": op})
	}
}

// expectListed: C04's own statement tracked by the harness (independent of the model): paths that
// were added successfully, name the same inode as then, were not removed, and were not touched by
// any file-system step since — these must be in WatchList at every quiescent point.
type expectation struct {
	ino uint64
}

var expectListed map[string]expectation

func inoOf(p string) (uint64, bool) {
	var st unix.Stat_t
	if unix.Stat(p, &st) != nil {
		return 0, false
	}
	return st.Ino, true
}

func expectAfterAdd(s *session, arg, ret string) {
	if ret != "nil" {
		return
	}
	p := filepath.Clean(arg)
	ino, ok := inoOf(p)
	if !ok {
		return
	}
	listed := false
	for _, q := range s.w.WatchList() {
		if q == p {
			listed = true
		}
	}
	if !listed {
		return // an alias of something already listed under another name: the first spelling stays
	}
	expectListed[p] = expectation{ino: ino}
	// file-system steps whose notifications the reader has not handled yet (the session pumps only every
	// `lag` steps) may still end this watch — a hard link of the file renamed before this re-Add raises
	// IN_MOVE_SELF on the same wd (finding F9) — so they invalidate the new expectation as well
	for _, pf := range pendingFS {
		expectAfterFS(pf.desc, pf.touched)
	}
}

// file-system steps since the last quiescent point
var pendingFS []struct {
	desc    string
	touched map[uint64]bool
}

// invalidate every expectation a file-system step may have affected (conservative: by name)
func expectAfterFS(desc string, touched map[uint64]bool) {
	for p, e := range expectListed {
		if touched[e.ino] {
			delete(expectListed, p) // the step named this inode (possibly through another hard link)
		}
	}
	for p := range expectListed {
		abs := p
		if !filepath.IsAbs(abs) {
			cwd, _ := os.Getwd()
			abs = filepath.Join(cwd, p)
		}
		real, err := filepath.EvalSymlinks(abs)
		if err != nil {
			delete(expectListed, p)
			continue
		}
		for _, tok := range strings.Fields(desc)[1:] {
			if tok == abs || tok == real || strings.HasPrefix(abs, tok+"/") || strings.HasPrefix(real, tok+"/") {
				delete(expectListed, p)
			}
		}
	}
	// hard links / renames can also reach the inode under another name: drop expectations whose inode changed
	for p, e := range expectListed {
		if ino, ok := inoOf(p); !ok || ino != e.ino {
			delete(expectListed, p)
		}
	}
}

func (s *session) checkExpectations(op string) {
	wl := map[string]bool{}
	for _, p := range s.w.WatchList() {
		wl[p] = true
	}
	for p, e := range expectListed {
		if ino, ok := inoOf(p); ok && ino == e.ino && !wl[p] {
			s.report("C04", "C04:watched-path-not-listed", fmt.Sprintf("path %q was added, still names the same file, was not removed, renamed or deleted — but WatchList does not show it", p),
				map[string]interface{}{"op": op})
		}
	}
}

type liveFS struct {
	u       *universe
	open    map[string]*os.File // descriptors held open (unlink-while-open)
	n       int
	touched map[uint64]bool // inodes named (before the step) by any argument of the steps so far
}

func (f *liveFS) touch(paths ...string) {
	for _, p := range paths {
		var st unix.Stat_t
		if unix.Lstat(p, &st) == nil {
			f.touched[st.Ino] = true
		}
		if unix.Stat(p, &st) == nil {
			f.touched[st.Ino] = true
		}
	}
}

// fsStep performs one random file-system operation inside the universe; returns a description.
func (f *liveFS) fsStep(g *rng) string {
	f.touched = map[uint64]bool{}
	root := f.u.root
	dirs := []string{"d0", "d1", "d0/sub", "dir1", "dir10", "."}
	names := []string{"x", "y", "z", "new", "n15-----------x", "n16------------x", "with space", "ünï", ".dot"}
	pick := func() string {
		p := filepath.Join(root, dirs[g.intn(len(dirs))], names[g.intn(len(names))])
		f.touch(p)
		return p
	}
	top := []string{"f0", "f1", "h0", "d0", "d1", "dir1", "dir10", "d0/sub", "d0/x", "d0/y", "d1/z"}
	pickTop := func() string {
		p := filepath.Join(root, top[g.intn(len(top))])
		f.touch(p)
		return p
	}
	f.n++
	switch g.intn(18) {
	case 0:
		p := pick()
		os.WriteFile(p, []byte("data"), 0o644)
		return "create " + p
	case 1:
		p := pickTop()
		if fh, err := os.OpenFile(p, os.O_WRONLY|os.O_APPEND, 0); err == nil {
			fh.Write([]byte("more"))
			fh.Close()
		}
		return "write " + p
	case 2:
		p := pickTop()
		os.Truncate(p, 0)
		return "truncate " + p
	case 3:
		p := pickTop()
		os.Chmod(p, 0o600+os.FileMode(g.intn(2))*0o44)
		return "chmod " + p
	case 4:
		p := pickTop()
		os.Remove(p)
		return "unlink " + p
	case 5:
		p := pick()
		os.Remove(p)
		return "unlink " + p
	case 6:
		p := pick()
		os.Mkdir(p, 0o755)
		return "mkdir " + p
	case 7:
		a, b := pickTop(), pick()
		os.Rename(a, b)
		return "rename " + a + " " + b
	case 8:
		a, b := pick(), pick()
		os.Rename(a, b)
		return "rename " + a + " " + b
	case 9:
		a, b := pick(), pickTop()
		os.Rename(a, b) // onto an existing (possibly watched) entry
		return "rename-onto " + a + " " + b
	case 10:
		a, b := pickTop(), pick()
		os.Link(a, b)
		return "link " + a + " " + b
	case 11:
		a, b := pickTop(), pick()
		os.Symlink(a, b)
		return "symlink " + a + " " + b
	case 12: // unlink while open
		p := pickTop()
		if fh, err := os.Open(p); err == nil {
			if fi, _ := fh.Stat(); fi != nil && fi.Mode().IsRegular() {
				f.open[p+fmt.Sprint(f.n)] = fh
				os.Remove(p)
				return "unlink-while-open " + p
			}
			fh.Close()
		}
		return "noop"
	case 13: // close a held descriptor
		for k, fh := range f.open {
			fh.Close()
			delete(f.open, k)
			return "close-held " + k
		}
		return "noop"
	case 14: // recreate a top-level file / dir
		p := pickTop()
		if strings.Contains(filepath.Base(p), "d") && !strings.Contains(filepath.Base(p), "f") {
			os.Mkdir(p, 0o755)
		} else {
			os.WriteFile(p, []byte("again"), 0o644)
		}
		return "recreate " + p
	case 15:
		p := filepath.Join(root, []string{"d0", "d1", "dir1", "d0/sub"}[g.intn(4)])
		filepath.Walk(p, func(q string, _ os.FileInfo, _ error) error { f.touch(q); return nil })
		os.RemoveAll(p)
		return "rm-r " + p
	default: // retarget a symlink
		if g.chance(50) {
			l := filepath.Join(root, "l0")
			f.touch(l)
			os.Remove(l)
			os.Symlink([]string{"d0", "d1", "dir1"}[g.intn(3)], l)
			return "retarget " + l
		}
		l := filepath.Join(root, "lf")
		f.touch(l)
		os.Remove(l)
		os.Symlink(filepath.Join(root, []string{"f0", "f1", "d1/z"}[g.intn(3)]), l)
		return "retarget " + l
	}
}

func runLive(r *rec, g *rng, tier, what, replay, out string, extra map[string]interface{}) {
	nsess, steps := 40, 50
	if tier == "thorough" {
		nsess, steps = 500, 90
	}
	only := -1
	base := g.s
	if replay != "" {
		var rp struct {
			Detail struct {
				Session int    `json:"session"`
				Seed    uint64 `json:"seed"`
				Tier    string `json:"tier"`
			} `json:"detail"`
		}
		b, err := os.ReadFile(replay)
		check(err)
		check(json.Unmarshal(b, &rp))
		only, base = rp.Detail.Session, rp.Detail.Seed
		if rp.Detail.Tier == "thorough" {
			nsess, steps = 500, 90
		}
	}
	mon, err := os.Create(filepath.Join(out, "monitor.jsonl"))
	check(err)
	defer mon.Close()
	cwd, _ := os.Getwd()
	defer os.Chdir(cwd)
	for si := 0; si < nsess; si++ {
		if only >= 0 && si != only {
			continue
		}
		sg := &rng{s: base*2000003 + uint64(si)*104729}
		root, err := os.MkdirTemp("", "fsnverif-live")
		check(err)
		root, _ = filepath.EvalSymlinks(root)
		u := mkUniverse(root)
		check(os.Chdir(root))
		s := newSession(root, []uint{0, 1, 64}[sg.intn(3)])
		s.pace = []int{0, 0, 1, 2}[sg.intn(4)]
		s.paceState = sg.s
		s.faithful = true
		s.sentinel = filepath.Join(root, ".sentinel")
		startSeq := r.seq
		seen := map[string]bool{}
		var fslog []string
		s.report = func(prop, sig, what string, detail map[string]interface{}) {
			if seen[sig] {
				return
			}
			seen[sig] = true
			detail["session"], detail["seed"], detail["tier"], detail["first_seq"] = si, base, tier, startSeq+1
			detail["fs_history"] = append([]string(nil), fslog...)
			b, _ := json.Marshal(map[string]interface{}{"property": prop, "signature": sig, "what": what, "detail": detail})
			mon.Write(append(b, '\n'))
		}
		expectListed = map[string]expectation{}
		pendingFS = nil
		hangCtx.Store("session", si)
		hangCtx.Store("seed", base)
		hangCtx.Store("tier", tier)
		r.emit("reset", fmt.Sprintf("reset session=%d live", si), "ok")
		s.opAdd(r, s.sentinel, 0x1f, false)
		if wd, ok := s.wdOf(s.sentinel, false); ok {
			s.sentWd = wd
		} else {
			check(fmt.Errorf("sentinel watch failed"))
		}
		if si == 0 && only <= 0 { // corpus: finding F5 (parent added after the unlink-while-open)
			liveScriptF5(r, s, u)
			s.close()
			os.Chdir(cwd)
			os.RemoveAll(root)
			continue
		}
		if si == 1 && only <= 1 { // corpus: a listed symlink re-pointed and re-added keeps being watched
			liveScriptRepoint(r, s, u)
			s.close()
			os.Chdir(cwd)
			os.RemoveAll(root)
			continue
		}
		if si == 2 && only <= 2 { // corpus: finding F9 (another hard link of a watched file is renamed)
			liveScriptHardlinkRename(r, s, u)
			s.close()
			os.Chdir(cwd)
			os.RemoveAll(root)
			continue
		}
		if si == 3 && only <= 3 { // corpus: file and parent watched; unlink while open; the name is used again; close
			liveScriptOpenUnlinkRecreate(r, s, u)
			s.close()
			os.Chdir(cwd)
			os.RemoveAll(root)
			continue
		}
		fs := &liveFS{u: u, open: map[string]*os.File{}}
		lag := 1 + sg.intn(4) // how many steps may pass before the reader sees the stream
		alive := true
		for i := 0; i < steps && alive; i++ {
			switch c := sg.intn(100); {
			case c < 20:
				rel := u.paths[sg.intn(len(u.paths))]
				arg := u.spell(sg, rel)
				s.opAdd(r, arg, 0x1f, false)
				expectAfterAdd(s, arg, s.lastRet)
			case c < 24:
				s.opAdd(r, u.badPath(sg), 0x1f, false)
			case c < 32:
				l := s.w.WatchList()
				sort.Strings(l)
				if len(l) > 1 && sg.chance(70) {
					if p := l[sg.intn(len(l))]; p != s.sentinel {
						s.opRemove(r, p)
						delete(expectListed, filepath.Clean(p))
						break
					}
				}
				arg := u.spell(sg, u.paths[sg.intn(len(u.paths))])
				s.opRemove(r, arg)
				delete(expectListed, filepath.Clean(arg))
			case c < 36:
				s.opWatchList(r)
			default:
				d := fs.fsStep(sg)
				fslog = append(fslog, d)
				expectAfterFS(d, fs.touched)
				pendingFS = append(pendingFS, struct {
					desc    string
					touched map[uint64]bool
				}{d, fs.touched})
				r.notes["fs:"+strings.SplitN(d, " ", 2)[0]]++
			}
			if i%lag == 0 {
				alive = s.pump(r)
				pendingFS = nil
				if alive {
					s.quiescent(fmt.Sprintf("step %d", i))
					s.checkExpectations(fmt.Sprintf("step %d", i))
				}
			}
		}
		if alive {
			for _, fh := range fs.open {
				fh.Close()
			}
			if s.pump(r) {
				s.quiescent("end")
				s.opWatchList(r)
			}
		}
		s.close()
		os.Chdir(cwd)
		os.RemoveAll(root)
	}
	extra["sessions"] = nsess
}

// liveScriptF5: watch d0/x; open it; unlink it (Chmod); Add(d0); close the descriptor. The kernel
// then raises IN_DELETE_SELF for d0/x only (the parent saw IN_DELETE before it was watched), so the
// Remove of d0/x must be reported by the file's own watch.
func liveScriptF5(r *rec, s *session, u *universe) {
	f := filepath.Join(u.root, "d0", "x")
	s.opAdd(r, f, 0x1f, false)
	fh, err := os.Open(f)
	check(err)
	os.Remove(f)
	s.pump(r)
	s.opAdd(r, filepath.Join(u.root, "d0"), 0x1f, false)
	before := s.evSeen
	fh.Close()
	s.pump(r)
	s.obs.mu.Lock()
	removed := false
	for _, e := range s.obs.events[before:] {
		if e.Name == f && e.Has(fsnotify.Remove) {
			removed = true
		}
	}
	s.obs.mu.Unlock()
	if !removed {
		s.report("C09", "C09:delete-self-suppressed-by-late-parent",
			"watched file unlinked while open, parent directory added afterwards, descriptor closed: no Remove is ever reported for the file",
			map[string]interface{}{"history": []string{"Add(d0/x)", "open d0/x", "unlink d0/x", "Add(d0)", "close fd"}})
	}
	s.quiescent("F5 script")
}

// liveScriptOpenUnlinkRecreate: d0 and d0/x are both watched; x is unlinked while a descriptor is
// open (the kernel reports DELETE for the directory entry now and DELETE_SELF only at the last
// close); the name is used again in between. The Remove of the old file must come before the Create of
// the new one (C03), once (C02), and the new file is not watched through the old watch (C09).
func liveScriptOpenUnlinkRecreate(r *rec, s *session, u *universe) {
	d := filepath.Join(u.root, "d0")
	f := filepath.Join(d, "x")
	s.opAdd(r, d, 0x1f, false)
	s.opAdd(r, f, 0x1f, false)
	fh, err := os.Open(f)
	check(err)
	os.Remove(f)
	s.pump(r)
	check(os.WriteFile(f, []byte("new"), 0o644))
	s.pump(r)
	fh.Close()
	s.pump(r)
	os.WriteFile(f, []byte("again"), 0o644)
	s.pump(r)
	s.quiescent("open-unlink-recreate script")
}

// liveScriptRepoint: Add(lf -> f0); retarget lf -> f1; Add(lf); drain. lf must stay listed and a
// write to f1 must be reported under the name lf.
func liveScriptRepoint(r *rec, s *session, u *universe) {
	lf := filepath.Join(u.root, "lf")
	s.opAdd(r, lf, 0x1f, false)
	os.Remove(lf)
	os.Symlink(filepath.Join(u.root, "f1"), lf)
	s.opAdd(r, lf, 0x1f, false)
	s.pump(r)
	s.quiescent("repoint")
	listed := false
	for _, p := range s.w.WatchList() {
		if p == lf {
			listed = true
		}
	}
	if !listed {
		s.report("C04", "C04:watched-path-not-listed", "listed symlink re-pointed to another file and re-added: the path vanished from WatchList",
			map[string]interface{}{"history": []string{"Add(lf->f0)", "retarget lf->f1", "Add(lf)", "drain"}})
	}
	before := s.evSeen
	os.WriteFile(filepath.Join(u.root, "f1"), []byte("changed"), 0o644)
	s.pump(r)
	s.obs.mu.Lock()
	got := false
	for _, e := range s.obs.events[before:] {
		if e.Name == lf && e.Has(fsnotify.Write) {
			got = true
		}
	}
	s.obs.mu.Unlock()
	if !got {
		s.report("C01", "C01:write-to-repointed-file-lost", "write to the file a re-pointed, re-added symlink names was not reported",
			map[string]interface{}{"history": []string{"Add(lf->f0)", "retarget lf->f1", "Add(lf)", "write f1"}})
	}
	s.opWatchList(r)
}

// liveScriptHardlinkRename: f0 and h0 are two names of one inode; f0 is watched; h0 is renamed.
// Nothing happened to f0: no event may be reported for it and it must stay listed.
func liveScriptHardlinkRename(r *rec, s *session, u *universe) {
	f0, h0 := filepath.Join(u.root, "f0"), filepath.Join(u.root, "h0")
	s.opAdd(r, f0, 0x1f, false)
	before := s.evSeen
	os.Rename(h0, h0+".renamed")
	s.pump(r)
	s.obs.mu.Lock()
	var phantom []string
	for _, e := range s.obs.events[before:] {
		if e.Name == f0 {
			phantom = append(phantom, e.String())
		}
	}
	s.obs.mu.Unlock()
	if len(phantom) > 0 {
		s.report("C02", "C02:hardlink-rename-reported-for-watched-path", "another hard link of the watched file was renamed; the untouched watched path got: "+strings.Join(phantom, "; "),
			map[string]interface{}{"history": []string{"f0, h0: two links of one inode", "Add(f0)", "rename h0 h0.renamed"}})
	}
	listed := false
	for _, p := range s.w.WatchList() {
		if p == f0 {
			listed = true
		}
	}
	if !listed {
		s.report("C04", "C04:hardlink-rename-ends-watch", "another hard link of the watched file was renamed; the watch on the untouched path f0 ended (WatchList no longer shows it)",
			map[string]interface{}{"history": []string{"f0, h0: two links of one inode", "Add(f0)", "rename h0 h0.renamed"}})
	}
	s.quiescent("F9 script")
}
