package main

import (
	"encoding/binary"
	"encoding/hex"
	"encoding/json"
	"errors"
	"fmt"
	"os"
	"path/filepath"
	"runtime/debug"
	"sort"
	"strings"
	"sync"
	"sync/atomic"
	"syscall"
	"time"

	"github.com/fsnotify/fsnotify"
	"golang.org/x/sys/unix"
)

// ---------------------------------------------------------------------------
// Injected mode: the unmodified readEvents goroutine decodes byte buffers that
// the harness writes to a SOCK_SEQPACKET socket (one datagram = one read);
// inotify_add_watch / inotify_rm_watch go to a real inotify instance.

const (
	inAccess     = 0x1
	inModify     = 0x2
	inAttrib     = 0x4
	inCloseWrite = 0x8
	inCloseNoWr  = 0x10
	inOpen       = 0x20
	inMovedFrom  = 0x40
	inMovedTo    = 0x80
	inCreate     = 0x100
	inDelete     = 0x200
	inDeleteSelf = 0x400
	inMoveSelf   = 0x800
	inUnmount    = 0x2000
	inQOverflow  = 0x4000
	inIgnored    = 0x8000
	inIsdir      = 0x40000000
)

type rawRec struct {
	wd     uint32
	mask   uint32
	cookie uint32
	name   []byte // already padded: exactly what goes on the wire
}

func (r rawRec) bytes() []byte {
	b := make([]byte, 16+len(r.name))
	binary.LittleEndian.PutUint32(b[0:], r.wd)
	binary.LittleEndian.PutUint32(b[4:], r.mask)
	binary.LittleEndian.PutUint32(b[8:], r.cookie)
	binary.LittleEndian.PutUint32(b[12:], uint32(len(r.name)))
	copy(b[16:], r.name)
	return b
}

// kernelPad pads like the kernel: roundup(len+1, 16) NUL-padded, or nothing for an empty name.
func kernelPad(name string) []byte {
	if name == "" {
		return nil
	}
	n := (len(name)/16 + 1) * 16
	b := make([]byte, n)
	copy(b, name)
	return b
}

// floodCap: how many values on Errors one session may produce before the harness stops recording
const floodCap = 4096

type observed struct {
	flood  bool
	mu     sync.Mutex
	events []fsnotify.Event
	errs   []error
	evDone bool
	erDone bool
}

type session struct {
	pace      int // consumer pace: 0 immediate, 1 delayed, 2 bursty
	paused    int32
	paceState uint64
	w         *fsnotify.Watcher
	maxWd     uint32 // the largest descriptor this instance has been seen to hand out (kernel-contract monitor)
	realFd    int
	injectFd  int
	obs       *observed
	root      string
	sentinel  string
	sentWd    uint32
	barrierN  int
	closed    bool
	evSeen    int // events already attributed
	erSeen    int
	report    func(prop, sig, what string, detail map[string]interface{})
	lastOps   []string // op lines of this session (for replays)
	faithful  bool     // every injected record is one the real kernel would have produced here
	lastRet   string   // return class of the last Add
}

func errClass(err error) string {
	if err == nil {
		return "nil"
	}
	switch {
	case errors.Is(err, fsnotify.ErrNonExistentWatch):
		return "ErrNonExistentWatch"
	case errors.Is(err, fsnotify.ErrClosed):
		return "ErrClosed"
	case errors.Is(err, fsnotify.ErrEventOverflow):
		return "ErrEventOverflow"
	}
	var en syscall.Errno
	if errors.As(err, &en) {
		if n := unix.ErrnoName(en); n != "" {
			return n
		}
		return fmt.Sprintf("errno%d", int(en))
	}
	return "other:" + strings.ReplaceAll(err.Error(), " ", "_")
}

func evStr(e fsnotify.Event) string {
	return fmt.Sprintf("%s:%x:%s", hx(e.Name), uint32(e.Op), hx(fsnotify.VerifRenamedFrom(e)))
}

func stateStr(w *fsnotify.Watcher) string {
	s := fsnotify.VerifTables(w)
	var ws, ps, cs []string
	for _, x := range s.Wd {
		r := 0
		if x.Recurse {
			r = 1
		}
		ws = append(ws, fmt.Sprintf("%d:%d:%x:%s:%d", x.Key, x.Wd, x.Flags, hx(x.Path), r))
	}
	// sort paths bytewise (the snapshot is sorted with Go string order, which is bytewise too)
	sort.Slice(s.Path, func(i, j int) bool { return s.Path[i].Path < s.Path[j].Path })
	for _, x := range s.Path {
		ps = append(ps, fmt.Sprintf("%s:%d", hx(x.Path), x.Wd))
	}
	for _, c := range s.Cookies {
		cs = append(cs, fmt.Sprintf("%x:%s", c.Cookie, hx(c.Path)))
	}
	return fmt.Sprintf("W %s | P %s | C %d %s", strings.Join(ws, ";"), strings.Join(ps, ";"), s.CookieIndex, strings.Join(cs, ";"))
}

func newSession(root string, bufsz uint) *session {
	w, realFd, injectFd, err := fsnotify.VerifNewInjected(bufsz)
	for i := 0; i < 600 && err != nil && (errors.Is(err, unix.EMFILE) || errors.Is(err, unix.ENFILE)); i++ {
		time.Sleep(100 * time.Millisecond) // the per-user inotify instance limit is shared with parallel checks
		beat()
		w, realFd, injectFd, err = fsnotify.VerifNewInjected(bufsz)
	}
	check(err)
	s := &session{w: w, realFd: realFd, injectFd: injectFd, obs: &observed{}, root: root}
	go func() {
		ev, er := w.Events, w.Errors
		for ev != nil || er != nil {
			// consumer pace (C03/C01 quantify over it): delayed = a short random pause before every
			// receive; bursty = nothing is received while the harness holds the gate shut
			for atomic.LoadInt32(&s.paused) != 0 {
				time.Sleep(20 * time.Microsecond)
			}
			if s.pace == 1 {
				spin(time.Duration(paceRand(&s.paceState)%40) * time.Microsecond)
			}
			select {
			case e, ok := <-ev:
				s.obs.mu.Lock()
				if !ok {
					ev = nil
					s.obs.evDone = true
				} else if len(s.obs.events) < 256*floodCap {
					s.obs.events = append(s.obs.events, e)
				} else {
					s.obs.flood = true
				}
				s.obs.mu.Unlock()
			case e, ok := <-er:
				s.obs.mu.Lock()
				if !ok {
					er = nil
					s.obs.erDone = true
				} else if len(s.obs.errs) < floodCap {
					s.obs.errs = append(s.obs.errs, e)
				} else {
					s.obs.flood = true // a reader stuck on one record must not eat the machine's memory
				}
				s.obs.mu.Unlock()
			}
		}
	}()
	return s
}

// spin waits without parking the goroutine (time.Sleep is far coarser than the reader's loop)
func spin(d time.Duration) {
	for t := time.Now(); time.Since(t) < d; {
	}
}

func paceRand(st *uint64) uint64 {
	*st = *st*6364136223846793005 + 1442695040888963407
	return *st >> 33
}

func (s *session) close() {
	if !s.closed {
		s.w.Close()
		s.closed = true
	}
	unix.Close(s.realFd)
	unix.Close(s.injectFd)
}

func (s *session) marks() string {
	var ws []string
	for _, m := range readFdinfo(s.realFd) {
		ws = append(ws, fmt.Sprintf("%d", m.wd))
	}
	if len(ws) == 0 {
		return "-"
	}
	return strings.Join(ws, ",")
}

// wdOfInode: what did inotify_add_watch answer for this path? The kernel's mark list tells.
func (s *session) wdOf(path string, noFollow bool) (uint32, bool) {
	var st unix.Stat_t
	var err error
	if noFollow {
		err = unix.Lstat(path, &st)
	} else {
		err = unix.Stat(path, &st)
	}
	if err != nil {
		return 0, false
	}
	for _, m := range readFdinfo(s.realFd) {
		if m.ino == st.Ino {
			return m.wd, true
		}
	}
	return 0, false
}

// inject writes one datagram and then a barrier datagram; returns the events and errors the
// watcher delivered for the datagram (everything that arrived before the barrier's own event).
func (s *session) inject(buf []byte, timeout time.Duration, more ...[]byte) (evs []fsnotify.Event, errs []error, ok bool) {
	if s.pace == 2 { // bursty consumer: let the reader run into a full buffer, then drain at full speed
		atomic.StoreInt32(&s.paused, 1)
		defer atomic.StoreInt32(&s.paused, 0)
		go func(d time.Duration) {
			time.Sleep(d)
			atomic.StoreInt32(&s.paused, 0)
		}(time.Duration(paceRand(&s.paceState)%300) * time.Microsecond)
	}
	if len(buf) > 0 {
		if _, err := unix.Write(s.injectFd, buf); err != nil {
			check(fmt.Errorf("inject write: %w", err))
		}
	}
	for _, b := range more { // further reads before the barrier: nothing resets the reader's state in between
		if len(b) > 0 {
			if _, err := unix.Write(s.injectFd, b); err != nil {
				check(fmt.Errorf("inject write: %w", err))
			}
		}
	}
	s.barrierN++
	bname := fmt.Sprintf("barrier%d", s.barrierN)
	b := rawRec{wd: s.sentWd, mask: inCreate, name: kernelPad(bname)}.bytes()
	if _, err := unix.Write(s.injectFd, b); err != nil {
		check(fmt.Errorf("barrier write: %w", err))
	}
	want := s.sentinel + "/" + bname
	deadline := time.Now().Add(timeout)
	for {
		s.obs.mu.Lock()
		idx := -1
		for i := s.evSeen; i < len(s.obs.events); i++ {
			if s.obs.events[i].Name == want && s.obs.events[i].Op == fsnotify.Create {
				idx = i
				break
			}
		}
		if idx >= 0 {
			evs = append(evs, s.obs.events[s.evSeen:idx]...)
			errs = append(errs, s.obs.errs[s.erSeen:]...)
			s.evSeen = idx + 1
			s.erSeen = len(s.obs.errs)
			s.obs.mu.Unlock()
			return evs, errs, true
		}
		done := s.obs.evDone || s.obs.flood
		s.obs.mu.Unlock()
		if done || time.Now().After(deadline) {
			s.obs.mu.Lock()
			evs = append(evs, s.obs.events[s.evSeen:]...)
			errs = append(errs, s.obs.errs[s.erSeen:]...)
			s.evSeen = len(s.obs.events)
			s.erSeen = len(s.obs.errs)
			s.obs.mu.Unlock()
			return evs, errs, false
		}
		time.Sleep(20 * time.Microsecond)
	}
}

func fmtOut(ret string, evs []fsnotify.Event, errs []error) string {
	var es, xs []string
	for _, e := range evs {
		es = append(es, evStr(e))
	}
	for _, e := range errs {
		xs = append(xs, errClass(e))
	}
	return fmt.Sprintf("R %s | E %s | X %s", ret, strings.Join(es, ","), strings.Join(xs, ","))
}

// safeCall runs an API call and turns a panic into the answer "PANIC".
func safeCall(f func() error) (ret string) {
	defer func() {
		if r := recover(); r != nil {
			ret = "PANIC"
			_ = debug.Stack()
		}
	}()
	return errClass(f())
}

// ---- monitors: the property's own statement evaluated on the implementation ------

// monitorRaw: C10 — Errors carries exactly one ErrEventOverflow per overflow marker and nothing else.
func (s *session) monitorRaw(buf []byte, evs []fsnotify.Event, errs []error, op string) {
	if s.report == nil {
		return
	}
	overflows := 0
	for off := 0; off+16 <= len(buf); {
		mask := binary.LittleEndian.Uint32(buf[off+4:])
		l := int(binary.LittleEndian.Uint32(buf[off+12:]))
		if mask&inQOverflow != 0 {
			overflows++
		}
		off += 16 + l
	}
	got := 0
	for _, e := range errs {
		if errors.Is(e, fsnotify.ErrEventOverflow) {
			got++
		} else {
			s.report("C10", "C10:error-on-benign-history:"+errClass(e), "a value other than ErrEventOverflow was delivered on Errors: "+errClass(e),
				map[string]interface{}{"op": op, "error": e.Error()})
		}
	}
	if got != overflows {
		s.report("C10", "C10:overflow-count", fmt.Sprintf("%d overflow markers but %d ErrEventOverflow", overflows, got),
			map[string]interface{}{"op": op})
	}
	for _, e := range evs {
		if e.Op == 0 {
			s.report("C02", "C02:empty-op", "event with empty operation set", map[string]interface{}{"op": op, "event": e.String()})
		}
	}
}

// monitorTables: C12 (one direction, valid in injected mode): no kernel mark without a table entry,
// and both tables describe the same set of watches; C04: WatchList has no duplicates.
func (s *session) monitorTables(op string) {
	if s.report == nil {
		return
	}
	snap := fsnotify.VerifTables(s.w)
	keys := map[uint32]bool{}
	for _, we := range snap.Wd {
		keys[we.Key] = true
		if we.Key != we.Wd {
			s.report("C12", "C12:key-field-mismatch", "wd table key differs from the entry's wd", map[string]interface{}{"op": op})
		}
	}
	for _, m := range readFdinfo(s.realFd) {
		// only meaningful when the injected stream never lied about a mark being gone
		if s.faithful && !keys[m.wd] {
			s.report("C12", "C12:orphan-kernel-mark", fmt.Sprintf("kernel mark wd=%d (ino %x) survives without a table entry", m.wd, m.ino),
				map[string]interface{}{"op": op})
		}
	}
	for _, pe := range snap.Path {
		if !keys[pe.Wd] {
			s.report("C12", "C12:dangling-path-entry", fmt.Sprintf("path table lists %q with wd=%d which is not in the wd table", pe.Path, pe.Wd),
				map[string]interface{}{"op": op})
		}
	}
	if len(snap.Path) != len(snap.Wd) {
		s.report("C12", "C12:table-size-mismatch", fmt.Sprintf("path table has %d entries, wd table %d", len(snap.Path), len(snap.Wd)),
			map[string]interface{}{"op": op})
	}
}

// ---- operations ------------------------------------------------------------

func (s *session) opAdd(r *rec, arg string, ops uint32, noFollow bool) {
	opts := []fsnotify.VerifAddOpt{fsnotify.VerifWithOps(fsnotify.Op(ops))}
	if noFollow {
		opts = append(opts, fsnotify.VerifWithNoFollow())
	}
	marks := s.marks()
	before := map[uint32]bool{}
	for _, m := range readFdinfo(s.realFd) {
		before[m.wd] = true
		if m.wd > s.maxWd {
			s.maxWd = m.wd
		}
	}
	// the flags of an existing entry are OR-ed in by register(): IN_DONT_FOLLOW is sticky
	effNoFollow := noFollow
	pre := fsnotify.VerifTables(s.w)
	for _, pe := range pre.Path {
		if pe.Path == filepath.Clean(arg) {
			for _, we := range pre.Wd {
				if we.Key == pe.Wd && we.Flags&unix.IN_DONT_FOLLOW != 0 {
					effNoFollow = true
				}
			}
		}
	}
	ret := safeCall(func() error { return s.w.AddWith(arg, opts...) })
	s.lastRet = ret
	k := "err:" + ret
	if ret == "nil" {
		// what did inotify_add_watch answer? a mark that was not there before, or else the
		// existing mark of the inode the (cleaned) path names
		var fresh []uint32
		for _, m := range readFdinfo(s.realFd) {
			if !before[m.wd] {
				fresh = append(fresh, m.wd)
			}
		}
		if len(fresh) == 1 {
			// kernel contract of Model/Kernel (joint model of C12): a fresh mark gets a descriptor above
			// every descriptor this instance has handed out so far (idr_alloc_cyclic), never a recycled one
			if fresh[0] <= s.maxWd && s.report != nil {
				s.report("C12", "C12:kernel-contract:fresh-wd-not-ascending", fmt.Sprintf("inotify_add_watch answered the fresh descriptor %d although %d had been handed out before", fresh[0], s.maxWd), map[string]interface{}{"op": arg})
			}
			if fresh[0] > s.maxWd {
				s.maxWd = fresh[0]
			}
			k = fmt.Sprintf("wd:%d", fresh[0])
		} else if wd, ok := s.wdOf(filepath.Clean(arg), effNoFollow); ok {
			k = fmt.Sprintf("wd:%d", wd)
		} else {
			k = "wd:unknown"
		}
	}
	nf := 0
	if noFollow {
		nf = 1
	}
	op := fmt.Sprintf("add %s %x %d k=%s marks=%s", hx(arg), ops, nf, k, marks)
	r.emit("add", op, fmtOut(ret, nil, nil)+" | "+stateStr(s.w))
	if ret == "PANIC" && s.report != nil {
		s.report("C04", "C04:add-panic", "Add panicked", map[string]interface{}{"op": op})
	}
	s.monitorTables(op)
}

func (s *session) opRemove(r *rec, arg string) {
	marks := s.marks()
	ret := safeCall(func() error { return s.w.Remove(arg) })
	op := fmt.Sprintf("remove %s marks=%s", hx(arg), marks)
	listed := false
	for _, p := range s.w.WatchList() {
		if p == filepath.Clean(arg) {
			listed = true
		}
	}
	_ = listed
	r.emit("remove", op, fmtOut(ret, nil, nil)+" | "+stateStr(s.w))
	if s.report != nil {
		if ret == "PANIC" {
			s.report("C04", "C04:remove-panic", "Remove panicked (nil dereference on a dangling path-table entry)", map[string]interface{}{"op": op})
		}
	}
	s.monitorTables(op)
}

func (s *session) opWatchList(r *rec) {
	l := s.w.WatchList()
	sort.Strings(l)
	var hs []string
	for i, p := range l {
		hs = append(hs, hx(p))
		if i > 0 && l[i-1] == p && s.report != nil {
			s.report("C04", "C04:watchlist-duplicate", "WatchList shows a path twice", map[string]interface{}{"path": p})
		}
	}
	r.emit("watchlist", "watchlist", "L "+strings.Join(hs, ";"))
}

func (s *session) opRaw(r *rec, buf []byte) bool {
	marks := s.marks()
	evs, errs, ok := s.inject(buf, 10*time.Second)
	ans := fmtOut("nil", evs, errs) + " | " + stateStr(s.w)
	if !ok {
		ans += " | BARRIER-TIMEOUT"
	}
	op := fmt.Sprintf("raw %s marks=%s", hex.EncodeToString(buf), marks)
	r.emit("raw", op, ans)
	s.monitorRaw(buf, evs, errs, op)
	return ok
}

// opRawMulti: several datagrams (= several reads of the reader) and only then the barrier. For the
// model read boundaries do not exist (C01.batching_irrelevant): it gets the concatenation.
func (s *session) opRawMulti(r *rec, bufs ...[]byte) bool {
	marks := s.marks()
	var all []byte
	for _, b := range bufs {
		all = append(all, b...)
	}
	evs, errs, ok := s.inject(bufs[0], 10*time.Second, bufs[1:]...)
	ans := fmtOut("nil", evs, errs) + " | " + stateStr(s.w)
	if !ok {
		ans += " | BARRIER-TIMEOUT"
	}
	op := fmt.Sprintf("raw %s marks=%s", hex.EncodeToString(all), marks)
	r.emit("raw", op, ans)
	s.monitorRaw(all, evs, errs, op)
	return ok
}

// relabel returns a copy of a well-formed datagram in which every non-NUL name byte is replaced by
// another letter: same watches, masks, offsets and padded lengths, different names.
func relabel(buf []byte, g *rng) []byte {
	out := append([]byte(nil), buf...)
	changed := false
	off := 0
	for off+16 <= len(out) {
		n := int(binary.LittleEndian.Uint32(out[off+12:]))
		if off+16+n > len(out) {
			return nil
		}
		if binary.LittleEndian.Uint32(out[off+4:])&(inMovedFrom|inMovedTo) != 0 {
			return nil // rename pairs carry meaning in their names: leave those datagrams alone
		}
		for i := off + 16; i < off+16+n; i++ {
			if out[i] != 0 && out[i] != '/' {
				out[i] = byte('a' + g.intn(26))
				changed = true
			}
		}
		off += 16 + n
	}
	if !changed || off != len(out) {
		// (a datagram that does not end on a record boundary — a trailing partial header — cannot be followed
		// by another one in ONE op line: the model reads the concatenation, the reader reads them one by one)
		return nil
	}
	return out
}

// opRawRead: exactly one read of the reader, whatever its length: nothing at all (the runtime reports
// io.EOF), fewer bytes than one header (short read) or a regular datagram.
func (s *session) opRawRead(r *rec, buf []byte) bool {
	marks := s.marks()
	if len(buf) == 0 {
		if _, err := unix.Write(s.injectFd, buf); err != nil { // a zero-length datagram
			check(fmt.Errorf("inject write: %w", err))
		}
	}
	evs, errs, ok := s.inject(buf, 10*time.Second)
	ans := fmtOut("nil", evs, errs) + " | " + stateStr(s.w)
	if !ok {
		ans += " | BARRIER-TIMEOUT"
	}
	op := fmt.Sprintf("rawread %s marks=%s", hx(string(buf)), marks)
	r.emit("rawread", op, ans)
	return ok
}

// noteFS puts a file-system step of the harness into the op stream (both sides answer "ok"), so that the
// session history in a replay file is complete
func (s *session) noteFS(r *rec, what string) {
	r.emit("scenario", "scenario fs:"+strings.ReplaceAll(strings.ReplaceAll(what, s.root+"/", ""), " ", "_"), "ok")
}

// opRawNoBarrier: one datagram WITHOUT the barrier read behind it (the barrier's own record makes the reader look
// up the sentinel watch, which overwrites whatever the reader remembers from the record before). The op is complete
// when the reader has taken the datagram off the socket and nothing new has been delivered for a few milliseconds;
// only for corpus scripts whose records produce a known, small number of events.
func (s *session) opRawNoBarrier(r *rec, buf []byte) {
	marks := s.marks()
	if _, err := unix.Write(s.injectFd, buf); err != nil {
		check(fmt.Errorf("inject write: %w", err))
	}
	deadline := time.Now().Add(2 * time.Second)
	for time.Now().Before(deadline) { // SIOCOUTQ: bytes of ours the peer has not read yet
		if n, err := unix.IoctlGetInt(s.injectFd, unix.SIOCOUTQ); err == nil && n == 0 {
			break
		}
		time.Sleep(50 * time.Microsecond)
	}
	last, stable := -1, 0
	for stable < 40 && time.Now().Before(deadline) {
		s.obs.mu.Lock()
		n := len(s.obs.events) + len(s.obs.errs)
		s.obs.mu.Unlock()
		if n == last {
			stable++
		} else {
			last, stable = n, 0
		}
		time.Sleep(100 * time.Microsecond)
	}
	s.obs.mu.Lock()
	evs := append([]fsnotify.Event(nil), s.obs.events[s.evSeen:]...)
	errs := append([]error(nil), s.obs.errs[s.erSeen:]...)
	s.evSeen, s.erSeen = len(s.obs.events), len(s.obs.errs)
	s.obs.mu.Unlock()
	op := fmt.Sprintf("raw %s marks=%s", hex.EncodeToString(buf), marks)
	r.emit("raw", op, fmtOut("nil", evs, errs)+" | "+stateStr(s.w))
}

func recsBytes(recs ...rawRec) []byte {
	var b []byte
	for _, x := range recs {
		b = append(b, x.bytes()...)
	}
	return b
}

// ---- universe ----------------------------------------------------------------

type universe struct {
	root  string
	paths []string // things that exist and can be watched (absolute)
	dirs  []string
	files []string
}

func mkUniverse(root string) *universe {
	u := &universe{root: root}
	must := func(err error) { check(err) }
	for _, d := range []string{"d0", "d1", "d0/sub", ".sentinel", "dir1", "dir10"} {
		must(os.MkdirAll(filepath.Join(root, d), 0o755))
	}
	for _, f := range []string{"f0", "f1", "d0/x", "d0/y", "d1/z", "d0/sub/deep"} {
		must(os.WriteFile(filepath.Join(root, f), []byte("x"), 0o644))
	}
	must(os.Symlink("d0", filepath.Join(root, "l0")))                      // relative link to dir
	must(os.Symlink(filepath.Join(root, "f0"), filepath.Join(root, "lf"))) // absolute link to file
	must(os.Symlink("nowhere", filepath.Join(root, "dangling")))           // dangling
	must(os.Symlink("loopb", filepath.Join(root, "loopa")))                // loop
	must(os.Symlink("loopa", filepath.Join(root, "loopb")))                //
	must(os.Link(filepath.Join(root, "f0"), filepath.Join(root, "h0")))    // hard link
	u.dirs = []string{"d0", "d1", "d0/sub", "dir1", "dir10", "l0"}
	u.files = []string{"f0", "f1", "d0/x", "d0/y", "d1/z", "h0", "lf", "l0/x"}
	u.paths = append(append([]string{}, u.dirs...), u.files...)
	return u
}

// spell returns one of the equivalent spellings of root/rel (cwd is root).
func (u *universe) spell(g *rng, rel string) string {
	abs := filepath.Join(u.root, rel)
	switch g.intn(9) {
	case 0:
		return rel // relative to cwd
	case 1:
		return "./" + rel
	case 2:
		return abs + "/" // trailing slash (fails with ENOTDIR for files: part of the malformed stream)
	case 3:
		return strings.Replace(abs, "/", "//", 1)
	case 4:
		return filepath.Dir(abs) + "/../" + filepath.Base(filepath.Dir(abs)) + "/" + filepath.Base(abs)
	case 5:
		return rel + "/."
	default:
		return abs
	}
}

func (u *universe) badPath(g *rng) string {
	switch g.intn(6) {
	case 0:
		return filepath.Join(u.root, "missing")
	case 1:
		return filepath.Join(u.root, "f0", "through-file")
	case 2:
		return filepath.Join(u.root, "loopa")
	case 3:
		return filepath.Join(u.root, strings.Repeat("n", 300))
	case 4:
		return filepath.Join(u.root, "dangling")
	default:
		return ""
	}
}

var entryNames = []string{"a", "file", "with space", "-dash", ".dot", "ünï", "日本", "x y z", "n15-----------x", "n16------------x",
	"n17-------------x", "n31---------------------------x", "n32----------------------------x", "n33-----------------------------x"}

func genName(g *rng) string {
	switch g.intn(10) {
	case 0:
		return strings.Repeat("L", 1+g.intn(255))
	case 1:
		return strings.Repeat("é", 1+g.intn(127))
	case 2:
		n := []int{1, 15, 16, 17, 31, 32, 33, 47, 48, 49, 254, 255}[g.intn(12)]
		return strings.Repeat("k", n)
	default:
		return entryNames[g.intn(len(entryNames))]
	}
}

var maskPool = []uint32{inCreate, inModify, inAttrib, inDelete, inMovedFrom, inMovedTo, inCloseWrite, inCloseNoWr, inOpen, inAccess,
	inCreate | inIsdir, inDelete | inIsdir, inMovedFrom | inIsdir, inMovedTo | inIsdir, inDeleteSelf, inMoveSelf, inIgnored, inUnmount,
	inQOverflow, inAttrib, inModify, inCreate, inDeleteSelf | inAttrib, inIgnored | inDeleteSelf, 0, inIsdir, inModify | inAttrib}

// genRecord builds one synthetic inotify record against the current tables.
func (s *session) genRecord(g *rng, cookies *[]uint32) rawRec {
	snap := fsnotify.VerifTables(s.w)
	var rr rawRec
	// wd: live (70 %), sentinel never, removed/never-issued, -1
	switch {
	case len(snap.Wd) > 1 && g.chance(75):
		for {
			x := snap.Wd[g.intn(len(snap.Wd))]
			if x.Key != s.sentWd {
				rr.wd = x.Key
				break
			}
		}
	case g.chance(30):
		rr.wd = 0xffffffff
	default:
		rr.wd = uint32(1 + g.intn(40))
		if rr.wd == s.sentWd {
			rr.wd = 999
		}
	}
	if g.chance(85) {
		rr.mask = maskPool[g.intn(len(maskPool))]
	} else {
		rr.mask = g.u32() & 0x4000efff // random combination of inspected bits
	}
	if rr.wd == 0xffffffff && g.chance(70) {
		rr.mask = inQOverflow
	}
	// cookies for moves
	if rr.mask&(inMovedFrom|inMovedTo) != 0 {
		switch g.intn(5) {
		case 0:
			rr.cookie = 0
		case 1, 2:
			if len(*cookies) > 0 {
				rr.cookie = (*cookies)[g.intn(len(*cookies))]
			} else {
				rr.cookie = 1 + uint32(g.intn(1000))
			}
		default:
			rr.cookie = 1000 + uint32(len(*cookies))
			*cookies = append(*cookies, rr.cookie)
		}
	} else if g.chance(5) {
		rr.cookie = g.u32()
	}
	// name: self events carry none; directory-entry events carry one
	self := rr.mask&(inDeleteSelf|inMoveSelf|inIgnored|inUnmount|inQOverflow) != 0
	if !self || g.chance(10) {
		if g.chance(85) {
			nm := genName(g)
			switch g.intn(12) {
			case 0: // over-padded (legal: extra NULs)
				b := kernelPad(nm)
				rr.name = append(b, make([]byte, 16)...)
			case 1: // no padding at all (name ends at the record end)
				rr.name = []byte(nm)
			case 2: // interior NUL
				b := kernelPad(nm + "\x00tail")
				rr.name = b
			default:
				rr.name = kernelPad(nm)
			}
		}
	}
	// now and then a plain, named record for the sentinel watch itself: it shares watch, offset and
	// padded length with the barrier records of the neighbouring reads (stale-buffer bugs)
	if g.chance(5) && s.sentWd != 0 {
		rr.wd = s.sentWd
		rr.mask = []uint32{inCreate, inModify, inDelete, inAttrib, inCloseWrite}[g.intn(5)]
		rr.cookie = 0
		rr.name = kernelPad("s" + genName(g))
		if len(rr.name) > 240 {
			rr.name = kernelPad("sname")
		}
	}
	return rr
}

// ---- session generator --------------------------------------------------------

func runInject(r *rec, g *rng, tier, what, replay, out string, extra map[string]interface{}) {
	nsess := 40
	steps := 40
	if tier == "thorough" {
		nsess, steps = 600, 80
	}
	only := -1
	base := g.s
	if replay != "" {
		var rp struct {
			Detail struct {
				Session int    `json:"session"`
				Seed    uint64 `json:"seed"`
				Tier    string `json:"tier"`
			} `json:"detail"`
		}
		b, err := os.ReadFile(replay)
		check(err)
		check(json.Unmarshal(b, &rp))
		only = rp.Detail.Session
		base = rp.Detail.Seed
		if rp.Detail.Tier == "thorough" {
			nsess, steps = 600, 80
		}
	}
	mon, err := os.Create(filepath.Join(out, "monitor.jsonl"))
	check(err)
	defer mon.Close()
	cwd, _ := os.Getwd()
	defer os.Chdir(cwd)
	for si := 0; si < nsess; si++ {
		if only >= 0 && si != only {
			continue
		}
		sg := &rng{s: base*1000003 + uint64(si)*7919}
		root, err := os.MkdirTemp("", "fsnverif-inj")
		check(err)
		root, _ = filepath.EvalSymlinks(root)
		u := mkUniverse(root)
		check(os.Chdir(root))
		bufsz := []uint{0, 0, 1, 2, 7, 64, 4096}[sg.intn(7)]
		s := newSession(root, bufsz)
		s.pace = []int{0, 0, 1, 2}[sg.intn(4)]
		s.paceState = sg.s
		r.notes[fmt.Sprintf("pace:%d", s.pace)]++
		s.sentinel = filepath.Join(root, ".sentinel")
		startSeq := r.seq
		seen := map[string]bool{}
		s.report = func(prop, sig, what string, detail map[string]interface{}) {
			if seen[sig] {
				return
			}
			seen[sig] = true
			detail["session"] = si
			detail["seed"] = base
			detail["tier"] = tier
			detail["first_seq"] = startSeq + 1
			b, _ := json.Marshal(map[string]interface{}{"property": prop, "signature": sig, "what": what, "detail": detail})
			mon.Write(append(b, '\n'))
		}
		hangCtx.Store("session", si)
		hangCtx.Store("seed", base)
		hangCtx.Store("tier", tier)
		r.emit("reset", fmt.Sprintf("reset session=%d bufsz=%d", si, bufsz), "ok")
		s.opAdd(r, s.sentinel, 0x1f, false)
		if wd, ok := s.wdOf(s.sentinel, false); ok {
			s.sentWd = wd
		} else {
			check(fmt.Errorf("sentinel watch failed"))
		}
		if si < len(scripts) {
			s.faithful = true
			scripts[si](r, s, u)
			s.opWatchList(r)
		} else {
			runSession(r, sg, s, u, steps, mon, si, base, tier, startSeq)
		}
		s.close()
		os.Chdir(cwd)
		os.RemoveAll(root)
	}
	// ---- small scope, exhaustively: EVERY sequence of up to 2 (thorough: 3) steps over Add / Remove of a file, its
	// hard link, a symlink to it, a directory, a symlink to it, a missing path, a path through a file, an unclean
	// spelling, and the file-system steps that make listed paths name other files (C04's quantifier: "exhaustively
	// for all sequences up to a bounded length, randomly beyond"); WatchList after every sequence
	type xstep struct {
		name string
		do   func(s *session, u *universe)
	}
	addOf := func(rel string) xstep {
		return xstep{"Add(" + rel + ")", func(s *session, u *universe) { s.opAdd(r, filepath.Join(u.root, rel), 0x1f, false) }}
	}
	rmOf := func(rel string) xstep {
		return xstep{"Remove(" + rel + ")", func(s *session, u *universe) { s.opRemove(r, filepath.Join(u.root, rel)) }}
	}
	alphabet := []xstep{addOf("f0"), addOf("h0"), addOf("lf"), addOf("d0"), addOf("l0"), addOf("missing"), addOf("f0/x"),
		{"Add(./d0/../d0/)", func(s *session, u *universe) { s.opAdd(r, "./d0/../d0/", 0x1f, false) }},
		rmOf("f0"), rmOf("h0"), rmOf("lf"), rmOf("d0"), rmOf("l0"), rmOf("missing"),
		{"unlink f0", func(s *session, u *universe) { os.Remove(filepath.Join(u.root, "f0")); s.noteFS(r, "unlink f0") }},
		{"recreate f0", func(s *session, u *universe) {
			os.Remove(filepath.Join(u.root, "f0"))
			os.WriteFile(filepath.Join(u.root, "f0"), []byte("n"), 0o644)
			s.noteFS(r, "unlink f0; create f0")
		}},
		{"retarget lf->f1", func(s *session, u *universe) {
			os.Remove(filepath.Join(u.root, "lf"))
			os.Symlink(filepath.Join(u.root, "f1"), filepath.Join(u.root, "lf"))
			s.noteFS(r, "retarget lf -> f1")
		}},
		{"retarget l0->d1", func(s *session, u *universe) {
			os.Remove(filepath.Join(u.root, "l0"))
			os.Symlink("d1", filepath.Join(u.root, "l0"))
			s.noteFS(r, "retarget l0 -> d1")
		}},
	}
	depth := 2
	if tier == "thorough" {
		depth = 3
	}
	if !(what == "C04" || what == "C12" || what == "C09" || tier == "thorough") {
		depth = 0 // the watch-set properties own this enumeration; the others read the random sessions and the corpus
	}
	var seqs [][]int
	var gen func(prefix []int)
	gen = func(prefix []int) {
		if len(prefix) > 0 {
			seqs = append(seqs, append([]int(nil), prefix...))
		}
		if len(prefix) == depth {
			return
		}
		for i := range alphabet {
			gen(append(prefix, i))
		}
	}
	if depth > 0 {
		gen(nil)
	}
	nx := 0
	for xi, seq := range seqs {
		if len(seq) != depth { // shorter sequences are prefixes of longer ones: WatchList is compared after every op line anyway
			continue
		}
		si := nsess + xi
		if only >= 0 && si != only {
			continue
		}
		root, err := os.MkdirTemp("", "fsnverif-inx")
		check(err)
		root, _ = filepath.EvalSymlinks(root)
		u := mkUniverse(root)
		check(os.Chdir(root))
		s := newSession(root, 64)
		s.faithful = true
		s.sentinel = filepath.Join(root, ".sentinel")
		startSeq := r.seq
		seen := map[string]bool{}
		var names []string
		for _, k := range seq {
			names = append(names, alphabet[k].name)
		}
		s.report = func(prop, sig, what string, detail map[string]interface{}) {
			if seen[sig] {
				return
			}
			seen[sig] = true
			detail["session"], detail["seed"], detail["tier"], detail["first_seq"], detail["exhaustive_sequence"] = si, base, tier, startSeq+1, names
			b, _ := json.Marshal(map[string]interface{}{"property": prop, "signature": sig, "what": what, "detail": detail})
			mon.Write(append(b, '\n'))
		}
		hangCtx.Store("session", si)
		r.emit("reset", fmt.Sprintf("reset session=%d exhaustive=%s", si, strings.ReplaceAll(strings.Join(names, ";"), " ", "_")), "ok")
		s.opAdd(r, s.sentinel, 0x1f, false)
		if wd, ok := s.wdOf(s.sentinel, false); ok {
			s.sentWd = wd
		}
		for _, k := range seq {
			alphabet[k].do(s, u)
			s.opWatchList(r)
		}
		s.close()
		os.Chdir(cwd)
		os.RemoveAll(root)
		nx++
	}
	r.notes[fmt.Sprintf("exhaustive-sequences-depth-%d", depth)] += nx
	extra["sessions"] = nsess + nx
}

func runSession(r *rec, g *rng, s *session, u *universe, steps int, mon *os.File, si int, seed uint64, tier string, startSeq int) {
	var cookies []uint32
	report := func(sig, what string, detail map[string]interface{}) {
		detail["session"] = si
		detail["seed"] = seed
		detail["tier"] = tier
		detail["first_seq"] = startSeq + 1
		b, _ := json.Marshal(map[string]interface{}{"signature": sig, "what": what, "session": si, "seed": seed, "tier": tier, "detail": detail})
		mon.Write(append(b, '\n'))
	}
	_ = report
	for i := 0; i < steps; i++ {
		switch c := g.intn(100); {
		case c < 22: // add something valid, in some spelling
			rel := u.paths[g.intn(len(u.paths))]
			ops := uint32(0x1f)
			if g.chance(15) {
				ops = 1 + uint32(g.intn(511))
			}
			s.opAdd(r, u.spell(g, rel), ops, g.chance(8))
		case c < 27: // malformed stream
			s.opAdd(r, u.badPath(g), 0x1f, false)
		case c < 37:
			if g.chance(75) {
				l := s.w.WatchList()
				sort.Strings(l) // map order must not leak into the generator
				if len(l) > 1 {
					p := l[g.intn(len(l))]
					if p != s.sentinel {
						s.opRemove(r, p)
						continue
					}
				}
			}
			s.opRemove(r, u.spell(g, u.paths[g.intn(len(u.paths))]))
		case c < 40:
			s.opWatchList(r)
		case c < 42: // a read that returns nothing, or less than one header
			n := []int{0, 0, 1, 7, 15}[g.intn(5)]
			if !s.opRawRead(r, make([]byte, n)) {
				return
			}
		case c < 47: // kill a kernel mark behind the library's back (file deleted / replaced)
			f := u.files[g.intn(len(u.files))]
			p := filepath.Join(u.root, f)
			if fi, err := os.Lstat(p); err == nil && fi.Mode().IsRegular() {
				os.Remove(p)
				s.noteFS(r, "unlink "+p)
				if g.chance(60) {
					os.WriteFile(p, []byte("new"), 0o644) // same name, new inode
					s.noteFS(r, "create "+p)
				} else if g.chance(50) {
					// a re-Add that fails (ENOENT) while the path may still be listed (hard link / stale entry)
					s.opAdd(r, u.spell(g, f), 0x1f, false)
					r.notes["fs:unlink+failed-readd"]++
				}
				r.notes["fs:unlink"]++
			}
		case c < 50: // retarget a symlink: the listed path now names another file
			if g.chance(50) {
				l := filepath.Join(u.root, "l0")
				os.Remove(l)
				os.Symlink([]string{"d0", "d1", "dir1"}[g.intn(3)], l)
				s.noteFS(r, "retarget l0")
			} else {
				l := filepath.Join(u.root, "lf")
				os.Remove(l)
				os.Symlink(filepath.Join(u.root, []string{"f0", "f1", "d1/z"}[g.intn(3)]), l)
				s.noteFS(r, "retarget lf")
			}
			r.notes["fs:retarget"]++
		case c < 56: // burst of moves: pairs, unmatched move-outs, interleaved halves (ring wrap-around)
			snap := fsnotify.VerifTables(s.w)
			var wds []uint32
			for _, x := range snap.Wd {
				if x.Key != s.sentWd {
					wds = append(wds, x.Key)
				}
			}
			if len(wds) == 0 {
				continue
			}
			n := 1 + g.intn(25)
			var buf []byte
			var pending []rawRec
			for j := 0; j < n; j++ {
				ck := 5000 + uint32(len(cookies))
				cookies = append(cookies, ck)
				from := rawRec{wd: wds[g.intn(len(wds))], mask: inMovedFrom, cookie: ck, name: kernelPad(fmt.Sprintf("mv%d", ck))}
				to := rawRec{wd: wds[g.intn(len(wds))], mask: inMovedTo, cookie: ck, name: kernelPad(fmt.Sprintf("to%d", ck))}
				buf = append(buf, from.bytes()...)
				switch g.intn(6) {
				case 0: // moved out of watched territory: no second half
				case 1: // second half delayed behind later moves
					pending = append(pending, to)
				default:
					buf = append(buf, to.bytes()...)
				}
				if len(pending) > 0 && g.chance(40) {
					buf = append(buf, pending[0].bytes()...)
					pending = pending[1:]
				}
				if g.chance(15) { // split the burst over several reads
					if !s.opRaw(r, buf) {
						return
					}
					buf = nil
				}
			}
			for _, p := range pending {
				buf = append(buf, p.bytes()...)
			}
			if len(buf) > 0 && !s.opRaw(r, buf) {
				return
			}
		case c < 60: // one long read: create/write/remove cycles in a listed directory (hundreds of records)
			snap := fsnotify.VerifTables(s.w)
			var wds []uint32
			for _, x := range snap.Wd {
				if x.Key != s.sentWd {
					wds = append(wds, x.Key)
				}
			}
			if len(wds) == 0 {
				continue
			}
			wd := wds[g.intn(len(wds))]
			n := 50 + g.intn(150)
			var buf []byte
			for j := 0; j < n; j++ {
				nm := kernelPad(fmt.Sprintf("b%03d", j))
				for _, m := range []uint32{inCreate, inModify, inDelete} {
					buf = append(buf, rawRec{wd: wd, mask: m, name: nm}.bytes()...)
				}
			}
			r.notes["raw:long"]++
			if !s.opRaw(r, buf) {
				return
			}
		default: // a datagram of 1..k synthetic records
			k := 1
			switch g.intn(10) {
			case 0:
				k = 2 + g.intn(30)
			case 1, 2, 3:
				k = 2 + g.intn(4)
			}
			var buf []byte
			for j := 0; j < k; j++ {
				rr := s.genRecord(g, &cookies)
				if len(buf)+16+len(rr.name) > 60000 {
					break
				}
				buf = append(buf, rr.bytes()...)
				// a MOVED_TO right after its MOVED_FROM, most of the time
				if rr.mask&inMovedFrom != 0 && rr.cookie != 0 && g.chance(60) {
					to := s.genRecord(g, &cookies)
					to.mask = inMovedTo | (rr.mask & inIsdir)
					to.cookie = rr.cookie
					if to.name == nil {
						to.name = kernelPad(genName(g))
					}
					buf = append(buf, to.bytes()...)
				}
			}
			if g.chance(4) && len(buf) > 0 { // trailing partial header (< 16 bytes): ignored by the loop
				buf = append(buf, make([]byte, 1+g.intn(15))...)
			}
			if g.chance(12) && len(buf) >= 32 && len(buf)%16 == 0 {
				// the same layout once more in a second read, other name bytes (stale-buffer bugs)
				if b2 := relabel(buf, g); b2 != nil {
					if !s.opRawMulti(r, buf, b2) {
						return
					}
					continue
				}
			}
			if !s.opRaw(r, buf) {
				return
			}
		}
	}
	s.opWatchList(r)
}

// ---- corpus: hand-picked histories, run first --------------------------------

func (s *session) rawRecs(r *rec, recs ...rawRec) {
	var buf []byte
	for _, x := range recs {
		buf = append(buf, x.bytes()...)
	}
	s.opRaw(r, buf)
}

func (s *session) wdFor(path string) uint32 {
	for _, pe := range fsnotify.VerifTables(s.w).Path {
		if pe.Path == path {
			return pe.Wd
		}
	}
	return 0
}

var scripts = []func(r *rec, s *session, u *universe){
	// F1: rename-then-delete of a watched file: MOVE_SELF handled after the kernel dropped the mark
	func(r *rec, s *session, u *universe) {
		f := filepath.Join(u.root, "f1")
		s.opAdd(r, f, 0x1f, false)
		wd := s.wdFor(f)
		os.Rename(f, f+".moved")
		os.Remove(f + ".moved")
		s.rawRecs(r, rawRec{wd: wd, mask: inMoveSelf})
		s.rawRecs(r, rawRec{wd: wd, mask: inAttrib}, rawRec{wd: wd, mask: inDeleteSelf}, rawRec{wd: wd, mask: inIgnored})
	},
	// F2(a): a listed symlink re-pointed to an inode that is listed under another path
	func(r *rec, s *session, u *universe) {
		s.opAdd(r, "l0", 0x1f, false)
		s.opAdd(r, "d1", 0x1f, false)
		os.Remove(filepath.Join(u.root, "l0"))
		os.Symlink("d1", filepath.Join(u.root, "l0"))
		s.opAdd(r, "l0", 0x1f, false)
		s.opWatchList(r)
		// the directory keeps the name it was first added under (C08), whatever was re-added since
		wd := s.wdFor("d1")
		s.rawRecs(r, rawRec{wd: wd, mask: inCreate, name: kernelPad("file")}, rawRec{wd: wd, mask: inModify, name: kernelPad("file")})
		s.opRemove(r, "l0")
		s.opRemove(r, "d1")
		s.rawRecs(r, rawRec{wd: wd, mask: inIgnored})
	},
	// F2(b): re-Add of a path whose previous inode is kept alive by a hard link
	func(r *rec, s *session, u *universe) {
		f := filepath.Join(u.root, "f0")
		s.opAdd(r, f, 0x1f, false)
		os.Remove(f)
		os.WriteFile(f, []byte("again"), 0o644)
		s.opAdd(r, f, 0x1f, false)
		s.rawRecs(r, rawRec{wd: s.wdFor(f), mask: inModify})
		s.opRemove(r, f)
		s.opWatchList(r)
	},
	// stale entry re-add (#678/#686): file deleted and recreated, re-Add before IGNORED is handled
	func(r *rec, s *session, u *universe) {
		f := filepath.Join(u.root, "f1")
		s.opAdd(r, f, 0x1f, false)
		wd := s.wdFor(f)
		os.Remove(f)
		os.WriteFile(f, []byte("again"), 0o644)
		s.opAdd(r, f, 0x1f, false)
		s.rawRecs(r, rawRec{wd: wd, mask: inAttrib}, rawRec{wd: wd, mask: inDeleteSelf}, rawRec{wd: wd, mask: inIgnored})
		s.opRemove(r, f)
	},
	// watches whose paths are string prefixes of one another: removing one leaves the others reporting
	func(r *rec, s *session, u *universe) {
		for _, p := range []string{"d0", "d0/x", "dir1", "dir10", "f1"} {
			s.opAdd(r, p, 0x1f, false)
		}
		x, d10 := s.wdFor("d0/x"), s.wdFor("dir10")
		s.opRemove(r, "dir1")
		s.opRemove(r, "d0")
		s.rawRecs(r, rawRec{wd: x, mask: inModify}, rawRec{wd: d10, mask: inCreate, name: kernelPad("n")}, rawRec{wd: d10, mask: inModify, name: kernelPad("n")})
		s.opWatchList(r)
	},
	// a watched entry of a watched directory is renamed: its own watch ends with the move, and what is
	// still queued for it behind the move is reported for nobody
	func(r *rec, s *session, u *universe) {
		s.opAdd(r, "d1", 0x1f, false)
		s.opAdd(r, "d1/z", 0x1f, false)
		d, z := s.wdFor("d1"), s.wdFor("d1/z")
		os.Rename(filepath.Join(u.root, "d1/z"), filepath.Join(u.root, "d1/zz"))
		s.rawRecs(r, rawRec{wd: d, mask: inMovedFrom, cookie: 77, name: kernelPad("z")}, rawRec{wd: d, mask: inMovedTo, cookie: 77, name: kernelPad("zz")},
			rawRec{wd: z, mask: inMoveSelf}, rawRec{wd: z, mask: inModify}, rawRec{wd: z, mask: inIgnored})
		s.opWatchList(r)
		s.rawRecs(r, rawRec{wd: d, mask: inModify, name: kernelPad("zz")})
	},
	// rename pair, unmatched move-outs, > 10 moves, zero cookie
	func(r *rec, s *session, u *universe) {
		s.opAdd(r, "d0", 0x1f, false)
		s.opAdd(r, "d1", 0x1f, false)
		a, b := s.wdFor("d0"), s.wdFor("d1")
		s.rawRecs(r, rawRec{wd: a, mask: inMovedFrom, cookie: 7, name: kernelPad("old")}, rawRec{wd: b, mask: inMovedTo, cookie: 7, name: kernelPad("new")})
		for i := 0; i < 12; i++ {
			s.rawRecs(r, rawRec{wd: a, mask: inMovedFrom, cookie: uint32(100 + i), name: kernelPad(fmt.Sprintf("out%d", i))})
		}
		s.rawRecs(r, rawRec{wd: b, mask: inMovedTo, cookie: 7, name: kernelPad("late")}, rawRec{wd: b, mask: inMovedTo, cookie: 111, name: kernelPad("recent")},
			rawRec{wd: b, mask: inCreate, name: kernelPad("plain")}, rawRec{wd: b, mask: inMovedTo, cookie: 0, name: kernelPad("zero")})
	},
	// 25 consecutive paired moves: every Create must carry its own old name (ring wrap-around)
	func(r *rec, s *session, u *universe) {
		s.opAdd(r, "d0", 0x1f, false)
		a := s.wdFor("d0")
		for i := 0; i < 25; i++ {
			s.rawRecs(r, rawRec{wd: a, mask: inMovedFrom, cookie: uint32(900 + i), name: kernelPad(fmt.Sprintf("f%d", i))},
				rawRec{wd: a, mask: inMovedTo, cookie: uint32(900 + i), name: kernelPad(fmt.Sprintf("f%d", i+1))})
		}
	},
	// DELETE_SELF with the parent listed / not listed
	func(r *rec, s *session, u *universe) {
		s.opAdd(r, "d0/x", 0x1f, false)
		s.opAdd(r, "d0", 0x1f, false)
		s.opAdd(r, "f1", 0x1f, false)
		x, d, f := s.wdFor("d0/x"), s.wdFor("d0"), s.wdFor("f1")
		os.Remove(filepath.Join(u.root, "d0/x"))
		os.Remove(filepath.Join(u.root, "f1"))
		s.rawRecs(r, rawRec{wd: d, mask: inDelete, name: kernelPad("x")}, rawRec{wd: x, mask: inDeleteSelf}, rawRec{wd: x, mask: inIgnored},
			rawRec{wd: f, mask: inDeleteSelf}, rawRec{wd: f, mask: inIgnored})
	},
	// a FAILED re-Add of a listed path: the file is unlinked while a hard link (or an open descriptor) keeps the
	// inode and with it the kernel mark alive; Add(p) answers ENOENT and must leave the watch set (C04) and the
	// agreement of tables and kernel marks (C12) exactly as they were; Remove(p) still finds the watch
	func(r *rec, s *session, u *universe) {
		f := filepath.Join(u.root, "f0")
		s.opAdd(r, f, 0x1f, false)
		check(os.Link(f, f+".keep"))
		check(os.Remove(f))
		s.noteFS(r, "link f0 f0.keep; unlink f0")
		s.opAdd(r, f, 0x1f, false)
		s.opWatchList(r)
		s.opAdd(r, filepath.Join(u.root, "f0", "below-a-file"), 0x1f, false) // ENOTDIR while f0 does not exist: ENOENT
		s.opRemove(r, f)
		s.opWatchList(r)
		// the same with a directory whose name is taken by a file afterwards (ENOTDIR for what was listed below it)
		d := filepath.Join(u.root, "d1")
		s.opAdd(r, filepath.Join(d, "sub"), 0x1f, false)
		s.opAdd(r, d, 0x1f, false)
		s.opAdd(r, filepath.Join(d, "nope", "x"), 0x1f, false)
		s.opWatchList(r)
	},
	// the late IN_IGNORED of a descriptor whose path was re-added meanwhile, with NO other watch's record handled in
	// between: Add(f); f is renamed away (IN_MOVE_SELF: the watch ends, inotify_rm_watch); a new f is created and added
	// again (a fresh descriptor); only now the kernel's IN_IGNORED for the old descriptor is read. Whatever the reader
	// still remembers of the old watch must not touch the new one: f stays listed and removable (C09), and so do the
	// records still queued for the moved file (C02).
	func(r *rec, s *session, u *universe) {
		f := filepath.Join(u.root, "f1")
		s.opAdd(r, f, 0x1f, false)
		wd := s.wdFor(f)
		check(os.Rename(f, f+".moved"))
		s.noteFS(r, "rename f1 f1.moved")
		s.opRawNoBarrier(r, recsBytes(rawRec{wd: wd, mask: inMoveSelf}))
		check(os.WriteFile(f, []byte("new"), 0o644))
		s.noteFS(r, "create f1")
		s.opAdd(r, f, 0x1f, false)
		s.opRawNoBarrier(r, recsBytes(rawRec{wd: wd, mask: inModify}, rawRec{wd: wd, mask: inIgnored}))
		s.opWatchList(r)
		s.opRemove(r, f)
		s.opWatchList(r)
	},
	// the same entry name under two watches whose (relative) paths are such that one is a string suffix of the
	// other — "sub" and "d0/sub", "./sub/" spelled otherwise — in both orders, in one read and across reads: a name
	// is the path of the watch the record names, a separator and the entry, whatever was reported before
	func(r *rec, s *session, u *universe) {
		os.Mkdir(filepath.Join(u.root, "sub"), 0o755)
		s.noteFS(r, "mkdir sub")
		s.opAdd(r, "sub", 0x1f, false)
		s.opAdd(r, "d0/sub", 0x1f, false)
		w1, w2 := s.wdFor("sub"), s.wdFor("d0/sub")
		s.rawRecs(r, rawRec{wd: w2, mask: inCreate, name: kernelPad("main.go")}, rawRec{wd: w1, mask: inCreate, name: kernelPad("main.go")})
		s.rawRecs(r, rawRec{wd: w1, mask: inModify, name: kernelPad("main.go")}, rawRec{wd: w2, mask: inModify, name: kernelPad("main.go")})
		s.opRawMulti(r,
			recsBytes(rawRec{wd: w2, mask: inAttrib, name: kernelPad("x")}),
			recsBytes(rawRec{wd: w1, mask: inAttrib, name: kernelPad("x")}),
			recsBytes(rawRec{wd: w2, mask: inAttrib, name: kernelPad("x")}))
		s.opRemove(r, "./sub/")
		s.rawRecs(r, rawRec{wd: w1, mask: inIgnored}, rawRec{wd: w2, mask: inDelete, name: kernelPad("main.go")})
		s.opWatchList(r)
	},
	// the working directory watched as "." (also spelled "./" and ""): entries are "./name" — filepath.Dir(".") is
	// "." itself, so the "is the parent watched too?" test of the IN_DELETE_SELF branch looks the watch up under
	// its own name: the removal of the directory is still reported, once
	func(r *rec, s *session, u *universe) {
		s.opAdd(r, ".", 0x1f, false)
		s.opAdd(r, "./", 0x1f, false)
		wd := s.wdFor(".")
		s.rawRecs(r, rawRec{wd: wd, mask: inCreate, name: kernelPad("file")}, rawRec{wd: wd, mask: inDelete, name: kernelPad("file")})
		s.opWatchList(r)
		s.rawRecs(r, rawRec{wd: wd, mask: inDeleteSelf}, rawRec{wd: wd, mask: inIgnored})
		s.opWatchList(r)
	},
	// stale read buffer: two or three reads with the same layout (same watches, same offsets, same padded
	// name lengths) and different names, with no barrier read in between. Anything that remembers names
	// by reference to the read buffer (a cache, a slice kept across reads) answers with an earlier name.
	func(r *rec, s *session, u *universe) {
		s.opAdd(r, "d1", 0x1f, false)
		wd := s.wdFor("d1")
		s.opRawMulti(r,
			recsBytes(rawRec{wd: wd, mask: inAttrib}, rawRec{wd: wd, mask: inCreate, name: kernelPad("alpha")}),
			recsBytes(rawRec{wd: wd, mask: inAttrib}, rawRec{wd: wd, mask: inCreate, name: kernelPad("bravo")}),
			recsBytes(rawRec{wd: wd, mask: inAttrib}, rawRec{wd: wd, mask: inModify, name: kernelPad("charlie")}))
		s.opRawMulti(r,
			recsBytes(rawRec{wd: 999, mask: inModify, name: kernelPad("unknown-watch")}, rawRec{wd: wd, mask: inCreate, name: kernelPad("x1")}, rawRec{wd: wd, mask: inModify, name: kernelPad("y1")}),
			recsBytes(rawRec{wd: 999, mask: inModify, name: kernelPad("unknown-watch")}, rawRec{wd: wd, mask: inCreate, name: kernelPad("x2")}, rawRec{wd: wd, mask: inModify, name: kernelPad("y2")}))
		s.opRawMulti(r,
			recsBytes(rawRec{wd: 0xffffffff, mask: inQOverflow}, rawRec{wd: wd, mask: inCreate, name: kernelPad(strings.Repeat("p", 40))}),
			recsBytes(rawRec{wd: wd, mask: inIsdir | inAttrib}, rawRec{wd: wd, mask: inDelete, name: kernelPad(strings.Repeat("q", 40))}))
	},
}
