package main

func runInject(r *rec, g *rng, tier, what, replay, out string, extra map[string]interface{}) {}
