package main

import (
	"bufio"
	"fmt"
	"os"
	"strconv"
	"strings"
)

type kmark struct {
	wd   uint32
	ino  uint64
	sdev uint64
	mask uint32
}

// readFdinfo parses the "inotify wd:… ino:… sdev:… mask:…" lines of /proc/self/fdinfo/<fd>:
// the kernel's own list of marks of this inotify instance (ground truth for C12).
func readFdinfo(fd int) []kmark {
	f, err := os.Open(fmt.Sprintf("/proc/self/fdinfo/%d", fd))
	if err != nil {
		return nil
	}
	defer f.Close()
	var out []kmark
	sc := bufio.NewScanner(f)
	for sc.Scan() {
		ln := sc.Text()
		if !strings.HasPrefix(ln, "inotify ") {
			continue
		}
		var m kmark
		for _, fld := range strings.Fields(ln)[1:] {
			kv := strings.SplitN(fld, ":", 2)
			if len(kv) != 2 {
				continue
			}
			switch kv[0] {
			case "wd":
				v, _ := strconv.ParseUint(kv[1], 16, 32) // the kernel prints wd in hex
				m.wd = uint32(v)
			case "ino":
				m.ino, _ = strconv.ParseUint(kv[1], 16, 64)
			case "sdev":
				m.sdev, _ = strconv.ParseUint(kv[1], 16, 64)
			case "mask":
				v, _ := strconv.ParseUint(kv[1], 16, 32)
				m.mask = uint32(v)
			}
		}
		out = append(out, m)
	}
	return out
}
