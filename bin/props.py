"""Per-property configuration of bin/check."""

COMMON_TRUSTED = [
    "Lean 4.33.0 kernel (axioms per theorem listed under coverage.axioms; allowed: propext, Classical.choice, Quot.sound)",
    "tools/gotolean (Go source -> Lean definitions / fact tables), cross-checked by the differential stage",
    "harness + hooks (verif_hooks*.go) and the canonicaliser of the line protocol",
]

PROPS = {
    "C15": {
        "lean": ["FsnVerif.Props.C15"],
        "lean_support": ["FsnVerif.Proofs.BitsLemmas", "FsnVerif.Proofs.BridgeTables", "FsnVerif.Model.Bits"],
        "stages": [{"name": "pure", "cmd": "pure", "what": "C15"}],
        "rule": "inotify newEvent on every subset of the 12 event bits (with/without IN_ISDIR), every single bit and random "
                "32-bit masks; AddWith for all 2^9 op subsets x noFollow against the real kernel (stored flags and "
                "/proc/self/fdinfo mask); xSupports for all 2^9 subsets. distinct = distinct (op kind, answer) pairs",
        "assumptions": ["kqueue / Windows / FEN translators are tied by regeneration + proof only (they cannot run on Linux)"],
    },
    "C16": {
        "lean": ["FsnVerif.Props.C16"],
        "lean_support": ["FsnVerif.Proofs.BitsLemmas", "FsnVerif.Proofs.OpStringLemmas", "FsnVerif.Proofs.BridgeTables", "FsnVerif.Model.Bits"],
        "stages": [{"name": "pure", "cmd": "pure", "what": "C16"}],
        "rule": "Op.String exhaustively over the low 16 bits plus random 32-bit values; Op.Has / Event.Has on a grid of "
                "low-9-bit pairs plus random pairs; Event.String over a corpus of names (empty, quotes, newlines, "
                "non-UTF-8). distinct = distinct (op kind, answer) pairs",
        "assumptions": ["Go's %q (strconv.Quote) and %-13s are parameters of the model, instantiated by the harness"],
    },
}


def tolerated(pid, op, impl, model):
    """Disagreements that are not meaningful (none so far)."""
    return False


def classify(pid, dsg):
    """Canonical signature of a disagreement (used to match known findings)."""
    op = dsg["op"].split(" ")
    kind = op[1] if len(op) > 1 else "?"
    return f"{pid}:corr:{kind}"
