"""Per-property configuration of bin/check."""

COMMON_TRUSTED = [
    "Lean 4.33.0 kernel (axioms per theorem listed under coverage.axioms; allowed: propext, Classical.choice, Quot.sound)",
    "tools/gotolean (Go source -> Lean definitions / fact tables), cross-checked by the differential stage",
    "harness + hooks (verif_hooks*.go) and the canonicaliser of the line protocol",
]

INJECT_RULE = ("sessions of Add/Remove/WatchList (all path spellings, valid and malformed paths, symlinks, hard links, "
               "retargeted links, deleted+recreated files) interleaved with synthetic inotify datagrams (1..30 records per "
               "read, plus long reads of 150-600 create/write/remove records; Events buffer 0/1/2/7/64/4096; consumer pace "
               "immediate / delayed (random pause before every receive) / bursty (paused, then drains at full speed); masks: every meaningful bit and combinations; wd: listed / removed / never issued / -1; cookies: 0, "
               "fresh, matching, repeated; names of 1..255 bytes at every padding residue, over-padded, unpadded, interior "
               "NUL) fed to the unmodified readEvents through a SOCK_SEQPACKET pair; hand-picked corpus histories first; "
               "every answer (return class, event sequence, error sequence, both tables, cookie ring) compared with the "
               "compiled Lean model. distinct = distinct (op kind, answer) pairs")

LIVE_RULE = ("; LIVE stage: the same Watcher construction, but the datagrams are the bytes the harness reads from the REAL "
             "inotify descriptor after real file-system operations (create, write, truncate, chmod, unlink, mkdir, rename "
             "within/across/onto/out, hard link, symlink, unlink-while-open, close, recreate, rm -r) with the reader lagging "
             "1-4 steps behind; after every drain /proc/self/fdinfo is compared with both tables and WatchList (C12 both "
             "directions) and the kernel-contract monitors K2/K4 run on the recorded stream")

CONC_RULE = ("GENUINE Watchers (NewWatcher / NewBufferedWatcher, nothing replaced): scenarios = buffer sizes x consumer behaviours "
             "{both, only Events, only Errors, neither, stops midway} x pending {idle, burst beyond capacity, rename-then-"
             "delete (pending error), kernel queue overflow}; every control call runs under an 8 s watchdog with goroutine "
             "dump; after Close both channels must be closed, the API inert, nothing received after the close; C06/C07: hundreds of rounds of 6 Add + "
             "1 Remove goroutines racing Close (a call acting after the descriptor is released must answer ErrClosed / nil)")

KQ_RULE = ("the REAL backend_kqueue.go + fsnotify.go + shared.go + system_bsd.go copied verbatim at check time (only the build-"
           "tag line and three import paths rewritten) and compiled on Linux against kqsim stand-ins; sessions over "
           "directories with files, a subdirectory, a symlink and (every 4th session) a FIFO; steps create / write / chmod / "
           "truncate / remove / rename (also onto an existing name) / mkdir / rmdir / symlink / create-in-subdir, Add (also "
           "with a trailing slash) and Remove of user paths, then Remove of everything and Close; after every step: expected "
           "events by the C18 oracle (multiset), descriptor accounting (simulated registry and /proc/self/fd), WatchList = user "
           "paths, the path table = user paths + existing files/directories of the watched directories, and the Lean invariant "
           "KState.invReport evaluated on a snapshot of the implementation's tables; 12% of the steps are coalesced batches "
           "(simulated kernel held while 2-4 operations run, optionally ending with the watched directory renamed away or "
           "removed with rm -r); corpus sessions reproduce every listed finding; finally the repository's testdata scripts are "
           "replayed and compared with upstream's recorded kqueue expectations")

PROPS = {
    "C15": {
        "lean": ["FsnVerif.Props.C15"],
        "lean_support": ["FsnVerif.Proofs.BitsLemmas", "FsnVerif.Proofs.BridgeTables", "FsnVerif.Proofs.BridgeEventOp", "FsnVerif.Model.Bits"],
        "stages": [{"name": "pure", "cmd": "pure", "what": "C15"}],
        "rule": "inotify newEvent on every subset of the 12 event bits (with/without IN_ISDIR), every single bit and random "
                "32-bit masks; AddWith for all 2^9 op subsets x noFollow against the real kernel (stored flags and "
                "/proc/self/fdinfo mask); xSupports for all 2^9 subsets. distinct = distinct (op kind, answer) pairs",
        "assumptions": ["kqueue / Windows / FEN translators are tied by regeneration + proof only (they cannot run on Linux)"],
    },
    "C01": {
        "lean": ["FsnVerif.Props.C01"],
        "lean_support": ["FsnVerif.Proofs.DecodeLemmas", "FsnVerif.Proofs.InotifyLemmas", "FsnVerif.Model.Inotify", "FsnVerif.Model.Decode"],
        "stages": [{"name": "inject", "cmd": "inject", "what": "C01", "sessions": True},
                   {"name": "live", "cmd": "live", "what": "C01", "sessions": True}],
        "rule": INJECT_RULE + LIVE_RULE,
        "assumptions": ["kernel raises a record for every change (K-live) and delivers them FIFO (K2): validated by tee/live monitors, not proved",
                        "Go channel semantics behind sendEvent (modelled in Model/Proto)"],
    },
    "C02": {
        "lean": ["FsnVerif.Props.C02"],
        "lean_support": ["FsnVerif.Proofs.InotifyLemmas", "FsnVerif.Proofs.ALLemmas", "FsnVerif.Proofs.BridgeEventOp", "FsnVerif.Model.Inotify"],
        "stages": [{"name": "inject", "cmd": "inject", "what": "C02", "sessions": True},
                   {"name": "live", "cmd": "live", "what": "C02", "sessions": True}],
        "rule": INJECT_RULE + LIVE_RULE,
        "assumptions": ["K1 (a wd is not reissued while stale records for it are queued), K2/K3 (nothing but IN_IGNORED after rm_watch)"],
    },
    "C03": {
        "lean": ["FsnVerif.Props.C03"],
        "lean_support": ["FsnVerif.Proofs.InotifyLemmas", "FsnVerif.Proofs.RingLemmas", "FsnVerif.Model.Inotify"],
        "stages": [{"name": "inject", "cmd": "inject", "what": "C03", "sessions": True},
                   {"name": "live", "cmd": "live", "what": "C03", "sessions": True}],
        "rule": INJECT_RULE + LIVE_RULE,
        "assumptions": ["kernel queue order (K2); Go channel FIFO (language specification)"],
    },
    "C08": {
        "lean": ["FsnVerif.Props.C08"],
        "lean_support": ["FsnVerif.Proofs.InotifyLemmas", "FsnVerif.Proofs.ALLemmas", "FsnVerif.Proofs.DecodeLemmas", "FsnVerif.Proofs.PathLemmas", "FsnVerif.Proofs.PathShape", "FsnVerif.Proofs.TrimLemmas", "FsnVerif.Model.Path"],
        "stages": [{"name": "inject", "cmd": "inject", "what": "C08", "sessions": True},
                   {"name": "live", "cmd": "live", "what": "C08", "sessions": True},
                   {"name": "path", "cmd": "pure", "what": "path"}],
        "rule": INJECT_RULE + "; filepath.Clean/Dir/Base/recursivePath vs the Lean model exhaustively over {a . /}^<=7 (9 thorough) and random wide paths",
        "assumptions": ["filepath.Clean/Dir/Base are standard library: modelled in Lean and validated differentially, not proved"],
    },
    "C11": {
        "lean": ["FsnVerif.Props.C11"],
        "lean_support": ["FsnVerif.Proofs.RingLemmas", "FsnVerif.Proofs.InotifyLemmas", "FsnVerif.Model.Inotify"],
        "stages": [{"name": "inject", "cmd": "inject", "what": "C11", "sessions": True},
                   {"name": "live", "cmd": "live", "what": "C11", "sessions": True}],
        "rule": INJECT_RULE + LIVE_RULE,
        "assumptions": ["K5: rename cookies are non-zero and pairwise distinct within any window of 2^32 renames"],
    },
    "C04": {
        "lean": ["FsnVerif.Props.C04"],
        "lean_support": ["FsnVerif.Proofs.InvLemmas", "FsnVerif.Proofs.ALLemmas", "FsnVerif.Props.C12", "FsnVerif.Model.Inotify"],
        "stages": [{"name": "inject", "cmd": "inject", "what": "C04", "sessions": True},
                   {"name": "live", "cmd": "live", "what": "C04", "sessions": True}],
        "rule": INJECT_RULE + LIVE_RULE,
        "assumptions": ["path resolution (which inode a path names, and the errors for missing / non-directory / loop / over-long "
                        "paths) is the kernel's: an unconstrained input of the model, exercised on the real file system",
                        "K0/K1: inotify_add_watch never answers wd 0; answers the existing wd for an inode that has a mark"],
    },
    "C09": {
        "lean": ["FsnVerif.Props.C09"],
        "lean_support": ["FsnVerif.Proofs.InvLemmas", "FsnVerif.Proofs.CleanLemmas", "FsnVerif.Proofs.PathLemmas", "FsnVerif.Props.C12", "FsnVerif.Props.C02", "FsnVerif.Props.C08", "FsnVerif.Proofs.PathShape", "FsnVerif.Model.Inotify"],
        "stages": [{"name": "inject", "cmd": "inject", "what": "C09", "sessions": True},
                   {"name": "live", "cmd": "live", "what": "C09", "sessions": True}],
        "rule": INJECT_RULE + LIVE_RULE,
        "assumptions": ["the kernel decides when IN_DELETE_SELF / IN_IGNORED / IN_MOVE_SELF are raised (K2)",
                        "filepath.Clean is modelled (Model/Path.clean, proved idempotent) and validated differentially against the real function"],
    },
    "C10": {
        "lean": ["FsnVerif.Props.C10"],
        "lean_support": ["FsnVerif.Proofs.InotifyLemmas", "FsnVerif.Model.Inotify"],
        "stages": [{"name": "inject", "cmd": "inject", "what": "C10", "sessions": True},
                   {"name": "live", "cmd": "live", "what": "C10", "sessions": True},
                   {"name": "conc", "cmd": "conc", "what": "C10", "replayable": False}],
        "rule": INJECT_RULE + LIVE_RULE,
        "assumptions": ["K3: inotify_rm_watch fails only with EINVAL (mark gone) while the descriptor is open",
                        "read errors of the inotify descriptor (EOF, short read) are the runtime's and are not modelled"],
    },
    "C12": {
        "lean": ["FsnVerif.Props.C12"],
        "lean_support": ["FsnVerif.Proofs.InvLemmas", "FsnVerif.Proofs.ALLemmas", "FsnVerif.Model.Inotify", "FsnVerif.Model.Kernel", "FsnVerif.Proofs.KernelLemmas", "FsnVerif.Proofs.KernelInv"],
        "stages": [{"name": "inject", "cmd": "inject", "what": "C12", "sessions": True},
                   {"name": "live", "cmd": "live", "what": "C12", "sessions": True}],
        "rule": INJECT_RULE + LIVE_RULE,
        "assumptions": ["the kernel's own mark list (/proc/self/fdinfo) is ground truth only at run time (live stage, after every quiescent point)",
                        "K0-K3, K6"],
    },
    "C05": {
        "lean": ["FsnVerif.Props.C05"],
        "lean_support": ["FsnVerif.Proofs.ProtoLemmas", "FsnVerif.Proofs.ProtoTables", "FsnVerif.Proofs.ProtoTables1", "FsnVerif.Proofs.ProtoTables1Defs", "FsnVerif.Proofs.ProtoTables1a", "FsnVerif.Proofs.ProtoTables1b", "FsnVerif.Proofs.ProtoTables1c", "FsnVerif.Proofs.ProtoTables1d", "FsnVerif.Proofs.ProtoTables2", "FsnVerif.Proofs.ProtoTables3", "FsnVerif.Proofs.SkeletonTie", "FsnVerif.Proofs.SkeletonTieDefs", "FsnVerif.Proofs.SkeletonTieFns", "FsnVerif.Model.Proto", "FsnVerif.Expected.Skeleton"],
        "stages": [{"name": "conc", "cmd": "conc", "what": "C05"}],
        "rule": CONC_RULE,
        "assumptions": ["Go scheduler fair to runnable goroutines; sync.Mutex starvation-free; File.Close wakes a blocked Read (runtime poller)",
                        "K3: an error can be pending inside handleEvent only when the inotify file is closed (C10.remove_ret)"],
    },
    "C06": {
        "lean": ["FsnVerif.Props.C06"],
        "lean_support": ["FsnVerif.Proofs.ProtoLemmas", "FsnVerif.Proofs.ProtoTables", "FsnVerif.Proofs.ProtoTables1", "FsnVerif.Proofs.ProtoTables1Defs", "FsnVerif.Proofs.ProtoTables1a", "FsnVerif.Proofs.ProtoTables1b", "FsnVerif.Proofs.ProtoTables1c", "FsnVerif.Proofs.ProtoTables1d", "FsnVerif.Proofs.ProtoTables2", "FsnVerif.Proofs.ProtoTables3", "FsnVerif.Proofs.SkeletonTie", "FsnVerif.Proofs.SkeletonTieDefs", "FsnVerif.Proofs.SkeletonTieFns", "FsnVerif.Model.Proto", "FsnVerif.Expected.Skeleton"],
        "stages": [{"name": "conc", "cmd": "conc", "what": "C06"}],
        "rule": CONC_RULE,
        "assumptions": ["Go channel/select semantics as modelled; runtime poller behaviour on File.Close"],
    },
    "C07": {
        "lean": ["FsnVerif.Props.C07"],
        "lean_support": ["FsnVerif.Proofs.ProtoLemmas", "FsnVerif.Proofs.ProtoTables", "FsnVerif.Proofs.ProtoTables1", "FsnVerif.Proofs.ProtoTables1Defs", "FsnVerif.Proofs.ProtoTables1a", "FsnVerif.Proofs.ProtoTables1b", "FsnVerif.Proofs.ProtoTables1c", "FsnVerif.Proofs.ProtoTables1d", "FsnVerif.Proofs.ProtoTables2", "FsnVerif.Proofs.ProtoTables3", "FsnVerif.Proofs.SkeletonTie", "FsnVerif.Proofs.SkeletonTieDefs", "FsnVerif.Proofs.SkeletonTieFns", "FsnVerif.Model.Proto", "FsnVerif.Expected.Skeleton", "FsnVerif.Props.C12", "FsnVerif.Proofs.InvLemmas", "FsnVerif.Model.Inotify"],
        "stages": [{"name": "conc", "cmd": "conc", "what": "C07"}],
        "rule": CONC_RULE + "; C07: 2-4 goroutines x 4 calls of Add/Remove/WatchList on 3 directories while another goroutine creates and deletes files in them; every recorded history is checked for linearizability against the set specification (porcupine); Add/Remove racing Close must return nil/ErrClosed/ErrNonExistentWatch only",
        "assumptions": ["Go memory model / race detector coverage are not Lean objects: data-race freedom of the binary is evidenced, not proved"],
    },
    "C13": {
        "lean": ["FsnVerif.Props.C13"],
        "lean_support": ["FsnVerif.Props.C06", "FsnVerif.Proofs.ProtoLemmas", "FsnVerif.Proofs.SkeletonTie", "FsnVerif.Proofs.SkeletonTieDefs", "FsnVerif.Proofs.SkeletonTieFns", "FsnVerif.Model.Proto"],
        "stages": [{"name": "conc", "cmd": "conc", "what": "C13"}],
        "rule": CONC_RULE + "; C13: inotify descriptors in /proc/self/fd and readEvents frames in the goroutine dump before/after create-use-close cycles with pending events, concurrent Close, Close racing Add; NewWatcher forced to fail by exhausting fs.inotify.max_user_instances",
        "assumptions": ["K6: closing the inotify descriptor frees every kernel watch; descriptor release and goroutine termination are the OS's / runtime's (measured)"],
    },
    "C14": {
        "lean": ["FsnVerif.Props.C14"],
        "lean_support": ["FsnVerif.Model.Chan", "FsnVerif.Proofs.SkeletonTieCaps", "FsnVerif.Proofs.BridgeCaps"],
        "stages": [{"name": "conc", "cmd": "conc", "what": "C14"}],
        "rule": CONC_RULE + "; C14: 1-8 Watchers with buffers {0,1,2,4,64,4096,65536,3} on one directory, one sequential history, Add/Remove/WatchList/Close churn on the others: event sequences must be identical; cap(Events) read directly; absorb test per size",
        "assumptions": ["kernel isolation between inotify instances (measured)"],
    },
    "C17": {
        "lean": ["FsnVerif.Props.C17"],
        "lean_support": ["FsnVerif.Proofs.KqLemmas", "FsnVerif.Model.Kqueue", "FsnVerif.Model.KqFull", "FsnVerif.Proofs.KqFullLemmas", "FsnVerif.Proofs.KqFullInv", "FsnVerif.Proofs.KqFullFrame", "FsnVerif.Proofs.KqFullRemove", "FsnVerif.Proofs.KqFullQueueGone"],
        "stages": [{"name": "kq", "cmd": "scratch:kq", "what": "C17", "session_ops": ["kqf", "reset"]}],
        "rule": KQ_RULE,
        "assumptions": ["the kqueue kernel interface is SIMULATED (kqsim/unix): EVFILT_VNODE knotes with EV_CLEAR coalescing, close-pipe EOF; "
                        "NOTE_* raised on the vnodes FreeBSD would; validated on every run by replaying the repository's testdata scripts against upstream's recorded kqueue/freebsd expectations (41 match, 25 skipped by their own require lines), not against a real BSD/macOS kernel (none available)"],
    },
    "C18": {
        "lean": ["FsnVerif.Props.C18"],
        "lean_support": ["FsnVerif.Model.Kqueue", "FsnVerif.Model.KqFull", "FsnVerif.Proofs.KqFullLemmas", "FsnVerif.Proofs.KqFullFrame", "FsnVerif.Proofs.KqFullEvents"],
        "stages": [{"name": "kq", "cmd": "scratch:kq", "what": "C18", "session_ops": ["kqf", "reset"]}],
        "rule": KQ_RULE,
        "assumptions": ["as C17; event order within one kevent batch follows descriptor order in the simulation: events of one step are compared as multisets"],
    },
    "C19": {
        "lean": ["FsnVerif.Props.C19"],
        "lean_support": ["FsnVerif.Model.Inotify", "FsnVerif.Proofs.ALLemmas"],
        "stages": [{"name": "recur", "cmd": "recur", "what": "C19", "sessions": True}],
        "rule": "recursion enabled (VerifSetRecurse); two recursive roots r/... and r2/... over trees whose sibling names share "
                "prefixes (dir1/dir10/dir100, sub/sub2, x/x0); steps: file write/chmod/unlink at every depth, mkdir of ONE new "
                "level, rename of an inner directory within its own tree, rmdir, Remove / re-Add of one root; after every step "
                "the real kernel queue is drained into the reader (kernel answers for registrations supplied by inode "
                "identity) and everything compared with the Lean model; independent monitor: every event is named by a "
                "path the step really touched, steps inside a covered tree are reported, steps outside are not, Errors stays silent",
        "assumptions": ["bursts (mkdir -p) and moves across the tree boundary are outside the property's quantifier and are not generated"],
    },
    "C20": {
        "lean": ["FsnVerif.Props.C20"],
        "lean_support": ["FsnVerif.Model.Diff", "FsnVerif.Proofs.DiffLemmas", "FsnVerif.Proofs.DiffValid", "FsnVerif.Proofs.DiffSelf", "FsnVerif.Proofs.DiffGroups"],
        "stages": [{"name": "diff", "cmd": "scratch:diff", "what": "C20"}],
        "rule": "internal/ztest/diff.go copied verbatim into a scratch package with exported wrappers; matching blocks, opcodes, "
                "grouped opcodes and the final Diff text compared with the Lean model exhaustively for all pairs of line "
                "sequences over a three-letter alphabet up to length 4 (5 thorough), for random long sequences with many "
                "repeats and for texts with empty lines / missing final newline / surrounding white space; an independent "
                "monitor applies the implementation's textual diff to the first text and checks headers and context width",
        "assumptions": ["strings.TrimSpace / regexp (DiffMatch) are standard library: DiffMatch's placeholder expansion is exercised, not modelled"],
    },
    "C16": {
        "lean": ["FsnVerif.Props.C16"],
        "lean_support": ["FsnVerif.Proofs.BitsLemmas", "FsnVerif.Proofs.OpStringLemmas", "FsnVerif.Proofs.BridgeString", "FsnVerif.Model.Bits"],
        "stages": [{"name": "pure", "cmd": "pure", "what": "C16"}],
        "rule": "Op.String exhaustively over the low 16 bits plus random 32-bit values; Op.Has / Event.Has on a grid of "
                "low-9-bit pairs plus random pairs; Event.String over a corpus of names (empty, quotes, newlines, "
                "non-UTF-8). distinct = distinct (op kind, answer) pairs",
        "assumptions": ["Go's %q (strconv.Quote) and %-13s are parameters of the model, instantiated by the harness"],
    },
}



# ---------------------------------------------------------------------------
# Comparison of implementation and model answers.
#
# Stateful stages (sessions of ops on one Watcher) produce lines
#   "<seq> R <ret> | E <events> | X <errors> | W <wd table> | P <path table> | C <ring>"
# A property only owns some of these fields. Within a session only the FIRST line on which the
# two sides differ is examined (after it the states have diverged and nothing can be attributed);
# it counts for property P iff P's projection of that line differs.

def _fields(line):
    parts = line.split(" | ")
    d = {}
    for p in parts:
        p = p.strip()
        # the first part carries the sequence number
        toks = p.split(" ", 2) if p[:1].isdigit() else None
        if toks and len(toks) >= 2 and toks[0].isdigit():
            key, val = toks[1], (toks[2] if len(toks) > 2 else "")
        else:
            kv = p.split(" ", 1)
            key, val = kv[0], (kv[1] if len(kv) > 1 else "")
        d[key] = val
    return d


def _events(f):
    evs = [e for e in f.get("E", "").split(",") if e]
    return [tuple(e.split(":")) for e in evs]     # (name, op, renamedFrom)


def _ms(xs):
    return sorted(xs)


def _sub(a, b):
    """multiset difference a - b"""
    b = list(b)
    out = []
    for x in a:
        if x in b:
            b.remove(x)
        else:
            out.append(x)
    return out


def differs(pid, impl, model):
    if "BARRIER-TIMEOUT" in impl and "BARRIER-TIMEOUT" not in model:
        # the reader never got to the end of the datagram: what follows it is lost (C01) and the
        # goroutine is stuck (the termination properties); nothing can be said about names, order, ...
        return pid == "C01" or pid in HANG_OWNERS
    fi, fm = _fields(impl), _fields(model)
    ei, em = _events(fi), _events(fm)
    ops_i, ops_m = [e[1] for e in ei], [e[1] for e in em]
    nameop_i, nameop_m = [(e[0], e[1]) for e in ei], [(e[0], e[1]) for e in em]
    if pid == "C01":   # lost: an operation the model reports is missing (or an overflow is not announced)
        return bool(_sub(ops_m, ops_i)) or fi.get("X", "").count("ErrEventOverflow") < fm.get("X", "").count("ErrEventOverflow")
    if pid == "C02":   # phantom: the implementation reports an operation the model does not
        return bool(_sub(ops_i, ops_m))
    if pid == "C03":   # order: same multiset of (name, op), different sequence; or a rename pair torn apart
        if sorted(nameop_i) == sorted(nameop_m) and nameop_i != nameop_m:
            return True

        def adjacent_pairs(ev):   # Creates carrying an old name that directly follow the Rename of that name
            out = set()
            for k, e in enumerate(ev):
                if len(e) > 2 and e[2] not in ("", "-") and k > 0 and ev[k - 1][0] == e[2] and int(ev[k - 1][1], 16) & 0x8:
                    out.add((e[0], e[2]))
            return out
        carried_i = {(e[0], e[2]) for e in ei if len(e) > 2 and e[2] not in ("", "-")}
        return bool((adjacent_pairs(em) & carried_i) - adjacent_pairs(ei))
    if pid == "C08":   # names: same operations, different spelling
        return sorted(ops_i) == sorted(ops_m) and sorted(nameop_i) != sorted(nameop_m)
    if pid == "C11":   # rename correlation: same events, different old names or ring contents
        return nameop_i == nameop_m and ([e[2:] for e in ei] != [e[2:] for e in em] or fi.get("C") != fm.get("C"))
    if pid == "C10":
        return fi.get("X", "") != fm.get("X", "")
    if pid in ("C04", "C09"):
        def rc(x):   # the property fixes only nil / ErrNonExistentWatch / ErrClosed / no panic; other errors are "an error"
            return x if x in ("nil", "ErrNonExistentWatch", "ErrClosed", "PANIC", None) else "error"
        return (rc(fi.get("R")), fi.get("L"), fi.get("P")) != (rc(fm.get("R")), fm.get("L"), fm.get("P"))
    if pid == "C12":
        return (fi.get("W"), fi.get("P")) != (fm.get("W"), fm.get("P"))
    if pid == "C17":   # full kqueue model: return class, the five tables, open descriptors, knotes, WatchList, the questions asked
        return any(fi.get(k) != fm.get(k) for k in ("R", "T", "F", "K", "L", "B"))
    if pid == "C18":   # full kqueue model: the sequence of events and errors delivered
        return any(fi.get(k) != fm.get(k) for k in ("E", "X"))
    return impl != model


# properties that promise that calls return (a hang in a sequential session is their failing input)
HANG_OWNERS = ("C04", "C05", "C07")


def _internal_only(impl, model):
    fi, fm = _fields(impl), _fields(model)
    keys = set(fi) | set(fm)
    return all(fi.get(k) == fm.get(k) for k in keys if k not in ("W", "C"))


def compare(pid, stage, ops, impl, model):
    """returns (disagreements, number of session divergences owned by other properties)"""
    out, other = [], 0
    if len(impl) != len(model):
        # the harness died in the middle of an op (panic in a library goroutine): the op it was
        # executing is the failing input
        n = min(len([x for x in impl if x]), len([x for x in model if x]))
        crashed = ops[n] if n < len(ops) else "(unknown)"
        out.append({"op": crashed, "impl": "(process died while executing this op)", "model": model[n] if n < len(model) else ""})
    sessioned_all = stage.get("sessions", False)
    session_ops = stage.get("session_ops")
    diverged = False
    cur_session = None
    import re as _re
    # C03 also reads each session as a whole: the same events over the session, delivered in another order
    # (a change that moves an event from one notification to a later one differs line by line as a missing
    # and an extra event, which are C01's and C02's readings)
    sess_i, sess_m, sess_first, sess_flagged = [], [], None, False

    def close_session():
        nonlocal sess_i, sess_m, sess_first, sess_flagged
        if pid == "C03" and sess_first is not None and not sess_flagged and sorted(sess_i) == sorted(sess_m) and sess_i != sess_m:
            out.append(dict(sess_first, whole_session_order=True))
        sess_i, sess_m, sess_first, sess_flagged = [], [], None, False

    sess_start = 0
    for idx, (o, a, b) in enumerate(zip(ops, impl, model)):
        if not o:
            continue
        toks = o.split(" ", 2)
        sessioned = sessioned_all or (session_ops is not None and len(toks) > 1 and toks[1] in session_ops)
        if sessioned and " reset" in o[:16]:
            close_session()
            sess_start = idx
            diverged = False
            m = _re.search(r"session=(\d+)", o)
            cur_session = int(m.group(1)) if m else None
        if pid == "C03" and sessioned and len(toks) > 1 and toks[1] == "raw" and "BARRIER-TIMEOUT" not in a:
            sess_i += [(e[0], e[1]) for e in _events(_fields(a))]
            sess_m += [(e[0], e[1]) for e in _events(_fields(b))]
            if a != b and sess_first is None:
                sess_first = {"op": o, "impl": a, "model": b, "session_op": True, "session": cur_session, "stage": stage["name"]}
        if a == b or diverged:
            continue
        if sessioned:
            # every property reads the whole session through its own projection: the first line on
            # which THIS property's projection differs is its failing input, whatever diverged before
            # (a watch that wrongly survives is C04's business when it shows in WatchList and C02's
            # when an event is later reported through it). One report per session.
            if differs(pid, a, b):
                diverged = True
                sess_flagged = True
                # the history that leads to the failing line (the session from its reset on; long lines shortened)
                hist = [x if len(x) <= 240 else x[:240] + "…" for x in ops[sess_start:idx + 1] if x][-120:]
                out.append({"op": o, "impl": a, "model": b, "session_op": True, "session": cur_session, "stage": stage["name"],
                            "session_ops": hist})
            else:
                other += 1
        elif pid == "C18" and " kqstate " in o[:24]:
            other += 1           # the table invariant is C17's statement; C18 is about the events
        else:
            out.append({"op": o, "impl": a, "model": b})
        if len(out) >= 25:
            break
    close_session()
    return out, other


def build_scratch(kind, sd, repo, verif, goenv, run):
    """copy the template + the current source files of /repo into a scratch module and build it"""
    import os, shutil
    os.makedirs(sd, exist_ok=True)
    if kind == "diff":
        t = os.path.join(verif, "diffharness")
        os.makedirs(os.path.join(sd, "ztest"), exist_ok=True)
        shutil.copy(os.path.join(t, "go.mod"), os.path.join(sd, "go.mod"))
        shutil.copy(os.path.join(t, "main.go.txt"), os.path.join(sd, "main.go"))
        shutil.copy(os.path.join(t, "ztest", "export.go.txt"), os.path.join(sd, "ztest", "export.go"))
        shutil.copy(os.path.join(repo, "internal", "ztest", "diff.go"), os.path.join(sd, "ztest", "diff.go"))
    elif kind == "kq":
        # the REAL kqueue backend compiled on Linux against stand-ins: verbatim copies with only the
        # build-tag line and three import paths rewritten
        import re
        t = os.path.join(verif, "kqsim")
        for sub in ("unix", "intern", "fsn", "kqos"):
            os.makedirs(os.path.join(sd, sub), exist_ok=True)
        shutil.copy(os.path.join(t, "go.mod"), os.path.join(sd, "go.mod"))
        shutil.copy(os.path.join(t, "main.go.txt"), os.path.join(sd, "main.go"))
        shutil.copy(os.path.join(t, "unix", "unix.go.txt"), os.path.join(sd, "unix", "unix.go"))
        shutil.copy(os.path.join(t, "intern", "intern.go.txt"), os.path.join(sd, "intern", "intern.go"))
        shutil.copy(os.path.join(t, "kqos", "kqos.go.txt"), os.path.join(sd, "kqos", "kqos.go"))
        shutil.copy(os.path.join(t, "fsn", "hooks.go.txt"), os.path.join(sd, "fsn", "hooks.go"))
        shutil.copy(os.path.join(t, "scripts.go.txt"), os.path.join(sd, "scripts.go"))
        shutil.copy(os.path.join(t, "script_deviations.json"), os.path.join(sd, "script_deviations.json"))
        shutil.rmtree(os.path.join(sd, "testdata"), ignore_errors=True)
        shutil.copytree(os.path.join(repo, "testdata"), os.path.join(sd, "testdata"))
        for f in ("backend_kqueue.go", "fsnotify.go", "shared.go", "system_bsd.go"):
            src = open(os.path.join(repo, f)).read()
            src = re.sub(r"^//go:build [^\n]*\n", "//go:build linux\n", src, count=1)
            src = src.replace('"golang.org/x/sys/unix"', '"kqscratch/unix"')
            src = src.replace('"github.com/fsnotify/fsnotify/internal"', 'internal "kqscratch/intern"')
            if f == "backend_kqueue.go":
                # package os -> a forwarding stand-in that records every answer on the oracle tape
                src = src.replace('\t"os"\n', '\tos "kqscratch/kqos"\n', 1)
            open(os.path.join(sd, "fsn", f), "w").write(src)
    else:
        return 2, "unknown scratch kind " + kind
    rc, out, _ = run(["go", "build", "-o", os.path.join(sd, "scratchbin"), "."], cwd=sd, env=goenv)
    return rc, out


def tolerated(pid, op, impl, model):
    """Disagreements that are not meaningful (none so far)."""
    return False


def classify(pid, dsg):
    """Canonical signature of a disagreement (used to match known findings)."""
    op = dsg["op"].split(" ")
    kind = op[1] if len(op) > 1 else "?"
    if kind == "kqstate":      # the clause of the table invariant the model names
        m = dsg.get("model", "").split("INV-VIOLATED ")
        if len(m) > 1:
            return f"{pid}:corr:kqstate:{m[1].strip()}"
    return f"{pid}:corr:{kind}"
