HOOK_COMMITS = ["c42e6f6", "5e78192"]
NOTES = ("See DESIGN.md. Every check regenerates Lean definitions from /repo's working tree, rebuilds the property's "
         "theorems, audits their axioms, and runs the differential correspondence between the compiled Lean model and "
         "the implementation built with -tags verif.")
NOT_APPLICABLE = {}
_INJ = ("Tie: hand-written executable Lean model of backend_inotify.go (decode loop, both tables, register/updatePath, "
        "remove/removePath, handleEvent, newEvent + cookie ring) run against the UNMODIFIED readEvents goroutine fed "
        "through a SOCK_SEQPACKET pair with generated inotify byte streams and API calls; every answer (return class, "
        "event sequence, error sequence, both tables, ring) is compared on every run. ")
_INJ_NOTE = ("Trusted: Lean kernel (propext, Classical.choice, Quot.sound only); harness, hooks (VerifNewInjected duplicates "
             "newBackend's struct literal) and canonicaliser; generator coverage (reported in evidence). Modelled, not "
             "verified: the kernel contract K1-K5 (which records the kernel produces, wd freshness, cookie distinctness), "
             "Go channel/select semantics. ")
_LIVE = ("A second stage replays the same comparison on streams recorded from the REAL kernel (tee mode) after real "
         "file-system operations, with the reader lagging behind, and compares /proc/self/fdinfo with both tables. ")
CHECKS = {
 "C01": {
  "text": "Theorems over the model, for ALL inputs: decode(encode recs) = recs for every list of well-formed records "
          "(any count, name length, padding residue, offset; trailing partial header ignored); one record yields at most "
          "one event; exact characterisation of the records that yield none (unknown wd, IGNORED/UNMOUNT, MOVE_SELF, "
          "DELETE_SELF with parent listed, empty translation) and proof that every other record IS reported with the "
          "translated op and entry name; batching irrelevance (rs1++rs2 in one read = two reads); overflow marker "
          "announced as ErrEventOverflow and otherwise inert; default request mask complete w.r.t. the regenerated "
          "translation table. " + _INJ + "Partial: that the kernel raises a record for every change cannot be proved here.",
  "design_ref": "DESIGN.md §5 C01", "note": _INJ_NOTE,
  "technique": "Lean 4 proofs (induction over record lists) over a hand-written model + differential correspondence on injected inotify streams",
 },
 "C02": {
  "text": "Theorems over the model: every emitted event has Op != 0 and the name of a watch listed when its record is "
          "handled (or a direct child of it); records with none of the 12 event bits (ISDIR, IGNORED, UNMOUNT, Q_OVERFLOW, "
          "control bits) never surface; records for an unlisted wd are silent and change nothing; after Remove took an "
          "entry out, records for its wd are silent; DELETE_SELF is suppressed when the parent is listed (reported once). "
          + _INJ + "Partial: kernel silence for unwatched subdirectories / after rm_watch is K2/K3.",
  "design_ref": "DESIGN.md §5 C02", "note": _INJ_NOTE,
  "technique": "Lean 4 proofs over a hand-written model + differential correspondence on injected inotify streams",
 },
 "C03": {
  "text": "Theorems over the model: the events of a batch are the per-record events in record order, across any split "
          "into reads; a MOVED_FROM c / MOVED_TO c pair on listed watches yields exactly Rename(old), Create(new <- old), "
          "adjacent. " + _INJ + "Event SEQUENCES (never sorted) are compared for Events buffer sizes {0,1,2,7,64,4096}. "
          "Partial: kernel queue order and Go channel FIFO are assumptions.",
  "design_ref": "DESIGN.md §5 C03", "note": _INJ_NOTE,
  "technique": "Lean 4 proofs over a hand-written model + sequence-level differential correspondence",
 },
 "C08": {
  "text": "Theorems over the model: an event's name is the stored watch path, or that path + '/' + the NUL-trimmed record "
          "name, and nothing else (no link resolution); the stored path of a first Add is clean(arg); an Add answered with "
          "an already listed wd leaves the existing entry (first alias wins); kernel-padded names of every length decode "
          "exactly, and for every record (malformed ones too) the entry part of the name does not end in NUL and only NULs were cut; the stored path is never empty and is absolute exactly when the argument is, and so is every event "
          "name, and it ends in '/' only when it is the root (clean_ne_nil, clean_head_slash, clean_no_trailing_slash: all inputs). " + _INJ + "filepath.Clean/Dir/Base are modelled in Lean and compared exhaustively over {a . /}^<=7.",
  "design_ref": "DESIGN.md §5 C08", "note": _INJ_NOTE + "filepath.Clean/Dir/Base (stdlib) modelled and differentially validated only.",
  "technique": "Lean 4 proofs over a hand-written model + differential correspondence (names at every padding residue, all path spellings)",
 },
 "C04": {
  "text": "Theorems for EVERY state reachable through Add/Remove/record batches with arbitrary kernel answers (only K0: wd 0 "
          "never issued): the two tables are mutually inverse with unique keys (invariant proved preserved by every "
          "operation); hence WatchList has no duplicates and lists exactly the entries; Add answered with the path's own wd or "
          "with the wd of an entry listed under another name changes no lookup (alias no-op, first spelling kept); Add of a "
          "listed path that names a new unlisted file moves the entry (old wd gone); if the new file is listed elsewhere the "
          "stale entry is dropped; Remove of an unlisted path = ErrNonExistentWatch with no effect; Remove never panics; a "
          "failed Add changes nothing. " + _INJ + _LIVE + "Partial: path resolution is the kernel's (an input of the model).",
  "design_ref": "DESIGN.md §5 C04", "note": _INJ_NOTE,
  "technique": "Lean 4 invariant proof (induction over all operation sequences) + differential correspondence on injected and real-kernel streams",
 },
 "C09": {
  "text": "Theorems for every reachable state: handling IGNORED / UNMOUNT / DELETE_SELF / non-recursive MOVE_SELF for a "
          "listed wd removes the entry from both tables (so the path leaves WatchList, Remove reports ErrNonExistentWatch, "
          "later records for that wd are silent and change nothing, and a re-Add creates a fresh entry: readd_after_end, composed from self_gone_ends_watch' and C08's first-Add theorem); ATTRIB alone "
          "(unlink while open) changes no table and reports Chmod; DELETE_SELF reports Remove iff the parent path is not "
          "listed at that moment. The gap to the property ('unless the parent already did') is proved as a witness "
          "(late_parent_witness) and reproduced on the implementation: known finding F5. " + _INJ + _LIVE,
  "design_ref": "DESIGN.md §5 C09, §6 F5", "note": _INJ_NOTE + "Hypothesis hclean (stored paths are fixed points of Clean) is validated differentially.",
  "technique": "Lean 4 proofs over reachable states + differential correspondence on injected and real-kernel streams (unlink-while-open, rename, recreate)",
 },
 "C10": {
  "text": "Theorems for ALL states, records and kernel-mark sets (i.e. all speeds of the file system relative to the "
          "reader): handleEvent puts nothing on Errors; a record yields exactly one ErrEventOverflow iff it carries "
          "IN_Q_OVERFLOW; the overflow marker leaves tables and kernel marks untouched (so later events and Add/Remove "
          "behave as if it had not happened). Holds after the repair of F1 (EINVAL no longer forwarded). " + _INJ + _LIVE +
          "The injected stage hits the rm_watch-fails branch deterministically; a Go-side monitor checks the Errors stream "
          "directly against the injected overflow markers.",
  "design_ref": "DESIGN.md §5 C10, §6 F1", "note": _INJ_NOTE + "K3 (rm_watch fails only with EINVAL while the fd is open). Read errors (EOF/short read) not modelled.",
  "technique": "Lean 4 proofs (all states, all streams) + differential correspondence + direct Errors-stream monitor",
 },
 "C12": {
  "text": "Theorems for every reachable state (arbitrary kernel answers): tables_inverse (path[p]=wd iff wd-table entry wd "
          "has path p), unique keys, entries keyed by their own wd, no operation ever panics; Remove of a listed path issues "
          "inotify_rm_watch for exactly its wd and erases both entries; a re-pointing Add issues inotify_rm_watch for the old "
          "wd (repair of F2). " + _INJ + _LIVE + "Ground truth for the kernel side is /proc/self/fdinfo, compared with both "
          "tables after every drain of the real queue (both directions).",
  "design_ref": "DESIGN.md §5 C12, §6 F2", "note": _INJ_NOTE + "Kernel mark list is observed, not modelled; K0-K3, K6.",
  "technique": "Lean 4 invariant proof over all operation sequences + differential correspondence + fdinfo-vs-tables monitor on the real kernel",
 },
 "C05": {
  "text": "Theorems over a finite protocol model of the reader goroutine, an API call (Add/Remove/WatchList or Close), "
          "arbitrary other goroutines (abstracted to what they can do to mu/done/the file), the kernel and the consumer, for "
          "every Events capacity: in EVERY reachable state a pending control call returns after finitely many system steps "
          "with NO consumer step (explicit strategy; the table over all 5632 invariant-compatible states is evaluated by "
          "the Lean kernel and lifted through the inductive invariant); the reader never holds mu in a send it cannot leave; "
          "Close is idempotent. The pre-repair protocol (F1) is shown to have a reachable state from which no system-only "
          "run returns. Tie T: the regenerated lock/send/close skeleton of all 17 protocol functions, and the list of sends "
          "that can run under mu, equal the reviewed expectation the model was written against. Tie D: genuine-mode "
          "scenarios under a watchdog. Partial: scheduler fairness, mutex starvation-freedom, poller behaviour are assumptions.",
  "design_ref": "DESIGN.md §5 C05", "note": "Trusted: Lean kernel incl. decide +kernel evaluation of finite tables; the abstraction of "
          "capacities/other goroutines in Model/Proto; tools/gotolean's skeleton extractor; the Go runtime assumptions above.",
  "technique": "Lean 4: inductive invariant + kernel-evaluated progress table over a finite protocol model; regenerated concurrency skeleton (translator tie); watchdog scenarios",
 },
 "C06": {
  "text": "Theorems over the same protocol model: no send is ever enabled on a closed channel (the only closer of Events/"
          "Errors/doneResp is the reader's exit, after its last send: regenerated closers/senders/go facts); once the watcher "
          "is marked closed and its file closed, system steps alone reach reader-exited with all three channels closed, for "
          "any consumer behaviour; after the exit no step sends anything; calls that start after the mark return from the "
          "isClosed test (ErrClosed / nil / nil: return expressions pinned by the regenerated skeleton). Tie D: Close at idle, "
          "mid-burst, during a blocked send, with pending error/overflow, concurrent Closes and racing Add, all consumer "
          "behaviours; channel closure, inert API and absence of late values checked on the running code.",
  "design_ref": "DESIGN.md §5 C06", "note": "As C05.",
  "technique": "Lean 4 safety invariant + progress over the finite protocol model; regenerated skeleton facts; genuine-mode scenarios",
 },
 "C07": {
  "text": "Theorems: in every reachable protocol state at most one thread is inside a critical section of mu (table accesses "
          "never overlap; each call takes effect atomically at its section, whose sequential semantics is the model proved "
          "consistent in C04/C12); a critical section runs only while the descriptor is open and the watcher not marked "
          "closed (no syscall on a closed fd: F6 repaired; the pre-repair interleaving is exhibited); regenerated lock facts: "
          "every access to the watch tables happens under mu, to the cookie ring under cookiesMu. Tie D: recorded concurrent "
          "histories checked for linearizability against the set spec (porcupine), calls racing Close. Partial: data-race "
          "freedom of the binary is evidenced (lock facts, optional -race build), not proved.",
  "design_ref": "DESIGN.md §5 C07, §6 F6", "note": "As C05; the lock-fact extractor is lexical and conservative.",
  "technique": "Lean 4 mutual-exclusion invariant over the protocol model + regenerated lock facts + linearizability checking of recorded histories",
 },
 "C13": {
  "text": "Theorems over the protocol model: from every reachable state in which the watcher is marked closed and its file "
          "closed, system steps alone reach: reader exited, descriptor closed (kernel watches go with it: K6), all channels "
          "closed; that state is stable; the Close that does the work returns only after doneResp is closed; newBackend's "
          "error return precedes every allocation and the go statement (regenerated skeleton). Tie D: descriptor and reader-"
          "goroutine counts around create/use/close cycles (pending events, concurrent Close, Close racing Add) and around "
          "NewWatcher failures at the per-user instance limit.",
  "design_ref": "DESIGN.md §5 C13", "note": "As C05; OS-level release is measured, not proved.",
  "technique": "Lean 4 progress + stability over the protocol model; regenerated skeleton; fd / goroutine accounting on the running code",
 },
 "C14": {
  "text": "Theorems: a channel of any capacity is FIFO along every enabled sequence of sends/receives/rendezvous "
          "(received ++ buffered = sent); with no consumer exactly `cap` sends succeed; the emitted sequence is a function of "
          "records and state only (no channel argument); regenerated facts: NewBufferedWatcher(sz) makes chan Event of "
          "capacity sz, NewWatcher of defaultBufferSize (0/0/0/50 per backend), Errors unbuffered; no package-level variable is "
          "written; every inotify syscall site passes w.fd. Tie D: 1-8 genuine Watchers with different buffers over one "
          "directory, churn on the others, sequences compared; cap() read; absorb test.",
  "design_ref": "DESIGN.md §5 C14", "note": "Trusted: Lean kernel; translator facts; kernel isolation between instances is measured.",
  "technique": "Lean 4 proofs (channel FIFO by induction) + regenerated capacity/global-state facts + multi-Watcher differential scenarios",
 },
 "C17": {
  "text": "Theorems over the kqueue bookkeeping model: in every state reachable by successful adds (kernel-fresh descriptors) "
          "and removals, the descriptors opened for watches and not yet closed are exactly the wd-table keys, every entry is "
          "listed under its own name; removing a path closes exactly its descriptor and unlists it; Close leaves no "
          "descriptor open (induction over the path list; F4 repaired - the pre-repair Close is shown to release nothing); "
          "WatchList is the user-added set. Tie: the real backend_kqueue.go compiled on Linux against a simulated kqueue "
          "over REAL descriptors; Lean invariant evaluated on implementation snapshots after every step + Go-side "
          "descriptor accounting. Partial twice: simulated kernel; no real BSD/macOS available.",
  "design_ref": "DESIGN.md §5 C17/C18, §6 F4 F7", "note": "Trusted: Lean kernel; kqsim (simulation of kqueue and of FreeBSD's vnode notifications); scratch-copy mechanism (build tag + import paths rewritten).",
  "technique": "Lean 4 invariant proof over the bookkeeping model + invariant evaluation on snapshots of the real backend running on a simulated kqueue",
 },
 "C18": {
  "text": "Theorems over the model of the seen-set logic: dirChange reports exactly the listed entries not yet seen, under "
          "dir/entry; entries marked at Add time are never reported; a second change with the same listing reports nothing "
          "(Create once); after the Remove notification un-marks a name the next listing reports it again. Tie: as C17, with "
          "an event oracle per step (Create once per new entry, Write/Chmod/Remove/Rename named under the user's spelling, "
          "overwrite-by-rename = Remove+Create, nothing for pre-existing entries incl. FIFOs - F7a repaired).",
  "design_ref": "DESIGN.md §5 C17/C18, §6 F7", "note": "As C17.",
  "technique": "Lean 4 proofs over the seen-set model + per-step event oracle on the real backend running on a simulated kqueue",
 },
 "C19": {
  "text": "Theorems over the model of the recursive tail of handleEvent / recursive removePath (after the repair of F3): a "
          "rename old->new rewrites exactly the entries at or below old (separator-aware) to new++suffix, keeps all wds, "
          "leaves siblings that merely share a string prefix untouched; removing a recursive root drops exactly the root and "
          "the entries strictly below it; a new directory is registered in the same step that returns its Create event. "
          "Witness theorems exhibit what the pre-repair string-prefix tests did (dir1/dir10, r/r2). Tie D: real-kernel (tee) "
          "sessions with recursion enabled compared with the model after every step, plus an independent true-path / coverage "
          "monitor.",
  "design_ref": "DESIGN.md §5 C19, §6 F3", "note": "Trusted: Lean kernel; harness/hooks (VerifSetRecurse); kernel answers for registrations are inputs derived from /proc fdinfo by inode identity.",
  "technique": "Lean 4 proofs over the recursive-watch model + differential correspondence on real-kernel streams + true-path monitor",
 },
 "C20": {
  "text": "Theorems (all inputs): splitLines is injective (lines concatenate to text+newline); any opcode list passing the "
          "executable check validOps (contiguous tiling of both texts from (0,0) to the ends, equal ranges really equal, "
          "delete/insert ranges empty on the other side) applied to the first text yields the second; an all-equal valid list "
          "implies the texts are equal; the context trimming leaves at most n lines at the start, the end and both sides of a "
          "split; the hunk-header range format. That the matcher's opcodes always satisfy validOps is validated per case, not "
          "proved: the Lean checker accepts the opcodes of EVERY generated pair and those opcodes equal the implementation's "
          "(exhaustive over a 3-letter alphabet up to length 4, 5 in thorough; random long sequences with repeats). Tie: "
          "diff.go is copied verbatim at check time into a scratch package; blocks, opcodes, groups and final text compared "
          "with the model; an independent Go monitor applies the textual diff (headers agree with bodies, <= 3 context lines, "
          "result = second text, empty iff equal after TrimSpace). DiffMatch: partial (regexp/placeholders exercised only).",
  "design_ref": "DESIGN.md §5 C20", "note": "Trusted: Lean kernel; scratch-copy mechanism (bin/props.build_scratch); strings.TrimSpace, regexp, fmt are standard library.",
  "technique": "Lean 4 proof of edit-script correctness from a proved-sufficient executable check + per-case validation + exhaustive differential correspondence",
 },
 "C11": {
  "text": "Theorems: the ten ring slots are exactly the last ten stored (cookie, old name) pairs (window invariant, by "
          "induction over any number of stores); a lookup finds the pair of its own move if it is among the last ten and "
          "cookies are distinct (K5), finds nothing if its cookie was never stored - however many unmatched move-outs "
          "preceded; zero cookies neither store nor look up; a Create without IN_MOVED_TO never carries an old name. The "
          "source text of the ring code is pinned by a regenerated fact. " + _INJ + "Includes chains of >10 moves, "
          "unmatched move-outs and interleaved halves.",
  "design_ref": "DESIGN.md §5 C11", "note": _INJ_NOTE,
  "technique": "Lean 4 proofs (window invariant by induction) + differential correspondence incl. ring contents",
 },
 "C15": {
  "text": "Machine-checked (Lean 4 kernel) theorems, for ALL 32/64-bit masks and all 2^9 op subsets, about the flag "
          "translators of the inotify, kqueue and Windows backends, the inotify request table and xSupports on all four "
          "backends: union law, per-operation mapping, housekeeping bits silent, Windows never Chmod, request "
          "observable/minimal/default=0xfc6. The theorems are about definitions regenerated from the Go source on "
          "every run (constants resolved per GOOS by go/types), so a changed table breaks a proof at build time; the "
          "Linux functions are also run against the model on every subset of inspected bits and against the kernel's own mask.",
  "design_ref": "DESIGN.md §5 C15",
  "note": "Trusted: Lean kernel (propext, Classical.choice, Quot.sound only); tools/gotolean (translator; cross-checked "
          "differentially for the Linux functions, by regeneration+proof only for kqueue/Windows/FEN, which cannot run here); harness + hooks.",
  "technique": "Lean 4 proof over regenerated definitions (translator tie) + exhaustive differential check on relevant bits",
 },
 "C16": {
  "text": "Machine-checked theorems for ALL 2^32 Op values about the regenerated Op.Has / Op.String: Has iff the sets "
          "intersect; String = the fixed name table filtered by the bits, joined by '|', '[no events]' iff no defined bit; "
          "undefined bits irrelevant; rendering injective on defined bits (via a parser proved to invert it); Event.String "
          "shape. Exhaustive (low 16 bits) and random differential run of the implementation against the model.",
  "design_ref": "DESIGN.md §5 C16",
  "note": "Trusted: Lean kernel; translator; Go's %q and %-13s are parameters of the Event.String model (instantiated "
          "with strconv.Quote by the harness and compared on a name corpus).",
  "technique": "Lean 4 proof over regenerated definitions (translator tie) + differential check",
 },
}

# ---- entries rewritten after the second building session (full kqueue model, joint kernel model, Diff iff) ----
_INJ = _INJ.replace("every answer (return class,", "datagrams are also sent several to one barrier (reads with the same layout and other names: stale-buffer bugs); every answer (return class,")
CHECKS["C12"]["text"] = (
    "Theorems for every reachable state of the LIBRARY model (arbitrary kernel answers): tables_inverse, unique keys, entries keyed by "
    "their own wd, no operation ever panics; Remove of a listed path issues inotify_rm_watch for exactly its wd and erases both "
    "entries; a re-pointing Add issues inotify_rm_watch for the old wd (repair of F2). Theorems for every reachable state of the "
    "JOINT model library + kernel (Model/Kernel: the instance's marks, its notification queue, ascending descriptors; steps Add with the "
    "kernel answering error / existing descriptor / fresh descriptor, Remove, notifications about live marks, marks dying with their "
    "inode or file system, the reader handling the oldest record): no_orphan_mark (at EVERY moment every kernel mark is known to "
    "the library), entry_backed (every known descriptor has a live mark or the record that ends it is queued), quiescent_agree / "
    "quiescent_watchlist (with the queue read to the end: marks = descriptors in the table = exactly one per WatchList path), "
    "marks_bounded. " + _INJ + _LIVE +
    "The kernel side of the joint model is an explicit contract (K0-K3, ascending fresh descriptors, IN_IGNORED after every dead "
    "mark; queue overflow excluded), validated at run time: /proc/self/fdinfo is compared with both tables after every drain of the "
    "real queue (both directions), the recorded streams are checked against K2/K4, fresh descriptors are checked to be ascending.")
CHECKS["C12"]["note"] = _INJ_NOTE + "The kernel part of Model/Kernel is a model of fs/notify/inotify, validated by monitors on the real kernel, not verified."
CHECKS["C12"]["technique"] = ("Lean 4 invariant proofs over all operation sequences of the library model and of a joint library+kernel model "
                               "+ differential correspondence + fdinfo-vs-tables / kernel-contract monitors on the real kernel")
CHECKS["C17"]["text"] = (
    "Theorems over the FULL model of backend_kqueue.go (Model/KqFull: addWatch incl. symlink branch, register, watches.*, rm with its "
    "children loop, Close, the readEvents loop body, dirChange, sendCreateIfNew, internalWatch; everything the code asks its "
    "environment - Lstat, Readlink, ReadDir+Info, unix.Open, kevent batches - is a tape of answers, and the theorems hold for EVERY "
    "tape): in every state reachable by any sequence of Add / Remove / reader activity / Close the descriptors opened and not closed "
    "are exactly the wd-table keys, every entry carries its own key, is listed under its own CLEAN name and has a knote "
    "(full_fds_are_table, full_entries_listed); Close leaves no descriptor, no table entry and no knote (full_close_releases_all; the "
    "proof needs clean keys: finding F15, an unclean absolute link target, was found this way and repaired); Remove of a watched path "
    "closes its descriptor, drops its entry and never adds one (full_remove_releases). The same statements over the older tables-only "
    "model are kept. Tie: the real backend_kqueue.go compiled on Linux against a simulated kqueue over REAL descriptors and a forwarding "
    "stand-in for package os that records every answer; after every step the tape is replayed through the compiled Lean model and "
    "return class, event and error SEQUENCE, all five tables, descriptors really open, knotes and WatchList are compared; plus "
    "Go-side descriptor accounting and table-vs-filesystem monitors. Partial twice: simulated kernel; no real BSD/macOS available.")
CHECKS["C17"]["technique"] = ("Lean 4 Hoare-style invariant proofs over a full executable model of the kqueue backend (environment as an oracle tape) "
                               "+ step-by-step differential correspondence with the real backend running on a simulated kqueue")
CHECKS["C18"]["text"] = (
    "Theorems over the model of the seen-set logic: dirChange reports exactly the listed entries not yet seen, under dir/entry; entries "
    "marked at Add time are never reported; a second change with the same listing reports nothing (Create once); after the Remove "
    "notification un-marks a name the next listing reports it again. Tie: the FULL executable model of the backend (Model/KqFull, see "
    "C17) is run on the oracle tape of every step and its event and error SEQUENCES are compared with what the real backend delivered "
    "(C18 owns these two fields of the comparison); plus an independent event oracle per step (Create once per new entry, "
    "Write/Chmod/Remove/Rename named under the user's spelling, overwrite-by-rename = Remove+Create, nothing for pre-existing entries "
    "incl. FIFOs - F7a repaired), coalesced batches, and the replay of the repository's testdata scripts against upstream's recorded "
    "kqueue expectations.")
CHECKS["C18"]["technique"] = ("Lean 4 proofs over the seen-set model + differential correspondence of event sequences between a full executable model "
                               "of the backend and the real backend on a simulated kqueue + per-step event oracle")
CHECKS["C20"]["text"] = (
    "Theorems (all inputs): splitLines is injective; GetOpCodes(a, b) ALWAYS passes the executable check validOps (contiguous tiling of "
    "both texts, equal ranges really equal: findLongestMatch returns a block of equal lines inside its window, matchingBlocks an ordered "
    "chain of such blocks) and any such list applied to the first text yields the second (diff_script_turns_a_into_b); an empty diff is "
    "produced ONLY for equal texts (Diff_empty_only_if_equal) and ALWAYS for equal texts (flm_self: matched against itself a text is one "
    "block because the DP walks the diagonal; Diff_empty_iff_equal); context trimming leaves at most n lines at the start, the end and "
    "both sides of a split; the hunk-header range format. Not proved: the hunk rendering. Tie: diff.go is copied verbatim at check time "
    "into a scratch package; blocks, opcodes, groups and final text compared with the model exhaustively over a 3-letter alphabet up "
    "to length 4 (5 thorough) and on random long sequences; an independent Go monitor applies the textual diff (headers agree with "
    "bodies, <= 3 context lines, result = second text, empty iff equal after TrimSpace). DiffMatch: partial (regexp/placeholders "
    "exercised only).")
CHECKS["C20"]["technique"] = "Lean 4 proofs for all inputs (edit-script validity, empty diff iff equal texts) + exhaustive differential correspondence"
CHECKS["C05"]["text"] = CHECKS["C05"]["text"].replace(
    "Tie D: genuine-mode scenarios under a watchdog.",
    "The three functions that run wholly under mu (handleEvent, register, remove) are compared through Skel.quiet (locks, sends, closes, "
    "syscalls, protocol calls and the conditionals around them). Tie D: genuine-mode scenarios under a watchdog, plus injected "
    "Watchers fed one record that leaves a value pending (unmount, ignored, delete_self, move_self with the mark gone, overflow "
    "marker, unknown wd) x consumer behaviours.")

CHECKS["C07"]["text"] = CHECKS["C07"]["text"] + (
    " Linearizability is now a theorem over an interleaving model (C07.Lin): any number of goroutines, each call is invoked, runs its "
    "critical section as ONE atomic step of the sequential model (Model/Inotify via C12.apply) and returns later; for every interleaving "
    "the calls in the order of their sections are a sequential history that computes exactly the returned values and the final tables "
    "(lin_legal) and respects real time (crit_after_inv, ret_has_crit_before, phase_machine). That sections are serial and contain every "
    "table access is the protocol model's and the regenerated lock facts' business (above); the recorded-history search stays as the tie.")

CHECKS["C17"]["text"] = CHECKS["C17"]["text"].replace("(full_remove_releases).", "(full_remove_releases); by frame reasoning over the same model, WatchList holds nothing but cleaned Add arguments in every reachable state (full_watchlist_only_user_paths) and Add / Remove / Close deliver nothing (full_api_calls_silent).")
CHECKS["C18"]["text"] = CHECKS["C18"]["text"].replace("Tie: the FULL executable model", "Over the FULL model (every tape): sendCreateIfNew - the one place that synthesises a Create - delivers it exactly when the entry has not been seen, nothing else, and leaves the entry seen (create_iff_unseen); a second call delivers nothing (create_once_full); after the un-marking of a Remove it delivers again (remove_then_create_full); Add delivers nothing (add_reports_nothing); internal watches never follow links. Tie: the FULL executable model")

CHECKS["C18"]["text"] = CHECKS["C18"]["text"].replace("internal watches never follow links.", "internal watches never follow links; dirChange as a whole delivers nothing but Creates for entries of the listing it read that had not been seen, whatever the environment answers (dir_change_reports_only_new).")

CHECKS["C17"]["text"] = CHECKS["C17"]["text"].replace("(full_remove_releases);", "(full_remove_releases); Remove of a watched directory releases the internal watches of its entries (full_remove_dir_releases_entries);")

CHECKS["C17"]["text"] = CHECKS["C17"]["text"].replace(
    "Partial twice:",
    "API calls are not atomic against the reader goroutine, which the atomic-call model cannot express: RACE SESSIONS let the reader "
    "handle a file-system change completely exactly before the k-th system call (open / close / kevent with changes) of Remove(dir), "
    "Add(dir), Close(), Remove(entry), Remove(file), for every k, and check the statement itself (no descriptor and no table entry once "
    "every listed path is removed, and after Close). They found F18 (an event handled during Close leaked every descriptor; repaired; the "
    "repaired behaviour is a theorem: full_close_releases_queue_gone), F17 and F19 (known findings); F16's schedule is the theorem "
    "close_during_add_leaks. Partial twice:")

CHECKS["C20"]["text"] = CHECKS["C20"]["text"] + (
    " The grouped script is a correct patch too (hunks_turn_a_into_b, all inputs, every amount of context): copying the first text up "
    "to each hunk of GetGroupedOpCodes(n), applying the hunk and copying the rest yields the second text; lines that contain per-cent "
    "signs, backslashes, quotes, hunk-syntax prefixes or regexp text are part of the differential stage.")
CHECKS["C20"]["technique"] = "Lean 4 proofs for all inputs (edit-script validity, the hunks are a correct patch, empty diff iff equal texts) + exhaustive differential correspondence"

for _id in ("C05", "C06", "C07", "C13"):
    CHECKS[_id]["text"] = CHECKS[_id]["text"] + (
        " (Skeleton tie, as refined: the protocol-level functions are compared through Skel.lite - helper calls, table accesses and "
        "conditionals with nothing left inside are dropped, everything else including what is returned stays - the function set is the set "
        "of functions with protocol content, select clauses are sorted, locals are numbered per condition, an inverted early return is written in one canonical form; 53 of 55 recorded harmless "
        "rewrites are quiet.)")

CHECKS["C17"]["text"] = CHECKS["C17"]["text"].replace(
    "close_during_add_leaks. Partial twice:",
    "close_during_add_leaks; F17's and F19's are add_twice_leaks and failed_add_leaves_watches (the clause is false for those "
    "schedules in the model exactly as in the implementation). Partial twice:")
