HOOK_COMMITS = ["c42e6f6"]
NOTES = ("See DESIGN.md. Every check regenerates Lean definitions from /repo's working tree, rebuilds the property's "
         "theorems, audits their axioms, and runs the differential correspondence between the compiled Lean model and "
         "the implementation built with -tags verif.")
NOT_APPLICABLE = {}
CHECKS = {
 "C15": {
  "text": "Machine-checked (Lean 4 kernel) theorems, for ALL 32/64-bit masks and all 2^9 op subsets, about the flag "
          "translators of the inotify, kqueue and Windows backends, the inotify request table and xSupports on all four "
          "backends: union law, per-operation mapping, housekeeping bits silent, Windows never Chmod, request "
          "observable/minimal/default=0xfc6. The theorems are about definitions regenerated from the Go source on "
          "every run (constants resolved per GOOS by go/types), so a changed table breaks a proof at build time; the "
          "Linux functions are also run against the model on every subset of inspected bits and against the kernel's own mask.",
  "design_ref": "DESIGN.md §5 C15",
  "note": "Trusted: Lean kernel (propext, Classical.choice, Quot.sound only); tools/gotolean (translator; cross-checked "
          "differentially for the Linux functions, by regeneration+proof only for kqueue/Windows/FEN, which cannot run here); harness + hooks.",
  "technique": "Lean 4 proof over regenerated definitions (translator tie) + exhaustive differential check on relevant bits",
 },
 "C16": {
  "text": "Machine-checked theorems for ALL 2^32 Op values about the regenerated Op.Has / Op.String: Has iff the sets "
          "intersect; String = the fixed name table filtered by the bits, joined by '|', '[no events]' iff no defined bit; "
          "undefined bits irrelevant; rendering injective on defined bits (via a parser proved to invert it); Event.String "
          "shape. Exhaustive (low 16 bits) and random differential run of the implementation against the model.",
  "design_ref": "DESIGN.md §5 C16",
  "note": "Trusted: Lean kernel; translator; Go's %q and %-13s are parameters of the Event.String model (instantiated "
          "with strconv.Quote by the harness and compared on a name corpus).",
  "technique": "Lean 4 proof over regenerated definitions (translator tie) + differential check",
 },
}
