HOOK_COMMITS = ["c42e6f6"]
NOTES = ("See DESIGN.md. Every check regenerates Lean definitions from /repo's working tree, rebuilds the property's "
         "theorems, audits their axioms, and runs the differential correspondence between the compiled Lean model and "
         "the implementation built with -tags verif.")
NOT_APPLICABLE = {}
_INJ = ("Tie: hand-written executable Lean model of backend_inotify.go (decode loop, both tables, register/updatePath, "
        "remove/removePath, handleEvent, newEvent + cookie ring) run against the UNMODIFIED readEvents goroutine fed "
        "through a SOCK_SEQPACKET pair with generated inotify byte streams and API calls; every answer (return class, "
        "event sequence, error sequence, both tables, ring) is compared on every run. ")
_INJ_NOTE = ("Trusted: Lean kernel (propext, Classical.choice, Quot.sound only); harness, hooks (VerifNewInjected duplicates "
             "newBackend's struct literal) and canonicaliser; generator coverage (reported in evidence). Modelled, not "
             "verified: the kernel contract K1-K5 (which records the kernel produces, wd freshness, cookie distinctness), "
             "Go channel/select semantics. ")
CHECKS = {
 "C01": {
  "text": "Theorems over the model, for ALL inputs: decode(encode recs) = recs for every list of well-formed records "
          "(any count, name length, padding residue, offset; trailing partial header ignored); one record yields at most "
          "one event; exact characterisation of the records that yield none (unknown wd, IGNORED/UNMOUNT, MOVE_SELF, "
          "DELETE_SELF with parent listed, empty translation) and proof that every other record IS reported with the "
          "translated op and entry name; batching irrelevance (rs1++rs2 in one read = two reads); overflow marker "
          "announced as ErrEventOverflow and otherwise inert; default request mask complete w.r.t. the regenerated "
          "translation table. " + _INJ + "Partial: that the kernel raises a record for every change cannot be proved here.",
  "design_ref": "DESIGN.md §5 C01", "note": _INJ_NOTE,
  "technique": "Lean 4 proofs (induction over record lists) over a hand-written model + differential correspondence on injected inotify streams",
 },
 "C02": {
  "text": "Theorems over the model: every emitted event has Op != 0 and the name of a watch listed when its record is "
          "handled (or a direct child of it); records with none of the 12 event bits (ISDIR, IGNORED, UNMOUNT, Q_OVERFLOW, "
          "control bits) never surface; records for an unlisted wd are silent and change nothing; after Remove took an "
          "entry out, records for its wd are silent; DELETE_SELF is suppressed when the parent is listed (reported once). "
          + _INJ + "Partial: kernel silence for unwatched subdirectories / after rm_watch is K2/K3.",
  "design_ref": "DESIGN.md §5 C02", "note": _INJ_NOTE,
  "technique": "Lean 4 proofs over a hand-written model + differential correspondence on injected inotify streams",
 },
 "C03": {
  "text": "Theorems over the model: the events of a batch are the per-record events in record order, across any split "
          "into reads; a MOVED_FROM c / MOVED_TO c pair on listed watches yields exactly Rename(old), Create(new <- old), "
          "adjacent. " + _INJ + "Event SEQUENCES (never sorted) are compared for Events buffer sizes {0,1,2,7,64,4096}. "
          "Partial: kernel queue order and Go channel FIFO are assumptions.",
  "design_ref": "DESIGN.md §5 C03", "note": _INJ_NOTE,
  "technique": "Lean 4 proofs over a hand-written model + sequence-level differential correspondence",
 },
 "C08": {
  "text": "Theorems over the model: an event's name is the stored watch path, or that path + '/' + the NUL-trimmed record "
          "name, and nothing else (no link resolution); the stored path of a first Add is clean(arg); an Add answered with "
          "an already listed wd leaves the existing entry (first alias wins); kernel-padded names of every length decode "
          "exactly. " + _INJ + "filepath.Clean/Dir/Base are modelled in Lean and compared exhaustively over {a . /}^<=7.",
  "design_ref": "DESIGN.md §5 C08", "note": _INJ_NOTE + "filepath.Clean/Dir/Base (stdlib) modelled and differentially validated only.",
  "technique": "Lean 4 proofs over a hand-written model + differential correspondence (names at every padding residue, all path spellings)",
 },
 "C11": {
  "text": "Theorems: the ten ring slots are exactly the last ten stored (cookie, old name) pairs (window invariant, by "
          "induction over any number of stores); a lookup finds the pair of its own move if it is among the last ten and "
          "cookies are distinct (K5), finds nothing if its cookie was never stored - however many unmatched move-outs "
          "preceded; zero cookies neither store nor look up; a Create without IN_MOVED_TO never carries an old name. The "
          "source text of the ring code is pinned by a regenerated fact. " + _INJ + "Includes chains of >10 moves, "
          "unmatched move-outs and interleaved halves.",
  "design_ref": "DESIGN.md §5 C11", "note": _INJ_NOTE,
  "technique": "Lean 4 proofs (window invariant by induction) + differential correspondence incl. ring contents",
 },
 "C15": {
  "text": "Machine-checked (Lean 4 kernel) theorems, for ALL 32/64-bit masks and all 2^9 op subsets, about the flag "
          "translators of the inotify, kqueue and Windows backends, the inotify request table and xSupports on all four "
          "backends: union law, per-operation mapping, housekeeping bits silent, Windows never Chmod, request "
          "observable/minimal/default=0xfc6. The theorems are about definitions regenerated from the Go source on "
          "every run (constants resolved per GOOS by go/types), so a changed table breaks a proof at build time; the "
          "Linux functions are also run against the model on every subset of inspected bits and against the kernel's own mask.",
  "design_ref": "DESIGN.md §5 C15",
  "note": "Trusted: Lean kernel (propext, Classical.choice, Quot.sound only); tools/gotolean (translator; cross-checked "
          "differentially for the Linux functions, by regeneration+proof only for kqueue/Windows/FEN, which cannot run here); harness + hooks.",
  "technique": "Lean 4 proof over regenerated definitions (translator tie) + exhaustive differential check on relevant bits",
 },
 "C16": {
  "text": "Machine-checked theorems for ALL 2^32 Op values about the regenerated Op.Has / Op.String: Has iff the sets "
          "intersect; String = the fixed name table filtered by the bits, joined by '|', '[no events]' iff no defined bit; "
          "undefined bits irrelevant; rendering injective on defined bits (via a parser proved to invert it); Event.String "
          "shape. Exhaustive (low 16 bits) and random differential run of the implementation against the model.",
  "design_ref": "DESIGN.md §5 C16",
  "note": "Trusted: Lean kernel; translator; Go's %q and %-13s are parameters of the Event.String model (instantiated "
          "with strconv.Quote by the harness and compared on a name corpus).",
  "technique": "Lean 4 proof over regenerated definitions (translator tie) + differential check",
 },
}
