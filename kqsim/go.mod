module kqscratch

go 1.23
