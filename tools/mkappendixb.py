#!/usr/bin/env python3
"""tools/mkappendixb.py — write the table of seeded changes (seeded/MATRIX.md, and the block between the markers in
DESIGN.md) from seeded/*/meta.json and the recorded matrix runs (seeded/matrix/*.txt: lines '<seed>: C01 C05(nfi) …'
as bin/seedmatrix prints them; a later file overrides an earlier one for the same seed)."""
import json, os, re, glob
V = os.path.dirname(os.path.dirname(os.path.abspath(__file__)))
rows = {}
for f in sorted(glob.glob(os.path.join(V, "seeded/matrix/*.txt"))):
    commit = os.path.basename(f).split("-")[-1][:-4]
    for l in open(f):
        m = re.match(r"(S-C\d\d-\d+):\s*(.*)$", l.strip())
        if m:
            rows[m.group(1)] = (m.group(2).split(), commit)
def first_sentence(t, n=230):
    t = " ".join(t.split())
    t = re.sub(r"^(Refactoring|Change|The change)[: ]+", "", t)
    cut = re.search(r"(?<=[a-z0-9)`'\"])\. (?=[A-Z`])", t)
    if cut and cut.start() < n:
        t = t[:cut.start() + 1]
    return (t[:n].rsplit(" ", 1)[0] + " …") if len(t) > n else t
out = ["| seed | change (the author's own summary, shortened) | own check | all checks that raise (nfi = no failing input found) | matrix run at |", "|---|---|---|---|---|"]
seeds = sorted((d for d in os.listdir(os.path.join(V, "seeded")) if re.match(r"S-C\d\d-\d+$", d)), key=lambda s: (int(s.split("-")[2]), s))
stats = {"total": 0, "own_concrete": 0, "own_nfi": 0, "own_miss": 0, "other_concrete": 0}
for sd in seeds:
    if int(sd.split("-")[2]) < 2:
        continue
    meta = json.load(open(os.path.join(V, "seeded", sd, "meta.json")))
    own = meta.get("property", sd.split("-")[1])
    hits, commit = rows.get(sd, ([], "—"))
    ownres = "—"
    if own in hits:
        ownres = "input"
    elif own + "(nfi)" in hits:
        ownres = "nfi"
    elif hits:
        ownres = "no"
    if sd in rows:
        stats["total"] += 1
        stats["own_concrete"] += ownres == "input"
        stats["own_nfi"] += ownres == "nfi"
        stats["own_miss"] += ownres == "no"
        stats["other_concrete"] += ownres != "input" and any("(" not in h for h in hits)
    out.append(f"| {sd} | {first_sentence(meta.get('summary', '')).replace('|', '/')} | {ownres} | {' '.join(hits) or '—'} | {commit} |")
tbl = "\n".join(out) + "\n"
open(os.path.join(V, "seeded/MATRIX.md"), "w").write(tbl)
p = os.path.join(V, "DESIGN.md")
s = open(p).read()
a, b = "<!-- MATRIX-BEGIN -->\n", "<!-- MATRIX-END -->\n"
if a in s and b in s:
    s = s[:s.index(a) + len(a)] + tbl + s[s.index(b):]
    open(p, "w").write(s)
print(stats)
