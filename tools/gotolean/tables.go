package main

import (
	"bytes"
	"fmt"
	"go/ast"
	"go/constant"
	"go/printer"
	"go/token"
	"go/types"
	"sort"
	"strings"

	"golang.org/x/tools/go/packages"
)

// ---------------------------------------------------------------------------
// A tiny translator for the loop-free integer/boolean fragment.

type param struct{ name, ty string }

type fnSpec struct {
	goos     string
	recv     string // receiver type name ("" for plain functions, "*" = any)
	name     string // function name
	closure  string // if set: translate the func literal assigned to this variable inside the function
	lean     string // name of the generated Lean definition
	params   []param
	retTy    string
	retAlias map[string]string // Go expression text -> Lean variable to return instead
	finalRet string            // replace an untranslatable return by `return <finalRet>`
}

type tr struct {
	p       *packages.Package
	spec    fnSpec
	residue []string
	locals  map[string]string // lean var -> lean type
}

func (t *tr) src(n ast.Node) string {
	var b bytes.Buffer
	printer.Fprint(&b, t.p.Fset, n)
	return strings.Join(strings.Fields(b.String()), " ")
}

func leanType(ty types.Type) (string, bool) {
	switch u := ty.Underlying().(type) {
	case *types.Basic:
		switch u.Kind() {
		case types.Uint32, types.Int32:
			return "BitVec 32", true
		case types.Uint64, types.Int64:
			return "BitVec 64", true
		case types.Uint8:
			return "BitVec 8", true
		case types.Bool, types.UntypedBool:
			return "Bool", true
		case types.Int, types.UntypedInt, types.Uint:
			return "Int", true
		case types.String, types.UntypedString:
			return "List Char", true
		}
	}
	if n, ok := ty.(*types.Named); ok && n.Obj().Name() == "Builder" {
		return "List Char", true
	}
	return "", false
}

func zeroOf(lty string) string {
	switch lty {
	case "BitVec 32":
		return "0#32"
	case "BitVec 64":
		return "0#64"
	case "BitVec 8":
		return "0#8"
	case "Bool":
		return "false"
	case "Int":
		return "0"
	case "List Char":
		return "[]"
	}
	return "default"
}

func charList(s string) string {
	var parts []string
	for _, r := range s {
		switch r {
		case '\'':
			parts = append(parts, `'\''`)
		case '\\':
			parts = append(parts, `'\\'`)
		case '\n':
			parts = append(parts, `'\n'`)
		default:
			parts = append(parts, "'"+string(r)+"'")
		}
	}
	return "[" + strings.Join(parts, ", ") + "]"
}

func leanStr(s string) string {
	s = strings.ReplaceAll(s, `\`, `\\`)
	s = strings.ReplaceAll(s, `"`, `\"`)
	s = strings.ReplaceAll(s, "\n", `\n`)
	return `"` + s + `"`
}

func (t *tr) constLit(tv types.TypeAndValue) (string, bool) {
	lty, ok := leanType(tv.Type)
	if !ok {
		return "", false
	}
	switch lty {
	case "BitVec 32", "BitVec 64", "BitVec 8":
		v, exact := constant.Uint64Val(constant.ToInt(tv.Value))
		if !exact {
			// negative constants: two's complement
			i, ok := constant.Int64Val(constant.ToInt(tv.Value))
			if !ok {
				return "", false
			}
			v = uint64(i)
		}
		w := strings.TrimPrefix(lty, "BitVec ")
		if w == "32" {
			v &= 0xffffffff
		}
		return fmt.Sprintf("0x%x#%s", v, w), true
	case "Bool":
		if constant.BoolVal(tv.Value) {
			return "true", true
		}
		return "false", true
	case "Int":
		i, ok := constant.Int64Val(constant.ToInt(tv.Value))
		if !ok {
			return "", false
		}
		if i < 0 {
			return fmt.Sprintf("(%d)", i), true
		}
		return fmt.Sprintf("%d", i), true
	case "List Char":
		return charList(constant.StringVal(tv.Value)), true
	}
	return "", false
}

func sanitize(s string) string {
	s = strings.ReplaceAll(s, ".", "_")
	return s
}

// expr translates an expression; ok=false means "outside the fragment".
func (t *tr) expr(e ast.Expr) (string, bool) {
	if tv, ok := t.p.TypesInfo.Types[e]; ok && tv.Value != nil {
		return t.constLit(tv)
	}
	switch x := e.(type) {
	case *ast.ParenExpr:
		s, ok := t.expr(x.X)
		return "(" + s + ")", ok
	case *ast.Ident:
		return sanitize(x.Name), true
	case *ast.SelectorExpr:
		// e.g. with.op, e.Op: a field path rendered as one variable
		if id, ok := x.X.(*ast.Ident); ok {
			return sanitize(id.Name + "." + x.Sel.Name), true
		}
		if inner, ok := x.X.(*ast.SelectorExpr); ok {
			s, ok := t.expr(inner)
			return s + "_" + x.Sel.Name, ok
		}
		return "", false
	case *ast.UnaryExpr:
		s, ok := t.expr(x.X)
		if !ok {
			return "", false
		}
		switch x.Op {
		case token.NOT:
			return "(!" + s + ")", true
		case token.XOR:
			return "(~~~" + s + ")", true
		}
		return "", false
	case *ast.BinaryExpr:
		a, ok1 := t.expr(x.X)
		b, ok2 := t.expr(x.Y)
		if !ok1 || !ok2 {
			return "", false
		}
		switch x.Op {
		case token.AND:
			return "(" + a + " &&& " + b + ")", true
		case token.OR:
			return "(" + a + " ||| " + b + ")", true
		case token.AND_NOT:
			return "(" + a + " &&& ~~~" + b + ")", true
		case token.EQL:
			return "(" + a + " == " + b + ")", true
		case token.NEQ:
			return "(" + a + " != " + b + ")", true
		case token.LOR:
			return "(" + a + " || " + b + ")", true
		case token.LAND:
			return "(" + a + " && " + b + ")", true
		}
		return "", false
	case *ast.CallExpr:
		// conversions uint32(x) between same-width types
		if tv, ok := t.p.TypesInfo.Types[x.Fun]; ok && tv.IsType() && len(x.Args) == 1 {
			to, ok1 := leanType(tv.Type)
			from, ok2 := leanType(t.p.TypesInfo.TypeOf(x.Args[0]))
			if ok1 && ok2 && to == from {
				return t.expr(x.Args[0])
			}
			return "", false
		}
		if sel, ok := x.Fun.(*ast.SelectorExpr); ok {
			recvTy := t.p.TypesInfo.TypeOf(sel.X)
			if recvTy != nil {
				if n, ok := recvTy.(*types.Named); ok && n.Obj().Name() == "Op" && sel.Sel.Name == "Has" && len(x.Args) == 1 {
					r, ok1 := t.expr(sel.X)
					a, ok2 := t.expr(x.Args[0])
					return "(opHas " + r + " " + a + ")", ok1 && ok2
				}
				if n, ok := recvTy.(*types.Named); ok && n.Obj().Name() == "Builder" && sel.Sel.Name == "Len" && len(x.Args) == 0 {
					r, ok1 := t.expr(sel.X)
					return "(Int.ofNat " + r + ".length)", ok1
				}
				if n, ok := recvTy.(*types.Named); ok && n.Obj().Name() == "Builder" && sel.Sel.Name == "String" && len(x.Args) == 0 {
					return t.expr(sel.X) // the Builder is modelled by its contents
				}
			}
		}
		return "", false
	case *ast.SliceExpr:
		// b.String()[1:]
		if call, ok := x.X.(*ast.CallExpr); ok && x.High == nil && x.Low != nil {
			if sel, ok := call.Fun.(*ast.SelectorExpr); ok && sel.Sel.Name == "String" {
				if n, ok := t.p.TypesInfo.TypeOf(sel.X).(*types.Named); ok && n.Obj().Name() == "Builder" {
					r, ok1 := t.expr(sel.X)
					if tv, ok := t.p.TypesInfo.Types[x.Low]; ok && tv.Value != nil {
						i, _ := constant.Int64Val(tv.Value)
						return fmt.Sprintf("(%s.drop %d)", r, i), ok1
					}
				}
			}
		}
		// s[1:] for any modelled string
		if x.High == nil && x.Low != nil {
			if lty, ok := leanType(t.p.TypesInfo.TypeOf(x.X)); ok && lty == "List Char" {
				r, ok1 := t.expr(x.X)
				if tv, ok := t.p.TypesInfo.Types[x.Low]; ok && tv.Value != nil && ok1 {
					i, _ := constant.Int64Val(tv.Value)
					return fmt.Sprintf("(%s.drop %d)", r, i), true
				}
			}
		}
		return "", false
	}
	return "", false
}

func indent(n int) string { return strings.Repeat("  ", n) }

// block translates a statement list into one Lean expression (a chain of
// `let`s ending in the returned value). Untranslatable top-level statements go
// to the residue. Shapes:
//
//	var x T [= v]            let x : T := v
//	x op= e                   let x := x op e
//	if c { x |= e }           let x := x ||| (if c then e else 0)      (likewise &^=, WriteString)
//	if c { x = e }            let x := if c then e else x
//	if c { return e }; rest   if c then e else (rest)
//	switch t { case k: return e ... }; rest   if t == k then e else ... (rest)
//	return e                  e
func (t *tr) block(list []ast.Stmt, depth int, top bool) ([]string, bool) {
	in := indent(depth)
	if len(list) == 0 {
		return nil, false // fell off the end without a return
	}
	s, rest := list[0], list[1:]
	cont := func(prefix []string) ([]string, bool) {
		r, ok := t.block(rest, depth, top)
		if !ok {
			return nil, false
		}
		return append(prefix, r...), true
	}
	skip := func() ([]string, bool) {
		if !top {
			return nil, false
		}
		t.residue = append(t.residue, t.src(s))
		if _, isRet := s.(*ast.ReturnStmt); isRet && t.spec.finalRet != "" {
			return []string{in + t.spec.finalRet}, true
		}
		return cont(nil)
	}

	switch x := s.(type) {
	case *ast.DeclStmt:
		gd, ok := x.Decl.(*ast.GenDecl)
		if ok && gd.Tok == token.CONST {
			return cont(nil) // a local constant: its uses are constant expressions, translated by value
		}
		if !ok || gd.Tok != token.VAR {
			return skip()
		}
		var out []string
		for _, sp := range gd.Specs {
			vs := sp.(*ast.ValueSpec)
			for i, n := range vs.Names {
				lty, ok := leanType(t.p.TypesInfo.TypeOf(n))
				if !ok {
					return skip()
				}
				init := zeroOf(lty)
				if len(vs.Values) > i {
					v, ok := t.expr(vs.Values[i])
					if !ok {
						return skip()
					}
					init = v
				}
				t.locals[n.Name] = lty
				out = append(out, fmt.Sprintf("%slet %s : %s := %s", in, n.Name, lty, init))
			}
		}
		return cont(out)
	case *ast.AssignStmt, *ast.ExprStmt:
		if l, ok := t.assign(s, ""); ok {
			return cont([]string{in + l})
		}
		return skip()
	case *ast.IfStmt:
		if x.Init != nil || x.Else != nil {
			return skip()
		}
		c, ok := t.expr(x.Cond)
		if !ok {
			return skip()
		}
		if len(x.Body.List) == 1 {
			if ret, ok := x.Body.List[0].(*ast.ReturnStmt); ok {
				v, ok := t.ret(ret)
				if !ok {
					return skip()
				}
				r, ok := t.block(rest, depth+1, false)
				if !ok {
					return skip()
				}
				out := []string{in + "if " + c + " then " + v + " else"}
				return append(out, r...), true
			}
			if l, ok := t.assign(x.Body.List[0], c); ok {
				return cont([]string{in + l})
			}
		}
		return skip()
	case *ast.ReturnStmt:
		v, ok := t.ret(x)
		if !ok {
			return skip()
		}
		return []string{in + v}, true
	case *ast.SwitchStmt:
		if x.Init != nil || x.Tag == nil {
			return skip()
		}
		tag, ok := t.expr(x.Tag)
		if !ok {
			return skip()
		}
		var out []string
		for _, cc := range x.Body.List {
			c := cc.(*ast.CaseClause)
			if c.List == nil || len(c.Body) != 1 {
				return skip()
			}
			ret, ok := c.Body[0].(*ast.ReturnStmt)
			if !ok {
				return skip()
			}
			v, ok := t.ret(ret)
			if !ok {
				return skip()
			}
			var conds []string
			for _, ce := range c.List {
				k, ok := t.expr(ce)
				if !ok {
					return skip()
				}
				conds = append(conds, "("+tag+" == "+k+")")
			}
			out = append(out, in+"if "+strings.Join(conds, " || ")+" then "+v+" else")
		}
		return cont(out)
	}
	return skip()
}

func (t *tr) ret(x *ast.ReturnStmt) (string, bool) {
	if len(x.Results) != 1 {
		return "", false
	}
	if a, ok := t.spec.retAlias[t.src(x.Results[0])]; ok {
		return a, true
	}
	return t.expr(x.Results[0])
}

// assign translates `x op= e` (or b.WriteString(e), or e := Event{Name: ..})
// into a `let`; with cond != "" the update only happens when cond holds.
func (t *tr) assign(s ast.Stmt, cond string) (string, bool) {
	guard := func(v, zero string) string {
		if cond == "" {
			return v
		}
		return "(if " + cond + " then " + v + " else " + zero + ")"
	}
	switch x := s.(type) {
	case *ast.ExprStmt:
		call, ok := x.X.(*ast.CallExpr)
		if !ok {
			return "", false
		}
		sel, ok := call.Fun.(*ast.SelectorExpr)
		if !ok || sel.Sel.Name != "WriteString" || len(call.Args) != 1 {
			return "", false
		}
		n, ok := t.p.TypesInfo.TypeOf(sel.X).(*types.Named)
		if !ok || n.Obj().Name() != "Builder" {
			return "", false
		}
		r, ok1 := t.expr(sel.X)
		a, ok2 := t.expr(call.Args[0])
		if !ok1 || !ok2 {
			return "", false
		}
		return fmt.Sprintf("let %s := %s ++ %s", r, r, guard(a, "[]")), true
	case *ast.AssignStmt:
		if len(x.Lhs) != 1 || len(x.Rhs) != 1 {
			return "", false
		}
		if cl, ok := x.Rhs[0].(*ast.CompositeLit); ok && x.Tok == token.DEFINE && cond == "" {
			if id, ok := cl.Type.(*ast.Ident); ok && id.Name == "Event" {
				for _, el := range cl.Elts {
					kv, ok := el.(*ast.KeyValueExpr)
					if !ok {
						return "", false
					}
					if k, ok := kv.Key.(*ast.Ident); !ok || k.Name != "Name" {
						return "", false
					}
				}
				v := x.Lhs[0].(*ast.Ident).Name + "_Op"
				t.locals[v] = "BitVec 32"
				return fmt.Sprintf("let %s : BitVec 32 := 0#32", v), true
			}
			return "", false
		}
		lhs, ok := t.expr(x.Lhs[0])
		if !ok {
			return "", false
		}
		rhs, ok := t.expr(x.Rhs[0])
		if !ok {
			return "", false
		}
		lty, declared := t.locals[lhs]
		if x.Tok == token.DEFINE {
			if cond != "" {
				return "", false
			}
			ty, ok := leanType(t.p.TypesInfo.TypeOf(x.Lhs[0]))
			if !ok {
				return "", false
			}
			t.locals[lhs] = ty
			return fmt.Sprintf("let %s : %s := %s", lhs, ty, rhs), true
		}
		if !declared {
			return "", false // assignment to something that is not a modelled local
		}
		switch x.Tok {
		case token.ASSIGN:
			if cond == "" {
				return fmt.Sprintf("let %s := %s", lhs, rhs), true
			}
			return fmt.Sprintf("let %s := if %s then %s else %s", lhs, cond, rhs, lhs), true
		case token.OR_ASSIGN:
			return fmt.Sprintf("let %s := %s ||| %s", lhs, lhs, guard(rhs, zeroOf(lty))), true
		case token.AND_ASSIGN:
			if cond == "" {
				return fmt.Sprintf("let %s := %s &&& %s", lhs, lhs, rhs), true
			}
			return fmt.Sprintf("let %s := if %s then %s &&& %s else %s", lhs, cond, lhs, rhs, lhs), true
		case token.AND_NOT_ASSIGN:
			return fmt.Sprintf("let %s := %s &&& ~~~%s", lhs, lhs, guard(rhs, zeroOf(lty))), true
		}
	}
	return "", false
}

func findFunc(p *packages.Package, recv, name string) *ast.FuncDecl {
	for _, f := range p.Syntax {
		for _, d := range f.Decls {
			fd, ok := d.(*ast.FuncDecl)
			if !ok || fd.Name.Name != name {
				continue
			}
			r := ""
			if fd.Recv != nil && len(fd.Recv.List) == 1 {
				ty := fd.Recv.List[0].Type
				if st, ok := ty.(*ast.StarExpr); ok {
					ty = st.X
				}
				if id, ok := ty.(*ast.Ident); ok {
					r = id.Name
				}
			}
			if r == recv {
				return fd
			}
		}
	}
	return nil
}

func translate(p *packages.Package, spec fnSpec) (string, error) {
	fd := findFunc(p, spec.recv, spec.name)
	if fd == nil {
		return "", fmt.Errorf("function %s.%s not found (GOOS=%s)", spec.recv, spec.name, spec.goos)
	}
	body := fd.Body
	if spec.closure != "" {
		body = nil
		ast.Inspect(fd.Body, func(n ast.Node) bool {
			as, ok := n.(*ast.AssignStmt)
			if !ok || len(as.Lhs) != 1 || len(as.Rhs) != 1 {
				return true
			}
			if id, ok := as.Lhs[0].(*ast.Ident); ok && id.Name == spec.closure {
				if fl, ok := as.Rhs[0].(*ast.FuncLit); ok {
					body = fl.Body
					return false
				}
			}
			return true
		})
		if body == nil {
			return "", fmt.Errorf("closure %s in %s not found", spec.closure, spec.name)
		}
	}
	t := &tr{p: p, spec: spec, locals: map[string]string{}}
	lines, ok := t.block(body.List, 1, true)
	if !ok {
		lines = []string{"  " + zeroOf(spec.retTy) + " -- UNTRANSLATABLE: body does not end in a return"}
		t.residue = append(t.residue, "UNTRANSLATABLE")
	}

	var b strings.Builder
	var ps []string
	for _, pa := range spec.params {
		ps = append(ps, fmt.Sprintf("(%s : %s)", pa.name, pa.ty))
	}
	fmt.Fprintf(&b, "/-- %s.%s (GOOS=%s) -/\n", spec.recv, spec.name, spec.goos)
	fmt.Fprintf(&b, "def %s %s : %s :=\n", spec.lean, strings.Join(ps, " "), spec.retTy)
	for _, l := range lines {
		b.WriteString(l + "\n")
	}
	fmt.Fprintf(&b, "\ndef %s.residue : List String := [", spec.lean)
	for i, r := range t.residue {
		if i > 0 {
			b.WriteString(",")
		}
		b.WriteString("\n  " + leanStr(r))
	}
	b.WriteString("]\n\n")
	return b.String(), nil
}

func constVal(p *packages.Package, name string) (constant.Value, types.Type, bool) {
	obj := p.Types.Scope().Lookup(name)
	c, ok := obj.(*types.Const)
	if !ok {
		return nil, nil, false
	}
	return c.Val(), c.Type(), true
}

func varInit(p *packages.Package, name string) (string, bool) {
	for _, f := range p.Syntax {
		for _, d := range f.Decls {
			gd, ok := d.(*ast.GenDecl)
			if !ok || gd.Tok != token.VAR {
				continue
			}
			for _, sp := range gd.Specs {
				vs := sp.(*ast.ValueSpec)
				for i, n := range vs.Names {
					if n.Name == name && len(vs.Values) > i {
						if tv, ok := p.TypesInfo.Types[vs.Values[i]]; ok && tv.Value != nil {
							return tv.Value.ExactString(), true
						}
						var b bytes.Buffer
						printer.Fprint(&b, p.Fset, vs.Values[i])
						return b.String(), false
					}
				}
			}
		}
	}
	return "", false
}

func emitTables(b *strings.Builder, pk map[string]*packages.Package) error {
	lin := pk["linux"]

	// Op constants
	ops := []string{"Create", "Write", "Remove", "Rename", "Chmod", "xUnportableOpen", "xUnportableRead", "xUnportableCloseWrite", "xUnportableCloseRead"}
	for _, o := range ops {
		v, _, ok := constVal(lin, o)
		if !ok {
			return fmt.Errorf("constant %s not found", o)
		}
		u, _ := constant.Uint64Val(v)
		fmt.Fprintf(b, "def op%s : BitVec 32 := 0x%x#32\n", strings.TrimPrefix(o, "x"), u)
	}
	b.WriteString("\n")

	// all Op-typed constants (detects a tenth operation being added)
	var allOps []string
	for _, n := range lin.Types.Scope().Names() {
		if c, ok := lin.Types.Scope().Lookup(n).(*types.Const); ok {
			if nt, ok := c.Type().(*types.Named); ok && nt.Obj().Name() == "Op" {
				u, _ := constant.Uint64Val(c.Val())
				allOps = append(allOps, fmt.Sprintf("(%s, 0x%x#32)", leanStr(n), u))
			}
		}
	}
	sort.Strings(allOps)
	fmt.Fprintf(b, "def allOpConsts : List (String × BitVec 32) := [%s]\n\n", strings.Join(allOps, ", "))

	specs := []fnSpec{
		{goos: "linux", recv: "Op", name: "Has", lean: "opHas", params: []param{{"o", "BitVec 32"}, {"h", "BitVec 32"}}, retTy: "Bool"},
		{goos: "linux", recv: "Op", name: "String", lean: "opString", params: []param{{"o", "BitVec 32"}}, retTy: "List Char"},
		{goos: "linux", recv: "inotify", name: "newEvent", lean: "inotifyNewEventOp", params: []param{{"mask", "BitVec 32"}}, retTy: "BitVec 32",
			retAlias: map[string]string{"e": "e_Op"}},
		{goos: "linux", recv: "inotify", name: "AddWith", closure: "add", lean: "inotifyRequest",
			params: []param{{"with_noFollow", "Bool"}, {"with_op", "BitVec 32"}}, retTy: "BitVec 32", finalRet: "flags"},
		{goos: "linux", recv: "inotify", name: "xSupports", lean: "xSupportsInotify", params: []param{{"op", "BitVec 32"}}, retTy: "Bool"},
		{goos: "freebsd", recv: "kqueue", name: "newEvent", lean: "kqueueNewEventOp", params: []param{{"mask", "BitVec 32"}}, retTy: "BitVec 32",
			retAlias: map[string]string{"e": "e_Op"}},
		{goos: "freebsd", recv: "kqueue", name: "xSupports", lean: "xSupportsKqueue", params: []param{{"op", "BitVec 32"}}, retTy: "Bool"},
		{goos: "windows", recv: "readDirChangesW", name: "newEvent", lean: "winNewEventOp", params: []param{{"mask", "BitVec 32"}}, retTy: "BitVec 32",
			retAlias: map[string]string{"e": "e_Op"}},
		{goos: "windows", recv: "readDirChangesW", name: "toWindowsFlags", lean: "toWindowsFlags", params: []param{{"mask", "BitVec 64"}}, retTy: "BitVec 32"},
		{goos: "windows", recv: "readDirChangesW", name: "toFSnotifyFlags", lean: "toFSnotifyFlags", params: []param{{"action", "BitVec 32"}}, retTy: "BitVec 64"},
		{goos: "windows", recv: "readDirChangesW", name: "xSupports", lean: "xSupportsWindows", params: []param{{"op", "BitVec 32"}}, retTy: "Bool"},
		{goos: "solaris", recv: "fen", name: "xSupports", lean: "xSupportsFen", params: []param{{"op", "BitVec 32"}}, retTy: "Bool"},
	}
	for _, s := range specs {
		txt, err := translate(pk[s.goos], s)
		if err != nil {
			return err
		}
		b.WriteString(txt)
	}

	// noteAllEvents (kqueue)
	if v, _, ok := constVal(pk["freebsd"], "noteAllEvents"); ok {
		u, _ := constant.Uint64Val(v)
		fmt.Fprintf(b, "def noteAllEvents : BitVec 32 := 0x%x#32\n", u)
	} else {
		return fmt.Errorf("noteAllEvents not found")
	}
	if v, _, ok := constVal(pk["windows"], "sysFSALLEVENTS"); ok {
		u, _ := constant.Uint64Val(v)
		fmt.Fprintf(b, "def sysFSALLEVENTS : BitVec 64 := 0x%x#64\n", u)
	}

	// defaultBufferSize per GOOS
	for _, goos := range []string{"linux", "freebsd", "windows", "solaris"} {
		v, isConst := varInit(pk[goos], "defaultBufferSize")
		if !isConst {
			v = "(-1) -- not a constant: " + v
		}
		fmt.Fprintf(b, "def defaultBufferSize_%s : Int := %s\n", goos, v)
	}

	// defaultOpts.op
	if err := emitDefaultOpts(b, lin); err != nil {
		return err
	}
	// Event.String shape
	emitEventString(b, lin)
	return nil
}

func emitDefaultOpts(b *strings.Builder, p *packages.Package) error {
	for _, f := range p.Syntax {
		for _, d := range f.Decls {
			gd, ok := d.(*ast.GenDecl)
			if !ok || gd.Tok != token.VAR {
				continue
			}
			for _, sp := range gd.Specs {
				vs := sp.(*ast.ValueSpec)
				for i, n := range vs.Names {
					if n.Name != "defaultOpts" || len(vs.Values) <= i {
						continue
					}
					cl, ok := vs.Values[i].(*ast.CompositeLit)
					if !ok {
						return fmt.Errorf("defaultOpts is not a composite literal")
					}
					var fields []string
					for _, el := range cl.Elts {
						kv := el.(*ast.KeyValueExpr)
						k := kv.Key.(*ast.Ident).Name
						tv := p.TypesInfo.Types[kv.Value]
						if tv.Value == nil {
							return fmt.Errorf("defaultOpts.%s is not constant", k)
						}
						switch k {
						case "op":
							u, _ := constant.Uint64Val(tv.Value)
							fmt.Fprintf(b, "def defaultOps : BitVec 32 := 0x%x#32\n", u)
						}
						fields = append(fields, leanStr(k+"="+tv.Value.ExactString()))
					}
					fmt.Fprintf(b, "def defaultOptsFields : List String := [%s]\n", strings.Join(fields, ", "))
					return nil
				}
			}
		}
	}
	return fmt.Errorf("defaultOpts not found")
}

// Event.String: emitted as a list of (guard, format, args) rows.
func emitEventString(b *strings.Builder, p *packages.Package) {
	fd := findFunc(p, "Event", "String")
	var rows []string
	t := &tr{p: p}
	var walk func(list []ast.Stmt, guard string)
	walk = func(list []ast.Stmt, guard string) {
		for _, s := range list {
			switch x := s.(type) {
			case *ast.IfStmt:
				walk(x.Body.List, strings.TrimSpace(guard+" "+t.src(x.Cond)))
			case *ast.ReturnStmt:
				row := leanStr(guard) + ", " + leanStr("?") + ", []"
				if len(x.Results) == 1 {
					if call, ok := x.Results[0].(*ast.CallExpr); ok && t.src(call.Fun) == "fmt.Sprintf" && len(call.Args) >= 1 {
						if tv, ok := p.TypesInfo.Types[call.Args[0]]; ok && tv.Value != nil {
							var args []string
							for _, a := range call.Args[1:] {
								args = append(args, leanStr(t.src(a)))
							}
							row = leanStr(guard) + ", " + leanStr(constant.StringVal(tv.Value)) + ", [" + strings.Join(args, ", ") + "]"
						}
					} else {
						row = leanStr(guard) + ", " + leanStr("expr:"+t.src(x.Results[0])) + ", []"
					}
				}
				rows = append(rows, "("+row+")")
			default:
				rows = append(rows, "("+leanStr(guard)+", "+leanStr("stmt:"+t.src(s))+", [])")
			}
		}
	}
	if fd != nil {
		walk(fd.Body.List, "")
	}
	fmt.Fprintf(b, "def eventStringShape : List (String × String × List String) := [\n  %s]\n", strings.Join(rows, ",\n  "))
	// Event.Has
	if h := findFunc(p, "Event", "Has"); h != nil {
		var body []string
		for _, s := range h.Body.List {
			body = append(body, leanStr(t.src(s)))
		}
		fmt.Fprintf(b, "def eventHasBody : List String := [%s]\n", strings.Join(body, ", "))
	}
}
