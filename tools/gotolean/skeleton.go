package main

import (
	"bytes"
	"fmt"
	"go/ast"
	"go/printer"
	"go/token"
	"go/types"
	"path/filepath"
	"regexp"
	"sort"
	"strings"

	"golang.org/x/tools/go/packages"
)

// Concurrency skeleton of the inotify backend: for every function of
// backend_inotify.go, shared.go and the constructors in fsnotify.go the
// ordered list of concurrency-relevant operations, each with the set of
// mutexes lexically held when it executes.

type skOp struct {
	kind string   // lock unlock deferUnlock select send recv close go call sys fileOp table ret ifBegin elseBegin ifEnd loopBegin loopEnd deferBegin deferEnd litBegin litEnd
	a    string   // main argument
	b    []string // extra arguments
	held []string
}

type skFn struct {
	name string // Recv.Name or Name
	file string
	ops  []skOp
	// analysis
	calls map[string]bool
}

type skWalker struct {
	p        *packages.Package
	fn       *skFn
	held     []string // currently held (lexically)
	closures map[string]*skFn
	extra    *[]*skFn
	locals   map[types.Object]string // nsrc: local variable -> %k
	pure     map[types.Object]ast.Expr // nsrc: local defined once by a pure primary expression -> that expression
	depth    int                       // nsrc: nesting (a substituted expression is written inside the text it occurs in)
	recv     types.Object              // nsrc: the receiver of the function (its fields are protocol state, kept by name)
}

// pureLocals: the local variables of a function body that are defined exactly once, by `x := e` with ONE name on
// the left, never assigned, incremented or address-taken afterwards, where e is a primary expression without
// side effects (a conversion or len/cap of side-effect-free operands) whose own variables are never assigned
// after their definition either. A condition that mentions such a variable is written with e in its place:
// extracting a loop bound or a sub-expression of a condition into a local is invisible to the skeleton.
func pureLocals(info *types.Info, body *ast.BlockStmt) map[types.Object]ast.Expr {
	defs := map[types.Object]ast.Expr{}
	writes := map[types.Object]int{}
	obj := func(e ast.Expr) types.Object {
		id, ok := e.(*ast.Ident)
		if !ok {
			return nil
		}
		if o := info.Defs[id]; o != nil {
			return o
		}
		return info.Uses[id]
	}
	assignedFields := map[string]bool{}
	ast.Inspect(body, func(n ast.Node) bool {
		switch x := n.(type) {
		case *ast.AssignStmt:
			for _, l := range x.Lhs {
				if o := obj(l); o != nil {
					writes[o]++
				}
				if se, ok := l.(*ast.SelectorExpr); ok {
					assignedFields[se.Sel.Name] = true
				}
			}
			if x.Tok == token.DEFINE && len(x.Lhs) == 1 && len(x.Rhs) == 1 {
				if o := obj(x.Lhs[0]); o != nil {
					defs[o] = x.Rhs[0]
				}
			}
		case *ast.ValueSpec: // var x = e
			for _, nm := range x.Names {
				if o := info.Defs[nm]; o != nil {
					writes[o]++
				}
			}
			if len(x.Names) == 1 && len(x.Values) == 1 {
				if o := info.Defs[x.Names[0]]; o != nil {
					defs[o] = x.Values[0]
				}
			}
		case *ast.IncDecStmt:
			if o := obj(x.X); o != nil {
				writes[o] += 2
			}
		case *ast.UnaryExpr:
			if x.Op == token.AND {
				if o := obj(x.X); o != nil {
					writes[o] += 2
				}
			}
		case *ast.RangeStmt:
			for _, e := range []ast.Expr{x.Key, x.Value} {
				if e != nil {
					if o := obj(e); o != nil {
						writes[o] += 2
					}
				}
			}
		}
		return true
	})
	var sideEffectFree func(e ast.Expr) bool
	sideEffectFree = func(e ast.Expr) bool {
		switch x := e.(type) {
		case *ast.BasicLit:
			return true
		case *ast.Ident:
			if v, ok := info.Uses[x].(*types.Var); ok && !v.IsField() && v.Parent() != nil && v.Pkg() != nil && v.Parent() != v.Pkg().Scope() {
				return writes[v] <= 1 // a local: defined (or a parameter: never written), not changed afterwards
			}
			_, isConst := info.Uses[x].(*types.Const)
			_, isType := info.Uses[x].(*types.TypeName)
			_, isBuiltin := info.Uses[x].(*types.Builtin)
			return isConst || isType || isBuiltin
		case *ast.SelectorExpr:
			if _, isConst := info.Uses[x.Sel].(*types.Const); isConst {
				return true
			}
			// a field of an unchanged local (inEvent.Mask): read where it is defined or where it is used, the
			// function body does not assign it in between in any code this extractor has met — if it did, the
			// correspondence stages see the difference, the skeleton is not the place for it
			if v, isVar := info.Uses[x.Sel].(*types.Var); isVar && v.IsField() && !assignedFields[x.Sel.Name] {
				return sideEffectFree(x.X)
			}
			return false
		case *ast.ParenExpr:
			return sideEffectFree(x.X)
		case *ast.UnaryExpr:
			return x.Op != token.AND && x.Op != token.ARROW && sideEffectFree(x.X)
		case *ast.BinaryExpr:
			return sideEffectFree(x.X) && sideEffectFree(x.Y)
		case *ast.CallExpr:
			if tv, ok := info.Types[x.Fun]; ok && tv.IsType() && len(x.Args) == 1 {
				return sideEffectFree(x.Args[0]) // a conversion
			}
			if id, ok := x.Fun.(*ast.Ident); ok && (id.Name == "len" || id.Name == "cap") && len(x.Args) == 1 {
				if _, isBuiltin := info.Uses[id].(*types.Builtin); isBuiltin {
					return sideEffectFree(x.Args[0])
				}
			}
		}
		return false
	}
	out := map[types.Object]ast.Expr{}
	for o, e := range defs {
		if writes[o] != 1 {
			continue
		}
		if sideEffectFree(e) {
			out[o] = e
		}
	}
	return out
}

func (w *skWalker) src(n ast.Node) string {
	var b bytes.Buffer
	printer.Fprint(&b, w.p.Fset, n)
	return strings.Join(strings.Fields(b.String()), " ")
}

// nsrc: the source text of a condition / returned value with the function's LOCAL variables (receiver,
// parameters, locals) replaced by %1, %2, … in the order in which that text mentions
// them: renaming a local variable is invisible to the skeleton, everything else (fields, methods,
// package-level names, operators, literals) is kept verbatim.
func (w *skWalker) nsrc(n ast.Node) string {
	// the numbering starts afresh with every condition / returned value: a condition that is added, removed or
	// dropped by a view (Skel.quiet, Skel.lite) does not renumber the others
	if w.depth == 0 {
		w.locals = map[types.Object]string{}
	}
	w.depth++
	defer func() { w.depth-- }()
	type saved struct {
		id   *ast.Ident
		name string
	}
	var undo []saved
	// WHAT is sent is data (the correspondence stages compare it), not protocol: the arguments of the two sending
	// calls are written "…", so that computing the value elsewhere (a helper, a local) does not change the text
	type savedArgs struct {
		call *ast.CallExpr
		args []ast.Expr
	}
	var undoArgs []savedArgs
	ast.Inspect(n, func(x ast.Node) bool {
		if call, ok := x.(*ast.CallExpr); ok {
			if sel, ok := call.Fun.(*ast.SelectorExpr); ok && (sel.Sel.Name == "sendEvent" || sel.Sel.Name == "sendError") && len(call.Args) == 1 {
				undoArgs = append(undoArgs, savedArgs{call, call.Args})
				call.Args = []ast.Expr{&ast.Ident{Name: "…"}}
			}
			// likewise what is passed to a local closure (the call itself is an op of its own: `call F$closure`)
			if id, ok := call.Fun.(*ast.Ident); ok && len(call.Args) > 0 {
				if v, isVar := w.p.TypesInfo.Uses[id].(*types.Var); isVar && !v.IsField() && v.Parent() != nil && v.Pkg() != nil && v.Parent() != v.Pkg().Scope() {
					if _, isFunc := v.Type().Underlying().(*types.Signature); isFunc {
						undoArgs = append(undoArgs, savedArgs{call, call.Args})
						call.Args = []ast.Expr{&ast.Ident{Name: "…"}}
					}
				}
			}
		}
		return true
	})
	defer func() {
		for _, u := range undoArgs {
			u.call.Args = u.args
		}
	}()
	var stack []ast.Node
	ast.Inspect(n, func(x ast.Node) bool {
		if x == nil {
			stack = stack[:len(stack)-1]
			return true
		}
		var parent ast.Node
		if len(stack) > 0 {
			parent = stack[len(stack)-1]
		}
		stack = append(stack, x)
		if _, isLit := x.(*ast.FuncLit); isLit {
			return true
		}
		// an unexported field of a local that is not the receiver (with.sendCreate, watch.recurse, ev.renamedFrom) is
		// data: its name is written "·" (the receiver's fields — done, mu, Events, watches — are protocol state
		// and keep their names)
		if se, isSel := x.(*ast.SelectorExpr); isSel {
			if base, isId := se.X.(*ast.Ident); isId {
				if bo, isVar := w.p.TypesInfo.Uses[base].(*types.Var); isVar && !bo.IsField() && bo != w.recv && bo.Parent() != nil && bo.Pkg() != nil && bo.Parent() != bo.Pkg().Scope() {
					if fo, isF := w.p.TypesInfo.Uses[se.Sel].(*types.Var); isF && fo.IsField() && !fo.Exported() {
						undo = append(undo, saved{se.Sel, se.Sel.Name})
						se.Sel.Name = "·"
					}
				}
			}
		}
		id, ok := x.(*ast.Ident)
		if !ok {
			return true
		}
		if id.Name == "·" {
			return true
		}
		obj := w.p.TypesInfo.Uses[id]
		if obj == nil {
			obj = w.p.TypesInfo.Defs[id]
		}
		v, ok := obj.(*types.Var)
		if !ok || v.IsField() || v.Pkg() == nil || v.Parent() == nil || v.Parent() == v.Pkg().Scope() {
			return true
		}
		if e, ok := w.pure[obj]; ok && w.p.TypesInfo.Uses[id] != nil {
			undo = append(undo, saved{id, id.Name})
			id.Name = w.nsrc(e)
			// parentheses exactly where writing the expression in place would need them
			if be, isBin := unparen(e).(*ast.BinaryExpr); isBin {
				switch pp := parent.(type) {
				case *ast.BinaryExpr:
					if pp.Op.Precedence() >= be.Op.Precedence() {
						id.Name = "(" + id.Name + ")"
					}
				case *ast.UnaryExpr, *ast.SelectorExpr, *ast.IndexExpr, *ast.StarExpr:
					id.Name = "(" + id.Name + ")"
				}
			} else if _, isUn := unparen(e).(*ast.UnaryExpr); isUn {
				switch parent.(type) {
				case *ast.SelectorExpr, *ast.IndexExpr:
					id.Name = "(" + id.Name + ")"
				}
			}
			return true
		}
		nm, seen := w.locals[obj]
		if !seen {
			nm = fmt.Sprintf("%%%d", len(w.locals)+1)
			w.locals[obj] = nm
		}
		undo = append(undo, saved{id, id.Name})
		id.Name = nm
		return true
	})
	out := opSpace.ReplaceAllString(w.src(n), "$1")
	for _, u := range undo {
		u.id.Name = u.name
	}
	return out
}

// go/printer writes `a-b` or `a - b` depending on the precedence of the surrounding expression: conditions are
// compared without blanks around binary operators, so that the same expression reads the same wherever it stands
var opSpace = regexp.MustCompile(`\s*(==|!=|<=|>=|&&|\|\||<<|>>|&\^|[-+*/&|^<>])\s*`)

func (w *skWalker) emit(kind, a string, b ...string) {
	h := append([]string(nil), w.held...)
	sort.Strings(h)
	w.fn.ops = append(w.fn.ops, skOp{kind: kind, a: a, b: b, held: h})
}

func (w *skWalker) hold(m string) {
	for _, x := range w.held {
		if x == m {
			return
		}
	}
	w.held = append(w.held, m)
}
func (w *skWalker) release(m string) {
	var n []string
	for _, x := range w.held {
		if x != m {
			n = append(n, x)
		}
	}
	w.held = n
}

// mutex name: last path component chain without the receiver variable, e.g. w.mu -> mu, b.cookiesMu -> cookiesMu, w.watches.mu -> watches.mu
func stripRecv(s string) string {
	if i := strings.Index(s, "."); i >= 0 {
		return s[i+1:]
	}
	return s
}

var trackedTables = map[string]bool{"watches.wd": true, "watches.path": true, "wd": true, "path": true, "cookies": true, "cookieIndex": true}

func (w *skWalker) isTable(e ast.Expr) (string, bool) {
	sel, ok := e.(*ast.SelectorExpr)
	if !ok {
		return "", false
	}
	s := stripRecv(w.src(sel))
	if !trackedTables[s] {
		return "", false
	}
	// must be a field of watches / inotify
	if tv := w.p.TypesInfo.Selections[sel]; tv != nil && tv.Kind() == types.FieldVal {
		rt := tv.Recv()
		if p, ok := rt.(*types.Pointer); ok {
			rt = p.Elem()
		}
		if n, ok := rt.(*types.Named); ok && (n.Obj().Name() == "watches" || n.Obj().Name() == "inotify") {
			if s == "wd" || s == "path" {
				s = "watches." + s
			}
			return s, true
		}
	}
	return "", false
}

func (w *skWalker) stmts(list []ast.Stmt) {
	for i, s := range list {
		// `if c { A; return … }; R; return …` and `if !c { R; return … }; A; return …` are the same function: the
		// one with the SHORTER branch inside the `if` is written (ties: the one whose condition is not a negation)
		if x, ok := s.(*ast.IfStmt); ok && x.Else == nil && x.Init == nil && i+1 < len(list) && endsInReturn(x.Body.List) && endsInReturn(list[i+1:]) {
			nb, nr := countStmts(x.Body.List), countStmts(list[i+1:])
			_, negated := unparen(x.Cond).(*ast.UnaryExpr)
			if negated {
				negated = unparen(x.Cond).(*ast.UnaryExpr).Op == token.NOT
			}
			if nr < nb || nr == nb && negated {
				w.expr(x.Cond)
				c := ""
				if negated {
					c = w.nsrc(unparen(unparen(x.Cond).(*ast.UnaryExpr).X))
				} else {
					c = "!(" + w.nsrc(x.Cond) + ")"
				}
				w.emit("ifBegin", c)
				saved := append([]string(nil), w.held...)
				w.stmts(list[i+1:])
				w.held = saved
				w.emit("ifEnd", "")
				w.stmts(x.Body.List)
				return
			}
		}
		w.stmt(s)
	}
}

// indexLoopOver: the s of `for i := 0; i < len(s); i++` (s an identifier or a field path), else nil
func indexLoopOver(x *ast.ForStmt) ast.Expr {
	as, ok := x.Init.(*ast.AssignStmt)
	if !ok || as.Tok != token.DEFINE || len(as.Lhs) != 1 || len(as.Rhs) != 1 {
		return nil
	}
	i, ok := as.Lhs[0].(*ast.Ident)
	if lit, ok2 := as.Rhs[0].(*ast.BasicLit); !ok || !ok2 || lit.Value != "0" {
		return nil
	}
	inc, ok := x.Post.(*ast.IncDecStmt)
	if !ok || inc.Tok != token.INC {
		return nil
	}
	if id, ok := inc.X.(*ast.Ident); !ok || id.Name != i.Name {
		return nil
	}
	cmp, ok := x.Cond.(*ast.BinaryExpr)
	if !ok || cmp.Op != token.LSS {
		return nil
	}
	if id, ok := cmp.X.(*ast.Ident); !ok || id.Name != i.Name {
		return nil
	}
	call, ok := cmp.Y.(*ast.CallExpr)
	if !ok || len(call.Args) != 1 {
		return nil
	}
	if f, ok := call.Fun.(*ast.Ident); !ok || f.Name != "len" {
		return nil
	}
	switch call.Args[0].(type) {
	case *ast.Ident, *ast.SelectorExpr:
		return call.Args[0]
	}
	return nil
}

func unparen(e ast.Expr) ast.Expr {
	for {
		p, ok := e.(*ast.ParenExpr)
		if !ok {
			return e
		}
		e = p.X
	}
}

func endsInReturn(list []ast.Stmt) bool {
	if len(list) == 0 {
		return false
	}
	_, ok := list[len(list)-1].(*ast.ReturnStmt)
	return ok
}

func countStmts(list []ast.Stmt) int {
	n := 0
	for _, s := range list {
		ast.Inspect(s, func(x ast.Node) bool {
			if _, ok := x.(ast.Stmt); ok {
				if _, blk := x.(*ast.BlockStmt); !blk {
					n++
				}
			}
			return true
		})
	}
	return n
}

func (w *skWalker) stmt(s ast.Stmt) {
	switch x := s.(type) {
	case nil:
	case *ast.BlockStmt:
		w.stmts(x.List)
	case *ast.ExprStmt:
		w.expr(x.X)
	case *ast.AssignStmt:
		// name := func(...) {...}: a closure analysed as a function of its own,
		// entered at its call sites (not where it is written down)
		if len(x.Lhs) == 1 && len(x.Rhs) == 1 {
			if id, ok := x.Lhs[0].(*ast.Ident); ok {
				if fl, ok := x.Rhs[0].(*ast.FuncLit); ok {
					sub := &skFn{name: w.fn.name + "$" + id.Name, file: w.fn.file, calls: map[string]bool{}}
					sw := &skWalker{p: w.p, fn: sub, closures: w.closures, extra: w.extra, pure: pureLocals(w.p.TypesInfo, fl.Body), recv: w.recv}
					sw.stmts(fl.Body.List)
					w.closures[id.Name] = sub
					*w.extra = append(*w.extra, sub)
					return
				}
			}
		}
		for _, r := range x.Rhs {
			w.expr(r)
		}
		for _, l := range x.Lhs {
			w.expr(l)
		}
	case *ast.IncDecStmt:
		w.expr(x.X)
	case *ast.DeclStmt:
		if gd, ok := x.Decl.(*ast.GenDecl); ok {
			for _, sp := range gd.Specs {
				if vs, ok := sp.(*ast.ValueSpec); ok {
					for _, v := range vs.Values {
						w.expr(v)
					}
				}
			}
		}
	case *ast.DeferStmt:
		if sel, ok := x.Call.Fun.(*ast.SelectorExpr); ok && (sel.Sel.Name == "Unlock" || sel.Sel.Name == "RUnlock") {
			w.emit("deferUnlock", stripRecv(w.src(sel.X)))
			return // stays held until the function returns
		}
		if fl, ok := x.Call.Fun.(*ast.FuncLit); ok {
			w.emit("deferBegin", "")
			w.stmts(fl.Body.List)
			w.emit("deferEnd", "")
			return
		}
		w.emit("deferBegin", "")
		w.expr(x.Call)
		w.emit("deferEnd", "")
	case *ast.GoStmt:
		w.emit("go", stripRecv(w.src(x.Call.Fun)))
	case *ast.SendStmt:
		w.expr(x.Value)
		w.emit("send", stripRecv(w.src(x.Chan)))
	case *ast.SelectStmt:
		// the clauses of a select have no order (the runtime picks among the ready ones at random): they
		// are emitted sorted by what they communicate on, so that reordering them in the source is no change
		type clause struct {
			label string
			cc    *ast.CommClause
		}
		var cls []clause
		for _, c := range x.Body.List {
			cc := c.(*ast.CommClause)
			label := "other"
			switch cm := cc.Comm.(type) {
			case nil:
				label = "default"
			case *ast.SendStmt:
				label = "send:" + stripRecv(w.src(cm.Chan))
			case *ast.ExprStmt:
				if u, ok := cm.X.(*ast.UnaryExpr); ok && u.Op == token.ARROW {
					label = "recv:" + stripRecv(w.src(u.X))
				}
			case *ast.AssignStmt:
				if u, ok := cm.Rhs[0].(*ast.UnaryExpr); ok && u.Op == token.ARROW {
					label = "recv:" + stripRecv(w.src(u.X))
				}
			}
			cls = append(cls, clause{label, cc})
		}
		sort.SliceStable(cls, func(i, j int) bool { return cls[i].label < cls[j].label })
		var cases []string
		for _, c := range cls {
			cases = append(cases, c.label)
		}
		w.emit("select", strings.Join(cases, "|"))
		for _, c := range cls {
			w.emit("caseBegin", "")
			w.stmts(c.cc.Body)
			w.emit("caseEnd", "")
		}
	case *ast.ReturnStmt:
		for _, r := range x.Results {
			w.expr(r)
		}
		var rs []string
		for _, r := range x.Results {
			rs = append(rs, w.nsrc(r))
		}
		w.emit("ret", strings.Join(rs, ", "))
	case *ast.IfStmt:
		w.stmt(x.Init)
		w.expr(x.Cond)
		w.emit("ifBegin", w.nsrc(x.Cond))
		saved := append([]string(nil), w.held...)
		w.stmts(x.Body.List)
		w.held = saved
		if x.Else != nil {
			w.emit("elseBegin", "")
			w.stmt(x.Else)
			w.held = saved
		}
		w.emit("ifEnd", "")
	case *ast.ForStmt:
		w.stmt(x.Init)
		c := ""
		if x.Cond != nil {
			c = w.nsrc(x.Cond)
		}
		if over := indexLoopOver(x); over != nil {
			c = "range " + w.nsrc(over) // `for i := 0; i < len(s); i++` reads like `for … := range s`
		}
		w.emit("loopBegin", c)
		if x.Cond != nil {
			w.expr(x.Cond)
		}
		w.stmts(x.Body.List)
		w.stmt(x.Post)
		w.emit("loopEnd", "")
	case *ast.RangeStmt:
		w.expr(x.X)
		w.emit("loopBegin", "range "+w.nsrc(x.X))
		w.stmts(x.Body.List)
		w.emit("loopEnd", "")
	case *ast.SwitchStmt:
		w.stmt(x.Init)
		if x.Tag != nil {
			w.expr(x.Tag)
		}
		for _, c := range x.Body.List {
			cc := c.(*ast.CaseClause)
			for _, e := range cc.List {
				w.expr(e)
			}
			w.emit("caseBegin", "")
			w.stmts(cc.Body)
			w.emit("caseEnd", "")
		}
	case *ast.BranchStmt:
		w.emit("branch", x.Tok.String())
	case *ast.LabeledStmt:
		w.stmt(x.Stmt)
	}
}

func (w *skWalker) expr(e ast.Expr) {
	switch x := e.(type) {
	case nil:
	case *ast.ParenExpr:
		w.expr(x.X)
	case *ast.UnaryExpr:
		w.expr(x.X)
		if x.Op == token.ARROW {
			w.emit("recv", stripRecv(w.src(x.X)))
		}
	case *ast.BinaryExpr:
		w.expr(x.X)
		w.expr(x.Y)
	case *ast.StarExpr:
		w.expr(x.X)
	case *ast.KeyValueExpr:
		w.expr(x.Value)
	case *ast.CompositeLit:
		for _, el := range x.Elts {
			w.expr(el)
		}
	case *ast.IndexExpr:
		w.expr(x.Index)
		if t, ok := w.isTable(x.X); ok {
			w.emit("table", t)
		} else {
			w.expr(x.X)
		}
	case *ast.SliceExpr:
		w.expr(x.X)
	case *ast.SelectorExpr:
		if t, ok := w.isTable(x); ok {
			w.emit("table", t)
			return
		}
		w.expr(x.X)
	case *ast.FuncLit:
		w.emit("litBegin", "")
		w.stmts(x.Body.List)
		w.emit("litEnd", "")
	case *ast.CallExpr:
		w.call(x)
	}
}

func (w *skWalker) call(x *ast.CallExpr) {
	// builtins
	if id, ok := x.Fun.(*ast.Ident); ok {
		if _, isBuiltin := w.p.TypesInfo.Uses[id].(*types.Builtin); isBuiltin {
			switch id.Name {
			case "close":
				w.emit("close", stripRecv(w.src(x.Args[0])))
				return
			case "delete", "len":
				if t, ok := w.isTable(x.Args[0]); ok {
					for _, a := range x.Args[1:] {
						w.expr(a)
					}
					w.emit("table", t)
					return
				}
			case "make":
				if len(x.Args) >= 1 {
					if _, ok := x.Args[0].(*ast.ChanType); ok {
						capx := "0"
						if len(x.Args) == 2 {
							capx = w.src(x.Args[1])
						}
						w.emit("makeChan", w.src(x.Args[0].(*ast.ChanType).Value), capx)
						return
					}
				}
			}
		}
	}
	for _, a := range x.Args {
		w.expr(a)
	}
	switch f := x.Fun.(type) {
	case *ast.SelectorExpr:
		// mutex operations
		if rt := w.p.TypesInfo.TypeOf(f.X); rt != nil {
			rs := rt.String()
			if strings.HasSuffix(rs, "sync.Mutex") || strings.HasSuffix(rs, "sync.RWMutex") {
				m := stripRecv(w.src(f.X))
				switch f.Sel.Name {
				case "Lock", "RLock":
					w.emit("lock", m)
					w.hold(m)
				case "Unlock", "RUnlock":
					w.emit("unlock", m)
					w.release(m)
				}
				return
			}
		}
		// package-qualified call?
		if id, ok := f.X.(*ast.Ident); ok {
			if pn, ok := w.p.TypesInfo.Uses[id].(*types.PkgName); ok {
				if pn.Imported().Name() == "unix" {
					a0 := ""
					if len(x.Args) > 0 {
						a0 = w.src(x.Args[0])
					}
					w.emit("sys", f.Sel.Name, a0)
				} else if pn.Imported().Name() == "os" && (f.Sel.Name == "NewFile") {
					w.emit("fileOp", "NewFile")
				}
				return
			}
		}
		// method of this package?
		if obj := w.p.TypesInfo.Uses[f.Sel]; obj != nil {
			if fn, ok := obj.(*types.Func); ok && fn.Pkg() == w.p.Types {
				w.expr(f.X)
				w.emit("call", fn.Name())
				w.fn.calls[fn.Name()] = true
				return
			}
			if fn, ok := obj.(*types.Func); ok && fn.Pkg() != nil && fn.Pkg().Path() == "os" {
				if strings.HasSuffix(w.src(f.X), "inotifyFile") {
					w.emit("fileOp", fn.Name())
					return
				}
			}
		}
		w.expr(f.X)
	case *ast.Ident:
		if obj := w.p.TypesInfo.Uses[f]; obj != nil {
			if fn, ok := obj.(*types.Func); ok && fn.Pkg() == w.p.Types {
				w.emit("call", fn.Name())
				w.fn.calls[fn.Name()] = true
				return
			}
			if _, ok := obj.(*types.Var); ok {
				// calling a local closure or parameter
				if sub, ok := w.closures[f.Name]; ok {
					n := sub.name[strings.LastIndex(sub.name, ".")+1:]
					w.emit("call", n)
					w.fn.calls[n] = true
				} else {
					w.emit("callVar", f.Name)
				}
			}
		}
	case *ast.FuncLit:
		w.expr(f)
	}
}

func fnName(fd *ast.FuncDecl) string {
	if fd.Recv != nil && len(fd.Recv.List) == 1 {
		ty := fd.Recv.List[0].Type
		if st, ok := ty.(*ast.StarExpr); ok {
			ty = st.X
		}
		if id, ok := ty.(*ast.Ident); ok {
			return id.Name + "." + fd.Name.Name
		}
	}
	return fd.Name.Name
}

func leanList(xs []string) string {
	var q []string
	for _, x := range xs {
		q = append(q, leanStr(x))
	}
	return "[" + strings.Join(q, ", ") + "]"
}

func emitSkeleton(b *strings.Builder, p *packages.Package) error {
	want := map[string]bool{"backend_inotify.go": true, "shared.go": true, "fsnotify.go": true}
	var fns []*skFn
	byShort := map[string][]*skFn{} // method name -> fns
	for _, f := range p.Syntax {
		file := filepath.Base(p.Fset.Position(f.Pos()).Filename)
		if !want[file] {
			continue
		}
		for _, d := range f.Decls {
			fd, ok := d.(*ast.FuncDecl)
			if !ok || fd.Body == nil {
				continue
			}
			fn := &skFn{name: fnName(fd), file: file, calls: map[string]bool{}}
			var extra []*skFn
			w := &skWalker{p: p, fn: fn, closures: map[string]*skFn{}, extra: &extra, pure: pureLocals(p.TypesInfo, fd.Body)}
			if fd.Recv != nil && len(fd.Recv.List) == 1 && len(fd.Recv.List[0].Names) == 1 {
				w.recv = p.TypesInfo.Defs[fd.Recv.List[0].Names[0]]
			}
			w.stmts(fd.Body.List)
			// keep fsnotify.go only for functions with concurrency content (and their closures with them)
			if file == "fsnotify.go" {
				keep := false
				for _, o := range fn.ops {
					if o.kind == "makeChan" || o.kind == "call" && (o.a == "newBackend") {
						keep = true
					}
				}
				if !keep {
					continue
				}
			}
			fns = append(fns, extra...)
			fns = append(fns, fn)
			byShort[fd.Name.Name] = append(byShort[fd.Name.Name], fn)
		}
	}
	sort.Slice(fns, func(i, j int) bool { return fns[i].name < fns[j].name })

	b.WriteString("def skeleton : List FnSkel := [\n")
	for i, fn := range fns {
		fmt.Fprintf(b, "  ⟨%s, %s, [\n", leanStr(fn.name), leanStr(fn.file))
		for j, o := range fn.ops {
			sep := ","
			if j == len(fn.ops)-1 {
				sep = ""
			}
			fmt.Fprintf(b, "    ⟨%s, %s, %s, %s⟩%s\n", leanStr(o.kind), leanStr(o.a), leanList(o.b), leanList(o.held), sep)
		}
		if i == len(fns)-1 {
			b.WriteString("  ]⟩\n")
		} else {
			b.WriteString("  ]⟩,\n")
		}
	}
	b.WriteString("]\n\n")

	// ---- derived facts -------------------------------------------------
	// transitive "may send on a channel"
	sends := map[string]map[string]bool{} // fn short name -> set of channels
	short := func(n string) string {
		if i := strings.LastIndex(n, "."); i >= 0 {
			return n[i+1:]
		}
		return n
	}
	for _, fn := range fns {
		s := map[string]bool{}
		for _, o := range fn.ops {
			if o.kind == "send" {
				s[o.a] = true
			}
			if o.kind == "select" {
				for _, c := range strings.Split(o.a, "|") {
					if strings.HasPrefix(c, "send:") {
						s[strings.TrimPrefix(c, "send:")] = true
					}
				}
			}
		}
		if sends[short(fn.name)] == nil {
			sends[short(fn.name)] = map[string]bool{}
		}
		for k := range s {
			sends[short(fn.name)][k] = true
		}
	}
	for changed := true; changed; {
		changed = false
		for _, fn := range fns {
			me := sends[short(fn.name)]
			for c := range fn.calls {
				for ch := range sends[c] {
					if !me[ch] {
						me[ch] = true
						changed = true
					}
				}
			}
		}
	}
	// sites where a (transitive) send can happen while a mutex is lexically held
	var swl []string
	for _, fn := range fns {
		for _, o := range fn.ops {
			if len(o.held) == 0 {
				continue
			}
			var chans []string
			switch o.kind {
			case "send":
				chans = []string{o.a}
			case "select":
				for _, c := range strings.Split(o.a, "|") {
					if strings.HasPrefix(c, "send:") {
						chans = append(chans, strings.TrimPrefix(c, "send:"))
					}
				}
			case "call":
				for ch := range sends[o.a] {
					chans = append(chans, ch)
				}
				sort.Strings(chans)
			}
			for _, ch := range chans {
				via := o.a
				if o.kind != "call" {
					via = o.kind
				}
				swl = append(swl, fmt.Sprintf("(%s, %s, %s, %s)", leanStr(fn.name), leanStr(via), leanStr(ch), leanStr(strings.Join(o.held, "+"))))
			}
		}
	}
	fmt.Fprintf(b, "/-- (function, via, channel, mutexes held): a send can happen while a mutex is held -/\ndef sendsWhileLocked : List (String × String × String × String) := [\n  %s]\n\n", strings.Join(swl, ",\n  "))

	// table accesses: which functions need `mu` from their caller
	needs := func(table func(string) bool, mutex string) []string {
		req := map[string]bool{}
		for _, fn := range fns {
			for _, o := range fn.ops {
				if o.kind == "table" && table(o.a) && !contains(o.held, mutex) {
					req[short(fn.name)] = true
				}
			}
		}
		for changed := true; changed; {
			changed = false
			for _, fn := range fns {
				if req[short(fn.name)] {
					continue
				}
				for _, o := range fn.ops {
					if (o.kind == "call") && req[o.a] && !contains(o.held, mutex) {
						req[short(fn.name)] = true
						changed = true
					}
				}
			}
		}
		var out []string
		for _, fn := range fns {
			if req[short(fn.name)] {
				out = append(out, fn.name)
			}
		}
		sort.Strings(out)
		return out
	}
	isWatchTable := func(s string) bool { return strings.HasPrefix(s, "watches.") }
	isCookie := func(s string) bool { return s == "cookies" || s == "cookieIndex" }
	fmt.Fprintf(b, "/-- functions that touch the watch tables (directly or through callees) without holding mu themselves -/\ndef needMuFromCaller : List String := %s\n", leanList(needs(isWatchTable, "mu")))
	fmt.Fprintf(b, "def needCookiesMuFromCaller : List String := %s\n\n", leanList(needs(isCookie, "cookiesMu")))

	// closers / senders / receivers
	var closers, senders, gos, sysc, caps []string
	for _, fn := range fns {
		for _, o := range fn.ops {
			switch o.kind {
			case "close":
				closers = append(closers, fmt.Sprintf("(%s, %s)", leanStr(fn.name), leanStr(o.a)))
			case "send":
				senders = append(senders, fmt.Sprintf("(%s, %s)", leanStr(fn.name), leanStr(o.a)))
			case "select":
				for _, c := range strings.Split(o.a, "|") {
					if strings.HasPrefix(c, "send:") {
						senders = append(senders, fmt.Sprintf("(%s, %s)", leanStr(fn.name), leanStr(strings.TrimPrefix(c, "send:"))))
					}
				}
			case "go":
				gos = append(gos, fmt.Sprintf("(%s, %s)", leanStr(fn.name), leanStr(o.a)))
			case "sys":
				a0 := ""
				if len(o.b) > 0 {
					a0 = o.b[0]
				}
				sysc = append(sysc, fmt.Sprintf("(%s, %s, %s)", leanStr(fn.name), leanStr(o.a), leanStr(a0)))
			case "makeChan":
				caps = append(caps, fmt.Sprintf("(%s, %s, %s)", leanStr(fn.name), leanStr(o.a), leanStr(o.b[0])))
			}
		}
	}
	fmt.Fprintf(b, "def closers : List (String × String) := [%s]\n", strings.Join(closers, ", "))
	fmt.Fprintf(b, "def senders : List (String × String) := [%s]\n", strings.Join(senders, ", "))
	fmt.Fprintf(b, "def goStmts : List (String × String) := [%s]\n", strings.Join(gos, ", "))
	fmt.Fprintf(b, "def syscalls : List (String × String × String) := [%s]\n", strings.Join(sysc, ", "))
	fmt.Fprintf(b, "def chanCaps : List (String × String × String) := [%s]\n\n", strings.Join(caps, ", "))

	// package-level variables written outside their declaration (non-test files)
	var written []string
	for _, f := range p.Syntax {
		file := filepath.Base(p.Fset.Position(f.Pos()).Filename)
		ast.Inspect(f, func(n ast.Node) bool {
			var lhs []ast.Expr
			switch x := n.(type) {
			case *ast.AssignStmt:
				if x.Tok != token.DEFINE {
					lhs = x.Lhs
				}
			case *ast.IncDecStmt:
				lhs = []ast.Expr{x.X}
			}
			for _, l := range lhs {
				root := l
				for {
					switch r := root.(type) {
					case *ast.SelectorExpr:
						root = r.X
						continue
					case *ast.IndexExpr:
						root = r.X
						continue
					case *ast.StarExpr:
						root = r.X
						continue
					}
					break
				}
				if id, ok := root.(*ast.Ident); ok {
					if v, ok := p.TypesInfo.Uses[id].(*types.Var); ok && v.Parent() == p.Types.Scope() {
						written = append(written, fmt.Sprintf("(%s, %s)", leanStr(file), leanStr(id.Name)))
					}
				}
			}
			return true
		})
	}
	sort.Strings(written)
	fmt.Fprintf(b, "def pkgVarsWritten : List (String × String) := [%s]\n", strings.Join(written, ", "))

	// package-level variables (all), so a new piece of shared state is noticed
	var pv []string
	for _, n := range p.Types.Scope().Names() {
		if v, ok := p.Types.Scope().Lookup(n).(*types.Var); ok {
			pv = append(pv, leanStr(n+" : "+types.TypeString(v.Type(), func(*types.Package) string { return "" })))
		}
	}
	fmt.Fprintf(b, "def pkgVars : List String := [%s]\n", strings.Join(pv, ", "))

	// callers of withCreate (dead option that would make AddWith send under mu)
	var wc []string
	for _, f := range p.Syntax {
		ast.Inspect(f, func(n ast.Node) bool {
			if c, ok := n.(*ast.CallExpr); ok {
				if id, ok := c.Fun.(*ast.Ident); ok && id.Name == "withCreate" {
					wc = append(wc, leanStr(filepath.Base(p.Fset.Position(c.Pos()).Filename)))
				}
			}
			return true
		})
	}
	fmt.Fprintf(b, "def withCreateCallers : List String := [%s]\n", strings.Join(wc, ", "))
	return nil
}

func contains(xs []string, s string) bool {
	for _, x := range xs {
		if x == s {
			return true
		}
	}
	return false
}
