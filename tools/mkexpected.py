#!/usr/bin/env python3
"""tools/mkexpected.py — rewrite lean/FsnVerif/Expected/Skeleton.lean from the skeleton gotolean generates for
the CURRENT tree. To be run by a reviewer who has read the difference (git diff of the Expected file) and
checked it against Model/Proto: the Expected file is the reviewed reference the regenerated skeleton is proved
equal to on every run; nothing in bin/ calls this script."""
import re, sys, os, subprocess, tempfile
V = os.path.dirname(os.path.dirname(os.path.abspath(__file__)))
out = tempfile.mkdtemp()
subprocess.check_call([os.path.join(V, ".build", "gotolean"), "-repo", os.environ.get("VERIF_REPO", "/repo"), "-out", out])
src = open(os.path.join(out, "Skeleton.lean")).read()
m = re.search(r"def skeleton : List FnSkel := \[\n(.*?)\n\]\n", src, re.S)
body, rest = m.group(1), src[m.end():]
fns = re.findall(r'  ⟨"([^"]+)", "[^"]+", \[\n(.*?)\n  \]⟩', body, re.S)
mangle = lambda n: "fn_" + re.sub(r"[.$]", "_", n)
hdr = open(os.path.join(V, "lean/FsnVerif/Expected/Skeleton.lean")).read()
hdr = hdr[:hdr.index("namespace Expected")]
o = hdr + "namespace Expected\nopen Skel\n\n"
for name, ops in fns:
    o += f"def {mangle(name)} : List SkOp := [\n{ops}\n]\n\n"
facts = rest[:rest.index("end Gen")].strip("\n")
o += facts + "\n\n"
o += "def functions : List (String × List SkOp) := [\n" + ",\n".join(f'  ("{n}", {mangle(n)})' for n, _ in fns) + "]\n\nend Expected\n"
open(os.path.join(V, "lean/FsnVerif/Expected/Skeleton.lean"), "w").write(o)
print("functions:", len(fns))
