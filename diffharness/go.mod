module scratchdiff

go 1.23
