-- Root of the `FsnVerif` library: importing everything that must build.
import FsnVerif.Model.Skel
import FsnVerif.Model.Bits
import FsnVerif.Proofs.BitsLemmas
import FsnVerif.Proofs.OpStringLemmas
import FsnVerif.Proofs.BridgeTables
import FsnVerif.Props.C15
import FsnVerif.Props.C16
