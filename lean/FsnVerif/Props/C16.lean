import FsnVerif.Proofs.BridgeString
import FsnVerif.Proofs.OpStringLemmas
/-!
# C16 — Op and Event predicates and renderings are total, exact and unambiguous

All statements quantify over **every** 32-bit `Op` value (no sampling above bit 16).
`Gen.*` are the definitions regenerated from `fsnotify.go` on every run.
-/
namespace C16
open Fsn

/-- `Op.Has` (as written in the source) is true exactly when the two sets intersect. -/
theorem has_iff_inter (o h : BitVec 32) : Gen.opHas o h = true ↔ o &&& h ≠ 0#32 := by
  rw [Bridge.opHas_eq']; simp [opHas]

/-- `Event.Has` delegates to `Op.Has` on the event's `Op`. -/
theorem event_has_agrees : Gen.eventHasBody = ["return e.Op.Has(op)"] := rfl

/-- the source's `Op.String` is the model's, for all 2^32 values -/
theorem string_is_model (o : BitVec 32) : Gen.opString o = opString o := Bridge.opString_eq o

/-- names rendered = the fixed table filtered by the bits present: each defined operation
present appears once, in table order -/
theorem names_eq_filter (o : BitVec 32) :
    opNames o = (opNameTable.filter (fun p => opHas o p.1)).map (·.2) := by
  unfold opNames
  induction opNameTable with
  | nil => rfl
  | cons p ps ih =>
    simp only [List.flatMap_cons, List.filter_cons, ih]
    cases opHas o p.1 <;> simp

/-- the table names the nine defined operations, one bit each, with distinct `|`-free names -/
theorem table_wellformed :
    opNameTable.map (·.1) = [Create, Remove, Write, Open, Read, CloseWrite, CloseRead, Rename, Chmod] ∧
    (opNameTable.map (·.2)).Nodup ∧ (∀ p ∈ opNameTable, '|' ∉ p.2 ∧ p.2 ≠ []) := by decide

/-- the text is the names joined by `|`, or `[no events]` when there is none -/
theorem string_is_join (o : BitVec 32) :
    Gen.opString o = if (opNames o).isEmpty then noEvents else joinBar (opNames o) := by
  rw [string_is_model]; rfl

/-- undefined bits never alter the text -/
theorem undefined_bits_irrelevant (o : BitVec 32) : Gen.opString o = Gen.opString (o &&& definedOps) := by
  rw [string_is_model, string_is_model]
  have hn : opNames (o &&& definedOps) = opNames o := by
    unfold opNames opNameTable
    simp only [List.flatMap_cons, List.flatMap_nil,
      opHas_mask o definedOps Create (by decide), opHas_mask o definedOps Remove (by decide),
      opHas_mask o definedOps Write (by decide), opHas_mask o definedOps Open (by decide),
      opHas_mask o definedOps Read (by decide), opHas_mask o definedOps CloseWrite (by decide),
      opHas_mask o definedOps CloseRead (by decide), opHas_mask o definedOps Rename (by decide),
      opHas_mask o definedOps Chmod (by decide)]
  unfold opString
  rw [hn]

/-- the rendering can be parsed back to exactly the defined bits of the value -/
theorem parse_render (o : BitVec 32) : parseOps (Gen.opString o) = o &&& definedOps := by
  rw [string_is_model, and_defined]
  delta opString opNames opNameTable opHas Create Remove Write Open Read CloseWrite CloseRead Rename Chmod
  simp only [List.flatMap_cons, List.flatMap_nil]
  generalize ((o &&& 0x1#32) != 0#32) = b1
  generalize ((o &&& 0x2#32) != 0#32) = b2
  generalize ((o &&& 0x4#32) != 0#32) = b3
  generalize ((o &&& 0x8#32) != 0#32) = b4
  generalize ((o &&& 0x10#32) != 0#32) = b5
  generalize ((o &&& 0x20#32) != 0#32) = b6
  generalize ((o &&& 0x40#32) != 0#32) = b7
  generalize ((o &&& 0x80#32) != 0#32) = b8
  generalize ((o &&& 0x100#32) != 0#32) = b9
  revert b1 b2 b3 b4 b5 b6 b7 b8 b9
  decide

/-- distinct sets of defined operations render differently -/
theorem render_injective (o p : BitVec 32) (h : o &&& definedOps ≠ p &&& definedOps) :
    Gen.opString o ≠ Gen.opString p := by
  intro heq
  apply h
  rw [← parse_render o, ← parse_render p, heq]

/-- `[no events]` exactly when no defined operation is present -/
theorem no_events_iff (o : BitVec 32) : Gen.opString o = noEvents ↔ o &&& definedOps = 0#32 := by
  constructor
  · intro h
    rw [← parse_render o, h]; decide
  · intro h
    rw [undefined_bits_irrelevant, h]; decide

/-- `Event.String`: the padded `Op` text, the quoted name and, for the new name of a rename, the
quoted old name. The format strings and argument order are those regenerated from the source. -/
theorem event_string_shape :
    Gen.eventStringShape = [
      ("e.renamedFrom != \"\"", "%-13s %q ← %q", ["e.Op.String()", "e.Name", "e.renamedFrom"]),
      ("", "%-13s %q", ["e.Op.String()", "e.Name"])] := rfl

theorem event_string_parts (q : List Nat → List Char) (e : Event) :
    eventString q e = pad13 (opString e.op) ++ ' ' :: q e.name ++
      (if e.renamedFrom = [] then [] else arrow ++ q e.renamedFrom) := by
  unfold eventString
  by_cases h : e.renamedFrom = [] <;> simp [h]

/-- an event with an old name never renders like one without, whatever `%q` does, provided quoted
text cannot end in the arrow (Go's `%q` output ends in `"`) -/
theorem event_string_rename_visible (q : List Nat → List Char) (e : Event) (h : e.renamedFrom ≠ []) :
    arrow ++ q e.renamedFrom <:+ eventString q e := by
  rw [event_string_parts]; simp [h]
  exact ⟨pad13 (opString e.op) ++ ' ' :: q e.name, by simp⟩

/-! ### non-vacuity / sanity examples (tests, labelled as tests) -/
example : Gen.opString 0x1f#32 = "CREATE|REMOVE|WRITE|RENAME|CHMOD".toList := by decide
example : Gen.opString 0xfffffe00#32 = "[no events]".toList := by decide
example : Gen.opString 0x80000108#32 = "CLOSE_READ|RENAME".toList := by decide
example : Gen.opHas 0x6#32 0x4#32 = true ∧ Gen.opHas 0x6#32 0x9#32 = false := by decide
example : pad13 "CREATE".toList = "CREATE       ".toList := by decide

end C16
