import FsnVerif.Proofs.KqLemmas
import FsnVerif.Proofs.KqFullInv
import FsnVerif.Proofs.KqFullFrame
import FsnVerif.Proofs.KqFullRemove
import FsnVerif.Proofs.KqFullQueueGone
/-!
# C17 — kqueue: watch descriptors are always closed again; only user paths are listed (model side)

Over the bookkeeping model of `backend_kqueue.go` (`Model/Kqueue`): the descriptors opened for
watches and not yet closed are exactly the keys of the wd table, in every state reachable by
successful adds (with kernel-fresh descriptors) and removals — so removing a watch (by `Remove`,
by the reader on a delete/rename notification, or as a child of a removed directory) closes its
descriptor — and `Close` leaves no descriptor open (finding F4 repaired). `WatchList` is the
user-added set, which the removal of a path also clears.
Tie: the REAL `backend_kqueue.go` is compiled on Linux against stand-ins and driven by real
file-system operations under a simulated kqueue; after every step the executable invariant
`KState.inv` is evaluated by the Lean driver on a snapshot of the implementation's tables and of the
descriptors really open, next to Go-side descriptor accounting.
Partial twice over: the kernel is simulated, and real BSD/macOS behaviour is out of reach here.
-/
namespace C17
open Kq Fsn

inductive Op
  | add (p link : Path) (fd : Nat) (isDir : Bool)
  | rm (name : Path) (evDeleteOk : Bool)

/-- an add is admissible when the kernel's descriptor is fresh and the path is not watched yet
(otherwise `addWatch` re-registers the existing descriptor and opens nothing) -/
def admissible (s : KState) : Op → Prop
  | .add p _ fd _ => fd ∉ s.openFds ∧ ∀ fd' w, alLookup p s.path = some fd' → alLookup fd' s.wd = some w → False
  | .rm _ _ => True

def apply (s : KState) : Op → KState
  | .add p link fd isDir => s.addOk p link fd isDir
  | .rm name ok => s.rmOne name ok

inductive Reachable : KState → Prop
  | init : Reachable {}
  | step (s : KState) (op : Op) : Reachable s → admissible s op → Reachable (apply s op)

/-- **open descriptors = watch table**, in every reachable state -/
theorem fds_are_table {s : KState} (h : Reachable s) : KInv s := by
  induction h with
  | init => exact inv_init
  | step s op _ ha ih =>
    cases op with
    | add p link fd isDir => exact ih.addOk p link fd isDir ha.1 ha.2
    | rm name ok => exact ih.rmOne name ok

/-- removing a watched path closes exactly its descriptor -/
theorem remove_closes (s : KState) (name : Path) (fd : Nat) (w : KW)
    (hp : alLookup name s.path = some fd) (hw : alLookup fd s.wd = some w) :
    (s.rmOne name true).openFds = s.openFds.filter (· != fd) ∧ alLookup fd (s.rmOne name true).wd = none ∧
    alLookup name (s.rmOne name true).path = none := by
  unfold KState.rmOne
  simp only [hp, hw, Bool.not_true, Bool.false_eq_true, if_false, KState.tblRemove, true_and]
  exact ⟨alLookup_erase_same _ _, alLookup_erase_same _ _⟩

/-- … and takes the path out of the user-added set, so `WatchList` no longer shows it -/
theorem remove_unlists (s : KState) (name : Path) (fd : Nat) (w : KW)
    (hp : alLookup name s.path = some fd) (hw : alLookup fd s.wd = some w) :
    name ∉ (s.rmOne name true).byUser := by
  unfold KState.rmOne
  simp only [hp, hw, Bool.not_true, Bool.false_eq_true, if_false, KState.tblRemove]
  simp

/-- **Close releases every descriptor** -/
theorem close_releases_all {s : KState} (h : Reachable s) : s.closeAll.openFds = [] :=
  Kq.close_releases_all s (fds_are_table h)

/-- `WatchList` is the user-added set while open and empty after Close; internal per-entry watches
(never put into `byUser`) are not shown -/
theorem watchlist_user_only (s : KState) : s.watchList = (if s.closed then [] else s.byUser) := rfl

theorem add_does_not_list (s : KState) (p link : Path) (fd : Nat) (isDir : Bool) :
    (s.addOk p link fd isDir).byUser = s.byUser := rfl

/-- before the repair `Close` called the public `Remove`, which returns at once on a closed
Watcher: nothing was closed -/
theorem close_before_fix_released_nothing (s : KState) :
    ((s.path.map (·.1)).foldl (fun (acc : KState) _ => acc) { s with closed := true }).openFds = s.openFds := by
  induction s.path.map (·.1) with
  | nil => rfl
  | cons k ks ih => simpa using ih

/-! non-vacuity: a directory with two entries, then Close -/
def P (s : String) : Path := s.toList.map (·.toNat)
def three : KState := ((({} : KState).addOk (P "d") [] 5 true).addOk (P "d/a") [] 6 false).addOk (P "d/b") [] 7 false
example : three.inv = true ∧ three.openFds = [7, 6, 5] ∧ three.closeAll.openFds = [] ∧ three.closeAll.wd = [] := by decide


/-- what the driver prints for a snapshot is "ok" exactly when the executable invariant holds -/
theorem invReport_ok_iff (s : KState) (links : List Path) : s.invReport links = "ok" ↔ s.inv = true := by
  unfold KState.invReport KState.inv
  by_cases h1 : s.openFds.all (fun fd => alHas fd s.wd) <;>
  by_cases h2 : s.wd.all (fun e => s.openFds.contains e.1) <;>
  by_cases h3 : s.wd.all (fun e => e.2.wd == e.1 && alLookup e.2.name s.path == some e.1) <;>
  simp only [h1, h2, h3, Bool.not_true, Bool.not_false, Bool.false_eq_true, if_false, if_true,
    Bool.true_and, Bool.and_true, Bool.false_and, Bool.and_false] <;> try (simp; done)
  cases hf : s.byUser.find? (fun p => !(alHas p s.path || s.wd.any (fun e => e.2.linkName == p))) with
  | none =>
    simp only [true_iff]
    rw [List.all_eq_true]
    intro p hp
    have := List.find?_eq_none.mp hf p hp
    cases hh : (alHas p s.path || s.wd.any (fun e => e.2.linkName == p)) with
    | true => rfl
    | false => simp [hh] at this
  | some p =>
    have hp := List.find?_some hf
    have hm := List.mem_of_find?_eq_some hf
    have : s.byUser.all (fun p => alHas p s.path || s.wd.any (fun e => e.2.linkName == p)) = false := by
      rw [Bool.eq_false_iff]; intro hall
      have := List.all_eq_true.mp hall p hm
      simp [this] at hp
    simp only [this]
    split <;> simp



/-!
## The same statements over the FULL model of the backend (`Model/KqFull`)

`Model/KqFull` mirrors the control flow of `backend_kqueue.go` function by function; what the code
asks its environment (`os.Lstat`, `os.Readlink`, `os.ReadDir`, `unix.Open`, the batches `kevent`
returns) is a tape of answers, and the theorems below hold for **every** tape. Tie: the real backend
runs under the simulated kqueue with a recording stand-in for package `os`; every step's tape is fed
to the compiled model and return class, event and error sequence, all five tables, the descriptors
really open, the knotes and `WatchList` are compared (`kqf` lines of the kq stage).
-/
namespace Full
open KqF

inductive Op
  | add (p : Path)
  | remove (p : Path)
  | events            -- the reader works off the kevent batches on the tape
  | close

def run (op : Op) (w : W) : W :=
  match op with
  | .add p => (KqF.add p w).2
  | .remove p => (KqF.remove p true w).2
  | .events => (KqF.reader 64 w).2
  | .close => (KqF.close w).2

/-- the states reachable by any sequence of API calls and reader activity, whatever the environment
answers (`tape` is arbitrary at every step) -/
inductive Reachable : KS → Prop
  | init : Reachable {}
  | step (s : KS) (op : Op) (tape : List Ans) : Reachable s → Reachable (run op { s := s, tape := tape }).s

theorem reachable_inv {s : KS} (h : Reachable s) : Inv s := by
  induction h with
  | init => exact inv_init
  | step s op tape _ ih =>
    cases op with
    | add p => exact add_ok p _ ih
    | remove p => exact remove_ok p true _ ih
    | events => exact reader_ok 64 _ ih
    | close => exact close_ok _ ih

/-- **every descriptor the Watcher opened and has not closed belongs to a table entry, and every
table entry's descriptor is open** — in every reachable state, for every environment -/
theorem full_fds_are_table {s : KS} (h : Reachable s) (fd : Nat) : fd ∈ s.openFds ↔ alHas fd s.wd = true := by
  have := (reachable_inv h).open_iff fd
  simpa using this

/-- every entry is listed in the path table under its own, clean name and with its own descriptor;
every entry has a knote and knotes exist only on open descriptors -/
theorem full_entries_listed {s : KS} (h : Reachable s) (k : Nat) (w : KqF.KW) (hk : alLookup k s.wd = some w) :
    w.wd = k ∧ alLookup w.name s.path = some k ∧ clean w.name = w.name ∧ alHas k s.knotes = true :=
  let i := reachable_inv h
  ⟨i.key_wd k w hk, i.listed k w hk, i.keys_clean k w hk, i.has_knote k ((alHas_iff _ _).mpr ⟨w, hk⟩)⟩

/-- **`Close` releases everything**: after any history, `Close` leaves no descriptor open, no table
entry and no knote (findings F4 and F15 repaired: before F15's repair a link target that is not in
clean form was a counterexample — `keys_clean` could not be proved) -/
theorem full_close_releases_all {s : KS} (h : Reachable s) (hc : s.closed = false) (tape : List Ans) :
    (run .close { s := s, tape := tape }).s.openFds = [] ∧ (run .close { s := s, tape := tape }).s.wd = [] ∧
      (run .close { s := s, tape := tape }).s.knotes = [] :=
  close_releases _ (reachable_inv h) hc

/-- **`Close` releases every descriptor even when the queue is gone** (finding F18, repaired): `Close` marks
the Watcher closed and then releases path after path; the reader exits as soon as a send finds the Watcher
closed and closes the kqueue on its way out, so every `register(EV_DELETE)` of that loop may fail. Whatever
the kernel's knotes have become at that moment (`kn`; the empty list is "queue closed"), the loop leaves no
descriptor open and no table entry. Before the repair `rm` returned at the failed `register`: with
`kn = []` nothing at all was released -/
theorem full_close_releases_queue_gone {s : KS} (h : Reachable s) (hc : s.closed = false) (tape : List Ans)
    (kn : List (Nat × BitVec 32)) :
    let r := (closeLoop (s.path.map (·.1)) { s := { s with closed := true, knotes := kn }, tape := tape }).2
    r.s.openFds = [] ∧ r.s.wd = [] :=
  close_releases_queue_gone { s := s, tape := tape } (reachable_inv h) hc kn

/-- **`Remove` of a watched path closes that path's descriptor and drops its entry** (and, for a
directory, whatever else it removes, it never adds an entry): afterwards the descriptor is not open,
no entry carries it, no entry is listed under the removed name -/
theorem full_remove_releases {s : KS} (h : Reachable s) (hc : s.closed = false) (name : Path) (info : KqF.KW)
    (hi : alLookup ((alLookup (clean name) s.path).getD 0) s.wd = some info) (tape : List Ans) :
    info.wd ∉ (run (.remove name) { s := s, tape := tape }).s.openFds ∧
    AllEnt (fun k w => k ≠ info.wd ∧ w.name ≠ clean name) (run (.remove name) { s := s, tape := tape }).s := by
  have hinv := reachable_inv h
  have e : run (.remove name) { s := s, tape := tape } = (rm (5 + 1) name true { s := s, tape := tape }).2 := by
    simp only [run, KqF.remove, bind_apply, KqF.get, hc]
    rfl
  rw [e]
  obtain ⟨h1, h2⟩ := rm_found 5 name true { s := s, tape := tape } hinv info hi
  refine ⟨?_, h2⟩
  intro hopen
  have := (h1.open_iff _).mp hopen
  simp only [reduceCtorEq, or_false] at this
  obtain ⟨e', he'⟩ := (alHas_iff _ _).mp this
  exact (h2 _ _ he').1 rfl

/-- **`Remove` of a watched directory releases the watches of its entries** ("through removal of the
containing directory's watch"): afterwards the only watches left directly inside it are ones the user
added himself (and `full_remove_releases` says the directory's own descriptor is closed; every watch
that goes closes its descriptor by `full_fds_are_table`) -/
theorem full_remove_dir_releases_entries {s : KS} (h : Reachable s) (hc : s.closed = false) (name : Path) (info : KqF.KW)
    (hi : alLookup ((alLookup (clean name) s.path).getD 0) s.wd = some info) (hd : info.isDir = true) (tape : List Ans) :
    ∀ k e, alLookup k (run (.remove name) { s := s, tape := tape }).s.wd = some e → dir e.name = clean name → e.name ∈ s.byUser := by
  have hinv := reachable_inv h
  have e : run (.remove name) { s := s, tape := tape } = (rm (4 + 2) name true { s := s, tape := tape }).2 := by
    simp only [run, KqF.remove, bind_apply, KqF.get, hc]
    rfl
  rw [e]
  exact remove_dir_releases_entries 4 name { s := s, tape := tape } hinv hc info hi hd

/-- the clean spellings of everything the user ever asked to add -/
def asked : List Op → List Path
  | [] => []
  | .add p :: rest => clean p :: asked rest
  | _ :: rest => asked rest

/-- reachability, remembering the operations (latest first) -/
inductive ReachH : List Op → KS → Prop
  | init : ReachH [] {}
  | step (ops : List Op) (s : KS) (op : Op) (tape : List Ans) : ReachH ops s → ReachH (op :: ops) (run op { s := s, tape := tape }).s

/-- **WatchList shows only paths the user added** — never one of the per-entry watches the backend
creates internally, whatever the directory contents and the notifications were: in every reachable
state the user set holds nothing but cleaned `Add` arguments (`WatchList` is that set, or nothing once closed) -/
theorem full_watchlist_only_user_paths {ops : List Op} {s : KS} (h : ReachH ops s) :
    ∀ p, p ∈ (watchList { s := s }).1 → p ∈ asked ops := by
  have key : ∀ p, p ∈ s.byUser → p ∈ asked ops := by
    induction h with
    | init => intro p hp; cases hp
    | step ops s op tape _ ih =>
      intro p hp
      cases op with
      | add q =>
        rcases add_user q { s := s, tape := tape } p hp with h1 | h1
        · exact List.mem_cons_of_mem _ (ih p h1)
        · rw [h1]; exact List.mem_cons_self
      | remove q => exact ih p (rel_remove frame_noNewUser q true { s := s, tape := tape } p hp)
      | events => exact ih p (rel_reader frame_noNewUser noNewUser_sendEvent noNewUser_sendError 64 { s := s, tape := tape } p hp)
      | close => exact ih p (rel_close frame_noNewUser (fun _ _ h => h) { s := s, tape := tape } p hp)
  intro p hp
  apply key
  simp only [watchList, KqF.get, bind_apply, pure_apply] at hp
  cases hc : s.closed with
  | true => simp [hc] at hp
  | false => simpa [hc] using hp

/-- `Add`, `Remove` and `Close` deliver nothing on Events or Errors, whatever they find on disk: what
exists when a watch is added is never reported (C18's first clause; changes are reported by the reader) -/
theorem full_api_calls_silent (w : W) :
    (∀ p, (run (.add p) w).events = w.events ∧ (run (.add p) w).errors = w.errors) ∧
    (∀ p, (run (.remove p) w).events = w.events ∧ (run (.remove p) w).errors = w.errors) ∧
    ((run .close w).events = w.events ∧ (run .close w).errors = w.errors) :=
  ⟨fun p => add_silent p w, fun p => rel_remove frame_silent p true w, rel_close frame_silent (fun _ => ⟨rfl, rfl⟩) w⟩

/-- non-vacuity: a directory with one file is added (two descriptors), then the Watcher is closed -/
def tapeAdd : List Ans :=
  [.lstat [47, 100] (.ok .dir), .opn [47, 100] (.ok 5), .readdir [47, 100] (.ok [([97], .ok .file)]),
   .lstat [47, 100, 47, 97] (.ok .file), .opn [47, 100, 47, 97] (.ok 6)]

def afterAdd : W := run (.add [47, 100]) { tape := tapeAdd }

example : afterAdd.s.openFds = [6, 5] ∧ afterAdd.bad = none ∧ afterAdd.tape.length = 0 ∧ afterAdd.s.byUser = [[47, 100]] ∧
    (run .close { s := afterAdd.s }).s.openFds = [] := by decide

/-!
### What the theorems above do NOT cover: `Close` between the two halves of an `addWatch` (finding F16)

`Op` treats every API call as atomic. The implementation holds no lock across `addWatch`: the closed test, the
`unix.Open`, and `register` + `watches.add` are three separate steps, and `Close` can run between them.
`closeDuringAdd` composes the model's own halves in that order — `openNew` (the closed test was passed before),
the whole of `Close`, then `finishAdd` — and the clause "once the Watcher is closed it holds no descriptor" is
**false** for that schedule, in the model exactly as in the implementation (kq stage, corpus session 16:
`unix.OpenHook` runs `Close()` while `Add` is inside `unix.Open`). Kept as a theorem so that the gap between the
atomic theorems and the concurrent implementation is stated, not implied; recorded as known finding F16.
-/
def closeDuringAdd (name : Path) (w : W) : Option W :=
  match openNew (clean name) {} false w with
  | (.ok (n, i, a), w1) => some (finishAdd (watchDirectoryFiles (addWatch fuel)) n i a noteAllEvents (close w1).2).2
  | _ => none

def raceW : W := { tape := [.lstat [47, 102] (.ok .file), .opn [47, 102] (.ok 3)] }

/-- the Watcher is closed, descriptor 3 is open, registered with the kernel and listed in the table: leaked -/
theorem close_during_add_leaks :
    (closeDuringAdd [47, 102] raceW).map
        (fun w3 => (w3.s.closed, w3.s.openFds, w3.s.knotes.map (·.1), w3.s.wd.map (·.1), w3.bad)) =
      some (true, [3], [3], [3], none) := by decide +kernel

/-- …whereas the same two calls one after the other (either order) leave nothing open -/
example : (run .close (run (.add [47, 102]) raceW)).s.openFds = [] ∧
    (run (.add [47, 102]) (run .close raceW)).s.openFds = [] := by decide +kernel

/-!
### … and two `addWatch` of one path at once (finding F17)

The caller's `addWatch(p)` has passed the "already watching?" test and opened `p` (`openNew`); the reader's
`dirChange` → `internalWatch` runs a whole `addWatch(p)` of its own (it, too, finds `p` unwatched and opens it);
then the caller finishes (`finishAdd`). Both descriptors are open and in the wd table, the path table knows one
of them — and `Close`, which walks the path table, releases only that one. Same in the implementation (race
sessions of the kq stage: `Add(d0)` with an entry created or removed before its third system call).
-/
def addTwice (p : Path) (w : W) : Option W :=
  match openNew (clean p) {} true w with
  | (.ok (n, i, a), w1) =>
    let w2 := (addWatch fuel p noteAllEvents true w1).2
    some (finishAdd (watchDirectoryFiles (addWatch fuel)) n i a noteAllEvents w2).2
  | _ => none

def twiceW : W :=
  { tape := [.lstat [47, 102] (.ok .file), .opn [47, 102] (.ok 3), .lstat [47, 102] (.ok .file), .opn [47, 102] (.ok 4)] }

/-- descriptors 3 and 4 are open and in the wd table, the path table points at 3; after `Close` descriptor 4 is
still open -/
theorem add_twice_leaks :
    (addTwice [47, 102] twiceW).map
        (fun w => (w.s.openFds, w.s.wd.map (·.1), w.s.path.map (·.2), (run .close w).s.openFds, w.bad)) =
      some ([4, 3], [4, 3], [3], [4], none) := by decide +kernel

/-!
### … and an `Add(dir)` that fails half way (finding F19)

No interleaving needed, only an environment that changes between `ReadDir` and `Lstat`: the directory lists
`a` and `b`, `b` is gone when it is looked at. `Add` returns the error, the directory and `a` stay open,
registered and in the tables — and nothing is in `WatchList` (`addUserWatch` is reached on success only).
-/
def tapeHalf : List Ans :=
  [.lstat [47, 100] (.ok .dir), .opn [47, 100] (.ok 5), .readdir [47, 100] (.ok [([97], .ok .file), ([98], .error .noent)]),
   .lstat [47, 100, 47, 97] (.ok .file), .opn [47, 100, 47, 97] (.ok 6)]

theorem failed_add_leaves_watches :
    let r := KqF.add [47, 100] { tape := tapeHalf }
    r.1 = some (.fs .noent) ∧ r.2.s.openFds = [6, 5] ∧ r.2.s.byUser = [] ∧ (watchList r.2).1 = [] ∧ r.2.bad = none := by
  decide +kernel

end Full
end C17
