import FsnVerif.Proofs.InotifyLemmas
import FsnVerif.Proofs.ALLemmas
import FsnVerif.Proofs.BridgeEventOp
/-!
# C02 — No phantom events (model side)

Every event the reader emits has a non-empty operation set and is named after an entry that is
in the wd table when its record is handled; housekeeping records never surface; records for a wd
that is not (or no longer) listed are silent. Partial: that the kernel raises nothing for
unwatched subdirectories and nothing after `inotify_rm_watch` returned except `IN_IGNORED` is the
kernel contract (K2/K3), validated by the live monitors, not proved.
-/
namespace C02
open Fsn

/-- every emitted event has `Op ≠ 0` and the name of a listed watch, or of a direct child of it -/
theorem event_in_scope (l : Lib) (env : Env) (r : Raw) (e : Event) (he : e ∈ (l.stepRecord env r).out.events) :
    e.op ≠ 0#32 ∧ ∃ w, alLookup r.wd l.wdT = some w ∧
      (e.name = w.path ∨ e.name = w.path ++ slash :: trimNul r.name) := by
  rw [stepRecord_events] at he
  rcases handle_events l env r with h | ⟨w, e', hw, hev, hn, _, hop, _⟩
  · rw [h] at he; cases he
  · rw [hev] at he
    have : e = e' := by simpa using he
    subst this
    refine ⟨hop, w, hw, ?_⟩
    rw [hn]; unfold nameOf
    split
    · exact Or.inr rfl
    · exact Or.inl rfl

/-- records for a wd that is not listed produce nothing and change nothing -/
theorem unknown_wd_silent (l : Lib) (env : Env) (r : Raw) (h : alLookup r.wd l.wdT = none) :
    (l.handle env r).out.events = [] ∧ (l.handle env r).lib = l := by
  unfold Lib.handle; simp [h]

/-- "watch ignored" and "unmount" never surface: the entry is dropped, no event -/
theorem ignored_silent (l : Lib) (env : Env) (r : Raw) (w : Watch) (hw : alLookup r.wd l.wdT = some w)
    (h : ignoredOrUnmount r.mask = true) :
    (l.handle env r).out.events = [] ∧ (l.handle env r).out.errors = [] ∧ (l.handle env r).lib = l.dropWatch w := by
  unfold Lib.handle; simp [hw, h]

/-- a record whose mask has none of the twelve event bits (only `IN_ISDIR`, `IN_Q_OVERFLOW`,
`IN_IGNORED`, `IN_UNMOUNT`, control bits) never yields an event -/
theorem housekeeping_silent (l : Lib) (env : Env) (r : Raw) (h : r.mask &&& 0xfff#32 = 0#32) :
    (l.stepRecord env r).out.events = [] := by
  rw [stepRecord_events]
  rcases handle_events l env r with h0 | ⟨w, e, _, _, _, hop, hne, _⟩
  · exact h0
  · exfalso
    apply hne
    rw [hop]
    have := EventOp.inotify_housekeeping_silent 0#32 r.mask h
    simp only [BitVec.zero_or] at this
    rw [Bridge.inotifyNewEventOp_eq, Bridge.inotifyNewEventOp_eq] at this
    rw [this]; decide

/-- after `Remove p` took the entry out of the tables, the wd it had is not listed: further records
for that wd are silent (until the kernel issues the same wd again, which K1 excludes) -/
theorem after_remove_silent (l l' : Lib) (env : Env) (p : Path) (wd : Nat)
    (h : l.removePath p = .ok l' [wd]) (r : Raw) (hr : r.wd = wd) :
    (l'.handle env r).out.events = [] ∧ (l'.handle env r).lib = l' := by
  have hl : alLookup wd l'.wdT = none := by
    unfold Lib.removePath at h
    simp only at h
    split at h
    · cases h
    · rename_i wd0 hwd0
      split at h
      · split at h <;> cases h
      · rename_i w hw
        split at h
        · cases h
        · split at h
          · injection h with h1 h2
            have : wd0 = wd := by simpa using h2
            subst this; subst h1
            exact alLookup_erase_same _ _
          · injection h with h1 h2
            simp only [List.cons.injEq, List.map_eq_nil_iff] at h2
            obtain ⟨hwd, hv⟩ := h2
            subst hwd
            rw [hv] at h1
            simp only [List.foldl_nil] at h1
            subst h1
            exact alLookup_erase_same _ _
  apply unknown_wd_silent
  rw [hr]; exact hl

/-- with the parent listed, the child's own `IN_DELETE_SELF` is silent (the parent's `IN_DELETE`
already reported the Remove): the deletion is reported once, not twice -/
theorem delete_self_once (l : Lib) (env : Env) (r : Raw) (w : Watch) (hw : alLookup r.wd l.wdT = some w)
    (hk : ignoredOrUnmount r.mask = false) (hm : test r.mask IN_MOVE_SELF = false)
    (hd : (r.mask &&& IN_DELETE_SELF) != 0#32)
    (hp : alHas (dir w.path) (l.afterDeleteSelf w r).pathT = true) :
    (l.handle env r).out.events = [] := by
  unfold Lib.handle
  rw [hw]
  simp only [hk, hm, Bool.false_eq_true, if_false]
  rw [recurseAfter_events]
  unfold Lib.emit
  simp [hd, hp]

end C02
