import FsnVerif.Proofs.DecodeLemmas
import FsnVerif.Proofs.InotifyLemmas
import FsnVerif.Generated.Tables
/-!
# C01 — No lost events

Model side of "every kernel notification is reported exactly once":
* the decode loop visits every record of every well-formed buffer exactly once, in order
  (`decode_encode`) — any number of records, any name length / padding residue, any offset;
* one record yields at most one event (`handle_at_most_one`) and the set of records that yield
  *none* is characterised exactly (`handle_drop_classes`): unknown wd, IGNORED/UNMOUNT,
  MOVE_SELF on a recursive watch, DELETE_SELF with the parent listed, empty translation, panic;
* batching is irrelevant (`batching_irrelevant`);
* an overflow marker is announced as `ErrEventOverflow` and changes nothing else;
* under `Add`'s default request the kernel is asked for every native bit that translates to one
  of the five default operations (`default_request_complete`, over the regenerated tables).
Not provable here (partial): that the kernel raises a record for every change (K-live) and Go's
channel semantics behind `sendEvent` (modelled in `Model/Proto.lean`).
-/
namespace C01
open Fsn

theorem decode_encode (recs : List Raw) (hwf : ∀ r ∈ recs, r.WF) (trailing : List Nat) (ht : trailing.length < 16) :
    decodeBuf (recs.flatMap encode ++ trailing) = .ok recs := Fsn.decode_encode recs hwf trailing ht

/-- never more than one Event per kernel record -/
theorem handle_at_most_one (l : Lib) (env : Env) (r : Raw) : (l.stepRecord env r).out.events.length ≤ 1 := by
  rw [stepRecord_events]
  rcases handle_events l env r with h | ⟨_, e, _, he, _⟩
  · simp [h]
  · simp [he]

/-- a record for a listed wd that is not housekeeping, not a self-move and not a suppressed
self-delete **is reported**, with the translated operation and the entry's name -/
theorem handle_reports (l : Lib) (env : Env) (r : Raw) (w : Watch)
    (hw : alLookup r.wd l.wdT = some w)
    (hk : ignoredOrUnmount r.mask = false)
    (hm : test r.mask IN_MOVE_SELF = false)
    (hs : ((r.mask &&& IN_DELETE_SELF) != 0#32 && alHas (dir w.path) (l.afterDeleteSelf w r).pathT) = false)
    (hop : inotifyNewEventOp r.mask ≠ 0#32) :
    ∃ e, (l.stepRecord env r).out.events = [e] ∧ e.name = nameOf w r ∧ e.op = inotifyNewEventOp r.mask := by
  rw [stepRecord_events]
  unfold Lib.handle
  rw [hw]
  simp only [hk, hm, Bool.false_eq_true, if_false]
  rw [recurseAfter_events]
  unfold Lib.emit
  rw [if_neg (by simpa using hs)]
  simp only
  have hne : ¬ (((l.afterDeleteSelf w r).newEvent (nameOf w r) r.mask r.cookie).2.op == 0#32) = true := by
    rw [newEvent_op]; simpa using hop
  rw [if_neg hne]
  exact ⟨_, rfl, newEvent_name .., newEvent_op ..⟩

/-- the exact list of ways a record produces **no** event -/
theorem handle_drop_classes (l : Lib) (env : Env) (r : Raw) (h : (l.stepRecord env r).out.events = []) :
    alLookup r.wd l.wdT = none ∨
    (∃ w, alLookup r.wd l.wdT = some w ∧
      (ignoredOrUnmount r.mask = true ∨ test r.mask IN_MOVE_SELF = true ∨
       ((r.mask &&& IN_DELETE_SELF) != 0#32 && alHas (dir w.path) (l.afterDeleteSelf w r).pathT) = true ∨
       inotifyNewEventOp r.mask = 0#32)) := by
  cases hw : alLookup r.wd l.wdT with
  | none => exact Or.inl rfl
  | some w =>
    refine Or.inr ⟨w, rfl, ?_⟩
    by_cases hk : ignoredOrUnmount r.mask = true
    · exact Or.inl hk
    by_cases hm : test r.mask IN_MOVE_SELF = true
    · exact Or.inr (Or.inl hm)
    by_cases hs : ((r.mask &&& IN_DELETE_SELF) != 0#32 && alHas (dir w.path) (l.afterDeleteSelf w r).pathT) = true
    · exact Or.inr (Or.inr (Or.inl hs))
    by_cases hop : inotifyNewEventOp r.mask = 0#32
    · exact Or.inr (Or.inr (Or.inr hop))
    · obtain ⟨e, he, _⟩ := handle_reports l env r w hw (by simpa using hk) (by simpa using hm) (by simpa using hs) hop
      rw [h] at he; cases he

/-- **batching is irrelevant**: one read with `rs₁ ++ rs₂` ≡ a read with `rs₁` then a read with `rs₂` -/
theorem batching_irrelevant (l : Lib) (env : Env) (rs1 rs2 : List Raw) (hp : noPanic l env rs1) :
    (l.stepRecords env (rs1 ++ rs2)).1 = ((l.stepRecords env rs1).1.stepRecords (l.stepRecords env rs1).2.1 rs2).1 ∧
    (l.stepRecords env (rs1 ++ rs2)).2.2.1.events =
      (l.stepRecords env rs1).2.2.1.events ++
      ((l.stepRecords env rs1).1.stepRecords (l.stepRecords env rs1).2.1 rs2).2.2.1.events := by
  have := stepRecords_append l env rs1 rs2 hp
  simp only at this
  exact ⟨this.1, by rw [this.2.2]; rfl⟩

/-- the overflow marker (wd −1, never listed) is announced on Errors and changes nothing -/
theorem overflow_announced (l : Lib) (env : Env) (r : Raw)
    (hw : alLookup r.wd l.wdT = none) (ho : (r.mask &&& IN_Q_OVERFLOW) != 0#32) :
    (l.stepRecord env r).out.errors = [Err.overflow] ∧ (l.stepRecord env r).out.events = [] ∧
    (l.stepRecord env r).lib = l := by
  unfold Lib.stepRecord Lib.handle
  simp [hw, ho]

/-- a record without the overflow bit never produces `ErrEventOverflow` -/
theorem no_spurious_overflow (l : Lib) (env : Env) (r : Raw) (ho : ((r.mask &&& IN_Q_OVERFLOW) != 0#32) = false) :
    (l.stepRecord env r).out.errors = (l.handle env r).out.errors := by
  unfold Lib.stepRecord
  simp [ho]

/-- under `Add`, every native bit that can translate to a default operation is subscribed
(evaluated by the kernel directly on the regenerated request and translation tables) -/
theorem default_request_complete : ∀ k, k < 32 →
    opHas (Gen.inotifyNewEventOp (BitVec.twoPow 32 k)) Gen.defaultOps = true →
    (Gen.inotifyRequest false Gen.defaultOps).getLsbD k = true := by decide +kernel

/-! ### non-vacuity: a two-record buffer (15- and 16-byte names, paddings 1 and 16) decodes to both -/
def r15 : Raw := { wd := 3, mask := IN_CREATE, cookie := 0#32, len := 16, name := padName (List.replicate 15 97) }
def r16 : Raw := { wd := 4, mask := IN_MODIFY, cookie := 0#32, len := 32, name := padName (List.replicate 16 98) }
example : decodeBuf (encode r15 ++ encode r16) = .ok [r15, r16] := by decide
example : r15.WF ∧ r16.WF := by constructor <;> constructor <;> decide

end C01
