import FsnVerif.Model.Inotify
import FsnVerif.Proofs.ALLemmas
/-!
# C19 — Recursive watches report true paths and cover exactly their own tree (model side)

The two places where the recursive (test-only) feature decides "is this entry inside that
directory" are separator-aware (`atOrBelow`, `hasPrefix p (root ++ "/")`) — after the repair of
finding F3; before it both used a plain string prefix, and `dir1_dir10_before_fix` /
`r_r2_before_fix` exhibit what went wrong.
* a rename `old → new` inside the tree rewrites exactly the entries at or below `old`, to
  `new ++ suffix`, leaves every other entry (siblings sharing a string prefix included) alone,
  keeps the number of entries, and keeps every wd;
* removing a recursive root drops exactly the root and the entries strictly below it;
* a new directory is registered in the very step that produces its Create event (so it is covered
  from the moment that event is delivered).
Partial: which directories exist and what the kernel answers are inputs; bursts (`mkdir -p`) and
moves across the tree boundary are outside the property's quantifier and are not generated.
-/
namespace C19
open Fsn

def P (s : String) : Path := s.toList.map (·.toNat)

/-- rewriting touches exactly the subtree: entry paths at or below `old` become `new ++ suffix`,
all others are unchanged; keys (wds) are unchanged -/
theorem rename_rewrites_exact_subtree (l : Lib) (old new : Path) :
    (l.rewriteAfterRename old new).wdT = l.wdT.map (fun e =>
      if atOrBelow e.2.path old then (e.1, { e.2 with path := new ++ e.2.path.drop old.length }) else e) ∧
    (l.rewriteAfterRename old new).wdT.map (·.1) = l.wdT.map (·.1) := by
  constructor
  · rfl
  · simp only [Lib.rewriteAfterRename, List.map_map]
    apply List.map_congr_left
    intro e _
    simp only [Function.comp]
    split <;> rfl

/-- an entry that is not at or below the renamed directory keeps its path — in particular a sibling
whose name merely starts with the same characters -/
theorem unrelated_sibling_untouched (l : Lib) (old new : Path) (wd : Nat) (w : Watch)
    (hmem : (wd, w) ∈ l.wdT) (hout : atOrBelow w.path old = false) :
    (wd, w) ∈ (l.rewriteAfterRename old new).wdT := by
  simp only [Lib.rewriteAfterRename, List.mem_map]
  exact ⟨(wd, w), hmem, by simp [hout]⟩

/-- `dir10` is not at or below `dir1` (the separator decides), although `"dir1"` is a string prefix of it -/
theorem dir1_dir10 :
    atOrBelow (P "r/dir10/s") (P "r/dir1") = false ∧
    hasPrefix (P "r/dir10/s") (P "r/dir1") = true ∧
    atOrBelow (P "r/dir1/s") (P "r/dir1") = true := by decide

/-- the F3 history on the model: tree `r/dir1/s`, `r/dir10/s`; `mv r/dir1 r/x` -/
def f3 : Lib := { enableRecurse := true, wdT := [(1, ⟨1, 0xfc6#32, (P "r"), true⟩), (2, ⟨2, 0xfc6#32, (P "r/dir1"), true⟩), (3, ⟨3, 0xfc6#32, (P "r/dir1/s"), true⟩), (4, ⟨4, 0xfc6#32, (P "r/dir10"), true⟩), (5, ⟨5, 0xfc6#32, (P "r/dir10/s"), true⟩)], pathT := [((P "r"), 1), ((P "r/dir1"), 2), ((P "r/dir1/s"), 3), ((P "r/dir10"), 4), ((P "r/dir10/s"), 5)] } 

theorem f3_after_fix :
    ((f3.rewriteAfterRename (P "r/dir1") (P "r/x")).wdT.map fun e => e.2.path) =
      [P "r", P "r/x", P "r/x/s", P "r/dir10", P "r/dir10/s"] ∧
    (f3.rewriteAfterRename (P "r/dir1") (P "r/x")).watchList = [P "r", P "r/dir10", P "r/dir10/s", P "r/x", P "r/x/s"] := by
  decide

/-- before the repair the test was `strings.HasPrefix(path, old)`: the sibling was renamed too -/
theorem dir1_dir10_before_fix :
    (f3.wdT.map fun e => if hasPrefix e.2.path (P "r/dir1") then replacePrefix e.2.path (P "r/dir1") (P "r/x") else e.2.path) =
      [P "r", P "r/x", P "r/x/s", P "r/x0", P "r/x0/s"] := by decide

/-- removing the recursive root `r` drops `r` and what is below it, and nothing of the root `r2` -/
def twoRoots : Lib := { enableRecurse := true, wdT := [(1, ⟨1, 0xfc6#32, (P "r"), true⟩), (2, ⟨2, 0xfc6#32, (P "r/a"), true⟩), (3, ⟨3, 0xfc6#32, (P "r2"), true⟩), (4, ⟨4, 0xfc6#32, (P "r2/q"), true⟩)], pathT := [((P "r"), 1), ((P "r/a"), 2), ((P "r2"), 3), ((P "r2/q"), 4)] } 

theorem remove_root_exact_example :
    (match twoRoots.removePath (P "r/...") with
     | .ok l wds => (l.watchList, wds)
     | _ => ([], [])) = ([P "r2", P "r2/q"], [1, 2]) := by decide

theorem r_r2_before_fix :
    ((twoRoots.pathT.filter fun e => hasPrefix e.1 (P "r")).map (·.2)) = [1, 2, 3, 4] := by decide

/-- the victims of removing a recursive root are exactly the entries strictly below it -/
theorem remove_root_exact (l : Lib) (root : Path) (wd : Nat) (w : Watch)
    (hp : alLookup root l.pathT = some wd) (hw : alLookup wd l.wdT = some w) (hr : w.recurse = true)
    (hen : l.enableRecurse = true) (hclean : clean (root ++ P "/...") = root ++ P "/...")
    (hbase : base (root ++ P "/...") = P "...") (hdir : dir (root ++ P "/...") = root) :
    ∃ l' wds, l.removePath (root ++ P "/...") = .ok l' wds ∧
      wds = wd :: (((alErase root l.pathT).filter fun e => hasPrefix e.1 (root ++ [slash])).map (·.2)) := by
  unfold Lib.removePath recursivePath
  simp only [hen, hclean, hbase, hdir, Bool.not_true, Bool.false_eq_true, if_false]
  have : (P "..." == [dot, dot, dot]) = true := by decide
  simp only [this, if_true, hp, hw, hr, Bool.not_true, Bool.and_false, Bool.false_eq_true, if_false]
  exact ⟨_, _, rfl, rfl⟩

/-- **a new directory is covered from the moment its Create is delivered**: the registration
happens in the same `handleEvent` step that returns the Create event, before it is sent -/
theorem new_dir_registered_with_its_create (h : HRes) (w : Watch) (r : Raw) (ev : Event)
    (reg : Lib → Env → Path → BitVec 32 → Bool → Lib × Env × Out)
    (hrec : w.recurse = true) (hdir : test r.mask IN_ISDIR = true) (hev : h.out.events = [ev])
    (hc : opHas ev.op Create = true) (hplain : ev.renamedFrom = []) :
    (Lib.recurseAfter h w r reg).lib = (reg h.lib h.env ev.name w.flags true).1 ∧
    (Lib.recurseAfter h w r reg).out.events = [ev] := by
  unfold Lib.recurseAfter
  simp [hrec, hdir, hev, hc, hplain]

end C19
