import FsnVerif.Proofs.ProtoLemmas
import FsnVerif.Proofs.SkeletonTie
import FsnVerif.Proofs.SkeletonTieLocks
import FsnVerif.Proofs.ALLemmas
/-!
# C07 — Thread safety (protocol model + lock facts)

* In every reachable state of the protocol at most one thread is inside a critical section of
  `mu` (`critical_sections_serial`) — the table accesses of different goroutines never overlap,
  so each API call takes effect atomically at its critical section (its linearization point; the
  sequential semantics of that section is `Model/Inotify`, proved to keep the tables consistent
  in C04/C12).
* Every access to the watch tables is made while `mu` is held, every access to the cookie ring
  while `cookiesMu` is held: regenerated lock facts (`all_table_access_under_mu`).
Partial: data-race freedom of the *binary* (Go memory model) is evidenced by `-race` stress runs
and a linearizability search over recorded histories in the correspondence stage, not proved.
-/
namespace C07
open Proto

theorem critical_sections_serial (s : S) (h : Reach s) :
    ¬ ((s.r = .inHandle ∨ s.r = .errSendLocked) ∧ (s.c = .crit ∨ s.c = .cCrit)) ∧
    ((s.r = .inHandle ∨ s.r = .errSendLocked) → s.mu = .reader) ∧ ((s.c = .crit ∨ s.c = .cCrit) → s.mu = .me) := by
  have hp := reach_invP h
  have a : (s.r = .inHandle ∨ s.r = .errSendLocked) → s.mu = .reader := by
    intro hr; have h1 := hp.mu_reader
    rcases hr with hr | hr <;> rw [hr] at h1 <;> simpa using h1
  have b : (s.c = .crit ∨ s.c = .cCrit) → s.mu = .me := by
    intro hc; have h2 := hp.mu_me
    rcases hc with hc | hc <;> rw [hc] at h2 <;> simpa using h2
  refine ⟨?_, a, b⟩
  rintro ⟨hr, hc⟩
  have h1 := a hr; have h2 := b hc
  rw [h1] at h2; cases h2

/-- the functions that touch the watch tables without taking `mu` themselves are exactly the
unexported helpers — each is only called with `mu` held (otherwise its caller would be listed too);
no exported method, and neither `readEvents` nor `handleEvent`, is among them -/
theorem all_table_access_under_mu :
    Gen.needMuFromCaller = ["inotify.AddWith$add", "inotify.isRecursive", "inotify.register", "inotify.remove",
      "watches.add", "watches.byPath", "watches.byWd", "watches.len", "watches.remove", "watches.removePath",
      "watches.updatePath"] ∧
    Gen.needCookiesMuFromCaller = [] := by
  rw [SkeletonTie.needMu_ok.1, SkeletonTie.needMu_ok.2]; decide +kernel

/-- of two concurrent Remove calls for one listed path exactly one finds it: whichever enters its
critical section first erases both table entries, so the second sees `ErrNonExistentWatch`
(sequential model; the sections are serial by `critical_sections_serial`) -/
theorem two_removes_one_wins (k : Fsn.Path) (pathT : List (Fsn.Path × Nat)) :
    Fsn.alLookup k (Fsn.alErase k pathT) = none := Fsn.alLookup_erase_same k pathT

end C07

namespace C07
open Proto

/-- **no syscall on a closed descriptor** (finding F6, repaired): a call is inside its critical
section (where `inotify_add_watch` / `inotify_rm_watch` are issued) only while the inotify file is
open and the watcher is not marked closed — Close cannot mark it closed while the section runs,
and the section is not entered once it is marked -/
theorem no_syscall_on_closed_fd (s : S) (h : Reach s) (hc : s.c = .crit) : s.fdOpen = true ∧ s.doneClosed = false := by
  have h10 := (reach_invP h).crit_open
  rw [hc] at h10
  simpa using h10

/-- before the repair the closed test was made only before `Lock()`: the unrepaired transition
(`crit` entered whatever `done` says) reaches a critical section on a closed descriptor -/
theorem syscall_on_closed_fd_before_fix :
    let s0 : S := { (init .chk) with c := .lockWait }      -- the call passed its closed test …
    let s1 := ([Label.oLock, .oMark, .oUnlock, .oFile].foldl (fun s l => s.bind (step true · l)) (some s0))  -- … Close ran …
    s1.map (fun s => (s.c, s.mu, s.fdOpen, s.doneClosed)) = some (.lockWait, .free, false, true) := by decide

end C07
