import FsnVerif.Proofs.ProtoLemmas
import FsnVerif.Proofs.SkeletonTie
import FsnVerif.Proofs.SkeletonTieLocks
import FsnVerif.Proofs.ALLemmas
import FsnVerif.Props.C12
/-!
# C07 — Thread safety (protocol model + lock facts)

* In every reachable state of the protocol at most one thread is inside a critical section of
  `mu` (`critical_sections_serial`) — the table accesses of different goroutines never overlap,
  so each API call takes effect atomically at its critical section (its linearization point; the
  sequential semantics of that section is `Model/Inotify`, proved to keep the tables consistent
  in C04/C12).
* Every access to the watch tables is made while `mu` is held, every access to the cookie ring
  while `cookiesMu` is held: regenerated lock facts (`all_table_access_under_mu`).
Partial: data-race freedom of the *binary* (Go memory model) is evidenced by `-race` stress runs
and a linearizability search over recorded histories in the correspondence stage, not proved.
-/
namespace C07
open Proto

theorem critical_sections_serial (s : S) (h : Reach s) :
    ¬ ((s.r = .inHandle ∨ s.r = .errSendLocked) ∧ (s.c = .crit ∨ s.c = .cCrit)) ∧
    ((s.r = .inHandle ∨ s.r = .errSendLocked) → s.mu = .reader) ∧ ((s.c = .crit ∨ s.c = .cCrit) → s.mu = .me) := by
  have hp := reach_invP h
  have a : (s.r = .inHandle ∨ s.r = .errSendLocked) → s.mu = .reader := by
    intro hr; have h1 := hp.mu_reader
    rcases hr with hr | hr <;> rw [hr] at h1 <;> simpa using h1
  have b : (s.c = .crit ∨ s.c = .cCrit) → s.mu = .me := by
    intro hc; have h2 := hp.mu_me
    rcases hc with hc | hc <;> rw [hc] at h2 <;> simpa using h2
  refine ⟨?_, a, b⟩
  rintro ⟨hr, hc⟩
  have h1 := a hr; have h2 := b hc
  rw [h1] at h2; cases h2

/-- the functions that touch the watch tables without taking `mu` themselves are exactly the
unexported helpers — each is only called with `mu` held (otherwise its caller would be listed too);
no exported method, and neither `readEvents` nor `handleEvent`, is among them -/
theorem all_table_access_under_mu :
    Gen.needMuFromCaller = ["inotify.AddWith$add", "inotify.isRecursive", "inotify.register", "inotify.remove",
      "watches.add", "watches.byPath", "watches.byWd", "watches.len", "watches.remove", "watches.removePath",
      "watches.updatePath"] ∧
    Gen.needCookiesMuFromCaller = [] := by
  rw [SkeletonTie.needMu_ok.1, SkeletonTie.needMu_ok.2]; decide +kernel

/-- of two concurrent Remove calls for one listed path exactly one finds it: whichever enters its
critical section first erases both table entries, so the second sees `ErrNonExistentWatch`
(sequential model; the sections are serial by `critical_sections_serial`) -/
theorem two_removes_one_wins (k : Fsn.Path) (pathT : List (Fsn.Path × Nat)) :
    Fsn.alLookup k (Fsn.alErase k pathT) = none := Fsn.alLookup_erase_same k pathT

end C07

namespace C07
open Proto

/-- **no syscall on a closed descriptor** (finding F6, repaired): a call is inside its critical
section (where `inotify_add_watch` / `inotify_rm_watch` are issued) only while the inotify file is
open and the watcher is not marked closed — Close cannot mark it closed while the section runs,
and the section is not entered once it is marked -/
theorem no_syscall_on_closed_fd (s : S) (h : Reach s) (hc : s.c = .crit) : s.fdOpen = true ∧ s.doneClosed = false := by
  have h10 := (reach_invP h).crit_open
  rw [hc] at h10
  simpa using h10

/-- before the repair the closed test was made only before `Lock()`: the unrepaired transition
(`crit` entered whatever `done` says) reaches a critical section on a closed descriptor -/
theorem syscall_on_closed_fd_before_fix :
    let s0 : S := { (init .chk) with c := .lockWait }      -- the call passed its closed test …
    let s1 := ([Label.oLock, .oMark, .oUnlock, .oFile].foldl (fun s l => s.bind (step true · l)) (some s0))  -- … Close ran …
    s1.map (fun s => (s.c, s.mu, s.fdOpen, s.doneClosed)) = some (.lockWait, .free, false, true) := by decide

end C07

/-!
## Linearizability of Add / Remove / WatchList / record handling (interleaving model)

Any number of goroutines issue API calls; the reader handles records. A call is *invoked*, at some
later moment runs its critical section — one atomic step, the sequential model of `Model/Inotify`
applied to the shared tables (that the sections are serial and that every table access is inside one
are `critical_sections_serial` and `all_table_access_under_mu` above) — and at some later moment
*returns* the value computed there. `linearizable`: for EVERY interleaving, the calls in the order of
their critical sections form a sequential history that (1) produces exactly the values the calls
returned and the final tables, and (2) respects real time: a call that returned before another was
invoked comes first.
-/
namespace C07.Lin
open Fsn

/-- an API call or a batch of records, with the kernel's answers it will get -/
structure Call where
  op : C12.Op
  env : Env

inductive Phase
  | idle
  | pending (c : Call)
  | done (c : Call) (out : Out)

structure Sys where
  lib : Lib := {}
  ph : Nat → Phase := fun _ => .idle

inductive Step
  | inv (t : Nat) (c : Call)
  | crit (t : Nat)
  | ret (t : Nat)

def upd (f : Nat → Phase) (t : Nat) (p : Phase) : Nat → Phase := fun x => if x = t then p else f x

/-- one step of the interleaving; `none` when the step is not enabled -/
def step (s : Sys) : Step → Option Sys
  | .inv t c => match s.ph t with
    | .idle => some { s with ph := upd s.ph t (.pending c) }
    | _ => none
  | .crit t => match s.ph t with
    | .pending c => some { lib := (C12.apply s.lib c.env c.op).1, ph := upd s.ph t (.done c (C12.apply s.lib c.env c.op).2) }
    | _ => none
  | .ret t => match s.ph t with
    | .done _ _ => some { s with ph := upd s.ph t .idle }
    | _ => none

def run : Sys → List Step → Option Sys
  | s, [] => some s
  | s, x :: xs => match step s x with
    | some s' => run s' xs
    | none => none

/-- the sequential history: the calls in the order of their critical sections, with the value each computed -/
def linOf : Sys → List Step → List (Call × Out)
  | _, [] => []
  | s, x :: xs =>
    match step s x with
    | none => []
    | some s' =>
      match x, s.ph (match x with | .inv t _ => t | .crit t => t | .ret t => t) with
      | .crit _, .pending c => (c, (C12.apply s.lib c.env c.op).2) :: linOf s' xs
      | _, _ => linOf s' xs

/-- running calls one after the other -/
def seqRun : Lib → List (Call × Out) → Lib × Bool
  | l, [] => (l, true)
  | l, (c, out) :: rest =>
    let r := C12.apply l c.env c.op
    let tail := seqRun r.1 rest
    (tail.1, decide (r.2 = out) && tail.2)

/-- **(1) sequential legality**: executed one after the other in the order of their critical sections,
the calls compute exactly the values they returned, and leave exactly the final tables -/
theorem lin_legal (s : Sys) (tr : List Step) (s' : Sys) (h : run s tr = some s') :
    seqRun s.lib (linOf s tr) = (s'.lib, true) := by
  induction tr generalizing s with
  | nil => simp only [run] at h; injection h with h; subst h; rfl
  | cons x xs ih =>
    simp only [run] at h
    cases hs : step s x with
    | none => rw [hs] at h; cases h
    | some s1 =>
      rw [hs] at h
      have := ih s1 h
      cases x with
      | inv t c =>
        have hl : s1.lib = s.lib := by
          simp only [step] at hs
          split at hs
          · injection hs with hs; subst hs; rfl
          · cases hs
        simp only [linOf, hs]
        rw [← hl]; exact this
      | ret t =>
        have hl : s1.lib = s.lib := by
          simp only [step] at hs
          split at hs
          · injection hs with hs; subst hs; rfl
          · cases hs
        simp only [linOf, hs]
        rw [← hl]; exact this
      | crit t =>
        simp only [step] at hs
        cases hp : s.ph t with
        | idle => rw [hp] at hs; cases hs
        | done c o => rw [hp] at hs; cases hs
        | pending c =>
          rw [hp] at hs
          injection hs with hs
          have hl : s1.lib = (C12.apply s.lib c.env c.op).1 := by rw [← hs]
          have hs' : step s (.crit t) = some s1 := by simp only [step, hp, hs]
          simp only [linOf, hs', hp, seqRun]
          rw [← hl, this]
          simp

/-- a call's critical section lies between its invocation and its return: a thread that is idle has
no section pending, so the section of a call invoked now comes later in the trace; a thread that
returns has run its section earlier -/
theorem crit_after_inv (s : Sys) (t : Nat) (c : Call) (s1 : Sys) (h : step s (.inv t c) = some s1) :
    s1.ph t = .pending c := by
  simp only [step] at h
  split at h
  · injection h with h; subst h; simp [upd]
  · cases h

theorem ret_after_crit (s : Sys) (t : Nat) (s1 : Sys) (h : step s (.ret t) = some s1) :
    ∃ c out, s.ph t = .done c out := by
  simp only [step] at h
  split at h
  · rename_i c out hp; exact ⟨c, out, hp⟩
  · cases h

/-- only a critical-section step of thread `t` turns `t`'s pending call into a finished one, and only
an invocation makes it pending: **(2) real-time order** — between a call's `inv` and its `ret` there is
exactly one `crit` of that thread, hence a call that returned before another was invoked has its
section earlier in the trace (and earlier in `linOf`) -/
theorem phase_machine (s : Sys) (x : Step) (s1 : Sys) (h : step s x = some s1) (t : Nat) :
    (s1.ph t = s.ph t) ∨
    (∃ c, x = .inv t c ∧ s.ph t = .idle ∧ s1.ph t = .pending c) ∨
    (∃ c, x = .crit t ∧ s.ph t = .pending c ∧ s1.ph t = .done c (C12.apply s.lib c.env c.op).2) ∨
    (∃ c o, x = .ret t ∧ s.ph t = .done c o ∧ s1.ph t = .idle) := by
  cases x with
  | inv t' c =>
    simp only [step] at h
    split at h
    · rename_i hp
      injection h with h; subst h
      by_cases ht : t = t'
      · subst ht; exact Or.inr (Or.inl ⟨c, rfl, hp, by simp [upd]⟩)
      · exact Or.inl (by simp [upd, ht])
    · cases h
  | crit t' =>
    simp only [step] at h
    split at h
    · rename_i c hp
      injection h with h; subst h
      by_cases ht : t = t'
      · subst ht; exact Or.inr (Or.inr (Or.inl ⟨c, rfl, hp, by simp [upd]⟩))
      · exact Or.inl (by simp [upd, ht])
    · cases h
  | ret t' =>
    simp only [step] at h
    split at h
    · rename_i c o hp
      injection h with h; subst h
      by_cases ht : t = t'
      · subst ht; exact Or.inr (Or.inr (Or.inr ⟨c, o, rfl, hp, by simp [upd]⟩))
      · exact Or.inl (by simp [upd, ht])
    · cases h

def Phase.isDone : Phase → Bool
  | .done _ _ => true
  | _ => false

/-- a call that has a value to return has run its critical section: somewhere in the trace since the
thread last had none. With `crit_after_inv` (a freshly invoked call is pending, its section is still
to come) this is **(2) real-time order**: if call `a` returns before call `b` is invoked, `a`'s
section is in the trace before that return and `b`'s after that invocation, so `a` comes first in
`linOf` -/
theorem ret_has_crit_before (tr : List Step) : ∀ (s s' : Sys) (t : Nat), run s tr = some s' →
    (s.ph t).isDone = false → (s'.ph t).isDone = true → Step.crit t ∈ tr := by
  induction tr with
  | nil =>
    intro s s' t h h1 h2
    simp only [run] at h; injection h with h; subst h
    rw [h1] at h2; cases h2
  | cons x xs ih =>
    intro s s' t h h1 h2
    simp only [run] at h
    cases hs : step s x with
    | none => rw [hs] at h; cases h
    | some s1 =>
      rw [hs] at h
      cases hd : (s1.ph t).isDone with
      | false => exact List.mem_cons_of_mem _ (ih s1 s' t h hd h2)
      | true =>
        rcases phase_machine s x s1 hs t with he | ⟨c, _, _, hp⟩ | ⟨c, hx, _, _⟩ | ⟨c, o, _, _, hp⟩
        · rw [he, h1] at hd; cases hd
        · rw [hp] at hd; cases hd
        · rw [hx]; exact List.mem_cons_self
        · rw [hp] at hd; cases hd

/-- non-vacuity: two goroutines remove the same listed path; whichever section runs first wins, the
other answers ErrNonExistentWatch — in both interleavings -/
def twoRemoves (first second : Nat) : List Step :=
  [.inv 0 ⟨.remove [100], { C12.kern [] with marks := [5] }⟩, .inv 1 ⟨.remove [100], { C12.kern [] with marks := [5] }⟩,
   .crit first, .crit second, .ret 0, .ret 1]

def listed : Sys := { lib := (({} : Lib).add (C12.kern [([100], 5)]) [100] 0x1f#32 false).1 }

example : (linOf listed (twoRemoves 0 1)).map (fun p => p.2.ret) = [none, some Err.nonExistentWatch] ∧
          (linOf listed (twoRemoves 1 0)).map (fun p => p.2.ret) = [none, some Err.nonExistentWatch] := by decide

end C07.Lin
