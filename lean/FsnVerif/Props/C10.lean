import FsnVerif.Proofs.InotifyLemmas
/-!
# C10 — Errors carries only genuine failures; overflow is reported and survivable (model side)

In the model the kernel's `inotify_rm_watch` can only fail with `EINVAL` while the descriptor is
open (K3: the mark is gone — deleted file, explicit removal), and `handleEvent` no longer forwards
that. Hence, for **every** record stream and every interleaving with Add/Remove, whatever the
kernel has already dropped ("all speeds"): the reader puts nothing on Errors except exactly one
`ErrEventOverflow` per overflow marker, and the marker changes nothing else.
Partial: read errors of the descriptor (`EOF`, short read) are the runtime's and are not modelled.
-/
namespace C10
open Fsn

theorem rmAll_error (env : Env) (wds : List Nat) :
    (rmAll env wds).2.2 = none ∨ (rmAll env wds).2.2 = some (.errno "EINVAL") := by
  induction wds generalizing env with
  | nil => exact Or.inl rfl
  | cons wd rest ih =>
    unfold rmAll
    cases h : env.rm wd with
    | mk env' ok =>
      cases ok
      · exact Or.inr rfl
      · simp only
        rcases ih env' with h1 | h1
        · exact Or.inl h1
        · exact Or.inr h1

/-- the only results of `remove` (public API: recursion disabled): nil, `ErrNonExistentWatch`, or
EINVAL from the kernel (K3: the mark is already gone) -/
theorem remove_ret (l : Lib) (env : Env) (p : Path) (hrec : l.enableRecurse = false) :
    (l.remove env p).2.2.ret = none ∨ (l.remove env p).2.2.ret = some .nonExistentWatch ∨
    (l.remove env p).2.2.ret = some (.errno "EINVAL") := by
  unfold Lib.remove
  split
  · rename_i e he
    unfold Lib.removePath recursivePath at he
    simp only [hrec, Bool.not_false, if_true, Bool.false_and, Bool.false_eq_true, if_false] at he
    split at he
    · injection he with he; subst he; exact Or.inr (Or.inl rfl)
    · split at he
      · cases he
      · split at he <;> cases he
  · exact Or.inl rfl
  · simp only
    rcases rmAll_error env _ with h | h
    · exact Or.inl h
    · exact Or.inr (Or.inr h)

theorem dropWatch_enableRecurse (l : Lib) (w : Watch) : (l.dropWatch w).enableRecurse = l.enableRecurse := rfl

theorem afterMoveSelf_errors (l1 : Lib) (env : Env) (w : Watch) (r : Raw) (hrec : l1.enableRecurse = false) :
    (l1.afterMoveSelf env w r).out.errors = [] := by
  unfold Lib.afterMoveSelf
  simp only
  by_cases hp : (l1.remove env w.path).2.2.panic = true
  · rw [if_pos hp]; exact remove_errors ..
  · rw [if_neg hp]
    rcases remove_ret l1 env w.path hrec with h | h | h
    · rw [h]; simp only; rw [emit_errors]
    · rw [h]; simp only; rw [emit_errors]
    · rw [h]; simp only
      rw [if_pos (by decide)]
      rw [emit_errors]

/-- **benign histories never produce an error**: whatever record arrives, in whatever state, and
whatever the kernel has already dropped, `handleEvent` sends nothing on Errors (public API: no
recursive watches, which every reachable state satisfies — `C12.reachable_inv`) -/
theorem handle_no_errors (l : Lib) (env : Env) (r : Raw) (hrec : l.enableRecurse = false)
    (hnr : ∀ wd w, alLookup wd l.wdT = some w → w.recurse = false) :
    (l.handle env r).out.errors = [] := by
  unfold Lib.handle
  split
  · rfl
  · rename_i w hw
    by_cases hign : ignoredOrUnmount r.mask = true
    · rw [if_pos hign]
    · rw [if_neg hign]
      by_cases hm : test r.mask IN_MOVE_SELF = true
      · rw [if_pos hm]
        by_cases hr : w.recurse = true
        · rw [if_pos hr]
        · rw [if_neg hr]
          apply afterMoveSelf_errors
          unfold Lib.afterDeleteSelf
          split <;> simp [dropWatch_enableRecurse, hrec]
      · rw [if_neg hm, recurseAfter_norec _ _ _ _ (hnr _ _ hw), emit_errors]

/-- Errors carries exactly one `ErrEventOverflow` per overflow marker and nothing else -/
theorem errors_are_overflow_only (l : Lib) (env : Env) (r : Raw) (hrec : l.enableRecurse = false)
    (hnr : ∀ wd w, alLookup wd l.wdT = some w → w.recurse = false) :
    (l.stepRecord env r).out.errors = if (r.mask &&& IN_Q_OVERFLOW) != 0#32 then [Err.overflow] else [] := by
  unfold Lib.stepRecord
  simp only
  split <;> simp [handle_no_errors l env r hrec hnr]

/-- **overflow is survivable**: the marker (wd −1, never listed) leaves the bookkeeping exactly as
it was, so every later record and every later Add/Remove behaves as if it had not happened -/
theorem overflow_survivable (l : Lib) (env : Env) (r : Raw) (hw : alLookup r.wd l.wdT = none) :
    (l.stepRecord env r).lib = l ∧ (l.stepRecord env r).env.marks = env.marks := by
  unfold Lib.stepRecord Lib.handle
  simp only [hw]
  split <;> exact ⟨rfl, rfl⟩

/-- non-vacuity: the rename-then-delete history (finding F1, repaired): MOVE_SELF handled when the
kernel mark is already gone yields the Rename event and no error -/
example :
    let l : Lib := { wdT := [(3, ⟨3, 0xfc6#32, [102], false⟩)], pathT := [([102], 3)] }
    let env : Env := { addWatch := fun _ _ => .error "ENOENT", marks := [] }
    let res := l.stepRecord env ⟨3, IN_MOVE_SELF, 0#32, 0, []⟩
    res.out.errors = [] ∧ res.out.events = [{ name := [102], op := Rename }] ∧ res.lib.pathT = [] := by decide

/-- a read that returns nothing (`io.EOF`) or less than one header (short read) puts exactly one value on
Errors, delivers no event and leaves the tables as they were: the reader goes on -/
theorem empty_or_short_read_inert (l : Lib) (env : Env) (bs : List Nat) (h : bs.length < 16) :
    (l.stepRead env bs).1 = l ∧ (l.stepRead env bs).2.2.1.events = [] ∧ (l.stepRead env bs).2.2.1.errors.length = 1 := by
  unfold Lib.stepRead
  by_cases h0 : bs.length = 0
  · simp [h0]
  · simp [h0, h]

end C10
