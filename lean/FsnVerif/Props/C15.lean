import FsnVerif.Proofs.BridgeTables
/-!
# C15 — Native notification flags map to the documented operations on every backend

`Gen.*` are regenerated from `backend_inotify.go`, `backend_kqueue.go`,
`backend_windows.go`, `backend_fen.go` on every run (constants resolved by
`go/types` per GOOS). All statements hold for **all** 32-bit (64-bit) masks.
-/
namespace C15
open Fsn

/-! ## inotify: native → portable -/

/-- a combination of native flags yields exactly the union of what its parts yield -/
theorem inotify_union (a b : BitVec 32) :
    Gen.inotifyNewEventOp (a ||| b) = Gen.inotifyNewEventOp a ||| Gen.inotifyNewEventOp b := EventOp.inotify_union a b

/-- the documented mapping, one operation at a time -/
theorem inotify_mapping (m : BitVec 32) :
    (opHas (Gen.inotifyNewEventOp m) Create     = (test m IN_CREATE || test m IN_MOVED_TO)) ∧
    (opHas (Gen.inotifyNewEventOp m) Remove     = (test m IN_DELETE_SELF || test m IN_DELETE)) ∧
    (opHas (Gen.inotifyNewEventOp m) Write      = test m IN_MODIFY) ∧
    (opHas (Gen.inotifyNewEventOp m) Rename     = (test m IN_MOVE_SELF || test m IN_MOVED_FROM)) ∧
    (opHas (Gen.inotifyNewEventOp m) Chmod      = test m IN_ATTRIB) ∧
    (opHas (Gen.inotifyNewEventOp m) Open       = test m IN_OPEN) ∧
    (opHas (Gen.inotifyNewEventOp m) Read       = test m IN_ACCESS) ∧
    (opHas (Gen.inotifyNewEventOp m) CloseWrite = test m IN_CLOSE_WRITE) ∧
    (opHas (Gen.inotifyNewEventOp m) CloseRead  = test m IN_CLOSE_NOWRITE) := by
  simp only [Bridge.inotifyNewEventOp_eq, Fsn.inotifyNewEventOp, applyRules_has]
  simp only [inotifyRules, List.any_cons, List.any_nil, Bool.or_false]
  refine ⟨?_, ?_, ?_, ?_, ?_, ?_, ?_, ?_, ?_⟩ <;>
    simp [opHas, Create, Remove, Write, Rename, Chmod, Open, Read, CloseWrite, CloseRead]

/-- housekeeping bits (`IN_ISDIR`, `IN_IGNORED`, `IN_UNMOUNT`, `IN_Q_OVERFLOW`, the control bits)
contribute no operation, alone or combined with anything -/
theorem inotify_housekeeping_silent (m h : BitVec 32)
    (hh : h &&& 0xfff#32 = 0#32) : Gen.inotifyNewEventOp (m ||| h) = Gen.inotifyNewEventOp m :=
  EventOp.inotify_housekeeping_silent m h hh

example : (IN_ISDIR ||| IN_IGNORED ||| IN_UNMOUNT ||| IN_Q_OVERFLOW) &&& 0xfff#32 = 0#32 := by decide

/-! ## inotify: requested operations → native flags subscribed -/

theorem request_union (nf : Bool) (a b : BitVec 32) :
    Gen.inotifyRequest nf (a ||| b) = Gen.inotifyRequest nf a ||| Gen.inotifyRequest nf b := by
  simp only [Bridge.inotifyRequest_eq, Fsn.inotifyRequest, applyReq_or]
  cases nf <;> simp
  ac_rfl

/-- the request depends only on the nine defined operation bits -/
theorem request_mask (nf : Bool) (s : BitVec 32) :
    Gen.inotifyRequest nf (s &&& definedOps) = Gen.inotifyRequest nf s := by
  simp only [Bridge.inotifyRequest_eq, Fsn.inotifyRequest]
  rw [applyReq_mask _ _ _ (by decide)]

/-- `Add` (five default operations) subscribes to exactly `0xfc6` -/
theorem request_default : Gen.inotifyRequest false Gen.defaultOps = 0xfc6#32 := by
  rw [Bridge.inotifyRequest_eq]; decide

/-- **none of the requested operations is left unobservable**: translating the subscribed mask
back yields every requested defined operation -/
theorem request_observable (nf : Bool) (s : BitVec 32) :
    (s &&& definedOps) &&& ~~~(Gen.inotifyNewEventOp (Gen.inotifyRequest nf s)) = 0#32 := by
  have key : ∀ n, n < 512 → ∀ nf : Bool,
      (BitVec.ofNat 32 n) &&& ~~~(Fsn.inotifyNewEventOp (Fsn.inotifyRequest nf (BitVec.ofNat 32 n))) = 0#32 := by
    decide +kernel
  have := forall_masked9 (fun x => x &&& ~~~(Fsn.inotifyNewEventOp (Fsn.inotifyRequest nf x)) = 0#32)
    (fun n hn => key n hn nf) s
  simp only [Bridge.inotifyNewEventOp_eq, Bridge.inotifyRequest_eq]
  have hm := request_mask nf s
  simp only [Bridge.inotifyRequest_eq] at hm
  rw [← hm]
  exact this

/-- **no unrelated flag is requested**: every subscribed native bit either translates to a
requested operation, or is `IN_DONT_FOLLOW` (a control bit, only with `noFollow`), or is
`IN_MOVED_TO` subscribed for `Rename` (the move-in half needed to pair a rename) -/
theorem request_minimal (nf : Bool) (s : BitVec 32) (k : Nat) (hk : k < 32)
    (hbit : (Gen.inotifyRequest nf s).getLsbD k = true) :
    opHas (Gen.inotifyNewEventOp (BitVec.twoPow 32 k)) s = true ∨
    (BitVec.twoPow 32 k = IN_DONT_FOLLOW ∧ nf = true) ∨
    (BitVec.twoPow 32 k = IN_MOVED_TO ∧ opHas s Rename = true) := by
  have key0 : (List.range 512).all (fun n => (List.range 32).all (fun k => [true, false].all (fun nf =>
      !(Fsn.inotifyRequest nf (BitVec.ofNat 32 n)).getLsbD k ||
      (opHas (Fsn.inotifyNewEventOp (BitVec.twoPow 32 k)) (BitVec.ofNat 32 n) ||
       (BitVec.twoPow 32 k == IN_DONT_FOLLOW && nf) ||
       (BitVec.twoPow 32 k == IN_MOVED_TO && opHas (BitVec.ofNat 32 n) Rename))))) = true := by
    decide +kernel
  have key : ∀ n, n < 512 → ∀ nf : Bool, ∀ k, k < 32 →
      (Fsn.inotifyRequest nf (BitVec.ofNat 32 n)).getLsbD k = true →
      (opHas (Fsn.inotifyNewEventOp (BitVec.twoPow 32 k)) (BitVec.ofNat 32 n) = true ∨
       (BitVec.twoPow 32 k = IN_DONT_FOLLOW ∧ nf = true) ∨
       (BitVec.twoPow 32 k = IN_MOVED_TO ∧ opHas (BitVec.ofNat 32 n) Rename = true)) := by
    intro n hn nf k hk hb
    have h1 := all_range (all_range key0 n hn) k hk
    have h2 : ([true, false].all _) = true := h1
    have h3 := List.all_eq_true.mp h2 nf (by cases nf <;> simp)
    simp only [hb, Bool.not_true, Bool.false_or, Bool.or_eq_true, Bool.and_eq_true, beq_iff_eq] at h3
    rcases h3 with (h3 | h3) | h3
    · exact Or.inl h3
    · exact Or.inr (Or.inl h3)
    · exact Or.inr (Or.inr h3)
  have hm := request_mask nf s
  simp only [Bridge.inotifyRequest_eq, Bridge.inotifyNewEventOp_eq] at hm hbit ⊢
  rw [← hm] at hbit
  have := forall_masked9 (fun x => (Fsn.inotifyRequest nf x).getLsbD k = true →
      (opHas (Fsn.inotifyNewEventOp (BitVec.twoPow 32 k)) x = true ∨
       (BitVec.twoPow 32 k = IN_DONT_FOLLOW ∧ nf = true) ∨
       (BitVec.twoPow 32 k = IN_MOVED_TO ∧ opHas x Rename = true)))
    (fun n hn => key n hn nf k hk) s hbit
  -- transport the conclusion from `s &&& definedOps` back to `s`
  have hdef : ∀ c, c &&& definedOps = c → opHas c (s &&& definedOps) = opHas c s := by
    intro c hc
    rw [opHas_comm, opHas_comm c s]
    exact opHas_mask s definedOps c (by rw [BitVec.and_comm]; exact hc)
  have hsub : Fsn.inotifyNewEventOp (BitVec.twoPow 32 k) &&& definedOps = Fsn.inotifyNewEventOp (BitVec.twoPow 32 k) := by
    have : ∀ k, k < 32 → Fsn.inotifyNewEventOp (BitVec.twoPow 32 k) &&& definedOps =
        Fsn.inotifyNewEventOp (BitVec.twoPow 32 k) := by decide +kernel
    exact this k hk
  rw [hdef _ hsub, opHas_mask s definedOps Rename (by decide)] at this
  exact this

/-- every native bit that translates to one of the five default operations is in the default
request mask: under `Add` the kernel is asked for everything the translator can report (C01) -/
theorem default_request_complete (k : Nat) (hk : k < 32)
    (h : opHas (Gen.inotifyNewEventOp (BitVec.twoPow 32 k)) Gen.defaultOps = true) :
    (Gen.inotifyRequest false Gen.defaultOps).getLsbD k = true := by
  have key : ∀ k, k < 32 → opHas (Fsn.inotifyNewEventOp (BitVec.twoPow 32 k)) Fsn.defaultOps = true →
      (Fsn.inotifyRequest false Fsn.defaultOps).getLsbD k = true := by decide +kernel
  simp only [Bridge.inotifyNewEventOp_eq, Bridge.inotifyRequest_eq, Bridge.defaultOps_eq] at h ⊢
  exact key k hk h

/-! ## kqueue -/

theorem kq_bools (a : BitVec 32) : applyRules kqueueRules a =
    (((0#32 ||| (if test a NOTE_DELETE then Remove else 0#32)) ||| (if test a NOTE_WRITE then Write else 0#32)) |||
      (if test a NOTE_RENAME then Rename else 0#32)) ||| (if test a NOTE_ATTRIB then Chmod else 0#32) := by
  simp only [applyRules, kqueueRules, List.foldl, List.any, Bool.or_false]

/-- kqueue: union of the parts, dropping `Write` when `Remove` is present -/
theorem kqueue_union (a b : BitVec 32) :
    Gen.kqueueNewEventOp (a ||| b) = dropWriteIfRemove (Gen.kqueueNewEventOp a ||| Gen.kqueueNewEventOp b) := by
  simp only [Bridge.kqueueNewEventOp_eq, Fsn.kqueueNewEventOp]
  rw [applyRules_or (by decide)]
  rw [kq_bools a, kq_bools b]
  generalize test a NOTE_DELETE = a1
  generalize test a NOTE_WRITE = a2
  generalize test a NOTE_RENAME = a3
  generalize test a NOTE_ATTRIB = a4
  generalize test b NOTE_DELETE = b1
  generalize test b NOTE_WRITE = b2
  generalize test b NOTE_RENAME = b3
  generalize test b NOTE_ATTRIB = b4
  revert a1 a2 a3 a4 b1 b2 b3 b4
  decide

/-- kqueue mapping: deletion ↦ Remove, write ↦ Write unless also deleted, rename ↦ Rename,
attribute change ↦ Chmod; nothing else (never Create: Creates come from directory diffs, C18) -/
theorem kqueue_mapping (m : BitVec 32) :
    (opHas (Gen.kqueueNewEventOp m) Remove = test m NOTE_DELETE) ∧
    (opHas (Gen.kqueueNewEventOp m) Write  = (test m NOTE_WRITE && !test m NOTE_DELETE)) ∧
    (opHas (Gen.kqueueNewEventOp m) Rename = test m NOTE_RENAME) ∧
    (opHas (Gen.kqueueNewEventOp m) Chmod  = test m NOTE_ATTRIB) ∧
    (opHas (Gen.kqueueNewEventOp m) (Create ||| unportableOps) = false) := by
  simp only [Bridge.kqueueNewEventOp_eq, Fsn.kqueueNewEventOp, kq_bools]
  generalize test m NOTE_DELETE = a1
  generalize test m NOTE_WRITE = a2
  generalize test m NOTE_RENAME = a3
  generalize test m NOTE_ATTRIB = a4
  revert a1 a2 a3 a4
  decide

/-- the kqueue subscription covers exactly the four notes the translator inspects -/
theorem kqueue_subscription :
    Gen.noteAllEvents = NOTE_DELETE ||| NOTE_WRITE ||| NOTE_ATTRIB ||| NOTE_RENAME ∧
    (∀ k, k < 32 → (Gen.noteAllEvents.getLsbD k = true ↔ Gen.kqueueNewEventOp (BitVec.twoPow 32 k) ≠ 0#32)) := by
  constructor
  · decide
  · have h : ∀ k, k < 32 → (Fsn.noteAllEvents.getLsbD k = true ↔ Fsn.kqueueNewEventOp (BitVec.twoPow 32 k) ≠ 0#32) := by
      decide +kernel
    intro k hk
    rw [Bridge.noteAllEvents_eq, Bridge.kqueueNewEventOp_eq]
    exact h k hk

/-! ## Windows -/

theorem win_bools (a : BitVec 32) : applyRules winRules a =
    (((0#32 ||| (if (test a sysFSCREATE || test a sysFSMOVEDTO) then Create else 0#32)) |||
      (if (test a sysFSDELETE || test a sysFSDELETESELF) then Remove else 0#32)) |||
      (if test a sysFSMODIFY then Write else 0#32)) |||
      (if (test a sysFSMOVE || (test a sysFSMOVESELF || test a sysFSMOVEDFROM)) then Rename else 0#32) := by
  simp only [applyRules, winRules, List.foldl, List.any, Bool.or_false]

/-- `sysFSMOVE` (both move bits) implies `sysFSMOVEDFROM`, so its test is redundant -/
theorem win_move_redundant (a : BitVec 32) :
    (test a sysFSMOVE || (test a sysFSMOVESELF || test a sysFSMOVEDFROM)) = (test a sysFSMOVESELF || test a sysFSMOVEDFROM) := by
  cases h : test a sysFSMOVE
  · simp
  · have := test_mono (f := sysFSMOVE) (g := sysFSMOVEDFROM) (by decide) a h
    simp [this]

def winRules' : List Rule := [
  ⟨[sysFSCREATE, sysFSMOVEDTO], Create⟩, ⟨[sysFSDELETE, sysFSDELETESELF], Remove⟩,
  ⟨[sysFSMODIFY], Write⟩, ⟨[sysFSMOVESELF, sysFSMOVEDFROM], Rename⟩]

theorem win_eq_single (a : BitVec 32) : applyRules winRules a = applyRules winRules' a := by
  rw [win_bools, win_move_redundant]
  simp only [applyRules, winRules', List.foldl, List.any, Bool.or_false]

theorem win_union (a b : BitVec 32) :
    Gen.winNewEventOp (a ||| b) = Gen.winNewEventOp a ||| Gen.winNewEventOp b := by
  simp only [Bridge.winNewEventOp_eq, Fsn.winNewEventOp, win_eq_single]
  exact applyRules_or (by decide) a b

theorem win_mapping (m : BitVec 32) :
    (opHas (Gen.winNewEventOp m) Create = (test m sysFSCREATE || test m sysFSMOVEDTO)) ∧
    (opHas (Gen.winNewEventOp m) Remove = (test m sysFSDELETE || test m sysFSDELETESELF)) ∧
    (opHas (Gen.winNewEventOp m) Write  = test m sysFSMODIFY) ∧
    (opHas (Gen.winNewEventOp m) Rename = (test m sysFSMOVESELF || test m sysFSMOVEDFROM)) := by
  simp only [Bridge.winNewEventOp_eq, Fsn.winNewEventOp, win_eq_single, applyRules_has]
  simp only [winRules', List.any_cons, List.any_nil, Bool.or_false]
  refine ⟨?_, ?_, ?_, ?_⟩ <;> simp [opHas, Create, Remove, Write, Rename]

/-- attribute changes are never reported on Windows (nor any unportable operation) -/
theorem windows_never_chmod (m : BitVec 32) : opHas (Gen.winNewEventOp m) (Chmod ||| unportableOps) = false := by
  simp only [Bridge.winNewEventOp_eq, Fsn.winNewEventOp, win_eq_single, applyRules_has]
  simp only [winRules', List.any_cons, List.any_nil, Bool.or_false]
  simp [opHas, Create, Remove, Write, Rename, Chmod, unportableOps, Open, Read, CloseWrite, CloseRead]

/-- `FILE_ACTION_*` ↦ internal mask ↦ portable operation, for every action value -/
theorem win_action_mapping (a : BitVec 32) :
    Gen.winNewEventOp ((Gen.toFSnotifyFlags a).truncate 32) =
      if a == 0x1#32 then Create else if a == 0x2#32 then Remove else if a == 0x3#32 then Write
      else if a == 0x4#32 then Rename else if a == 0x5#32 then Create else 0#32 := by
  rw [Bridge.toFSnotifyFlags_eq, Bridge.winNewEventOp_eq]
  unfold Fsn.toFSnotifyFlags
  by_cases h1 : a = 0x1#32
  · subst h1; decide
  by_cases h2 : a = 0x2#32
  · subst h2; decide
  by_cases h3 : a = 0x3#32
  · subst h3; decide
  by_cases h4 : a = 0x4#32
  · subst h4; decide
  by_cases h5 : a = 0x5#32
  · subst h5; decide
  simp [h1, h2, h3, h4, h5]; decide

/-- `toWindowsFlags`: union law and exact table -/
theorem toWindowsFlags_union (a b : BitVec 64) :
    Gen.toWindowsFlags (a ||| b) = Gen.toWindowsFlags a ||| Gen.toWindowsFlags b := by
  simp only [Bridge.toWindowsFlags_eq, Fsn.toWindowsFlags, BitVec.and_or_distrib_right]
  by_cases h1 : a &&& 0x2#64 = 0#64 <;> by_cases h2 : b &&& 0x2#64 = 0#64 <;>
  by_cases h3 : a &&& 0x3c0#64 = 0#64 <;> by_cases h4 : b &&& 0x3c0#64 = 0#64 <;>
    simp [h1, h2, h3, h4, bne, BitVec.or_eq_zero_iff] <;> decide

/-! ## xSupports -/

theorem xSupports_all :
    (∀ op, Gen.xSupportsInotify op = true) ∧
    (∀ op, Gen.xSupportsKqueue op = !(opHas op unportableOps)) ∧
    (∀ op, Gen.xSupportsWindows op = !(opHas op unportableOps)) ∧
    (∀ op, Gen.xSupportsFen op = !(opHas op unportableOps)) :=
  ⟨fun _ => rfl, Bridge.xSupportsKqueue_eq, Bridge.xSupportsWindows_eq, Bridge.xSupportsFen_eq⟩

/-- the five portable operations are supported everywhere -/
theorem portable_always_supported (op : BitVec 32) (h : op &&& ~~~Fsn.defaultOps = 0#32) :
    Gen.xSupportsKqueue op = true ∧ Gen.xSupportsWindows op = true ∧ Gen.xSupportsFen op = true := by
  have : opHas op unportableOps = false := by
    unfold opHas
    have h2 : op &&& unportableOps = 0#32 := by
      have : unportableOps = unportableOps &&& ~~~Fsn.defaultOps := by decide
      rw [this, ← BitVec.and_assoc, BitVec.and_comm op, BitVec.and_assoc, h]; simp
    simp [h2]
  simp [Bridge.xSupportsKqueue_eq, Bridge.xSupportsWindows_eq, Bridge.xSupportsFen_eq, xSupportsPortableOnly, this]

/-! ### sanity examples (tests) -/
example : Gen.inotifyNewEventOp (IN_MOVED_TO ||| IN_ISDIR) = Create := by decide
example : Gen.inotifyNewEventOp (IN_DELETE_SELF ||| IN_ATTRIB) = Remove ||| Chmod := by decide
example : Gen.kqueueNewEventOp (NOTE_WRITE ||| NOTE_DELETE) = Remove := by decide
example : Gen.inotifyRequest true (Write ||| CloseWrite) = IN_DONT_FOLLOW ||| IN_MODIFY ||| IN_CLOSE_WRITE := by decide

end C15
