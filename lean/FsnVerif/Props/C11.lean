import FsnVerif.Proofs.RingLemmas
import FsnVerif.Proofs.InotifyLemmas
import FsnVerif.Proofs.BridgeRing
/-!
# C11 — Rename correlation: Create carries the old name of the same move, or none

The ring holds exactly the last ten `(cookie, old name)` pairs stored by move-outs
(`ring_is_window`). Hence, under the kernel contract K5 (cookies of distinct moves are distinct
and non-zero), a move-in finds the old name of *its own* move if fewer than ten other move-outs
happened in between, and finds nothing if its cookie was never stored — however many unmatched
move-outs preceded it. The ten-slot bound is part of the statement ("or none").
-/
namespace C11
open Fsn

/-- the cookie code of the source is the code that was modelled (regenerated on every run) -/
theorem ring_source_pinned : Gen.inotifyNewEventOp.residue.length = 1 := by
  rw [Bridge.inotifyNewEventOp_residue]; rfl

theorem newEvent_ring (l : Lib) (name : Path) (mask cookie : BitVec 32) :
    (l.newEvent name mask cookie).1.ring =
      if cookie != 0#32 && test mask IN_MOVED_FROM then l.ring.store cookie name else l.ring := Fsn.newEvent_ring l name mask cookie

theorem newEvent_renamedFrom (l : Lib) (name : Path) (mask cookie : BitVec 32) :
    (l.newEvent name mask cookie).2.renamedFrom =
      if cookie != 0#32 && !test mask IN_MOVED_FROM && test mask IN_MOVED_TO then l.ring.find cookie else [] :=
  Fsn.newEvent_renamedFrom l name mask cookie

/-- a Create that did not result from a move (plain creation, hard link: no `IN_MOVED_TO`) never
carries an old name, whatever the ring holds -/
theorem plain_create_no_old_name (l : Lib) (name : Path) (mask cookie : BitVec 32)
    (h : test mask IN_MOVED_TO = false) : (l.newEvent name mask cookie).2.renamedFrom = [] := by
  rw [newEvent_renamedFrom]; simp [h]

/-- a zero cookie neither stores nor looks up -/
theorem zero_cookie_ignored (l : Lib) (name : Path) (mask : BitVec 32) :
    (l.newEvent name mask 0#32).1.ring = l.ring ∧ (l.newEvent name mask 0#32).2.renamedFrom = [] := by
  rw [newEvent_ring, newEvent_renamedFrom]; simp

/-- the last ten stores, oldest first (zero padded) -/
def lastTen (stores : List Slot) : List Slot := (List.replicate 10 zeroSlot ++ stores).drop stores.length

theorem ring_is_window (stores : List Slot) : (ringOf stores).window = lastTen stores :=
  Fsn.ring_is_window stores

/-- **pair found**: the move-in of a move whose move-out is among the last ten stores gets that
move's old name — the very name the Rename event of the move-out carried — provided no other
of the last ten stores used the same cookie (K5) -/
theorem pair_found (stores : List Slot) (c : BitVec 32) (p : Path)
    (hmem : (c, p) ∈ lastTen stores)
    (hdistinct : ∀ s ∈ lastTen stores, s.1 = c → s = (c, p)) :
    (ringOf stores).find c = p := by
  rw [Ring.find_eq]
  apply findIn_of_unique
  · rw [← Ring.mem_window, ring_is_window]; exact hmem
  · intro s hs; rw [← Ring.mem_window, ring_is_window] at hs; exact hdistinct s hs

/-- **no false pair**: a move-in whose (non-zero) cookie is not among the last ten stored cookies
gets no old name, however many unmatched move-outs preceded it -/
theorem no_false_pair (stores : List Slot) (c : BitVec 32) (hc : c ≠ 0#32)
    (habsent : ∀ s ∈ stores, s.1 ≠ c) : (ringOf stores).find c = [] := by
  rw [Ring.find_eq]
  apply findIn_of_absent
  intro s hs
  rw [← Ring.mem_window, ring_is_window] at hs
  unfold lastTen at hs
  have hs' := List.mem_of_mem_drop hs
  rcases List.mem_append.mp hs' with h | h
  · have : s = zeroSlot := List.eq_of_mem_replicate h
    rw [this]; exact fun h0 => hc h0.symm
  · exact habsent s h

/-- a store is found by the next lookup of its (non-zero) cookie as long as fewer than ten
further stores happened, all stored cookies being distinct from it (K5) -/
theorem pair_found_within_ten (before after : List Slot) (c : BitVec 32) (p : Path)
    (hc : c ≠ 0#32) (hk : after.length < 10)
    (hfresh_before : ∀ s ∈ before, s.1 ≠ c) (hfresh_after : ∀ s ∈ after, s.1 ≠ c) :
    (ringOf (before ++ (c, p) :: after)).find c = p := by
  apply pair_found
  · unfold lastTen
    have hlen : (before ++ (c, p) :: after).length = before.length + 1 + after.length := by simp; omega
    rw [hlen]
    have : (List.replicate 10 zeroSlot ++ (before ++ (c, p) :: after)) =
        (List.replicate 10 zeroSlot ++ before) ++ (c, p) :: after := by simp
    rw [this]
    -- the dropped prefix is shorter than `replicate 10 ++ before`, so `(c,p)` survives
    have hle : before.length + 1 + after.length ≤ (List.replicate 10 zeroSlot ++ before).length := by simp; omega
    rw [List.drop_append_of_le_length hle]
    exact List.mem_append_right _ (by simp)
  · intro s hs hsc
    unfold lastTen at hs
    have hs' := List.mem_of_mem_drop hs
    rcases List.mem_append.mp hs' with h | h
    · have : s = zeroSlot := List.eq_of_mem_replicate h
      subst this
      exact absurd hsc.symm hc
    · rcases List.mem_append.mp h with h | h
      · exact absurd hsc (hfresh_before s h)
      · rcases List.mem_cons.mp h with h | h
        · exact h
        · exact absurd hsc (hfresh_after s h)

/-! ### non-vacuity: a ring after twelve stores; the two oldest are gone, the rest are found -/
def twelve : List Slot := (List.range 12).map fun i => (BitVec.ofNat 32 (100 + i), [i])
example : (ringOf twelve).find 100#32 = [] ∧ (ringOf twelve).find 101#32 = [] ∧
    (ringOf twelve).find 102#32 = [2] ∧ (ringOf twelve).find 111#32 = [11] := by decide
example : (ringOf twelve).idx = 2 := by decide

end C11
