import FsnVerif.Proofs.ProtoLemmas
import FsnVerif.Proofs.SkeletonTie
/-!
# C05 — Control operations never block on event consumption; Close always returns

Over the protocol model (`Model/Proto`): in **every reachable state** — events pending in a full
buffer, the reader parked in a send on Errors or Events, other goroutines holding the mutex,
marking the watcher closed or closing the file, any Events capacity — a pending Add / Remove /
WatchList / Close call returns after finitely many **system steps only** (no consumer step is
ever needed). The run is given by an explicit strategy (`Proto.next`), not found by search; the
statement for all 5632 invariant-compatible states is a kernel-evaluated table lifted to all
states through the inductive invariant.
Runtime assumptions (trusted base): a scheduler fair to runnable goroutines and a starvation-free
`sync.Mutex` turn "there is a system-only run" into "the call returns"; `File.Close` wakes a
blocked `Read`.
Tie: the regenerated skeleton of every protocol function equals the reviewed expectation the
model was written against, including *which sends can happen while `mu` is held*.
-/
namespace C05
open Proto

/-- **control calls make progress without the consumer** -/
theorem ctl_progress (s : S) (h : Reach s) : ∃ s', SysRun s s' ∧ s'.c = .returned :=
  reach_sound 16 s (prog_of_inv s (reach_inv h))

/-- the reader never sits in a send it cannot leave while holding the mutex: an error can be
pending under the lock only when the watcher is already marked closed, and then the `done` case
of the select fires -/
theorem lock_not_held_while_blocked (s : S) (h : Reach s) :
    (s.r = .errSendLocked → s.doneClosed = true) ∧ (s.r = .evSend ∨ s.r = .errSend → s.mu ≠ .reader) := by
  have hp := reach_invP h
  constructor
  · intro hr
    have h1 := hp.strict; have h2 := hp.fd_done
    rw [hr] at h1
    simp at h1 h2
    cases hf : s.fdOpen <;> simp_all
  · intro hr hmu
    have h1 := hp.mu_reader
    rw [hmu] at h1
    rcases hr with hr | hr <;> rw [hr] at h1 <;> simp at h1

/-- a Close on a watcher that is already marked closed returns at once (idempotence; any number
of concurrent Close calls are "me" plus "others") -/
theorem close_idempotent_returns (s : S) (hc : s.c = .cCrit) (hd : s.doneClosed = true) :
    ∃ s', step true s .mCCrit = some s' ∧ s'.c = .returned := by
  simp [step, hc, hd]

/-- the only sends that can execute while a mutex is held (regenerated from the source):
`handleEvent → sendError` (MOVE_SELF clean-up error; recursive-watch registration error) and
`AddWith → sendEvent`, which needs the option `withCreate` that nothing calls -/
theorem sends_while_locked_sites :
    Gen.sendsWhileLocked = [("inotify.AddWith", "sendEvent", "Events", "mu"),
      ("inotify.handleEvent", "sendError", "Errors", "mu"), ("inotify.handleEvent", "sendError", "Errors", "mu")] ∧
    Gen.withCreateCallers = [] := by
  constructor
  · rw [SkeletonTie.sendsWhileLocked_ok]; decide +kernel
  · exact SkeletonTie.withCreate_dead

theorem protocol_skeleton_ok :
    SkeletonTie.protocolFns.all (fun n => SkeletonTie.viewOf n (SkeletonTie.lookupFn n Gen.skeleton) == SkeletonTie.viewOf n (SkeletonTie.expectedOf n) &&
      (SkeletonTie.expectedOf n).isSome) = true := SkeletonTie.protocol_skeleton_ok

/-! ### the pre-repair protocol (finding F1): an error pending under the lock while the file is open -/

/-- all states reachable from `s` by system steps, by breadth (fuel-bounded; 12 suffices here) -/
def sysClosure (strict : Bool) : Nat → List S → List S
  | 0, acc => acc
  | n + 1, acc =>
    let nxt := acc.flatMap fun s => allLabels.filterMap fun l => if l.isSystem then step strict s l else none
    sysClosure strict n (nxt.foldl (fun a s => if a.contains s then a else a ++ [s]) acc)

/-- reader parked in `sendError` inside `handleEvent` (mutex held), file open, nobody receiving,
a Close pending -/
def blocked : S :=
  { r := .errSendLocked, c := .cLock, mu := .reader, doneClosed := false, fdOpen := true, respClosed := false,
    erClosed := false, evClosed := false, evFull := false, dataReady := false }

/-- it is reachable in the pre-repair protocol … -/
theorem blocked_reachable_before_fix :
    ([Label.kData, .rTop, .rReadRec, .rLock, .rHandleErr].foldl (fun s l => s.bind (step false · l)) (some (init .cLock)))
      = some blocked := by decide

/-- … and from it **no** sequence of system steps lets Close (or any other call) return: only a
receive from Errors releases the mutex. With the repaired protocol the state is unreachable. -/
theorem blocked_witness : ((sysClosure false 6 [blocked]).all fun s => decide (s.c ≠ .returned)) = true ∧
    (sysClosure false 6 [blocked]).length = (sysClosure false 5 [blocked]).length := by decide +kernel

theorem blocked_excluded_after_fix : Inv true blocked = false := by decide

end C05
