import FsnVerif.Props.C08
import FsnVerif.Props.C12
import FsnVerif.Props.C02
import FsnVerif.Proofs.CleanLemmas
/-!
# C09 — A watch ends when its path is deleted or renamed, and can be re-added (model side)

In every reachable state: handling `IN_IGNORED`, `IN_UNMOUNT`, `IN_DELETE_SELF` or (non-recursive)
`IN_MOVE_SELF` for a listed wd takes the entry out of both tables — the path leaves WatchList,
`Remove` on it reports `ErrNonExistentWatch`, later records for that wd are silent, and the path
can be added again (C08.stored_path_is_clean_arg creates a fresh entry); the MOVE_SELF case also
issues `inotify_rm_watch`. (`self_gone_ends_watch'`; the auxiliary `self_gone_ends_watch` takes the cleanness of the stored
path as a hypothesis, which `reachable_paths_clean` + `Fsn.clean_idem` discharge.) An `IN_ATTRIB` alone (unlink while a descriptor is open) changes no
table and reports Chmod. `IN_DELETE_SELF` reports Remove iff the parent directory's path is not
listed at that moment.
Known gap (finding F5, `late_parent_witness`): "unless the watched parent already did" is
implemented as "unless the parent is listed *now*"; a parent added after the unlink suppresses a
Remove that nobody reported.
-/
namespace C09
open Fsn C12

/-- the records that end a watch -/
def endsWatch (m : BitVec 32) : Bool :=
  ignoredOrUnmount m || test m IN_DELETE_SELF || test m IN_MOVE_SELF

theorem emit_tables (l : Lib) (env : Env) (out : Out) (br : Branch) (w : Watch) (r : Raw) :
    (l.emit env out br w r).lib.wdT = l.wdT ∧ (l.emit env out br w r).lib.pathT = l.pathT := by
  rcases emit_lib l env out br w r with h | h <;> rw [h]
  · exact ⟨rfl, rfl⟩
  · exact newEvent_tables ..

theorem dropped (l : Lib) (w : Watch) :
    alLookup w.wd (l.dropWatch w).wdT = none ∧ alLookup w.path (l.dropWatch w).pathT = none :=
  ⟨alLookup_erase_same _ _, alLookup_erase_same _ _⟩

/-- **self gone ends the watch** -/
theorem self_gone_ends_watch {l : Lib} (h : Reachable l) (env : Env) (r : Raw) (w : Watch)
    (hw : alLookup r.wd l.wdT = some w) (hend : endsWatch r.mask = true)
    (hclean : clean w.path = w.path) :
    alLookup r.wd (l.handle env r).lib.wdT = none ∧ alLookup w.path (l.handle env r).lib.pathT = none := by
  obtain ⟨hi, hn⟩ := reachable_inv h
  have hwd : w.wd = r.wd := (hi.bwd _ _ hw).1
  have hww : alLookup w.wd l.wdT = some w := by rw [hwd]; exact hw
  have hrec : w.recurse = false := hn.entries _ _ hw
  unfold Lib.handle
  rw [hw]; simp only
  by_cases hign : ignoredOrUnmount r.mask = true
  · rw [if_pos hign]; rw [← hwd]; exact dropped l w
  · rw [if_neg hign]
    obtain ⟨hd, hdn⟩ := hi.afterDeleteSelf hn w hww r
    by_cases hm : test r.mask IN_MOVE_SELF = true
    · rw [if_pos hm, if_neg (by simp [hrec])]
      -- after the DELETE_SELF clean-up the path is either still listed (then `remove` drops exactly
      -- this entry) or already gone (then `remove` says non-existent and nothing changes)
      unfold Lib.afterMoveSelf
      simp only
      have hp := (hd.remove hdn env w.path).2.2
      rw [if_neg (by simp [hp])]
      have key : alLookup r.wd ((l.afterDeleteSelf w r).remove env w.path).1.wdT = none ∧
          alLookup w.path ((l.afterDeleteSelf w r).remove env w.path).1.pathT = none := by
        rcases Lib.remove_lib hd hdn env w.path with ⟨h1, _, h3⟩ | ⟨w', hw', hw'p, h1, _⟩
        · -- the path is no longer listed (DELETE_SELF clean-up took it): then neither is the wd
          rw [h1]
          rw [hclean] at h3
          refine ⟨?_, h3⟩
          cases hq : alLookup r.wd (l.afterDeleteSelf w r).wdT with
          | none => rfl
          | some w2 =>
            exfalso
            -- the entry under r.wd is still `w` (clean-up only erases), so its path would be listed
            have hw2 : w2 = w := by
              unfold Lib.afterDeleteSelf at hq
              split at hq
              · rw [Lib.dropWatch, ← hwd, alLookup_erase_same] at hq; cases hq
              · rw [hw] at hq; injection hq with hq; exact hq.symm
            subst hw2
            have := (hd.bwd _ _ hq).2
            rw [h3] at this; cases this
        · rw [h1]
          rw [hclean] at hw'p
          -- the entry listed under `w.path` after the clean-up is `w` itself
          have hlist : alLookup w.path (l.afterDeleteSelf w r).pathT = some w'.wd := by
            have := (hd.bwd _ _ hw').2; rw [hw'p] at this; exact this
          have hsame : w'.wd = w.wd := by
            unfold Lib.afterDeleteSelf at hlist
            split at hlist
            · rw [Lib.dropWatch, alLookup_erase_same] at hlist; cases hlist
            · have := (hi.bwd _ _ hww).2; rw [this] at hlist; injection hlist with hlist; exact hlist.symm
          rw [← hwd, ← hsame, ← hw'p]
          exact dropped _ w'
      split
      all_goals (try split)
      all_goals
        obtain ⟨a, b⟩ := emit_tables ((l.afterDeleteSelf w r).remove env w.path).1 ((l.afterDeleteSelf w r).remove env w.path).2.1 _ _ w r
        rw [a, b]; exact key
    · rw [if_neg hm, recurseAfter_norec _ _ _ _ hrec]
      have hds : test r.mask IN_DELETE_SELF = true := by
        unfold endsWatch at hend
        simp only [Bool.or_eq_true] at hend
        rcases hend with (h1 | h1) | h1
        · exact absurd h1 hign
        · exact h1
        · exact absurd h1 hm
      obtain ⟨a, b⟩ := emit_tables (l.afterDeleteSelf w r) env {} (if test r.mask IN_DELETE_SELF then .deleteSelf else .plain) w r
      rw [a, b]
      unfold Lib.afterDeleteSelf
      rw [if_pos hds, ← hwd]
      exact dropped l w

/-- in every reachable state every stored watch path is a fixed point of `clean` (`filepath.Clean`
as modelled is idempotent: `Fsn.clean_idem`), so re-cleaning it in `removePath` finds the same entry -/
theorem reachable_paths_clean {l : Lib} (h : Reachable l) : l.PathsClean := by
  induction h with
  | init => exact Lib.pathsClean_empty
  | step l env op hr hk ih =>
    obtain ⟨hi, hn⟩ := reachable_inv hr
    cases op with
    | add arg ops nf => exact ih.add env arg ops nf
    | remove arg => exact ih.remove hi hn env _
    | batch rs => exact ih.stepRecords hi hn env rs

/-- **self gone ends the watch**, for every reachable state, without side conditions -/
theorem self_gone_ends_watch' {l : Lib} (h : Reachable l) (env : Env) (r : Raw) (w : Watch)
    (hw : alLookup r.wd l.wdT = some w) (hend : endsWatch r.mask = true) :
    alLookup r.wd (l.handle env r).lib.wdT = none ∧ alLookup w.path (l.handle env r).lib.pathT = none :=
  self_gone_ends_watch h env r w hw hend (reachable_paths_clean h r.wd w hw)

/-- once the watch has ended, `Remove` on its path reports `ErrNonExistentWatch` -/
theorem remove_after_end {l : Lib} (h : Reachable l) (env : Env) (p : Path) (hgone : alLookup (clean p) l.pathT = none) :
    (l.remove env p).2.2.ret = some .nonExistentWatch := by
  obtain ⟨hi, hn⟩ := reachable_inv h
  rcases Lib.remove_lib hi hn env p with ⟨_, h2, _⟩ | ⟨w, hw, hwp, _, _⟩
  · exact h2
  · have := (hi.bwd _ _ hw).2; rw [hwp, hgone] at this; cases this

/-- **the path can be added again**: after the watch has ended, an `Add` of the same spelling that the kernel
answers with a descriptor not in the table (a new one, or the old number again: it is no longer listed) stores a
fresh watch under the cleaned argument — for every reachable state and every ending record -/
theorem readd_after_end {l : Lib} (h : Reachable l) (env : Env) (r : Raw) (w : Watch)
    (hw : alLookup r.wd l.wdT = some w) (hend : endsWatch r.mask = true)
    (arg : Path) (harg : clean arg = w.path) (ops : BitVec 32) (nf : Bool) (wd' : Nat)
    (hk : env.addWatch (clean arg) (inotifyRequest nf ops) = .ok wd')
    (hfresh : alLookup wd' (l.handle env r).lib.wdT = none) :
    alLookup wd' ((l.handle env r).lib.add env arg ops nf).1.wdT
        = some ⟨wd', inotifyRequest nf ops, clean arg, false⟩ ∧
      alLookup (clean arg) ((l.handle env r).lib.add env arg ops nf).1.pathT = some wd' := by
  obtain ⟨_, hp⟩ := self_gone_ends_watch' h env r w hw hend
  exact C08.stored_path_is_clean_arg _ env arg ops nf wd' hk (by rw [harg]; exact hp) hfresh

/-- the old descriptor number itself is a legitimate answer: it is free again -/
theorem readd_same_wd_is_fresh {l : Lib} (h : Reachable l) (env : Env) (r : Raw) (w : Watch)
    (hw : alLookup r.wd l.wdT = some w) (hend : endsWatch r.mask = true) :
    alLookup r.wd (l.handle env r).lib.wdT = none := (self_gone_ends_watch' h env r w hw hend).1

/-- … and later records for the ended watch's wd say nothing and change nothing -/
theorem silent_after_end (l : Lib) (env : Env) (r : Raw) (hgone : alLookup r.wd l.wdT = none) :
    (l.handle env r).out.events = [] ∧ (l.handle env r).lib = l := C02.unknown_wd_silent l env r hgone

/-- **unlink while a descriptor is open**: the kernel only raises `IN_ATTRIB` (link count);
the watch stays exactly as it is and Chmod is reported -/
theorem open_fd_unlink (l : Lib) (env : Env) (wd : Nat) (cookie : BitVec 32) (len : Nat) (nm : List Nat) (w : Watch)
    (hw : alLookup wd l.wdT = some w) :
    let r : Raw := ⟨wd, IN_ATTRIB, cookie, len, nm⟩
    (l.handle env r).lib.wdT = l.wdT ∧ (l.handle env r).lib.pathT = l.pathT ∧
    ∃ e, (l.handle env r).out.events = [e] ∧ e.op = Chmod ∧ e.name = nameOf w r := by
  intro r
  have k1 : ignoredOrUnmount IN_ATTRIB = false := by decide
  have k2 : test IN_ATTRIB IN_MOVE_SELF = false := by decide
  have k3 : test IN_ATTRIB IN_DELETE_SELF = false := by decide
  have k4 : ((IN_ATTRIB &&& IN_DELETE_SELF) != 0#32) = false := by decide
  have k5 : inotifyNewEventOp IN_ATTRIB = Chmod := by decide
  have k6 : ¬ (Chmod == 0#32) = true := by decide
  unfold Lib.handle
  simp only [r, hw, k1, k2, Bool.false_eq_true, if_false]
  have kd : test IN_ATTRIB IN_ISDIR = false := by decide
  rw [recurseAfter_nodir _ _ _ _ kd]
  unfold Lib.afterDeleteSelf Lib.emit
  simp only [k3, k4, Bool.false_eq_true, if_false, Bool.false_and]
  have hop : (l.newEvent (nameOf w ⟨wd, IN_ATTRIB, cookie, len, nm⟩) IN_ATTRIB cookie).2.op = Chmod := by rw [newEvent_op, k5]
  rw [if_neg (by rw [hop]; exact k6)]
  obtain ⟨a, b⟩ := newEvent_tables l (nameOf w ⟨wd, IN_ATTRIB, cookie, len, nm⟩) IN_ATTRIB cookie
  exact ⟨a, b, _, rfl, hop, newEvent_name ..⟩

/-- `IN_DELETE_SELF` reports Remove exactly when the parent's path is not listed at that moment -/
theorem delete_self_reports_iff (l : Lib) (env : Env) (wd : Nat) (cookie : BitVec 32) (len : Nat) (nm : List Nat) (w : Watch)
    (hw : alLookup wd l.wdT = some w) :
    let r : Raw := ⟨wd, IN_DELETE_SELF, cookie, len, nm⟩
    ((l.handle env r).out.events = [] ↔ alHas (dir w.path) (l.dropWatch w).pathT = true) := by
  intro r
  have k1 : ignoredOrUnmount IN_DELETE_SELF = false := by decide
  have k2 : test IN_DELETE_SELF IN_MOVE_SELF = false := by decide
  have k3 : test IN_DELETE_SELF IN_DELETE_SELF = true := by decide
  have k4 : ((IN_DELETE_SELF &&& IN_DELETE_SELF) != 0#32) = true := by decide
  have k5 : inotifyNewEventOp IN_DELETE_SELF = Remove := by decide
  have k6 : ¬ (Remove == 0#32) = true := by decide
  unfold Lib.handle
  simp only [r, hw, k1, k2, Bool.false_eq_true, if_false]
  have kd : test IN_DELETE_SELF IN_ISDIR = false := by decide
  rw [recurseAfter_nodir _ _ _ _ kd]
  unfold Lib.afterDeleteSelf Lib.emit
  simp only [k3, k4, if_true, Bool.true_and]
  by_cases hp : alHas (dir w.path) (l.dropWatch w).pathT = true
  · rw [if_pos hp]; simp [hp]
  · rw [if_neg hp]
    have hop : ((l.dropWatch w).newEvent (nameOf w ⟨wd, IN_DELETE_SELF, cookie, len, nm⟩) IN_DELETE_SELF cookie).2.op = Remove := by
      rw [newEvent_op, k5]
    rw [if_neg (by rw [hop]; exact k6)]
    simp [hp]

/-- **finding F5** (known, not repaired): file `d/f` listed and unlinked while open; parent `d` added
afterwards; when the descriptor is closed the kernel raises `IN_DELETE_SELF` for `d/f` — and the
library reports nothing, although the parent never reported the removal -/
theorem late_parent_witness :
    let l : Lib := { wdT := [(1, ⟨1, 0xfc6#32, [100, 47, 102], false⟩), (2, ⟨2, 0xfc6#32, [100], false⟩)],
                     pathT := [([100, 47, 102], 1), ([100], 2)] }
    (l.handle { addWatch := fun _ _ => .error "x", marks := [2] } ⟨1, IN_DELETE_SELF, 0#32, 0, []⟩).out.events = [] := by
  decide

end C09
