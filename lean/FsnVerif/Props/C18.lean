import FsnVerif.Model.Kqueue
import FsnVerif.Proofs.KqFullEvents
/-!
# C18 — kqueue: a watched directory reports each new entry once (model side)

The `seen` set: entries present when the directory was added are marked seen
(`watchDirectoryFiles`), `sendCreateIfNew` reports Create for an entry that is not seen and marks
it, a Remove / Rename notification un-marks it. Hence Create exactly once per new entry, never for
pre-existing ones, again after a removal. Names are the directory's path as the user spelled it
(or the link name), a separator and the entry name.
-/
namespace C18
open Kq Fsn

def child (d e : Path) : Path := d ++ slash :: e

/-- `dirChange(dir)` over the directory listing: Create for every entry not yet seen; every entry
listed is seen afterwards (sockets and named pipes included: finding F7a repaired) -/
def dirChange (seen : List Path) (d : Path) : List Path → List Path × List Path
  | [] => (seen, [])
  | e :: es =>
    let p := child d e
    if seen.contains p then dirChange seen d es
    else
      let r := dirChange (p :: seen) d es
      (r.1, p :: r.2)

/-- `watchDirectoryFiles`: mark everything that exists at Add time -/
def markAll (seen : List Path) (d : Path) (es : List Path) : List Path := es.foldl (fun acc e => child d e :: acc) seen

theorem dirChange_seen_mono (seen : List Path) (d : Path) (es : List Path) (p : Path) (h : p ∈ seen) :
    p ∈ (dirChange seen d es).1 := by
  induction es generalizing seen with
  | nil => exact h
  | cons e es ih =>
    unfold dirChange
    simp only
    split
    · exact ih seen h
    · exact ih _ (List.mem_cons_of_mem _ h)

theorem dirChange_marks (seen : List Path) (d : Path) (es : List Path) (e : Path) (h : e ∈ es) :
    child d e ∈ (dirChange seen d es).1 := by
  induction es generalizing seen with
  | nil => cases h
  | cons x xs ih =>
    unfold dirChange
    simp only
    rcases List.mem_cons.mp h with h1 | h1
    · subst h1
      split
      · rename_i hc; exact dirChange_seen_mono _ _ _ _ (by simpa using hc)
      · exact dirChange_seen_mono _ _ _ _ (by simp)
    · split
      · exact ih seen h1
      · exact ih _ h1

/-- only entries that were not seen are reported, each under `dir/entry` -/
theorem creates_are_new (seen : List Path) (d : Path) (es : List Path) (p : Path) (h : p ∈ (dirChange seen d es).2) :
    p ∉ seen ∧ ∃ e ∈ es, p = child d e := by
  induction es generalizing seen with
  | nil => cases h
  | cons x xs ih =>
    unfold dirChange at h
    simp only at h
    split at h
    · obtain ⟨a, e, he, hp⟩ := ih seen h
      exact ⟨a, e, List.mem_cons_of_mem _ he, hp⟩
    · rename_i hc
      rcases List.mem_cons.mp h with h1 | h1
      · subst h1; exact ⟨by simpa using hc, x, by simp, rfl⟩
      · obtain ⟨a, e, he, hp⟩ := ih _ h1
        exact ⟨fun hh => a (List.mem_cons_of_mem _ hh), e, List.mem_cons_of_mem _ he, hp⟩

/-- **no Create for entries that existed when the watch was added** -/
theorem no_create_for_existing (seen : List Path) (d : Path) (pre es : List Path) (e : Path) (he : e ∈ pre) :
    child d e ∉ (dirChange (markAll seen d pre) d es).2 := by
  intro h
  have := (creates_are_new _ d es _ h).1
  apply this
  unfold markAll
  clear this h
  induction pre generalizing seen with
  | nil => cases he
  | cons x xs ih =>
    simp only [List.foldl_cons]
    rcases List.mem_cons.mp he with h1 | h1
    · subst h1
      have : ∀ (l : List Path) (acc : List Path), child d e ∈ acc → child d e ∈ l.foldl (fun acc e => child d e :: acc) acc := by
        intro l; induction l with
        | nil => intro acc h; exact h
        | cons y ys ihy => intro acc h; exact ihy _ (List.mem_cons_of_mem _ h)
      exact this xs _ (by simp)
    · exact ih _ h1

/-- **Create exactly once**: a second change of the directory with the same listing reports nothing -/
theorem create_once (seen : List Path) (d : Path) (es : List Path) :
    (dirChange (dirChange seen d es).1 d es).2 = [] := by
  cases hc : (dirChange (dirChange seen d es).1 d es).2 with
  | nil => rfl
  | cons p ps =>
    have hp : p ∈ (dirChange (dirChange seen d es).1 d es).2 := by rw [hc]; simp
    obtain ⟨hn, e, he, rfl⟩ := creates_are_new _ d es p hp
    exact absurd (dirChange_marks seen d es e he) hn

/-- **a name removed and created again is reported again**: after the Remove notification un-marks
it, the next listing that contains it yields Create -/
theorem remove_then_create (seen : List Path) (d : Path) (e : Path) :
    child d e ∈ (dirChange (seen.filter (· != child d e)) d [e]).2 := by
  unfold dirChange
  have : ((seen.filter (· != child d e)).contains (child d e)) = false := by
    simp [List.contains_eq_mem, List.mem_filter]
  simp [this, dirChange]


/-!
## The same clauses over the FULL model of the backend (`Model/KqFull`)

`sendCreateIfNew` is the only place of the backend that synthesises a Create (from `dirChange` for every
entry of a changed directory, and after a Remove for a name that exists again). Whatever the
environment answers (every tape):
-/
namespace Full
open KqF

/-- a Create is delivered for an entry **exactly when it has not been seen**, nothing else is delivered,
the seen set only grows, and a call that succeeds leaves the entry seen -/
theorem create_iff_unseen (path : Path) (k : Kind) (w : W) (hc : w.s.closed = false) (hp : clean path = path) :
    (sendCreateIfNew path k w).2.events = w.events ++ (if w.s.seen.contains path then [] else [⟨path, Create⟩]) ∧
    (sendCreateIfNew path k w).2.errors = w.errors ∧
    (∀ p, p ∈ w.s.seen → p ∈ (sendCreateIfNew path k w).2.s.seen) ∧
    ((sendCreateIfNew path k w).1 = none → path ∈ (sendCreateIfNew path k w).2.s.seen) :=
  let h := sendCreateIfNew_spec path k w hc hp
  ⟨h.1, h.2.1, h.2.2.2.1, h.2.2.2.2⟩

/-- **Create exactly once**: after a successful call for an entry, another one for the same entry delivers nothing -/
theorem create_once_full (path : Path) (k k' : Kind) (w : W) (hc : w.s.closed = false) (hp : clean path = path)
    (h1 : (sendCreateIfNew path k w).1 = none) (tape' : List Ans) :
    (sendCreateIfNew path k' { (sendCreateIfNew path k w).2 with tape := tape' }).2.events = (sendCreateIfNew path k w).2.events :=
  KqF.create_once path k k' w hc hp h1 tape'

/-- **a name that is removed and created again is reported again** -/
theorem remove_then_create_full (path : Path) (k : Kind) (w : W) (hc : w.s.closed = false) (hp : clean path = path) :
    (sendCreateIfNew path k (markSeen path false w).2).2.events = w.events ++ [⟨path, Create⟩] :=
  KqF.remove_then_create path k w hc hp

/-- **never for entries that existed when the watch was added**: `Add` delivers nothing at all -/
theorem add_reports_nothing (name : Path) (w : W) : (KqF.add name w).2.events = w.events ∧ (KqF.add name w).2.errors = w.errors :=
  add_silent name w

/-- **a changed directory reports exactly new entries**: whatever the directory holds and whatever the
environment answers (errors included: the loop may stop early), `dirChange` delivers nothing but Creates,
each named `dir/entry` for an entry of the listing it read that had not been seen before — never for an
entry that existed when the watch was added or was reported before (`watchDirectoryFiles` and earlier
`dirChange`s marked those seen) — puts nothing on Errors and forgets nothing it has seen -/
theorem dir_change_reports_only_new (d : Path) (w : W) (hc : w.s.closed = false) :
    (KqF.dirChange d w).2.errors = w.errors ∧ (∀ p, p ∈ w.s.seen → p ∈ (KqF.dirChange d w).2.s.seen) ∧
    ∃ (cs : List Path) (files : List (Path × Except FsErr Kind)),
      (KqF.dirChange d w).2.events = w.events ++ cs.map (fun p => (⟨p, Create⟩ : Ev)) ∧
      ∀ p, p ∈ cs → (∃ f, f ∈ files ∧ p = join d f.1) ∧ p ∉ w.s.seen :=
  dirChange_creates d w hc

/-- an internal watch never follows a link: it is registered under the (clean) name of the directory entry -/
theorem internal_watch_name (fuel : Nat) (path : Path) (k : Kind) (w : W) (r : Path)
    (h : (internalWatch (addWatch fuel) path k w).1 = .ok r) : r = [] ∨ r = clean path := by
  have := ret_internalWatch fuel path k w
  rw [h] at this
  exact this

end Full

end C18
