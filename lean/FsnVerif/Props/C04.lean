import FsnVerif.Props.C12
/-!
# C04 — Watch-set semantics (model side)

For every reachable state (any history of Add / Remove / record batches, arbitrary kernel answers):
`WatchList` is the key list of the path table, without duplicates; an Add whose kernel answer is
the wd the path already has, or the wd of an entry listed under another name (symlink, hard link,
other spelling) changes no lookup; an Add of a listed path that now names another file moves the
entry (old wd released) or — when that file is already listed under another path — drops the
stale entry and lets the other win; Remove of a path not in the list fails with
`ErrNonExistentWatch` and changes nothing; nothing panics; a failed Add changes nothing.
Partial: which inode a path names (symlink resolution, ENOENT/ENOTDIR/ELOOP/ENAMETOOLONG) is the
kernel's answer — an unconstrained input of every step here, exercised on the real file system by
the injected and live stages.
-/
namespace C04
open Fsn C12

theorem watchlist_nodup {l : Lib} (h : Reachable l) : l.watchList.Nodup := (one_entry_per_watch h).2.1

/-- a path is in `WatchList` iff it is a key of the path table iff its entry exists -/
theorem watchlist_iff {l : Lib} (h : Reachable l) (p : Path) :
    p ∈ l.watchList ↔ ∃ wd w, alLookup p l.pathT = some wd ∧ alLookup wd l.wdT = some w ∧ w.path = p := by
  obtain ⟨hi, _⟩ := reachable_inv h
  constructor
  · intro hp
    cases hl : alLookup p l.pathT with
    | none => exact absurd hp (not_mem_keys_of_lookup_none hl)
    | some wd => obtain ⟨w, a, b, _⟩ := hi.fwd p wd hl; exact ⟨wd, w, rfl, a, b⟩
  · rintro ⟨wd, w, a, _, _⟩; exact mem_keys_of_lookup a

/-- a failed Add (missing path, non-directory component, loop, over-long name, …) changes nothing -/
theorem failed_add_unchanged (l : Lib) (env : Env) (arg : Path) (ops : BitVec 32) (nf : Bool) (e : String)
    (hk : ∀ f, env.addWatch (clean arg) f = .error e) :
    (l.add env arg ops nf).1 = l ∧ (l.add env arg ops nf).2.2.ret = some (.errno e) := by
  unfold Lib.add recursivePath Lib.register
  simp [hk]

/-- Remove of a path that is not listed: `ErrNonExistentWatch`, nothing changes, no syscall -/
theorem remove_unlisted_err {l : Lib} (h : Reachable l) (env : Env) (arg : Path)
    (hp : alLookup (clean arg) l.pathT = none) :
    (l.remove env arg).1 = l ∧ (l.remove env arg).2.2.ret = some .nonExistentWatch ∧ (l.remove env arg).2.2.sys = [] := by
  obtain ⟨hi, hn⟩ := reachable_inv h
  unfold Lib.remove
  rcases Lib.removePath_spec hi hn arg with ⟨_, he⟩ | ⟨wd, w, hp', _⟩
  · rw [he]; exact ⟨rfl, rfl, rfl⟩
  · rw [hp] at hp'; cases hp'

/-- Remove never panics, in any reachable state, for any argument -/
theorem remove_total {l : Lib} (h : Reachable l) (env : Env) (arg : Path) : (l.remove env arg).2.2.panic = false := by
  obtain ⟨hi, hn⟩ := reachable_inv h
  exact (hi.remove hn env arg).2.2

/-- Add of a path whose file is already watched under the **same** path changes no lookup -/
theorem add_same_noop {l : Lib} (h : Reachable l) (path : Path) (fl : BitVec 32) (wd : Nat)
    (hp : alLookup path l.pathT = some wd) (k : Nat) (p : Path) :
    alLookup k (l.applyAdd path fl false wd).wdT = alLookup k l.wdT ∧
    alLookup p (l.applyAdd path fl false wd).pathT = alLookup p l.pathT := by
  obtain ⟨hi, _⟩ := reachable_inv h
  obtain ⟨w, hw, hwp, hww⟩ := hi.fwd path wd hp
  unfold Lib.applyAdd
  have hb := (hi.bwd wd w hw).2
  simp only [hp, hw, Option.getD_some, Option.bind_some, hww, bne_self_eq_false, Bool.false_eq_true, if_false, Bool.false_and]
  exact ⟨alLookup_insert_self _ _ _ _ hw, alLookup_insert_self _ _ _ _ hb⟩

/-- Add under **another name** of a file that is already watched (the kernel answers with a listed
wd; the new name is not listed): no lookup changes — in particular `WatchList` keeps only the first
spelling and no second entry (hence no duplicate events) appears -/
theorem add_alias_noop {l : Lib} (h : Reachable l) (path : Path) (fl : BitVec 32) (wd : Nat) (e : Watch)
    (hnew : alLookup path l.pathT = none) (he : alLookup wd l.wdT = some e) (k : Nat) (p : Path) :
    alLookup k (l.applyAdd path fl false wd).wdT = alLookup k l.wdT ∧
    alLookup p (l.applyAdd path fl false wd).pathT = alLookup p l.pathT := by
  obtain ⟨hi, _⟩ := reachable_inv h
  obtain ⟨hewd, hepath⟩ := hi.bwd wd e he
  have hwd0 : wd ≠ 0 := by intro h0; subst h0; rw [hi.no_zero] at he; cases he
  have hwd' : (wd != 0) = true := by simpa using hwd0
  have hhas : alHas path l.pathT = false := by simp [alHas, hnew]
  unfold Lib.applyAdd
  simp only [hnew, he, Option.getD_none, Option.bind_none, hewd, hwd', if_true, hhas, Bool.and_false, Bool.false_and,
    Bool.false_eq_true, if_false]
  refine ⟨?_, alLookup_insert_self _ _ _ _ hepath⟩
  by_cases hk : k = 0
  · subst hk; rw [alLookup_erase_same, hi.no_zero]
  · rw [alLookup_erase_other _ _ _ hk, alLookup_insert_self _ _ _ _ he]

/-- Add of a listed path that has come to name a **different, unlisted** file moves the watch:
the path now maps to the new wd, the old wd is gone from the table (and released: C12) -/
theorem add_repoint_moves {l : Lib} (h : Reachable l) (path : Path) (fl : BitVec 32) (old wd : Nat)
    (hp : alLookup path l.pathT = some old) (hfresh : alLookup wd l.wdT = none) (hwd : wd ≠ 0) :
    alLookup path (l.applyAdd path fl false wd).pathT = some wd ∧
    alLookup old (l.applyAdd path fl false wd).wdT = none ∧
    (∃ w, alLookup wd (l.applyAdd path fl false wd).wdT = some w ∧ w.path = path) := by
  obtain ⟨hi, _⟩ := reachable_inv h
  have hinv := hi.applyAdd path fl false wd hwd
  obtain ⟨w0, hw0, hw0p, hw0w⟩ := hi.fwd path old hp
  have hne : wd ≠ old := by intro hh; subst hh; rw [hfresh] at hw0; cases hw0
  have hne' : (wd != old) = true := by simpa using hne
  have e1 : alLookup path (l.applyAdd path fl false wd).pathT = some wd := by
    unfold Lib.applyAdd
    simp only [hp, hfresh, Option.getD_some, Option.bind_some, hw0, hne', if_true, hw0p, bne_self_eq_false,
      Bool.and_false, Bool.false_eq_true, if_false]
    exact alLookup_insert_same _ _ _
  refine ⟨e1, ?_, ?_⟩
  · unfold Lib.applyAdd
    simp only [hp, hfresh, Option.getD_some, Option.bind_some, hw0, hne', if_true]
    exact alLookup_erase_same _ _
  · obtain ⟨w, a, b, _⟩ := hinv.fwd path wd e1
    exact ⟨w, a, b⟩

/-- … and when the new file **is already listed under another path**, the stale entry is dropped
and the other entry wins (the defect F2(a), repaired: before the fix the stale path stayed listed
without an entry and `Remove` on it panicked) -/
theorem add_repoint_to_listed {l : Lib} (h : Reachable l) (path : Path) (fl : BitVec 32) (old wd : Nat) (e : Watch)
    (hp : alLookup path l.pathT = some old) (he : alLookup wd l.wdT = some e) (hne : wd ≠ old) :
    alLookup path (l.applyAdd path fl false wd).pathT = none ∧
    alLookup old (l.applyAdd path fl false wd).wdT = none ∧
    alLookup wd (l.applyAdd path fl false wd).wdT = some e := by
  obtain ⟨hi, _⟩ := reachable_inv h
  obtain ⟨hewd, hepath⟩ := hi.bwd wd e he
  obtain ⟨w0, hw0, hw0p, hw0w⟩ := hi.fwd path old hp
  have hne' : (wd != old) = true := by simpa using hne
  have hhas : alHas path l.pathT = true := by simp [alHas, hp]
  have hep : e.path ≠ path := by
    intro hh; rw [hh, hp] at hepath; injection hepath with hepath; exact hne hepath.symm
  have hep' : (e.path != path) = true := by simpa using hep
  unfold Lib.applyAdd
  simp only [hp, he, Option.getD_some, Option.bind_some, hw0, hewd, hne', hhas, hep', Bool.and_self, if_true]
  refine ⟨alLookup_erase_same _ _, alLookup_erase_same _ _, ?_⟩
  rw [alLookup_erase_other _ _ _ hne, alLookup_insert_same]

end C04
