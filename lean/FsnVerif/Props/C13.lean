import FsnVerif.Props.C06
/-!
# C13 — Close releases every resource the Watcher acquired (protocol model)

Resources in the model: the inotify file (`fdOpen`; closing it frees every kernel watch of the
instance — kernel contract K6), the reader goroutine (`r ≠ exited`), the three channels it closes.
Partial: that the OS really releases the descriptor and the runtime really ends the goroutine is
measured by the correspondence stage (descriptor and goroutine counts around thousands of
create/use/close cycles), not proved.
-/
namespace C13
open Proto

theorem step_fd_closed (s s' : S) (l : Label) (hf : s.fdOpen = false) (hs : step true s l = some s') : s'.fdOpen = false := by
  cases l <;> simp only [step] at hs <;> (repeat' (split at hs))
  all_goals first
    | (cases hs; done)
    | (injection hs with hs; subst hs; simp_all; done)
    | (simp_all; done)

theorem sysrun_fd_closed {s s' : S} (hr : SysRun s s') (hf : s.fdOpen = false) : s'.fdOpen = false := by
  induction hr with
  | refl s => exact hf
  | step s s1 s2 l _ hs _ ih => exact ih (step_fd_closed s s1 l hf hs)

/-- from every reachable state in which the first Close has marked the watcher closed and closed
the file, system steps alone lead to: goroutine exited, descriptor closed, all channels closed -/
theorem close_releases (s : S) (h : Reach s) (hd : s.doneClosed = true) (hf : s.fdOpen = false) :
    ∃ s', SysRun s s' ∧ s'.r = .exited ∧ s'.fdOpen = false ∧ s'.evClosed = true ∧ s'.erClosed = true := by
  obtain ⟨s', hr, he, hev, her, _⟩ := C06.chans_closed_eventually s h hd hf
  exact ⟨s', hr, he, sysrun_fd_closed hr hf, hev, her⟩

/-- and the Close call that does the work returns only after the reader has started its exit
(`<-doneResp`): when a call sits at `cWait` and returns, `doneResp` is closed -/
theorem close_waits_for_reader (s s' : S) (hc : s.c = .cWait) (hs : step true s .mCWait = some s') :
    s.respClosed = true := by
  simp only [step, hc] at hs
  split at hs
  · rename_i h; exact h.2
  · cases hs

/-- that released state is stable: no step re-opens the file or revives the reader -/
theorem released_stable (s s' : S) (l : Label) (hr : s.r = .exited) (hf : s.fdOpen = false)
    (hs : step true s l = some s') : s'.r = .exited ∧ s'.fdOpen = false := by
  cases l <;> simp only [step, hr, hf] at hs <;> (repeat' (split at hs))
  all_goals first
    | (cases hs; done)
    | (injection hs with hs; subst hs; simp_all; done)
    | (simp_all; done)

/-- **a failed NewWatcher leaks nothing**: in `newBackend` the error return comes directly after
`inotify_init1` and before every allocation (`newShared`, `os.NewFile`, tables, `doneResp`) and
before the `go` statement (regenerated skeleton) -/
theorem failed_new_allocates_nothing :
    (SkeletonTie.lookupFn "newBackend" Gen.skeleton).map (fun ops => ops.map (fun o => (o.kind, o.a))) =
      some [("sys", "InotifyInit1"), ("ifBegin", "%1==-1"), ("ret", "nil, %1"), ("ifEnd", ""),
        ("call", "newShared"), ("fileOp", "NewFile"), ("call", "newWatches"), ("makeChan", "struct{}"),
        ("go", "readEvents"), ("ret", "%1, nil")] := by
  decide +kernel

end C13
