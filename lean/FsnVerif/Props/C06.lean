import FsnVerif.Proofs.ProtoLemmas
import FsnVerif.Proofs.SkeletonTie
/-!
# C06 — Close protocol: channels close, nothing is sent afterwards, API goes inert (protocol model)
-/
namespace C06
open Proto

/-- **no send on a closed channel** (no panic): whenever the reader is at a send, that channel is open -/
theorem no_send_on_closed_chan (s : S) (h : Reach s) :
    (s.r = .evSend → s.evClosed = false) ∧ (s.r = .errSend ∨ s.r = .errSendLocked → s.erClosed = false) := by
  have hp := reach_invP h
  constructor
  · intro hr; have := hp.ev; rw [hr] at this; simpa using this
  · intro hr; have := hp.er
    rcases hr with hr | hr <;> rw [hr] at this <;> simpa using this

/-- the only goroutine that sends on or closes Events / Errors is the reader; `done` is closed only
under `mu` in `shared.close` (regenerated facts) -/
theorem single_sender_single_closer :
    Gen.closers = [("inotify.readEvents", "doneResp"), ("inotify.readEvents", "Errors"),
      ("inotify.readEvents", "Events"), ("shared.close", "done")] ∧
    Gen.senders = [("shared.sendError", "Errors"), ("shared.sendEvent", "Events")] ∧
    Gen.goStmts = [("newBackend", "readEvents")] := by
  refine ⟨?_, ?_, ?_⟩
  · rw [SkeletonTie.closers_ok]; decide +kernel
  · rw [SkeletonTie.senders_ok]; decide +kernel
  · rw [SkeletonTie.goStmts_ok]; decide +kernel

theorem sysrun_inv {s s' : S} (hr : SysRun s s') (hi : Proto.Inv true s = true) : Proto.Inv true s' = true := by
  induction hr with
  | refl s => exact hi
  | step s s1 s2 l _ hs _ ih => exact ih (inv_step s s1 l hi hs)

/-- **channels close promptly**: once the watcher is marked closed and its file is closed (what
the first Close does), system steps alone bring the reader to its exit, with doneResp, Errors and
Events closed — whatever the consumer does or does not do -/
theorem chans_closed_eventually (s : S) (h : Reach s) (hd : s.doneClosed = true) (hf : s.fdOpen = false) :
    ∃ s', SysRun s s' ∧ s'.r = .exited ∧ s'.evClosed = true ∧ s'.erClosed = true ∧ s'.respClosed = true := by
  obtain ⟨s', hr, he⟩ := reachExit_sound 16 s (exit_of_inv s (reach_inv h) hd hf)
  have hi := sysrun_inv hr (reach_inv h)
  have hp := (inv_iff true s').mp hi
  have h4 := hp.resp; have h5 := hp.er; have h6 := hp.ev
  rw [he] at h4 h5 h6
  exact ⟨s', hr, he, by simpa using h6, by simpa using h5, by simpa using h4⟩

/-- after its exit the reader takes no further step: nothing is ever sent after the close -/
theorem nothing_after_exit (s s' : S) (l : Label) (hr : s.r = .exited) (hs : step true s l = some s') :
    s'.r = .exited ∧ s'.evClosed = s.evClosed ∧ s'.erClosed = s.erClosed := by
  cases l <;> simp only [step, hr] at hs <;> (repeat' (split at hs))
  all_goals first
    | (cases hs; done)
    | (injection hs with hs; subst hs; simp_all; done)
    | (simp_all; done)

/-- API calls that start after the watcher was marked closed return at once from the `isClosed`
test (`Add` = ErrClosed, `Remove` = nil, `WatchList` = nil: the return expressions are pinned by
the regenerated skeleton) without touching the mutex or the tables -/
theorem post_close_api (s : S) (hc : s.c = .chk) (hd : s.doneClosed = true) :
    ∃ s', step true s .mChk = some s' ∧ s'.c = .returned ∧ s'.mu = s.mu := by
  simp [step, hc, hd]

theorem post_close_return_values :
    (SkeletonTie.expectedOf "inotify.AddWith").map (·.take 4) =
      some [⟨"call", "isClosed", [], []⟩, ⟨"ifBegin", "%1.isClosed()", [], []⟩, ⟨"ret", "ErrClosed", [], []⟩, ⟨"ifEnd", "", [], []⟩] ∧
    (SkeletonTie.expectedOf "inotify.Remove").map (·.take 4) =
      some [⟨"call", "isClosed", [], []⟩, ⟨"ifBegin", "%1.isClosed()", [], []⟩, ⟨"ret", "nil", [], []⟩, ⟨"ifEnd", "", [], []⟩] ∧
    (SkeletonTie.expectedOf "inotify.WatchList").map (·.take 4) =
      some [⟨"call", "isClosed", [], []⟩, ⟨"ifBegin", "%1.isClosed()", [], []⟩, ⟨"ret", "nil", [], []⟩, ⟨"ifEnd", "", [], []⟩] := by
  decide +kernel

end C06
