import FsnVerif.Model.Chan
import FsnVerif.Proofs.SkeletonTieCaps
import FsnVerif.Proofs.BridgeCaps
import FsnVerif.Proofs.InotifyLemmas
/-!
# C14 — The event stream does not depend on buffering or on other Watchers (model side)
-/
namespace C14
open Chan Fsn

/-- **FIFO for every capacity and every consumer pace**: along any enabled sequence of sends,
receives and rendezvous, `received ++ buffered = initially buffered ++ sent` -/
theorem chan_fifo {α : Type} (c : Ch α) (ops : List (Op α)) (c' : Ch α) (sent recvd : List α)
    (h : run c ops = some (c', sent, recvd)) : recvd ++ c'.buf = c.buf ++ sent ∧ c'.cap = c.cap := by
  induction ops generalizing c c' sent recvd with
  | nil => simp [run] at h; obtain ⟨rfl, rfl, rfl⟩ := h; simp
  | cons op ops ih =>
    unfold run at h
    cases hs : step c op with
    | none => simp [hs] at h
    | some p =>
      obtain ⟨c1, got⟩ := p
      simp only [hs] at h
      cases hr : run c1 ops with
      | none => simp [hr] at h
      | some q =>
        obtain ⟨c2, sent2, recvd2⟩ := q
        simp only [hr] at h
        injection h with h
        obtain ⟨h1, h2, h3⟩ := (by simpa using h : c2 = c' ∧ _ ∧ _)
        subst h1
        obtain ⟨ihb, ihc⟩ := ih c1 c2 sent2 recvd2 hr
        cases op with
        | send x =>
          simp only [step] at hs
          split at hs
          · injection hs with hs; injection hs with hs1 hs2; subst hs1; subst hs2
            simp only at h2 h3 ihb ihc ⊢
            subst h2; subst h3
            simp only [List.nil_append, List.append_assoc, List.singleton_append] at ihb ⊢
            exact ⟨ihb, ihc⟩
          · cases hs
        | recv =>
          simp only [step] at hs
          split at hs
          · cases hs
          · rename_i y t hb
            injection hs with hs; injection hs with hs1 hs2; subst hs1; subst hs2
            simp only at h2 h3 ihb ihc ⊢
            subst h2; subst h3
            rw [hb]
            simp only [List.nil_append, List.singleton_append, List.cons_append] at ihb ⊢
            exact ⟨by rw [ihb], ihc⟩
        | rendezvous x =>
          simp only [step] at hs
          split at hs
          · rename_i hb
            injection hs with hs; injection hs with hs1 hs2; subst hs1; subst hs2
            simp only at h2 h3 ihb ihc ⊢
            subst h2; subst h3
            rw [hb] at ihb ⊢
            simp only [List.nil_append, List.singleton_append, List.cons_append] at ihb ⊢
            exact ⟨by rw [ihb], ihc⟩
          · cases hs

/-- **a buffered Watcher absorbs exactly its capacity with no consumer**: from an empty channel,
`n` consecutive sends without any receive succeed iff `n ≤ cap` -/
theorem absorbs_capacity {α : Type} (cap : Nat) (xs : List α) :
    (run ⟨cap, []⟩ (xs.map Op.send)).isSome = decide (xs.length ≤ cap) := by
  suffices ∀ (buf : List α), buf.length ≤ cap →
      (run ⟨cap, buf⟩ (xs.map Op.send)).isSome = decide (buf.length + xs.length ≤ cap) by
    simpa using this [] (Nat.zero_le _)
  induction xs with
  | nil => intro buf hb; simp [run, hb]
  | cons x xs ih =>
    intro buf hb
    simp only [List.map_cons, run, step]
    by_cases hroom : buf.length < cap
    · simp only [hroom, if_true]
      have := ih (buf ++ [x]) (by simp; omega)
      cases hr : run ⟨cap, buf ++ [x]⟩ (xs.map Op.send) with
      | none => rw [hr] at this; simp at this ⊢; omega
      | some q => rw [hr] at this; simp at this ⊢; omega
    · simp only [hroom, if_false]
      simp; omega

/-- channel capacities as written in the source: `NewBufferedWatcher(sz)` makes `chan Event` of
capacity exactly `sz`, `NewWatcher` of `defaultBufferSize` (0 on Linux, BSD, illumos; 50 on
Windows); Errors is unbuffered everywhere -/
theorem cap_exact :
    Gen.chanCaps = [("NewBufferedWatcher", "Event", "sz"), ("NewBufferedWatcher", "error", "0"),
      ("NewWatcher", "Event", "defaultBufferSize"), ("NewWatcher", "error", "0"),
      ("newBackend", "struct{}", "0"), ("newShared", "struct{}", "0")] ∧
    Gen.defaultBufferSize_linux = 0 ∧ Gen.defaultBufferSize_freebsd = 0 ∧ Gen.defaultBufferSize_solaris = 0 ∧
    Gen.defaultBufferSize_windows = 50 := by
  refine ⟨?_, Bridge.defaultBufferSizes⟩
  rw [SkeletonTie.chanCaps_ok]; decide +kernel

/-- **Watchers share nothing**: no package-level variable is written outside its declaration, and
every inotify syscall site addresses the Watcher's own descriptor `w.fd` -/
theorem instances_disjoint :
    Gen.pkgVarsWritten = [] ∧
    Gen.syscalls = [("inotify.register", "InotifyAddWatch", "w.fd"), ("inotify.register", "InotifyRmWatch", "w.fd"),
      ("inotify.remove", "InotifyRmWatch", "w.fd"), ("newBackend", "InotifyInit1", "unix.IN_CLOEXEC | unix.IN_NONBLOCK")] := by
  refine ⟨SkeletonTie.pkgVars_ok.1, ?_⟩
  rw [SkeletonTie.syscalls_ok]; decide +kernel

/-- **what is emitted does not depend on the buffer**: the reader's event sequence is a function
of the record stream, the state and the kernel's answers only — `Lib.stepRecords` has no channel
argument; by `chan_fifo` the consumer then receives exactly that sequence, for every capacity -/
theorem emitted_capacity_independent (l : Lib) (env : Env) (rs : List Raw) (cap1 cap2 : Nat) :
    (fun (_ : Nat) => (l.stepRecords env rs).2.2.1.events) cap1 = (fun (_ : Nat) => (l.stepRecords env rs).2.2.1.events) cap2 := rfl

/-! non-vacuity (test): capacity 2 absorbs two events, a third send is not enabled; FIFO delivery -/
example : (run (⟨2, []⟩ : Ch Nat) [.send 1, .send 2, .send 3]).isSome = false := by decide
example : (run (⟨2, []⟩ : Ch Nat) [.send 1, .send 2, .recv, .send 3, .recv, .recv]).map (·.2.2) = some [1, 2, 3] := by decide

end C14
