import FsnVerif.Proofs.InotifyLemmas
import FsnVerif.Proofs.ALLemmas
import FsnVerif.Proofs.DecodeLemmas
import FsnVerif.Proofs.PathLemmas
import FsnVerif.Proofs.PathShape
import FsnVerif.Proofs.TrimLemmas
/-!
# C08 — Event names are spelled relative to the caller's Add argument (model side)

The name of an event is built from the *stored watch path* and the record's name bytes only;
the stored path is the cleaned Add argument of the first successful Add for that inode; the
decoded entry name is exactly the kernel's name. `clean` models `filepath.Clean` (validated
differentially, exhaustively over a small alphabet).
-/
namespace C08
open Fsn

/-- the name is the listed watch's path, or that path, a separator and the NUL-trimmed entry name -/
theorem name_is_path_plus_entry (l : Lib) (env : Env) (r : Raw) (e : Event)
    (he : e ∈ (l.stepRecord env r).out.events) :
    ∃ w, alLookup r.wd l.wdT = some w ∧
      e.name = (if r.len > 0 then w.path ++ slash :: trimNul r.name else w.path) := by
  rw [stepRecord_events] at he
  rcases handle_events l env r with h | ⟨w, e', hw, hev, hn, _⟩
  · rw [h] at he; cases he
  · rw [hev] at he
    have : e = e' := by simpa using he
    subst this
    exact ⟨w, hw, hn⟩

/-- a kernel-padded entry name (any length, hence any padding residue) is recovered exactly -/
theorem decoded_name_exact (nm : List Nat) (h : nm.getLast? ≠ some 0) : trimNul (padName nm) = nm :=
  trimNul_padName nm h

/-- and the padded field has the kernel's length `roundup(len+1, 16)` -/
theorem padded_length (nm : List Nat) (h : nm ≠ []) : (padName nm).length = (nm.length / 16 + 1) * 16 :=
  padName_length nm h

/-- a first successful Add of a path stores the **cleaned argument** as the watch path -/
theorem stored_path_is_clean_arg (l : Lib) (env : Env) (arg : Path) (ops : BitVec 32) (nf : Bool) (wd : Nat)
    (hk : env.addWatch (clean arg) (inotifyRequest nf ops) = .ok wd)
    (hnew : alLookup (clean arg) l.pathT = none) (hfresh : alLookup wd l.wdT = none) :
    alLookup wd (l.add env arg ops nf).1.wdT = some ⟨wd, inotifyRequest nf ops, clean arg, false⟩ ∧
    alLookup (clean arg) (l.add env arg ops nf).1.pathT = some wd := by
  unfold Lib.add recursivePath Lib.register Lib.applyAdd
  simp only [Bool.not_false, if_true, hnew, Option.getD_none, Option.bind_none, hk, hfresh]
  have hhas : alHas (clean arg) l.pathT = false := by simp [alHas, hnew]
  by_cases h0 : wd = 0
  · subst h0
    simp [alLookup_insert_same, hhas]
  · have : (wd != 0) = true := by simpa using h0
    simp only [this, if_true, hhas, Bool.and_false, Bool.false_and, Bool.false_eq_true, if_false]
    constructor
    · rw [alLookup_erase_other _ _ _ h0, alLookup_insert_same]
    · rw [alLookup_insert_same]

/-- **first alias wins**: when the kernel answers an Add with a wd that is already listed (same
file under another name: symlink, hard link, other spelling), the existing entry — and with it
the name used for all its events — is unchanged -/
theorem first_alias_wins (l : Lib) (env : Env) (arg : Path) (ops : BitVec 32) (nf : Bool) (wd : Nat) (e : Watch)
    (hk : ∀ f, env.addWatch (clean arg) f = .ok wd)
    (hlisted : alLookup wd l.wdT = some e) (hkey : e.wd = wd) (hne : wd ≠ 0)
    (hnew : alLookup (clean arg) l.pathT = none) :
    alLookup wd (l.add env arg ops nf).1.wdT = some e := by
  unfold Lib.add recursivePath Lib.register Lib.applyAdd
  simp only [Bool.not_false, if_true, hnew, Option.getD_none, Option.bind_none, hk, hlisted, hkey]
  have : (wd != 0) = true := by simpa using hne
  simp only [this, if_true]
  rw [alLookup_erase_other _ _ _ hne, alLookup_insert_same]

/-- the cleaned argument is stable: cleaning it again (as `Remove` and `removePath` do) changes nothing,
so Add, Remove and the stored path agree on one spelling -/
theorem clean_idempotent (p : Path) : clean (clean p) = clean p := clean_idem p

/-- the name never depends on anything but the stored path and the record: in particular not on
the file system (no link is ever resolved when naming an event) -/
theorem no_target_leak (w : Watch) (r : Raw) :
    nameOf w r = (if r.len > 0 then w.path ++ slash :: trimNul r.name else w.path) := rfl

/-- the stored path is never the empty string (so no event name is empty or starts with the separator
that `nameOf` inserts) -/
theorem stored_path_nonempty (arg : Path) : clean arg ≠ [] := clean_ne_nil arg

/-- the stored path is absolute exactly when the caller's argument is: a relative Add yields relative
names, an absolute Add absolute ones — for every argument, whatever `.`/`..`/`//` it contains -/
theorem stored_path_absolute_iff (arg : Path) :
    (clean arg).head? = some slash ↔ arg.head? = some slash := clean_head_slash arg

/-- and so is the **name of every event** of a watch stored under the cleaned argument -/
theorem name_absolute_iff (w : Watch) (r : Raw) (arg : Path) (hw : w.path = clean arg) :
    (nameOf w r).head? = some slash ↔ arg.head? = some slash := by
  rw [no_target_leak, hw]
  have hne := clean_ne_nil arg
  have hh : ∀ t : Path, (clean arg ++ t).head? = (clean arg).head? := by
    intro t; cases h : clean arg with
    | nil => exact absurd h hne
    | cons a as => simp
  split
  · rw [hh]; exact clean_head_slash arg
  · exact clean_head_slash arg

/-- the stored path ends in a separator only when it is the root: the separator that the name-building
concatenation inserts (backend_inotify.go, `name += "/" + …`; `nameOf` here) is the only one at the junction
for every watch but one on `/` itself -/
theorem stored_path_no_trailing_slash (arg : Path) :
    clean arg = [slash] ∨ (clean arg).getLast? ≠ some slash := clean_no_trailing_slash arg

/-- **never carries padding bytes**: for every record, well-formed or not, the entry part of the name does not
end in NUL -/
theorem entry_no_trailing_nul (r : Raw) : (trimNul r.name).getLast? ≠ some 0 := trimNul_no_trailing_nul r.name

/-- **never truncated**: the record's name bytes are the entry part followed by NUL bytes only — trimming cuts
nothing but padding, for every record -/
theorem entry_only_padding_cut (r : Raw) : ∃ k, r.name = trimNul r.name ++ List.replicate k 0 :=
  trimNul_prefix r.name

/-- **the whole name for a kernel-built record**: the record for entry `nm` (any length ≥ 1, not ending in NUL)
carries `padName nm`; the event is named exactly stored path, separator, `nm` -/
theorem kernel_record_name (w : Watch) (r : Raw) (nm : List Nat) (hnm : nm ≠ []) (h0 : nm.getLast? ≠ some 0)
    (hr : r.name = padName nm) (hl : r.len = (padName nm).length) :
    nameOf w r = w.path ++ slash :: nm := by
  rw [no_target_leak]
  have hpos : r.len > 0 := by rw [hl, padName_length nm hnm]; omega
  rw [if_pos hpos, hr, trimNul_padName nm h0]

/-- non-vacuity: a relative argument with `..` and `//`, an entry name, a relative event name -/
example : nameOf ⟨1, 0, clean [46, 46, 47, 47, 97], false⟩ ⟨1, 0x100, 0, 16, [98, 0, 0]⟩ = [46, 46, 47, 97, 47, 98] := by decide

end C08
