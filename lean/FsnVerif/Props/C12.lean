import FsnVerif.Proofs.InvLemmas
/-!
# C12 — Kernel watches and bookkeeping stay in step (model side)

`Reachable`: any state the library can be in after any sequence of Add / Remove calls and record
batches, with **arbitrary kernel answers** at every step (only K0: wd 0 is never issued).
In every such state the two tables are inverse to each other with unique keys
(`tables_inverse`); every entry taken out by `Remove` or replaced by a re-pointing `Add` has its
kernel watch released by an `inotify_rm_watch` in the same call (`remove_releases`,
`repoint_releases_old`); entries taken out by the reader are those whose kernel watch the kernel
itself dropped (IGNORED / DELETE_SELF / UNMOUNT, K2) or was released by the MOVE_SELF clean-up.
The kernel's own mark list is ground truth only at run time: the live stage compares
`/proc/self/fdinfo` with both tables after every quiescent point.
-/
namespace C12
open Fsn

inductive Op
  | add (arg : Path) (ops : BitVec 32) (noFollow : Bool)
  | remove (arg : Path)
  | batch (rs : List Raw)

def apply (l : Lib) (env : Env) : Op → Lib × Out
  | .add arg ops nf => ((l.add env arg ops nf).1, (l.add env arg ops nf).2.2)
  | .remove arg => ((l.remove env (clean arg)).1, (l.remove env (clean arg)).2.2)
  | .batch rs => ((l.stepRecords env rs).1, (l.stepRecords env rs).2.2.1)

/-- every state reachable through the public API, for every kernel behaviour -/
inductive Reachable : Lib → Prop
  | init : Reachable {}
  | step (l : Lib) (env : Env) (op : Op) : Reachable l → env.K0 → Reachable (apply l env op).1

theorem reachable_inv {l : Lib} (h : Reachable l) : l.Inv ∧ l.NoRec := by
  induction h with
  | init => exact ⟨Lib.inv_empty, Lib.norec_empty⟩
  | step l env op _ hk ih =>
    obtain ⟨hi, hn⟩ := ih
    cases op with
    | add arg ops nf => exact hi.add hn env hk arg ops nf
    | remove arg => exact ⟨(hi.remove hn env _).1, (hi.remove hn env _).2.1⟩
    | batch rs => exact ⟨(hi.stepRecords hn env rs).1, (hi.stepRecords hn env rs).2.1⟩

/-- **tables inverse**: `path[p] = wd` iff the wd table has an entry for `wd` whose path is `p` -/
theorem tables_inverse {l : Lib} (h : Reachable l) (p : Path) (wd : Nat) :
    alLookup p l.pathT = some wd ↔ ∃ w, alLookup wd l.wdT = some w ∧ w.path = p := by
  obtain ⟨hi, _⟩ := reachable_inv h
  constructor
  · intro hp; obtain ⟨w, a, b, _⟩ := hi.fwd p wd hp; exact ⟨w, a, b⟩
  · rintro ⟨w, a, b⟩; rw [← b]; exact (hi.bwd wd w a).2

/-- exactly one entry per watch: no key occurs twice in either table, entries carry their own key -/
theorem one_entry_per_watch {l : Lib} (h : Reachable l) :
    (l.wdT.map (·.1)).Nodup ∧ (l.pathT.map (·.1)).Nodup ∧ ∀ wd w, alLookup wd l.wdT = some w → w.wd = wd := by
  obtain ⟨hi, _⟩ := reachable_inv h
  exact ⟨hi.wd_nodup, hi.path_nodup, fun wd w hw => (hi.bwd wd w hw).1⟩

/-- no operation, on any stream, makes the library dereference a missing entry -/
theorem never_panics {l : Lib} (h : Reachable l) (env : Env) (op : Op) : (apply l env op).2.panic = false := by
  obtain ⟨hi, hn⟩ := reachable_inv h
  cases op with
  | add arg ops nf =>
    simp only [apply, Lib.add, Lib.register]
    split <;> rfl
  | remove arg => exact (hi.remove hn env _).2.2
  | batch rs => exact (hi.stepRecords hn env rs).2.2

/-- `Remove` of a listed path releases exactly that path's kernel watch, in the same call -/
theorem remove_releases {l : Lib} (h : Reachable l) (env : Env) (arg : Path) (wd : Nat)
    (hp : alLookup (clean arg) l.pathT = some wd) :
    (l.remove env arg).2.2.sys = [Sys.rmWatch wd] ∧ alLookup wd (l.remove env arg).1.wdT = none ∧
    alLookup (clean arg) (l.remove env arg).1.pathT = none := by
  obtain ⟨hi, hn⟩ := reachable_inv h
  rcases Lib.removePath_spec hi hn arg with ⟨hnone, _⟩ | ⟨wd', w, hp', hw, hww, hwp, he⟩
  · rw [hnone] at hp; cases hp
  · rw [hp] at hp'; injection hp' with hp'; subst hp'
    unfold Lib.remove
    rw [he]
    simp only
    refine ⟨?_, ?_, ?_⟩
    · unfold rmAll
      cases env.rm wd with
      | mk env' ok => cases ok <;> rfl
    · simp only [Lib.dropWatch, hww]; exact alLookup_erase_same _ _
    · simp only [Lib.dropWatch, hwp]; exact alLookup_erase_same _ _

/-- a re-pointing `Add` (listed path, kernel answers another wd) releases the old kernel watch -/
theorem repoint_releases_old (l : Lib) (env : Env) (path : Path) (fl : BitVec 32) (old wd : Nat) (w0 : Watch)
    (hp : alLookup path l.pathT = some old) (hw : alLookup old l.wdT = some w0) (hw0 : w0.wd = old)
    (hk : ∀ f, env.addWatch path f = .ok wd) (hne : old ≠ wd) :
    Sys.rmWatch old ∈ (l.register env path fl false).2.2.sys := by
  unfold Lib.register
  simp only [hp, hw, Option.bind_some, hk, hw0]
  have : (old != wd) = true := by simpa using hne
  simp [this]

/-! ### non-vacuity: the two histories of finding F2 (repaired) as reachable states -/
def kern (answers : List (Path × Nat)) : Env :=
  { addWatch := fun p _ => match alLookup p answers with | some wd => .ok wd | none => .error "ENOENT", marks := [] }

/-- F2(a): `l0` (→ inode 2) and `d1` (inode 3) listed; `l0` re-pointed to `d1`'s inode; re-Add; Remove -/
example :
    let s1 := (({} : Lib).add (kern [([108, 48], 2)]) [108, 48] 0x1f#32 false).1
    let s2 := (s1.add (kern [([100, 49], 3)]) [100, 49] 0x1f#32 false).1
    let s3 := (s2.add (kern [([108, 48], 3)]) [108, 48] 0x1f#32 false)
    s3.1.watchList = [[100, 49]] ∧ s3.2.2.sys.contains (Sys.rmWatch 2) = true ∧
    (s3.1.remove (kern []) [108, 48]).2.2.ret = some Err.nonExistentWatch ∧
    (s3.1.remove (kern []) [108, 48]).2.2.panic = false := by decide

end C12
