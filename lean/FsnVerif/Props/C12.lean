import FsnVerif.Proofs.InvLemmas
import FsnVerif.Proofs.KernelInv
/-!
# C12 — Kernel watches and bookkeeping stay in step (model side)

`Reachable`: any state the library can be in after any sequence of Add / Remove calls and record
batches, with **arbitrary kernel answers** at every step (only K0: wd 0 is never issued).
In every such state the two tables are inverse to each other with unique keys
(`tables_inverse`); every entry taken out by `Remove` or replaced by a re-pointing `Add` has its
kernel watch released by an `inotify_rm_watch` in the same call (`remove_releases`,
`repoint_releases_old`); entries taken out by the reader are those whose kernel watch the kernel
itself dropped (IGNORED / DELETE_SELF / UNMOUNT, K2) or was released by the MOVE_SELF clean-up.
The kernel's own mark list is ground truth only at run time: the live stage compares
`/proc/self/fdinfo` with both tables after every quiescent point.
-/
namespace C12
open Fsn

inductive Op
  | add (arg : Path) (ops : BitVec 32) (noFollow : Bool)
  | remove (arg : Path)
  | batch (rs : List Raw)

def apply (l : Lib) (env : Env) : Op → Lib × Out
  | .add arg ops nf => ((l.add env arg ops nf).1, (l.add env arg ops nf).2.2)
  | .remove arg => ((l.remove env (clean arg)).1, (l.remove env (clean arg)).2.2)
  | .batch rs => ((l.stepRecords env rs).1, (l.stepRecords env rs).2.2.1)

/-- every state reachable through the public API, for every kernel behaviour -/
inductive Reachable : Lib → Prop
  | init : Reachable {}
  | step (l : Lib) (env : Env) (op : Op) : Reachable l → env.K0 → Reachable (apply l env op).1

theorem reachable_inv {l : Lib} (h : Reachable l) : l.Inv ∧ l.NoRec := by
  induction h with
  | init => exact ⟨Lib.inv_empty, Lib.norec_empty⟩
  | step l env op _ hk ih =>
    obtain ⟨hi, hn⟩ := ih
    cases op with
    | add arg ops nf => exact hi.add hn env hk arg ops nf
    | remove arg => exact ⟨(hi.remove hn env _).1, (hi.remove hn env _).2.1⟩
    | batch rs => exact ⟨(hi.stepRecords hn env rs).1, (hi.stepRecords hn env rs).2.1⟩

/-- **tables inverse**: `path[p] = wd` iff the wd table has an entry for `wd` whose path is `p` -/
theorem tables_inverse {l : Lib} (h : Reachable l) (p : Path) (wd : Nat) :
    alLookup p l.pathT = some wd ↔ ∃ w, alLookup wd l.wdT = some w ∧ w.path = p := by
  obtain ⟨hi, _⟩ := reachable_inv h
  constructor
  · intro hp; obtain ⟨w, a, b, _⟩ := hi.fwd p wd hp; exact ⟨w, a, b⟩
  · rintro ⟨w, a, b⟩; rw [← b]; exact (hi.bwd wd w a).2

/-- exactly one entry per watch: no key occurs twice in either table, entries carry their own key -/
theorem one_entry_per_watch {l : Lib} (h : Reachable l) :
    (l.wdT.map (·.1)).Nodup ∧ (l.pathT.map (·.1)).Nodup ∧ ∀ wd w, alLookup wd l.wdT = some w → w.wd = wd := by
  obtain ⟨hi, _⟩ := reachable_inv h
  exact ⟨hi.wd_nodup, hi.path_nodup, fun wd w hw => (hi.bwd wd w hw).1⟩

/-- no operation, on any stream, makes the library dereference a missing entry -/
theorem never_panics {l : Lib} (h : Reachable l) (env : Env) (op : Op) : (apply l env op).2.panic = false := by
  obtain ⟨hi, hn⟩ := reachable_inv h
  cases op with
  | add arg ops nf =>
    simp only [apply, Lib.add, Lib.register]
    split <;> rfl
  | remove arg => exact (hi.remove hn env _).2.2
  | batch rs => exact (hi.stepRecords hn env rs).2.2

/-- `Remove` of a listed path releases exactly that path's kernel watch, in the same call -/
theorem remove_releases {l : Lib} (h : Reachable l) (env : Env) (arg : Path) (wd : Nat)
    (hp : alLookup (clean arg) l.pathT = some wd) :
    (l.remove env arg).2.2.sys = [Sys.rmWatch wd] ∧ alLookup wd (l.remove env arg).1.wdT = none ∧
    alLookup (clean arg) (l.remove env arg).1.pathT = none := by
  obtain ⟨hi, hn⟩ := reachable_inv h
  rcases Lib.removePath_spec hi hn arg with ⟨hnone, _⟩ | ⟨wd', w, hp', hw, hww, hwp, he⟩
  · rw [hnone] at hp; cases hp
  · rw [hp] at hp'; injection hp' with hp'; subst hp'
    unfold Lib.remove
    rw [he]
    simp only
    refine ⟨?_, ?_, ?_⟩
    · unfold rmAll
      cases env.rm wd with
      | mk env' ok => cases ok <;> rfl
    · simp only [Lib.dropWatch, hww]; exact alLookup_erase_same _ _
    · simp only [Lib.dropWatch, hwp]; exact alLookup_erase_same _ _

/-- a re-pointing `Add` (listed path, kernel answers another wd) releases the old kernel watch -/
theorem repoint_releases_old (l : Lib) (env : Env) (path : Path) (fl : BitVec 32) (old wd : Nat) (w0 : Watch)
    (hp : alLookup path l.pathT = some old) (hw : alLookup old l.wdT = some w0) (hw0 : w0.wd = old)
    (hk : ∀ f, env.addWatch path f = .ok wd) (hne : old ≠ wd) :
    Sys.rmWatch old ∈ (l.register env path fl false).2.2.sys := by
  unfold Lib.register
  simp only [hp, hw, Option.bind_some, hk, hw0]
  have : (old != wd) = true := by simpa using hne
  simp [this]

/-! ### non-vacuity: the two histories of finding F2 (repaired) as reachable states -/
def kern (answers : List (Path × Nat)) : Env :=
  { addWatch := fun p _ => match alLookup p answers with | some wd => .ok wd | none => .error "ENOENT", marks := [] }

/-- F2(a): `l0` (→ inode 2) and `d1` (inode 3) listed; `l0` re-pointed to `d1`'s inode; re-Add; Remove -/
example :
    let s1 := (({} : Lib).add (kern [([108, 48], 2)]) [108, 48] 0x1f#32 false).1
    let s2 := (s1.add (kern [([100, 49], 3)]) [100, 49] 0x1f#32 false).1
    let s3 := (s2.add (kern [([108, 48], 3)]) [108, 48] 0x1f#32 false)
    s3.1.watchList = [[100, 49]] ∧ s3.2.2.sys.contains (Sys.rmWatch 2) = true ∧
    (s3.1.remove (kern []) [108, 48]).2.2.ret = some Err.nonExistentWatch ∧
    (s3.1.remove (kern []) [108, 48]).2.2.panic = false := by decide

/-!
## Library and kernel together (`Model/Kernel`)

The kernel side of one inotify instance — its marks, its notification queue, the order in which it
hands out descriptors — is modelled next to the library, and the statement of C12 becomes a theorem
about every joint state reachable by `Add` / `Remove` calls (with the kernel answering an error,
the inode's existing descriptor or a fresh one), kernel notifications about live marks, marks dying
with their inode or file system, and the reader working through the queue in order. Queue overflow
is outside this model (it discards `IN_IGNORED` records; see C01/C10).
-/
namespace Joint
open Kern

/-- **no orphaned kernel watch, ever**: at every moment every mark of the instance is known to the
library (the kernel watch of a removed or re-pointed path is released in the same call) -/
theorem no_orphan_mark {j : J} (h : Reach j) (wd : Nat) (hm : wd ∈ j.marks) : alHas wd j.lib.wdT = true :=
  (reach_agree h).mark_known wd hm

/-- every descriptor the library knows has a live mark, or the record that ends it is already queued -/
theorem entry_backed {j : J} (h : Reach j) (wd : Nat) (hk : alHas wd j.lib.wdT = true) :
    wd ∈ j.marks ∨ ∃ r, r ∈ j.queue ∧ r.wd = wd ∧ gone r.mask = true :=
  (reach_agree h).known_backed wd hk

/-- **quiescent agreement**: once the queue has been read to the end, the kernel's marks are exactly
the descriptors in the library's table -/
theorem quiescent_agree {j : J} (h : Reach j) (hq : j.queue = []) (wd : Nat) :
    wd ∈ j.marks ↔ alHas wd j.lib.wdT = true := by
  constructor
  · exact no_orphan_mark h wd
  · intro hk
    rcases entry_backed h wd hk with h1 | ⟨r, hr, _, _⟩
    · exact h1
    · rw [hq] at hr; cases hr

/-- … and hence exactly the watches behind `WatchList`: every listed path has a live mark, every
live mark belongs to exactly one listed path -/
theorem quiescent_watchlist {j : J} (h : Reach j) (hq : j.queue = []) :
    (∀ p, p ∈ j.lib.watchList → ∃ wd, alLookup p j.lib.pathT = some wd ∧ wd ∈ j.marks) ∧
    (∀ wd, wd ∈ j.marks → ∃ p, p ∈ j.lib.watchList ∧ alLookup p j.lib.pathT = some wd ∧
      ∀ q, alLookup q j.lib.pathT = some wd → q = p) := by
  have a := reach_agree h
  constructor
  · intro p hp
    unfold Lib.watchList at hp
    have : ∃ wd, alLookup p j.lib.pathT = some wd := by
      cases hl : alLookup p j.lib.pathT with
      | some wd => exact ⟨wd, rfl⟩
      | none => exact absurd hp (not_mem_keys_of_lookup_none hl)
    obtain ⟨wd, hwd⟩ := this
    obtain ⟨w, hw, _, _⟩ := a.inv.fwd p wd hwd
    exact ⟨wd, hwd, (quiescent_agree h hq wd).mpr (by simp [alHas, hw])⟩
  · intro wd hm
    have hk := no_orphan_mark h wd hm
    obtain ⟨w, hw⟩ : ∃ w, alLookup wd j.lib.wdT = some w := by
      unfold alHas at hk
      cases hl : alLookup wd j.lib.wdT with
      | some w => exact ⟨w, rfl⟩
      | none => rw [hl] at hk; cases hk
    obtain ⟨_, hp⟩ := a.inv.bwd wd w hw
    refine ⟨w.path, mem_keys_of_lookup hp, hp, ?_⟩
    intro q hq'
    obtain ⟨w', hw', hwp, _⟩ := a.inv.fwd q wd hq'
    rw [hw] at hw'; injection hw' with hw'; subst hw'; exact hwp.symm

/-- usage is bounded by the live watches: never more marks than table entries -/
theorem marks_bounded {j : J} (h : Reach j) : j.marks.length ≤ j.lib.wdT.length := by
  have a := reach_agree h
  have hsub : ∀ x, x ∈ j.marks → x ∈ j.lib.wdT.map (·.1) := by
    intro x hx
    have := a.mark_known x hx
    unfold alHas at this
    cases hl : alLookup x j.lib.wdT with
    | some w => exact mem_keys_of_lookup hl
    | none => rw [hl] at this; cases this
  have key : ∀ (l m : List Nat), l.Nodup → (∀ x, x ∈ l → x ∈ m) → l.length ≤ m.length := by
    intro l
    induction l with
    | nil => intro m _ _; exact Nat.zero_le _
    | cons a l ih =>
      intro m hnd hs
      have ha : a ∈ m := hs a (by simp)
      obtain ⟨hal, hl⟩ := List.nodup_cons.mp hnd
      have hs' : ∀ x, x ∈ l → x ∈ m.erase a := by
        intro x hx
        have hne : x ≠ a := fun e => hal (e ▸ hx)
        exact (List.mem_erase_of_ne hne).mpr (hs x (List.mem_cons_of_mem _ hx))
      have := ih (m.erase a) hl hs'
      rw [List.length_erase_of_mem ha] at this
      have hpos : 0 < m.length := List.length_pos_of_mem ha
      simp only [List.length_cons]
      omega
  have := key j.marks (j.lib.wdT.map (·.1)) a.nodup hsub
  simpa using this

/-! non-vacuity: `Add(d)` (fresh mark 1), a change in `d`, `d` is deleted, the reader catches up -/
def jAdd : J := step {} (.add [100] 0x1f#32 false .fresh)
def jDone : J := step (step (step (step (step jAdd (.note { wd := 1, mask := IN_CREATE, cookie := 0#32, len := 16, name := [97] })) (.kill 1 false)) .read) .read) .read

example : jAdd.marks = [1] ∧ jAdd.lib.watchList = [[100]] ∧ (1 ∈ jAdd.marks) := by decide
example : jDone.queue = [] ∧ jDone.marks = [] ∧ jDone.lib.watchList = [] ∧ jDone.next = 2 := by decide

end Joint

end C12
