import FsnVerif.Proofs.InotifyLemmas
import FsnVerif.Proofs.RingLemmas
/-!
# C03 — Order (model side)

The events of a batch are the per-record events concatenated in record order (each record yields at
most one); a paired move is reported as Rename(old) immediately followed by Create(new ← old).
Partial: the kernel queue's own order (K2) and Go channel FIFO (language spec; modelled in Proto).
The fact that only the reader goroutine sends on Events is a regenerated skeleton fact (`single_sender`).
-/
namespace C03
open Fsn

/-- events come out in record order: first record's event (if any), then the rest's -/
theorem events_in_record_order (l : Lib) (env : Env) (r : Raw) (rs : List Raw)
    (hp : (l.stepRecord env r).out.panic = false) :
    (l.stepRecords env (r :: rs)).2.2.1.events =
      (l.stepRecord env r).out.events ++
      ((l.stepRecord env r).lib.stepRecords (l.stepRecord env r).env rs).2.2.1.events :=
  stepRecords_cons_events l env r rs hp

/-- the event sequence of a batch split anywhere is the concatenation of the parts' sequences -/
theorem order_preserved_across_batches (l : Lib) (env : Env) (rs1 rs2 : List Raw) (hp : noPanic l env rs1) :
    (l.stepRecords env (rs1 ++ rs2)).2.2.1.events =
      (l.stepRecords env rs1).2.2.1.events ++
      ((l.stepRecords env rs1).1.stepRecords (l.stepRecords env rs1).2.1 rs2).2.2.1.events := by
  have := stepRecords_append l env rs1 rs2 hp
  simp only at this
  rw [this.2.2]; rfl

theorem find_after_store (r : Ring) (h : r.WF) (c : BitVec 32) (p : Path) (hfresh : ∀ s ∈ r.slots, s.1 ≠ c) :
    (r.store c p).find c = p := by
  rw [Ring.find_eq]
  apply findIn_of_unique
  · simp only [Ring.store]
    exact List.mem_iff_getElem.mpr ⟨r.idx, by simp [h.1, h.2], by simp⟩
  · intro s hs hsc
    simp only [Ring.store] at hs
    rcases List.mem_or_eq_of_mem_set hs with h1 | h1
    · exact absurd hsc (hfresh s h1)
    · exact h1

/-- a plain directory-entry record on a listed, non-recursive watch is handled by `newEvent` alone -/
theorem handle_plain (l : Lib) (env : Env) (r : Raw) (w : Watch) (hw : alLookup r.wd l.wdT = some w)
    (hk : ignoredOrUnmount r.mask = false) (hm : test r.mask IN_MOVE_SELF = false)
    (hd : test r.mask IN_DELETE_SELF = false) (hd' : ((r.mask &&& IN_DELETE_SELF) != 0#32) = false)
    (hop : inotifyNewEventOp r.mask ≠ 0#32) (hnd : test r.mask IN_ISDIR = false) :
    (l.handle env r).lib = (l.newEvent (nameOf w r) r.mask r.cookie).1 ∧
    (l.handle env r).out.events = [(l.newEvent (nameOf w r) r.mask r.cookie).2] ∧
    (l.handle env r).out.panic = false ∧ (l.handle env r).env = env := by
  unfold Lib.handle
  rw [hw]
  simp only [hk, hm, Bool.false_eq_true, if_false]
  rw [recurseAfter_nodir _ _ _ _ hnd]
  unfold Lib.afterDeleteSelf Lib.emit
  simp only [hd, hd', Bool.false_eq_true, if_false, Bool.false_and]
  have hne : ¬ ((l.newEvent (nameOf w r) r.mask r.cookie).2.op == 0#32) = true := by
    rw [newEvent_op]; simpa using hop
  rw [if_neg hne]
  exact ⟨rfl, rfl, rfl, rfl⟩

/-- **rename pair**: `MOVED_FROM c a` on one listed watch immediately followed by `MOVED_TO c b`
on a listed watch yields exactly `Rename a`, `Create b ← a`, adjacent and in that order (cookie
non-zero and not already in the ring: K5) -/
theorem rename_pair_adjacent (l : Lib) (env : Env) (w1 w2 : Watch) (wd1 wd2 : Nat) (c : BitVec 32)
    (n1 n2 : List Nat) (len1 len2 : Nat)
    (hw1 : alLookup wd1 l.wdT = some w1) (hw2 : alLookup wd2 l.wdT = some w2)
    (hc : c ≠ 0#32) (hring : l.ring.WF) (hfresh : ∀ s ∈ l.ring.slots, s.1 ≠ c) :
    let r1 : Raw := ⟨wd1, IN_MOVED_FROM, c, len1, n1⟩
    let r2 : Raw := ⟨wd2, IN_MOVED_TO, c, len2, n2⟩
    (l.stepRecords env [r1, r2]).2.2.1.events =
      [{ name := nameOf w1 r1, op := Rename }, { name := nameOf w2 r2, op := Create, renamedFrom := nameOf w1 r1 }] := by
  intro r1 r2
  have kF1 : ignoredOrUnmount IN_MOVED_FROM = false := by decide
  have kF2 : test IN_MOVED_FROM IN_MOVE_SELF = false := by decide
  have kF3 : test IN_MOVED_FROM IN_DELETE_SELF = false := by decide
  have kF4 : ((IN_MOVED_FROM &&& IN_DELETE_SELF) != 0#32) = false := by decide
  have kF5 : inotifyNewEventOp IN_MOVED_FROM ≠ 0#32 := by decide
  have kT1 : ignoredOrUnmount IN_MOVED_TO = false := by decide
  have kT2 : test IN_MOVED_TO IN_MOVE_SELF = false := by decide
  have kT3 : test IN_MOVED_TO IN_DELETE_SELF = false := by decide
  have kT4 : ((IN_MOVED_TO &&& IN_DELETE_SELF) != 0#32) = false := by decide
  have kT5 : inotifyNewEventOp IN_MOVED_TO ≠ 0#32 := by decide
  have kD1 : test IN_MOVED_FROM IN_ISDIR = false := by decide
  have kD2 : test IN_MOVED_TO IN_ISDIR = false := by decide
  have kO1 : ((IN_MOVED_FROM &&& IN_Q_OVERFLOW) != 0#32) = false := by decide
  have kO2 : ((IN_MOVED_TO &&& IN_Q_OVERFLOW) != 0#32) = false := by decide
  have h1 := handle_plain l env r1 w1 hw1 kF1 kF2 kF3 kF4 kF5 kD1
  obtain ⟨h1l, h1e, h1p, h1env⟩ := h1
  have hwd : (l.newEvent (nameOf w1 r1) r1.mask r1.cookie).1.wdT = l.wdT := (newEvent_tables ..).1
  have h2 := handle_plain (l.handle env r1).lib (l.handle env r1).env r2 w2 (by rw [h1l, hwd]; exact hw2)
    kT1 kT2 kT3 kT4 kT5 kD2
  obtain ⟨_, h2e, h2p, _⟩ := h2
  have s1 : l.stepRecord env r1 = l.handle env r1 := by
    unfold Lib.stepRecord
    have : ((r1.mask &&& IN_Q_OVERFLOW) != 0#32) = false := kO1
    simp only [this, Bool.false_eq_true, if_false]
  have s2 : ∀ l' env', Lib.stepRecord l' env' r2 = Lib.handle l' env' r2 := by
    intro l' env'
    unfold Lib.stepRecord
    have : ((r2.mask &&& IN_Q_OVERFLOW) != 0#32) = false := kO2
    simp only [this, Bool.false_eq_true, if_false]
  simp only [Lib.stepRecords, s1, s2, h1p, h2p, Bool.false_eq_true, if_false, Out.append, h1e, h2e,
    List.append_nil, List.singleton_append, List.nil_append]
  -- the two events
  have hcc : (c != 0#32) = true := by simpa using hc
  have tFF : test IN_MOVED_FROM IN_MOVED_FROM = true := by decide
  have tTF : test IN_MOVED_TO IN_MOVED_FROM = false := by decide
  have tTT : test IN_MOVED_TO IN_MOVED_TO = true := by decide
  have oF : inotifyNewEventOp IN_MOVED_FROM = Rename := by decide
  have oT : inotifyNewEventOp IN_MOVED_TO = Create := by decide
  have e1 : (l.newEvent (nameOf w1 r1) IN_MOVED_FROM c).2 = { name := nameOf w1 r1, op := Rename } := by
    unfold Lib.newEvent
    simp only [hcc, tFF, if_true, oF]
  have ring1 : (l.newEvent (nameOf w1 r1) IN_MOVED_FROM c).1.ring = l.ring.store c (nameOf w1 r1) := by
    rw [Fsn.newEvent_ring]
    simp only [hcc, tFF, Bool.and_self, if_true]
  have e2 : ((l.newEvent (nameOf w1 r1) IN_MOVED_FROM c).1.newEvent (nameOf w2 r2) IN_MOVED_TO c).2 =
      { name := nameOf w2 r2, op := Create, renamedFrom := nameOf w1 r1 } := by
    unfold Lib.newEvent
    simp only [hcc, tTF, tTT, Bool.false_eq_true, if_false, if_true, oT]
    have := ring1
    unfold Lib.newEvent at this
    simp only [hcc, tFF, if_true] at this
    simp only [hcc, tFF, if_true]
    rw [find_after_store _ hring _ _ hfresh]
  have h1l' : (l.handle env r1).lib = (l.newEvent (nameOf w1 r1) IN_MOVED_FROM c).1 := h1l
  rw [h1l']
  show [_, _] = [_, _]
  rw [e1, e2]

end C03
