import FsnVerif.Proofs.DiffLemmas
import FsnVerif.Proofs.DiffValid
import FsnVerif.Proofs.DiffSelf
import FsnVerif.Proofs.DiffGroups
/-!
# C20 — Test-support Diff produces a correct edit script, empty exactly on equality

What is proved (all inputs):
* `splitLines` is injective (its lines concatenate to the text plus one newline), so texts differ
  iff their line lists differ;
* **edit-script correctness**: any opcode list that passes the executable check `validOps`
  (contiguous tiling of both texts, equal ranges really equal, tags consistent with emptiness)
  turns the first text into the second (`edit_script_correct`), and if it consists of `equal`
  opcodes only, the texts are equal (`all_equal_means_equal`);
* the context trimming of `GetGroupedOpCodes` never leaves more than `n` unchanged lines at the
  start of the first or the end of the last opcode, nor at either side of a split.
* **`GetOpCodes` always yields a valid edit script** (`opcodes_always_valid`, all inputs): the block
  `findLongestMatch` returns consists of really equal lines inside its window, `matchBlocks` chains
  such blocks in order, collapsing keeps the chain, and the opcodes read off the chain tile both
  texts. Hence applying `GetOpCodes(a, b)` to `a` gives `b` (`diff_script_turns_a_into_b`);
* **an empty diff means equal texts** (`empty_diff_only_if_equal`, `Diff_empty_only_if_equal`): the
  grouped opcodes are empty only if every opcode is `equal`, and a valid all-equal script means
  the texts are equal — a differing pair can never pass silently.
* **equal texts give an empty diff** (`equal_texts_empty_diff`, `Diff_empty_iff_equal`);
* **the hunks are a correct patch** (`hunks_turn_a_into_b`, all inputs, every amount of context): cutting the
  script into hunks loses nothing but the interior of `equal` runs.
What is validated per case rather than proved for all inputs: the TEXT of a hunk (header arithmetic is
`format_range_spec`; the `-have `/`+want ` prefixes and the lines themselves are compared byte for byte with
the implementation on every generated pair, and the text is parsed back and applied by the harness), and
`DiffMatch`'s placeholder expansion / Go's `regexp` (harness only, partial).
-/
namespace C20
open Diff

theorem splitLines_injective (s t : List Char) (h : splitLines s = splitLines t) : s = t :=
  Diff.splitLines_injective s t h

theorem edit_script_correct (a b : List Line) (ops : List OpCode) (h : validOps a b ops = true) :
    applyOps a b ops = b := apply_valid a b ops h

theorem all_equal_means_equal (a b : List Line) (ops : List OpCode) (h : validOps a b ops = true)
    (hall : ops.all (fun c => c.tag == 'e') = true) : a = b := equal_of_valid_all_equal a b ops h hall

/-- **every** pair of texts: the opcodes `GetOpCodes` produces pass the validity check -/
theorem opcodes_always_valid (a b : List Line) : validOps a b (getOpCodes a b) = true := getOpCodes_valid a b

/-- hence the edit script turns the first text into the second, for every pair of texts -/
theorem diff_script_turns_a_into_b (a b : List Line) : applyOps a b (getOpCodes a b) = b :=
  apply_valid a b _ (getOpCodes_valid a b)

/-- an empty unified diff is produced only for equal line lists -/
theorem empty_diff_only_if_equal (a b : List Line) (h : unifiedDiff a b = []) : a = b := unifiedDiff_nil_eq a b h

/-- `Diff(have, want) == ""` only if `have == want` -/
theorem Diff_empty_only_if_equal (s t : List Char) (h : diff s t = []) : s = t := diff_nil_eq s t h

/-- **equal texts give an empty diff**: matched against itself a text is one block (`flm_self`: the DP
walks the diagonal and the longest block is the whole window), hence one `equal` opcode, no group -/
theorem equal_texts_empty_diff (a : List Line) (hne : a ≠ []) : unifiedDiff a a = [] := unifiedDiff_self a hne

/-- **`Diff` returns the empty string exactly when the two (trimmed) texts are equal** -/
theorem Diff_empty_iff_equal (s t : List Char) : diff s t = [] ↔ s = t :=
  ⟨diff_nil_eq s t, fun h => h ▸ diff_self s⟩

/-- **the hunks are a correct patch**: `GetGroupedOpCodes(n)` cuts the edit script into hunks with `n` lines of
context; copying the first text up to each hunk, applying the hunk and copying what follows the last one
(`applyGroups`: what `patch` does) yields the second text — for every pair of texts and every `n`. What
the hunks leave out is exactly the interior of `equal` runs (`Proofs/DiffGroups`: `groups_apply`) -/
theorem hunks_turn_a_into_b (a b : List Line) (n : Nat) :
    applyGroups a b 0 (groupOpCodes n (getOpCodes a b)) = b := by
  by_cases hne : getOpCodes a b = []
  · have hv := getOpCodes_valid a b
    rw [hne] at hv
    simp only [validOps, validFrom, Bool.and_eq_true, beq_iff_eq] at hv
    have ha : a = [] := List.eq_nil_of_length_eq_zero hv.1.symm
    have hb : b = [] := List.eq_nil_of_length_eq_zero hv.2.symm
    subst ha; subst hb
    rw [hne]
    cases n <;> simp [groupOpCodes, trimFirst, trimLast, groupStep, applyGroups]
  · exact grouped_script_correct a b n _ (getOpCodes_valid a b) hne

/-- leading context: after `trimFirst n` a leading `equal` opcode spans at most `n` lines (in both texts) -/
theorem leading_context_le (n : Nat) (c : OpCode) (rest : List OpCode) (h : c.tag = 'e') :
    ∃ c', trimFirst n (c :: rest) = c' :: rest ∧ c'.i2 - c'.i1 ≤ n ∧ c'.j2 - c'.j1 ≤ n ∧ c'.i2 = c.i2 ∧ c'.j2 = c.j2 := by
  refine ⟨OpCode.mk c.tag (max c.i1 (c.i2 - n)) c.i2 (max c.j1 (c.j2 - n)) c.j2, by simp [trimFirst, h], ?_, ?_, rfl, rfl⟩
  · show c.i2 - max c.i1 (c.i2 - n) ≤ n; omega
  · show c.j2 - max c.j1 (c.j2 - n) ≤ n; omega

/-- a long `equal` run is split into a tail of at most `n` lines closing one group and a head of at
most `n` lines opening the next -/
theorem split_context_le (n : Nat) (acc : List (List OpCode) × List OpCode) (c : OpCode)
    (h : (c.tag == 'e' && c.i2 - c.i1 > n + n) = true) :
    ∃ tail head, groupStep n acc c = (acc.1 ++ [acc.2 ++ [tail]], [head]) ∧
      tail.i2 - tail.i1 ≤ n ∧ head.i2 - head.i1 ≤ n ∧ tail.i1 = c.i1 ∧ head.i2 = c.i2 := by
  refine ⟨OpCode.mk c.tag c.i1 (min c.i2 (c.i1 + n)) c.j1 (min c.j2 (c.j1 + n)),
    OpCode.mk c.tag (max c.i1 (c.i2 - n)) c.i2 (max c.j1 (c.j2 - n)) c.j2, by simp [groupStep, h], ?_, ?_, rfl, rfl⟩
  · show min c.i2 (c.i1 + n) - c.i1 ≤ n; omega
  · show c.i2 - max c.i1 (c.i2 - n) ≤ n; omega

/-- the range in a hunk header: `start+1,length`, with the conventions for length 1 and 0 -/
theorem format_range_spec (start stop : Nat) :
    formatRange start stop =
      if stop - start == 1 then natStr (start + 1)
      else natStr (if stop - start == 0 then start else start + 1) ++ [','] ++ natStr (stop - start) := by
  unfold formatRange
  by_cases h1 : (stop - start == 1) = true
  · simp [h1]
  · simp only [h1, Bool.false_eq_true, if_false]
    by_cases h0 : (stop - start == 0) = true <;> simp [h0]

/-! non-vacuity / tests: a six-line pair with two hunks -/
def ta : List Line := ["a\n".toList, "b\n".toList, "c\n".toList, "d\n".toList, "e\n".toList, "f\n".toList, "g\n".toList, "h\n".toList, "i\n".toList, "j\n".toList, "k\n".toList]
def tb : List Line := ["a\n".toList, "B\n".toList, "c\n".toList, "d\n".toList, "e\n".toList, "f\n".toList, "g\n".toList, "h\n".toList, "i\n".toList, "J\n".toList, "k\n".toList]
example : validOps ta tb (getOpCodes ta tb) = true := by decide +kernel
example : (groupOpCodes 3 (getOpCodes ta tb)).length = 2 := by decide +kernel
example : applyOps ta tb (getOpCodes ta tb) = tb := edit_script_correct _ _ _ (by decide +kernel)
example : unifiedDiff ta ta = [] := by decide +kernel
example : (groupOpCodes 3 (getOpCodes ta tb)).length = 2 ∧ applyGroups ta tb 0 (groupOpCodes 3 (getOpCodes ta tb)) = tb :=
  ⟨by decide +kernel, hunks_turn_a_into_b ta tb 3⟩

end C20
