import FsnVerif.Proofs.DiffLemmas
/-!
# `GetOpCodes` always yields a valid edit script (C20)

`findLongestMatch` returns a block of really equal lines inside its window (`flm_ok`); the recursion
`matchBlocks` therefore yields an ordered chain of such blocks (`matchBlocks_ok`); collapsing adjacent
blocks keeps the chain (`collapse_ok`); and the opcodes read off a chain tile both texts with equal
ranges really equal (`opsFrom_valid`). Hence `getOpCodes_valid`, for all inputs.
-/
namespace Diff

/-- a run of `k ≥ 1` equal lines ending at `(i, j)` inside the window -/
def RunEnd (a b : List Line) (alo blo bhi i j k : Nat) : Prop :=
  1 ≤ k ∧ alo + k ≤ i + 1 ∧ blo + k ≤ j + 1 ∧ j < bhi ∧ ∀ t, t < k → a.getD (i - t) [] = b.getD (j - t) []

/-- a block of equal lines inside the window `[alo, ahi) × [blo, bhi)` -/
def MOk (a b : List Line) (alo ahi blo bhi : Nat) (m : Match) : Prop :=
  alo ≤ m.a ∧ m.a + m.size ≤ ahi ∧ blo ≤ m.b ∧ m.b + m.size ≤ bhi ∧
  ∀ t, t < m.size → a.getD (m.a + t) [] = b.getD (m.b + t) []

theorem j2get_pos {m : List (Nat × Nat)} {j k : Nat} (h : j2get m j = k) (hk : 0 < k) : (j, k) ∈ m := by
  unfold j2get at h
  split at h
  · rename_i p hp
    have hm := List.mem_of_find?_eq_some hp
    have hj := List.find?_some hp
    have hj' : p.1 = j := by simpa using hj
    have : p = (j, k) := by cases p; simp_all
    rw [← this]; exact hm
  · omega

theorem runEnd_one {a b : List Line} {alo blo bhi i j : Nat} (hi : alo ≤ i) (hbl : blo ≤ j) (hbh : j < bhi)
    (heq : b.getD j [] = a.getD i []) : RunEnd a b alo blo bhi i j 1 := by
  refine ⟨Nat.le_refl _, by omega, by omega, hbh, ?_⟩
  intro t ht
  have : t = 0 := by omega
  subst this; simpa using heq.symm

theorem runEnd_succ {a b : List Line} {alo blo bhi i j k : Nat} (hi : alo + 1 ≤ i) (hj : 1 ≤ j) (hbh : j < bhi)
    (heq : b.getD j [] = a.getD i []) (h : RunEnd a b alo blo bhi (i - 1) (j - 1) k) :
    RunEnd a b alo blo bhi i j (k + 1) := by
  obtain ⟨h1, h2, h3, _, h5⟩ := h
  refine ⟨by omega, by omega, by omega, hbh, ?_⟩
  intro t ht
  cases t with
  | zero => simpa using heq.symm
  | succ s =>
    have := h5 s (by omega)
    have e1 : i - (s + 1) = i - 1 - s := by omega
    have e2 : j - (s + 1) = j - 1 - s := by omega
    rw [e1, e2]; exact this

theorem runEnd_mok {a b : List Line} {alo ahi blo bhi i j k : Nat} (hih : i < ahi)
    (h : RunEnd a b alo blo bhi i j k) : MOk a b alo ahi blo bhi ⟨i + 1 - k, j + 1 - k, k⟩ := by
  obtain ⟨h1, h2, h3, h4, h5⟩ := h
  refine ⟨by show alo ≤ i + 1 - k; omega, by show i + 1 - k + k ≤ ahi; omega,
    by show blo ≤ j + 1 - k; omega, by show j + 1 - k + k ≤ bhi; omega, ?_⟩
  intro t ht
  have ht' : t < k := ht
  have := h5 (k - 1 - t) (by omega)
  have e1 : i - (k - 1 - t) = i + 1 - k + t := by omega
  have e2 : j - (k - 1 - t) = j + 1 - k + t := by omega
  rw [e1, e2] at this; exact this

/-- one DP cell keeps both invariants -/
theorem flmStep_ok {a b : List Line} {alo ahi blo bhi i : Nat} {j2len : List (Nat × Nat)}
    (hi : alo ≤ i) (hih : i < ahi)
    (hprev : ∀ j k, (j, k) ∈ j2len → alo + 1 ≤ i ∧ RunEnd a b alo blo bhi (i - 1) j k)
    (acc : List (Nat × Nat) × Match)
    (h1 : ∀ j k, (j, k) ∈ acc.1 → RunEnd a b alo blo bhi i j k) (h2 : MOk a b alo ahi blo bhi acc.2) (j : Nat) :
    (∀ j' k, (j', k) ∈ (flmStep a b i blo bhi j2len acc j).1 → RunEnd a b alo blo bhi i j' k) ∧
    MOk a b alo ahi blo bhi (flmStep a b i blo bhi j2len acc j).2 := by
  unfold flmStep
  by_cases hc : (b.getD j [] == a.getD i [] && decide (blo ≤ j) && decide (j < bhi)) = true
  · rw [if_pos hc]
    simp only [Bool.and_eq_true, beq_iff_eq, decide_eq_true_eq] at hc
    obtain ⟨⟨heq, hbl⟩, hbh⟩ := hc
    -- the run ending at (i, j)
    have hrun : RunEnd a b alo blo bhi i j ((if j = 0 then 0 else j2get j2len (j - 1)) + 1) := by
      by_cases hj0 : j = 0
      · rw [if_pos hj0]; exact runEnd_one hi hbl hbh heq
      · rw [if_neg hj0]
        by_cases hk0 : j2get j2len (j - 1) = 0
        · rw [hk0]; exact runEnd_one hi hbl hbh heq
        · have hmem := j2get_pos (m := j2len) (j := j - 1) rfl (Nat.pos_of_ne_zero hk0)
          obtain ⟨hi1, hr⟩ := hprev _ _ hmem
          exact runEnd_succ hi1 (by omega) hbh heq hr
    have hmem : ∀ j' k, (j', k) ∈ acc.1 ++ [(j, (if j = 0 then 0 else j2get j2len (j - 1)) + 1)] →
        RunEnd a b alo blo bhi i j' k := by
      intro j' k hm
      rcases List.mem_append.mp hm with hm | hm
      · exact h1 _ _ hm
      · have : (j', k) = (j, (if j = 0 then 0 else j2get j2len (j - 1)) + 1) := by simpa using hm
        cases this; exact hrun
    dsimp only
    generalize ((if j = 0 then 0 else j2get j2len (j - 1)) + 1) = k at hrun hmem ⊢
    by_cases hk : k > acc.2.size
    · rw [if_pos hk]; exact ⟨hmem, runEnd_mok hih hrun⟩
    · rw [if_neg hk]; exact ⟨hmem, h2⟩
  · rw [if_neg hc]; exact ⟨h1, h2⟩

theorem flmFold_ok {a b : List Line} {alo ahi blo bhi i : Nat} {j2len : List (Nat × Nat)}
    (hi : alo ≤ i) (hih : i < ahi)
    (hprev : ∀ j k, (j, k) ∈ j2len → alo + 1 ≤ i ∧ RunEnd a b alo blo bhi (i - 1) j k)
    (js : List Nat) (acc : List (Nat × Nat) × Match)
    (h1 : ∀ j k, (j, k) ∈ acc.1 → RunEnd a b alo blo bhi i j k) (h2 : MOk a b alo ahi blo bhi acc.2) :
    (∀ j' k, (j', k) ∈ (js.foldl (flmStep a b i blo bhi j2len) acc).1 → RunEnd a b alo blo bhi i j' k) ∧
    MOk a b alo ahi blo bhi (js.foldl (flmStep a b i blo bhi j2len) acc).2 := by
  induction js generalizing acc with
  | nil => exact ⟨h1, h2⟩
  | cons j js ih =>
    obtain ⟨s1, s2⟩ := flmStep_ok hi hih hprev acc h1 h2 j
    exact ih _ s1 s2

theorem flmRows_ok {a b : List Line} {alo ahi blo bhi : Nat} (n i0 : Nat) (hlo : alo ≤ i0) (hhi : i0 + n ≤ ahi)
    (j2len : List (Nat × Nat)) (best : Match)
    (hprev : ∀ j k, (j, k) ∈ j2len → alo + 1 ≤ i0 ∧ RunEnd a b alo blo bhi (i0 - 1) j k)
    (hb : MOk a b alo ahi blo bhi best) :
    MOk a b alo ahi blo bhi (flmRows a b blo bhi ((List.range n).map (· + i0)) j2len best) := by
  induction n generalizing i0 j2len best with
  | zero => simpa [flmRows] using hb
  | succ n ih =>
    have hr : (List.range (n + 1)).map (· + i0) = i0 :: (List.range n).map (· + (i0 + 1)) := by
      rw [List.range_succ_eq_map]
      simp only [List.map_cons, List.map_map, Nat.zero_add]
      congr 1
      apply List.map_congr_left
      intro x _; simp only [Function.comp]; omega
    rw [hr]
    simp only [flmRows]
    unfold flmRow
    obtain ⟨s1, s2⟩ := flmFold_ok (a := a) (b := b) (alo := alo) (ahi := ahi) (blo := blo) (bhi := bhi) (i := i0)
      (j2len := j2len) hlo (by omega) hprev (List.range b.length) ([], best) (by intro _ _ h; cases h) hb
    apply ih (i0 + 1) (by omega) (by omega)
    · intro j k hm
      exact ⟨by omega, by simpa using s1 j k hm⟩
    · exact s2

theorem extendBack_ok {a b : List Line} {alo ahi blo bhi : Nat} (fuel : Nat) (m : Match)
    (h : MOk a b alo ahi blo bhi m) : MOk a b alo ahi blo bhi (extendBack a b alo blo fuel m) := by
  induction fuel generalizing m with
  | zero => simpa [extendBack] using h
  | succ f ih =>
    unfold extendBack
    split
    · rename_i hc
      simp only [Bool.and_eq_true, decide_eq_true_eq, beq_iff_eq] at hc
      obtain ⟨⟨ha, hb⟩, heq⟩ := hc
      obtain ⟨h1, h2, h3, h4, h5⟩ := h
      apply ih
      refine ⟨by show alo ≤ m.a - 1; omega, by show m.a - 1 + (m.size + 1) ≤ ahi; omega,
        by show blo ≤ m.b - 1; omega, by show m.b - 1 + (m.size + 1) ≤ bhi; omega, ?_⟩
      intro t ht
      show a.getD (m.a - 1 + t) [] = b.getD (m.b - 1 + t) []
      cases t with
      | zero => simpa using heq
      | succ s =>
        have := h5 s (by have : s + 1 < m.size + 1 := ht; omega)
        have e1 : m.a - 1 + (s + 1) = m.a + s := by omega
        have e2 : m.b - 1 + (s + 1) = m.b + s := by omega
        rw [e1, e2]; exact this
    · exact h

theorem extendFwd_ok {a b : List Line} {alo ahi blo bhi : Nat} (fuel : Nat) (m : Match)
    (h : MOk a b alo ahi blo bhi m) : MOk a b alo ahi blo bhi (extendFwd a b ahi bhi fuel m) := by
  induction fuel generalizing m with
  | zero => simpa [extendFwd] using h
  | succ f ih =>
    unfold extendFwd
    split
    · rename_i hc
      simp only [Bool.and_eq_true, decide_eq_true_eq, beq_iff_eq] at hc
      obtain ⟨⟨ha, hb⟩, heq⟩ := hc
      obtain ⟨h1, h2, h3, h4, h5⟩ := h
      apply ih
      refine ⟨h1, by show m.a + (m.size + 1) ≤ ahi; omega, h3, by show m.b + (m.size + 1) ≤ bhi; omega, ?_⟩
      intro t ht
      have ht' : t < m.size + 1 := ht
      by_cases hlt : t < m.size
      · exact h5 t hlt
      · have : t = m.size := by omega
        subst this; exact heq
    · exact h

/-- **`findLongestMatch` returns a block of equal lines inside its window** -/
theorem flm_ok (a b : List Line) (alo ahi blo bhi : Nat) (h1 : alo ≤ ahi) (h2 : blo ≤ bhi) :
    MOk a b alo ahi blo bhi (findLongestMatch a b alo ahi blo bhi) := by
  unfold findLongestMatch
  apply extendFwd_ok
  apply extendBack_ok
  apply flmRows_ok (ahi - alo) alo (Nat.le_refl _) (by omega)
  · intro _ _ h; cases h
  · exact ⟨Nat.le_refl _, by show alo + 0 ≤ ahi; omega, Nat.le_refl _, by show blo + 0 ≤ bhi; omega,
      by intro t ht; exact absurd ht (Nat.not_lt_zero _)⟩

/-! ### ordered chains of equal blocks -/

/-- `ms` is an ordered chain of blocks of equal lines lying between `(i, j)` and `(e, f)` -/
inductive ChainE (a b : List Line) : Nat → Nat → List Match → Nat → Nat → Prop
  | nil {i j e f : Nat} : i ≤ e → j ≤ f → ChainE a b i j [] e f
  | cons {i j e f : Nat} {m : Match} {ms : List Match} : i ≤ m.a → j ≤ m.b →
      (∀ t, t < m.size → a.getD (m.a + t) [] = b.getD (m.b + t) []) →
      ChainE a b (m.a + m.size) (m.b + m.size) ms e f → ChainE a b i j (m :: ms) e f

theorem ChainE.bounds {a b : List Line} {i j e f : Nat} {ms : List Match} (h : ChainE a b i j ms e f) :
    i ≤ e ∧ j ≤ f := by
  induction h with
  | nil h1 h2 => exact ⟨h1, h2⟩
  | cons h1 h2 _ _ ih => exact ⟨by omega, by omega⟩

theorem ChainE.weakenStart {a b : List Line} {i j i' j' e f : Nat} {ms : List Match}
    (h : ChainE a b i j ms e f) (hi : i' ≤ i) (hj : j' ≤ j) : ChainE a b i' j' ms e f := by
  cases h with
  | nil h1 h2 => exact .nil (by omega) (by omega)
  | cons h1 h2 h3 h4 => exact .cons (by omega) (by omega) h3 h4

theorem ChainE.weakenEnd {a b : List Line} {i j e f e' f' : Nat} {ms : List Match}
    (h : ChainE a b i j ms e f) (he : e ≤ e') (hf : f ≤ f') : ChainE a b i j ms e' f' := by
  induction h with
  | nil h1 h2 => exact .nil (by omega) (by omega)
  | cons h1 h2 h3 _ ih => exact .cons h1 h2 h3 (ih he hf)

theorem ChainE.append {a b : List Line} {i j e f e' f' : Nat} {xs ys : List Match}
    (h1 : ChainE a b i j xs e f) (h2 : ChainE a b e f ys e' f') : ChainE a b i j (xs ++ ys) e' f' := by
  induction h1 with
  | nil g1 g2 => simpa using h2.weakenStart g1 g2
  | cons g1 g2 g3 _ ih => exact .cons g1 g2 g3 (ih h2)

theorem ChainE.split {a b : List Line} {i j e f : Nat} (xs : List Match) {ys : List Match}
    (h : ChainE a b i j (xs ++ ys) e f) : ∃ e1 f1, ChainE a b i j xs e1 f1 ∧ ChainE a b e1 f1 ys e f := by
  induction xs generalizing i j with
  | nil => exact ⟨i, j, .nil (Nat.le_refl _) (Nat.le_refl _), by simpa using h⟩
  | cons x xs ih =>
    cases h with
    | cons g1 g2 g3 g4 =>
      obtain ⟨e1, f1, c1, c2⟩ := ih g4
      exact ⟨e1, f1, .cons g1 g2 g3 c1, c2⟩

theorem MOk.single {a b : List Line} {alo ahi blo bhi : Nat} {m : Match} (h : MOk a b alo ahi blo bhi m) :
    ChainE a b m.a m.b [m] (m.a + m.size) (m.b + m.size) :=
  .cons (Nat.le_refl _) (Nat.le_refl _) h.2.2.2.2 (.nil (Nat.le_refl _) (Nat.le_refl _))

/-- **`matchBlocks` appends an ordered chain of equal blocks lying inside its window** -/
theorem matchBlocks_ok (a b : List Line) (fuel : Nat) :
    ∀ (alo ahi blo bhi : Nat) (acc : List Match), alo ≤ ahi → blo ≤ bhi →
      ∃ new, matchBlocks a b fuel alo ahi blo bhi acc = acc ++ new ∧ ChainE a b alo blo new ahi bhi := by
  induction fuel with
  | zero =>
    intro alo ahi blo bhi acc h1 h2
    exact ⟨[], by simp [matchBlocks], .nil h1 h2⟩
  | succ fuel ih =>
    intro alo ahi blo bhi acc h1 h2
    have hm := flm_ok a b alo ahi blo bhi h1 h2
    unfold matchBlocks
    generalize findLongestMatch a b alo ahi blo bhi = m at hm ⊢
    obtain ⟨m1, m2, m3, m4, m5⟩ := hm
    dsimp only
    by_cases hs : m.size > 0
    · rw [if_pos hs]
      -- left part
      have hleft : ∃ n1, (if (decide (alo < m.a) && decide (blo < m.b)) = true then matchBlocks a b fuel alo m.a blo m.b acc else acc) = acc ++ n1 ∧
          ChainE a b alo blo n1 m.a m.b := by
        by_cases hl : (decide (alo < m.a) && decide (blo < m.b)) = true
        · rw [if_pos hl]; exact ih alo m.a blo m.b acc m1 m3
        · rw [if_neg hl]; exact ⟨[], by simp, .nil m1 m3⟩
      obtain ⟨n1, e1, c1⟩ := hleft
      rw [e1]
      have cm : ChainE a b alo blo (n1 ++ [m]) (m.a + m.size) (m.b + m.size) :=
        c1.append (.cons (Nat.le_refl _) (Nat.le_refl _) m5 (.nil (Nat.le_refl _) (Nat.le_refl _)))
      by_cases hr : (decide (m.a + m.size < ahi) && decide (m.b + m.size < bhi)) = true
      · rw [if_pos hr]
        obtain ⟨n2, e2, c2⟩ := ih (m.a + m.size) ahi (m.b + m.size) bhi (acc ++ n1 ++ [m]) m2 m4
        refine ⟨n1 ++ [m] ++ n2, by rw [e2]; simp, cm.append c2⟩
      · rw [if_neg hr]
        refine ⟨n1 ++ [m], by simp, cm.weakenEnd m2 m4⟩
    · rw [if_neg hs]; exact ⟨[], by simp, .nil h1 h2⟩

/-! ### collapsing adjacent blocks keeps the chain -/

theorem collapseStep_ok {a b : List Line} {la lb : Nat} (out : List Match) (cur m : Match) (rest : List Match)
    (h : ChainE a b 0 0 (out ++ cur :: m :: rest) la lb) :
    ChainE a b 0 0 ((collapseStep (out, cur) m).1 ++ (collapseStep (out, cur) m).2 :: rest) la lb := by
  obtain ⟨e1, f1, c1, c2⟩ := ChainE.split out h
  cases c2 with
  | cons g1 g2 g3 g4 =>
    cases g4 with
    | cons k1 k2 k3 k4 =>
      unfold collapseStep
      dsimp only
      by_cases hadj : (cur.a + cur.size == m.a && cur.b + cur.size == m.b) = true
      · rw [if_pos hadj]
        simp only [Bool.and_eq_true, beq_iff_eq] at hadj
        obtain ⟨ha, hb⟩ := hadj
        apply c1.append
        refine .cons g1 g2 ?_ ?_
        · intro t ht
          have ht' : t < cur.size + m.size := ht
          show a.getD (cur.a + t) [] = b.getD (cur.b + t) []
          by_cases hlt : t < cur.size
          · exact g3 t hlt
          · have := k3 (t - cur.size) (by omega)
            have e1 : m.a + (t - cur.size) = cur.a + t := by omega
            have e2 : m.b + (t - cur.size) = cur.b + t := by omega
            rw [e1, e2] at this; exact this
        · show ChainE a b (cur.a + (cur.size + m.size)) (cur.b + (cur.size + m.size)) rest la lb
          have e1 : cur.a + (cur.size + m.size) = m.a + m.size := by omega
          have e2 : cur.b + (cur.size + m.size) = m.b + m.size := by omega
          rw [e1, e2]; exact k4
      · rw [if_neg hadj]
        by_cases hs : cur.size > 0
        · rw [if_pos hs]
          simp only [List.append_assoc, List.singleton_append]
          exact c1.append (.cons g1 g2 g3 (.cons k1 k2 k3 k4))
        · rw [if_neg hs]
          have hz : cur.size = 0 := by omega
          have q1 : e1 ≤ m.a := by omega
          have q2 : f1 ≤ m.b := by omega
          exact c1.append (.cons q1 q2 k3 k4)

theorem collapseFold_ok {a b : List Line} {la lb : Nat} (rest : List Match) (out : List Match) (cur : Match)
    (h : ChainE a b 0 0 (out ++ cur :: rest) la lb) :
    ChainE a b 0 0 ((rest.foldl collapseStep (out, cur)).1 ++ [(rest.foldl collapseStep (out, cur)).2]) la lb := by
  induction rest generalizing out cur with
  | nil => simpa using h
  | cons m rest ih =>
    simp only [List.foldl_cons]
    have := collapseStep_ok out cur m rest h
    exact ih _ _ this

/-- **`collapse` yields a chain followed by the sentinel** -/
theorem collapse_ok {a b : List Line} {la lb : Nat} (ms : List Match) (h : ChainE a b 0 0 ms la lb) :
    ∃ cs, collapse la lb ms = cs ++ [⟨la, lb, 0⟩] ∧ ChainE a b 0 0 cs la lb := by
  unfold collapse
  have h0 : ChainE a b 0 0 ([] ++ (⟨0, 0, 0⟩ : Match) :: ms) la lb :=
    .cons (Nat.le_refl _) (Nat.le_refl _) (by intro t ht; exact absurd ht (Nat.not_lt_zero _)) h
  have hf := collapseFold_ok ms [] ⟨0, 0, 0⟩ h0
  dsimp only
  generalize ms.foldl collapseStep ([], (⟨0, 0, 0⟩ : Match)) = r at hf ⊢
  by_cases hs : r.2.size > 0
  · rw [if_pos hs]; exact ⟨_, rfl, hf⟩
  · rw [if_neg hs]
    refine ⟨_, rfl, ?_⟩
    obtain ⟨e1, f1, c1, c2⟩ := ChainE.split r.1 hf
    have := c2.bounds
    exact c1.weakenEnd this.1 this.2

/-! ### the opcodes read off a chain are a valid edit script -/

/-- `opCodesOf` without the accumulator -/
def opsFrom : Nat → Nat → List Match → List OpCode
  | _, _, [] => []
  | i, j, m :: ms => opGap i j m ++ opEq m ++ opsFrom (m.a + m.size) (m.b + m.size) ms

theorem opFold_eq (ms : List Match) (ops : List OpCode) (i j : Nat) :
    (ms.foldl opStep (ops, i, j)).1 = ops ++ opsFrom i j ms := by
  induction ms generalizing ops i j with
  | nil => simp [opsFrom]
  | cons m ms ih =>
    simp only [List.foldl_cons, opStep, opsFrom]
    rw [ih]; simp

theorem opCodesOf_eq (ms : List Match) : opCodesOf ms = opsFrom 0 0 ms := by
  unfold opCodesOf; rw [opFold_eq]; simp

theorem slice_eq_of_run {a b : List Line} {x y n : Nat}
    (h : ∀ t, t < n → a.getD (x + t) [] = b.getD (y + t) []) (ha : x + n ≤ a.length) (hb : y + n ≤ b.length) :
    slice a x (x + n) = slice b y (y + n) := by
  unfold slice
  have e1 : x + n - x = n := by omega
  have e2 : y + n - y = n := by omega
  rw [e1, e2]
  apply List.ext_getElem
  · simp only [List.length_take, List.length_drop]; omega
  · intro t h1 h2
    simp only [List.length_take, List.length_drop] at h1 h2
    rw [List.getElem_take, List.getElem_take, List.getElem_drop, List.getElem_drop]
    have := h t (by omega)
    rw [List.getD_eq_getElem?_getD, List.getD_eq_getElem?_getD,
      List.getElem?_eq_getElem (by omega), List.getElem?_eq_getElem (by omega)] at this
    simpa using this

theorem valid_gap {a b : List Line} {i j : Nat} {m : Match} {rest : List OpCode}
    (h1 : i ≤ m.a) (h2 : j ≤ m.b) (h3 : m.a ≤ a.length) (h4 : m.b ≤ b.length)
    (hr : validFrom a b m.a m.b rest = true) : validFrom a b i j (opGap i j m ++ rest) = true := by
  unfold opGap
  by_cases c1 : (decide (i < m.a) && decide (j < m.b)) = true
  · rw [if_pos c1]
    simp only [Bool.and_eq_true, decide_eq_true_eq] at c1
    simp [validFrom, hr, h1, h2, h3, h4]
  · rw [if_neg c1]
    by_cases c2 : i < m.a
    · rw [if_pos c2]
      have : j = m.b := by
        simp only [Bool.and_eq_true, decide_eq_true_eq, not_and] at c1
        have := c1 c2; omega
      subst this
      simp [validFrom, hr, h1, h3, h4]
    · rw [if_neg c2]
      have hi : i = m.a := by omega
      subst hi
      by_cases c3 : j < m.b
      · rw [if_pos c3]
        simp [validFrom, hr, h2, h3, h4]
      · rw [if_neg c3]
        have hj : j = m.b := by omega
        subst hj
        simpa using hr

theorem valid_eq {a b : List Line} {m : Match} {rest : List OpCode}
    (hrun : ∀ t, t < m.size → a.getD (m.a + t) [] = b.getD (m.b + t) [])
    (h3 : m.a + m.size ≤ a.length) (h4 : m.b + m.size ≤ b.length)
    (hr : validFrom a b (m.a + m.size) (m.b + m.size) rest = true) :
    validFrom a b m.a m.b (opEq m ++ rest) = true := by
  unfold opEq
  by_cases hs : m.size > 0
  · rw [if_pos hs]
    have := slice_eq_of_run hrun h3 h4
    simp [validFrom, hr, h3, h4, this]
  · rw [if_neg hs]
    have : m.size = 0 := by omega
    simp only [this, Nat.add_zero] at hr
    simpa using hr

theorem opsFrom_valid' {a b : List Line} {i j e f : Nat} {cs : List Match}
    (h : ChainE a b i j cs e f) (he : e = a.length) (hf : f = b.length) :
    validFrom a b i j (opsFrom i j (cs ++ [⟨a.length, b.length, 0⟩])) = true := by
  induction h with
  | nil h1 h2 =>
    subst he hf
    simp only [List.nil_append, opsFrom, List.append_nil]
    have : validFrom a b a.length b.length (opEq ⟨a.length, b.length, 0⟩ ++ []) = true := by
      simp [opEq, validFrom]
    exact valid_gap (m := ⟨a.length, b.length, 0⟩) h1 h2 (Nat.le_refl _) (Nat.le_refl _) this
  | cons g1 g2 g3 g4 ih =>
    have hb := g4.bounds
    subst he hf
    simp only [List.cons_append, opsFrom, List.append_assoc]
    exact valid_gap g1 g2 (by omega) (by omega) (valid_eq g3 hb.1 hb.2 (ih rfl rfl))

/-- opcodes of a chain followed by the sentinel: valid from the chain's starting point -/
theorem opsFrom_valid {a b : List Line} {i j : Nat} {cs : List Match}
    (h : ChainE a b i j cs a.length b.length) :
    validFrom a b i j (opsFrom i j (cs ++ [⟨a.length, b.length, 0⟩])) = true :=
  opsFrom_valid' h rfl rfl

/-- **`GetOpCodes` always yields a valid edit script** -/
theorem getOpCodes_valid (a b : List Line) : validOps a b (getOpCodes a b) = true := by
  unfold validOps getOpCodes matchingBlocks
  obtain ⟨new, e1, c1⟩ := matchBlocks_ok a b (a.length + b.length + 1) 0 a.length 0 b.length []
    (Nat.zero_le _) (Nat.zero_le _)
  rw [e1, List.nil_append]
  obtain ⟨cs, e2, c2⟩ := collapse_ok new c1
  rw [e2, opCodesOf_eq]
  exact opsFrom_valid c2

/-! ### an empty diff means equal texts -/

theorem groupFold_nil (n : Nat) (codes : List OpCode) (acc : List (List OpCode) × List OpCode)
    (h : (codes.foldl (groupStep n) acc).1 = []) :
    acc.1 = [] ∧ (codes.foldl (groupStep n) acc).2 = acc.2 ++ codes := by
  induction codes generalizing acc with
  | nil => exact ⟨h, by simp⟩
  | cons c cs ih =>
    simp only [List.foldl_cons] at h ⊢
    obtain ⟨h1, h2⟩ := ih _ h
    by_cases hc : (c.tag == 'e' && decide (c.i2 - c.i1 > n + n)) = true
    · have e : (groupStep n acc c).1 = acc.1 ++ [acc.2 ++ [OpCode.mk c.tag c.i1 (min c.i2 (c.i1 + n)) c.j1 (min c.j2 (c.j1 + n))]] := by
        unfold groupStep; rw [if_pos hc]
      rw [e] at h1; simp at h1
    · have e : groupStep n acc c = (acc.1, acc.2 ++ [c]) := by
        unfold groupStep; rw [if_neg hc]
      rw [e] at h1 h2 ⊢
      exact ⟨h1, by rw [h2]; simp⟩

theorem trimFirst_tags (n : Nat) (l : List OpCode) : (trimFirst n l).map (·.tag) = l.map (·.tag) := by
  cases l with
  | nil => rfl
  | cons c rest =>
    simp only [trimFirst]
    split <;> simp

theorem trimLast_tags (n : Nat) (l : List OpCode) : (trimLast n l).map (·.tag) = l.map (·.tag) := by
  unfold trimLast
  cases hr : l.reverse with
  | nil => rfl
  | cons c rest =>
    have hl : l = rest.reverse ++ [c] := by
      have := congrArg List.reverse hr; simpa using this
    dsimp only
    split
    · rw [hl]; simp
    · rfl

theorem group_empty_all_equal (n : Nat) (codes0 : List OpCode) (h : groupOpCodes n codes0 = []) :
    codes0.all (fun c => c.tag == 'e') = true := by
  unfold groupOpCodes at h
  dsimp only at h
  generalize hc1 : (if codes0.isEmpty = true then [OpCode.mk 'e' 0 1 0 1] else codes0) = codes1 at h
  generalize hc2 : trimLast n (trimFirst n codes1) = codes2 at h
  have htags : codes2.map (·.tag) = codes1.map (·.tag) := by
    rw [← hc2, trimLast_tags, trimFirst_tags]
  have hne : codes1 ≠ [] := by
    rw [← hc1]; split
    · simp
    · rename_i he; simpa using he
  generalize hr : codes2.foldl (groupStep n) ([], []) = r at h
  split at h
  · simp at h
  · rename_i hcond
    have hfold := groupFold_nil n codes2 ([], []) (by rw [hr]; exact h)
    rw [hr] at hfold
    have hr2 : r.2 = codes2 := by simpa using hfold.2
    rw [hr2] at hcond
    have hlen : codes2.length = codes1.length := by
      have := congrArg List.length htags; simpa using this
    have hall1 : codes1.all (fun c => c.tag == 'e') = true := by
      match codes2, hlen, htags, hcond with
      | [], hlen, _, _ => exact absurd (List.length_eq_zero_iff.mp hlen.symm) hne
      | [g], _, htags, hcond =>
        have hg : g.tag = 'e' := by simpa using hcond
        rw [List.all_eq_true]
        intro c hc
        have : c.tag ∈ codes1.map (·.tag) := List.mem_map_of_mem hc
        rw [← htags] at this
        have : c.tag = g.tag := by simpa using this
        simp [this, hg]
      | g1 :: g2 :: gs, _, _, hcond => simp at hcond
    rw [← hc1] at hall1
    split at hall1
    · rename_i he
      have : codes0 = [] := by simpa using he
      simp [this]
    · exact hall1

/-- **soundness of an empty diff**: if the unified diff of two line lists is empty, they are equal -/
theorem unifiedDiff_nil_eq (a b : List Line) (h : unifiedDiff a b = []) : a = b := by
  unfold unifiedDiff at h
  dsimp only at h
  split at h
  · rename_i he
    have hg : groupOpCodes 3 (getOpCodes a b) = [] := by simpa using he
    exact equal_of_valid_all_equal a b _ (getOpCodes_valid a b) (group_empty_all_equal 3 _ hg)
  · have := (List.append_eq_nil_iff.mp h).1
    exact absurd this (by decide)

/-- the same on texts: `Diff(have, want) = ""` only if `have = want` -/
theorem diff_nil_eq (s t : List Char) (h : diff s t = []) : s = t := by
  unfold diff at h
  dsimp only at h
  split at h
  · rename_i he
    have : unifiedDiff (splitLines s) (splitLines t) = [] := by simpa using he
    exact splitLines_injective s t (unifiedDiff_nil_eq _ _ this)
  · simp at h

end Diff
