import FsnVerif.Proofs.KqFullLemmas
/-!
# Frame reasoning for the full kqueue model: what an operation can NOT do

`Rel R m`: every run of `m` relates the world before to the world after by `R`. For a reflexive,
transitive `R` that the state-changing primitives respect, every composite function of the backend
respects it — one traversal of the control flow, reused for several relations ("delivers nothing",
"adds no user path", "forgets nothing it has seen"). `FrameAdd` asks for what the adding side
(`addWatch` and everything below it) does to the state; `Frame` also for what removals do.
-/
namespace KqF
open Fsn

def Rel {α : Type} (R : W → W → Prop) (m : M α) : Prop := ∀ w : W, R w (m w).2

/-- what the ADDING side does: it reads the tape, opens descriptors, and changes the tables in ways that
keep the user set and the closed flag and never shrink the seen set -/
structure FrameAdd (R : W → W → Prop) : Prop where
  refl : ∀ w, R w w
  trans : ∀ a b c, R a b → R b c → R a c
  tape : ∀ (w : W) (t : List Ans) (b : Option String), R w { w with tape := t, bad := b }
  opened : ∀ (w : W) (t : List Ans) (fd : Nat), R w { w with tape := t, s := { w.s with openFds := fd :: w.s.openFds } }
  grow : ∀ (w : W) (s' : KS), (∀ p, p ∈ w.s.seen → p ∈ s'.seen) → s'.byUser = w.s.byUser → s'.closed = w.s.closed →
    R w { w with s := s' }

structure Frame (R : W → W → Prop) : Prop where
  refl : ∀ w, R w w
  trans : ∀ a b c, R a b → R b c → R a c
  -- whatever only touches tape / bad / the ghost kernel state / the five tables except `byUser`
  tape : ∀ (w : W) (t : List Ans) (b : Option String), R w { w with tape := t, bad := b }
  opened : ∀ (w : W) (t : List Ans) (fd : Nat), R w { w with tape := t, s := { w.s with openFds := fd :: w.s.openFds } }
  tables : ∀ (w : W) (s' : KS), s'.byUser = w.s.byUser ∨ (∃ p, s'.byUser = w.s.byUser.filter (· != p)) → s'.closed = w.s.closed →
    R w { w with s := s' }

theorem Frame.toAdd {R : W → W → Prop} (F : Frame R) : FrameAdd R where
  refl := F.refl
  trans := F.trans
  tape := F.tape
  opened := F.opened
  grow := fun w s' _ hu hc => F.tables w s' (Or.inl hu) hc

theorem Rel.pure {α : Type} {R : W → W → Prop} (f : FrameAdd R) (a : α) : Rel R (pure a : M α) := fun w => f.refl w

theorem Rel.bind {α β : Type} {R : W → W → Prop} (f : FrameAdd R) {m : M α} {k : α → M β}
    (h1 : Rel R m) (h2 : ∀ a, Rel R (k a)) : Rel R (m >>= k) := by
  intro w
  simp only [bind_apply]
  exact f.trans _ _ _ (h1 w) (h2 _ _)

theorem Rel.ofPure {α : Type} {R : W → W → Prop} (f : FrameAdd R) {m : M α} (h : ∀ w, (m w).2 = w) : Rel R m := by
  intro w; rw [h w]; exact f.refl w

theorem mem_setInsert {p q : Path} {l : List Path} (h : p ∈ l) : p ∈ setInsert q l := by
  unfold setInsert; split
  · exact h
  · exact List.mem_append_left _ h

section addprims
variable {R : W → W → Prop} (f : FrameAdd R)
include f

theorem rel_get : Rel R get := Rel.ofPure f (fun _ => rfl)
theorem rel_setBad (m : String) : Rel R (setBad m) := fun w => f.tape w w.tape _
theorem rel_askLstat (p : Path) : Rel R (askLstat p) := by
  intro w; unfold askLstat
  split
  · split
    · exact f.tape w _ w.bad
    · exact f.tape w w.tape _
  · exact f.tape w w.tape _
theorem rel_askReadlink (p : Path) : Rel R (askReadlink p) := by
  intro w; unfold askReadlink
  split
  · split
    · exact f.tape w _ w.bad
    · exact f.tape w w.tape _
  · exact f.tape w w.tape _
theorem rel_askReadDir (p : Path) : Rel R (askReadDir p) := by
  intro w; unfold askReadDir
  split
  · split
    · exact f.tape w _ w.bad
    · exact f.tape w w.tape _
  · exact f.tape w w.tape _
theorem rel_askOpen (p : Path) : Rel R (askOpen p) := by
  intro w; unfold askOpen
  split
  · split
    · split
      · split
        · exact f.tape w _ _
        · exact f.opened w _ _
      · exact f.tape w _ w.bad
    · exact f.tape w w.tape _
  · exact f.tape w w.tape _

theorem rel_modifyGrow (g : KS → KS) (hs : ∀ s p, p ∈ s.seen → p ∈ (g s).seen) (hu : ∀ s, (g s).byUser = s.byUser)
    (hc : ∀ s, (g s).closed = s.closed) : Rel R (modify g) :=
  fun w => f.grow w (g w.s) (hs w.s) (hu w.s) (hc w.s)

theorem rel_closeFd (fd : Nat) : Rel R (closeFd fd) := rel_modifyGrow f _ (fun _ _ h => h) (fun _ => rfl) (fun _ => rfl)
theorem rel_addLink (p : Path) (fd : Nat) : Rel R (addLink p fd) :=
  rel_modifyGrow f _ (fun _ _ h => mem_setInsert h) (fun _ => rfl) (fun _ => rfl)
theorem rel_watchesAdd (p l : Path) (fd : Nat) (d : Bool) : Rel R (watchesAdd p l fd d) :=
  rel_modifyGrow f _ (fun _ _ h => h) (fun _ => rfl) (fun _ => rfl)
theorem rel_markSeenTrue (p : Path) : Rel R (markSeen p true) :=
  rel_modifyGrow f _ (fun _ _ h => mem_setInsert h) (fun _ => rfl) (fun _ => rfl)

theorem rel_registerAdd (fd : Nat) (fl : BitVec 32) : Rel R (registerAdd fd fl) := by
  unfold registerAdd
  refine Rel.bind f (rel_get f) ?_
  intro s
  split
  · exact Rel.bind f (rel_modifyGrow f _ (fun _ _ h => h) (fun _ => rfl) (fun _ => rfl)) (fun _ => Rel.pure f _)
  · exact Rel.pure f _

theorem rel_byPath (n : Path) : Rel R (byPath n) := by
  refine Rel.ofPure f ?_
  intro w; simp only [byPath, get, bind_apply]
  cases alLookup ((alLookup n w.s.path).getD 0) w.s.wd <;> rfl

theorem rel_byWd (fd : Nat) : Rel R (byWd fd) := by
  refine Rel.ofPure f ?_
  intro w; simp only [byWd, get, bind_apply]
  cases alLookup fd w.s.wd <;> rfl

theorem rel_seenBefore (p : Path) : Rel R (seenBefore p) := Rel.ofPure f (fun _ => rfl)

theorem rel_watchesInDir (p : Path) : Rel R (watchesInDir p) := Rel.ofPure f (fun _ => rfl)

theorem rel_updateDirFlags (p : Path) (fl : BitVec 32) : Rel R (updateDirFlags p fl) := by
  unfold updateDirFlags
  refine Rel.bind f (rel_get f) ?_
  intro s
  split
  · exact Rel.pure f _
  · exact Rel.bind f (rel_modifyGrow f _ (fun _ _ h => h) (fun _ => rfl) (fun _ => rfl)) (fun _ => Rel.pure f _)

theorem rel_forUntil {α β : Type} (g : α → M (Option β)) (h : ∀ x, Rel R (g x)) (xs : List α) : Rel R (forUntil g xs) := by
  induction xs with
  | nil => exact Rel.pure f _
  | cons x xs ih =>
    unfold forUntil
    refine Rel.bind f (h x) ?_
    intro r
    cases r with
    | none => exact ih
    | some r => exact Rel.pure f _

end addprims

/-! ## the adding side, one traversal -/
section addside
variable {R : W → W → Prop} (f : FrameAdd R)
include f

theorem rel_followLink (name : Path) (info0 : KW) : Rel R (followLink name info0) := by
  unfold followLink
  refine Rel.bind f (rel_askReadlink f _) ?_
  intro r
  cases r with
  | error e => exact Rel.pure f _
  | ok link0 =>
    simp only []
    refine Rel.bind f (rel_byPath f _) ?_
    intro x
    split
    · exact Rel.bind f (rel_addLink f _ _) (fun _ => Rel.pure f _)
    · refine Rel.bind f (rel_askLstat f _) ?_
      intro r; cases r <;> exact Rel.pure f _

theorem rel_openTail (name2 : Path) (info2 : KW) (fi2 : Kind) :
    Rel R (do
        let __do_lift ← askOpen name2
        match __do_lift with
          | Except.error e => pure (Except.error (Except.error (Err.fs e)))
          | Except.ok fd =>
            pure (Except.ok (name2, { info2 with wd := fd, isDir := isDirKind fi2 }, false)) : M Pre) := by
  refine Rel.bind f (rel_askOpen f _) ?_
  intro r; cases r <;> exact Rel.pure f _

theorem rel_openNew (name : Path) (info0 : KW) (listDir : Bool) : Rel R (openNew name info0 listDir) := by
  unfold openNew
  refine Rel.bind f (rel_askLstat f _) ?_
  intro r
  cases r with
  | error e => exact Rel.pure f _
  | ok fi =>
    simp only []
    split
    · exact Rel.pure f _
    · split
      · refine Rel.bind f (rel_followLink f name info0) ?_
        intro r2
        cases r2 with
        | error r => exact Rel.pure f _
        | ok v =>
          obtain ⟨name2, info2, fi2⟩ := v
          exact rel_openTail f name2 info2 fi2
      · exact rel_openTail f name info0 fi

theorem rel_finishAdd (wdf : Path → M (Option Err)) (hwdf : ∀ d, Rel R (wdf d)) (name : Path) (info : KW) (already : Bool)
    (flags : BitVec 32) : Rel R (finishAdd wdf name info already flags) := by
  unfold finishAdd
  refine Rel.bind f (rel_registerAdd f _ _) ?_
  intro r
  cases r with
  | error e => exact Rel.bind f (rel_closeFd f _) (fun _ => Rel.pure f _)
  | ok u =>
    have tail : Rel R (if info.isDir = true then
          have watchDir :=
            flags &&& NOTE_WRITE == NOTE_WRITE && (!already || info.dirFlags &&& NOTE_WRITE != NOTE_WRITE);
          do
          let __do_lift ← updateDirFlags name flags
          if (!__do_lift) = true then pure (Except.ok [])
            else
              if watchDir = true then
                have d := if (info.linkName != []) = true then info.linkName else name;
                do
                let __do_lift ← wdf d
                match __do_lift with
                  | some e => pure (Except.error e)
                  | none => pure (Except.ok name)
              else pure (Except.ok name)
        else pure (Except.ok name) : M (Except Err Path)) := by
      split
      · simp only []
        refine Rel.bind f (rel_updateDirFlags f _ _) ?_
        intro b
        split
        · exact Rel.pure f _
        · split
          · refine Rel.bind f (hwdf _) ?_
            intro r; cases r <;> exact Rel.pure f _
          · exact Rel.pure f _
      · exact Rel.pure f _
    cases already with
    | true => exact tail
    | false => exact Rel.bind f (rel_watchesAdd f _ _ _ _) (fun _ => tail)

theorem rel_internalWatch (aw : AddWatch) (h : ∀ n fl l, Rel R (aw n fl l)) (name : Path) (k : Kind) : Rel R (internalWatch aw name k) := by
  unfold internalWatch
  split
  · exact Rel.bind f (rel_byPath f _) (fun _ => h _ _ _)
  · exact h _ _ _

theorem rel_watchDirectoryFiles (aw : AddWatch) (h : ∀ n fl l, Rel R (aw n fl l)) (d : Path) : Rel R (watchDirectoryFiles aw d) := by
  unfold watchDirectoryFiles
  refine Rel.bind f (rel_askReadDir f _) ?_
  intro r
  cases r with
  | error e => exact Rel.pure f _
  | ok files =>
    refine rel_forUntil f _ ?_ files
    intro x
    simp only []
    split
    · exact Rel.pure f _
    · refine Rel.bind f (rel_internalWatch f aw h _ _) ?_
      intro r
      split
      · exact Rel.bind f (rel_markSeenTrue f _) (fun _ => Rel.pure f _)
      · exact Rel.pure f _
      · exact Rel.bind f (rel_markSeenTrue f _) (fun _ => Rel.pure f _)

theorem rel_addWatch (fuel : Nat) : ∀ n fl l, Rel R (addWatch fuel n fl l) := by
  induction fuel with
  | zero =>
    intro n fl l
    unfold addWatch
    exact Rel.bind f (rel_setBad f _) (fun _ => Rel.pure f _)
  | succ fuel ih =>
    intro n fl l
    unfold addWatch
    refine Rel.bind f (rel_get f) ?_
    intro s0
    split
    · exact Rel.pure f _
    · simp only []
      refine Rel.bind f (rel_byPath f _) ?_
      intro x
      obtain ⟨info0, already0⟩ := x
      have hw := fun d => rel_watchDirectoryFiles f (addWatch fuel) ih d
      simp only []
      split
      · exact rel_finishAdd f _ hw _ _ _ _
      · refine Rel.bind f (rel_openNew f _ _ _) ?_
        intro pre
        cases pre with
        | error r => exact Rel.pure f _
        | ok v =>
          obtain ⟨name, info, already⟩ := v
          exact rel_finishAdd f _ hw _ _ _ _

end addside

/-! ## removals, `Close` and the reader (full `Frame`) -/
section rmside
variable {R : W → W → Prop} (F : Frame R)
include F

theorem rel_modify (g : KS → KS) (hu : ∀ s, (g s).byUser = s.byUser ∨ ∃ p, (g s).byUser = s.byUser.filter (· != p))
    (hc : ∀ s, (g s).closed = s.closed) : Rel R (modify g) :=
  fun w => F.tables w (g w.s) (hu w.s) (hc w.s)

theorem rel_markSeen (p : Path) (b : Bool) : Rel R (markSeen p b) := rel_modify F _ (fun _ => Or.inl rfl) (fun _ => rfl)

theorem rel_registerDelete (fd : Nat) : Rel R (registerDelete fd) := by
  have f := F.toAdd
  unfold registerDelete
  refine Rel.bind f (rel_get f) ?_
  intro s
  split
  · exact Rel.bind f (rel_modify F _ (fun _ => Or.inl rfl) (fun _ => rfl)) (fun _ => Rel.pure f _)
  · exact Rel.pure f _

theorem rel_watchesRemove (fd : Nat) (p : Path) : Rel R (watchesRemove fd p) := by
  have f := F.toAdd
  unfold watchesRemove
  refine Rel.bind f (rel_get f) ?_
  intro s
  exact Rel.bind f (rel_modify F _ (fun _ => Or.inr ⟨p, rfl⟩) (fun _ => rfl)) (fun _ => Rel.pure f _)

theorem rel_rmErr (e : FsErr) (info : KW) (name : Path) : Rel R (rmErr e info name) := by
  have f := F.toAdd
  unfold rmErr
  refine Rel.bind f (rel_get f) ?_
  intro s
  split
  · exact Rel.pure f _
  · refine Rel.bind f (rel_closeFd f _) ?_
    intro _
    exact Rel.bind f (rel_watchesRemove F _ _) (fun _ => Rel.pure f _)

theorem rel_rm (fuel : Nat) : ∀ name unwatch, Rel R (rm fuel name unwatch) := by
  have f := F.toAdd
  induction fuel with
  | zero =>
    intro name unwatch
    unfold rm
    exact Rel.bind f (rel_setBad f _) (fun _ => Rel.pure f _)
  | succ fuel ih =>
    intro name unwatch
    unfold rm
    simp only []
    refine Rel.bind f (rel_byPath f _) ?_
    intro x
    obtain ⟨info, ok⟩ := x
    simp only []
    split
    · exact Rel.pure f _
    · refine Rel.bind f (rel_registerDelete F _) ?_
      intro r
      cases r with
      | error e => exact rel_rmErr F _ _ _
      | ok u =>
        refine Rel.bind f (rel_closeFd f _) ?_
        intro _
        refine Rel.bind f (rel_watchesRemove F _ _) ?_
        intro isDir
        split
        · refine Rel.bind f (rel_watchesInDir f _) ?_
          intro ps
          refine Rel.bind f (rel_forUntil f _ ?_ ps) (fun _ => Rel.pure f _)
          intro p
          refine Rel.bind f (rel_get f) ?_
          intro s0
          split
          · exact Rel.pure f _
          · exact Rel.bind f (ih p true) (fun _ => Rel.pure f _)
        · exact Rel.pure f _

theorem rel_remove (name : Path) (unwatch : Bool) : Rel R (remove name unwatch) := by
  have f := F.toAdd
  unfold remove
  refine Rel.bind f (rel_get f) ?_
  intro s0
  split
  · exact Rel.pure f _
  · exact rel_rm F _ _ _

theorem rel_close (hcl : ∀ (w : W), R w { w with s := { w.s with closed := true } }) : Rel R close := by
  have f := F.toAdd
  unfold close
  refine Rel.bind f (rel_get f) ?_
  intro s0
  split
  · exact Rel.pure f _
  · refine Rel.bind f (m := modify fun s => { s with closed := true }) (fun w => hcl w) ?_
    intro _
    refine Rel.bind f (rel_forUntil f _ ?_ _) (fun _ => Rel.pure f _)
    intro p
    exact Rel.bind f (rel_rm F _ _ _) (fun _ => Rel.pure f _)

end rmside

/-! ## the reader's side (needs the relation to tolerate deliveries) -/
section reader
variable {R : W → W → Prop} (F : Frame R) (hev : ∀ e, Rel R (sendEvent e)) (her : ∀ e, Rel R (sendError e))
include F hev her

theorem rel_announce (p : Path) : Rel R (announce p) := by
  have f := F.toAdd
  unfold announce
  refine Rel.bind f (rel_seenBefore f _) ?_
  intro b
  split
  · exact hev _
  · exact Rel.pure f _

theorem rel_sendCreateIfNew (p : Path) (k : Kind) : Rel R (sendCreateIfNew p k) := by
  have f := F.toAdd
  unfold sendCreateIfNew
  refine Rel.bind f (rel_announce F hev her _) ?_
  intro c
  split
  · exact Rel.pure f _
  · refine Rel.bind f (rel_internalWatch f _ (rel_addWatch f _) _ _) ?_
    intro r
    cases r with
    | error e => exact Rel.pure f _
    | ok w => exact Rel.bind f (rel_markSeen F _ _) (fun _ => Rel.pure f _)

theorem rel_dirChange (d : Path) : Rel R (dirChange d) := by
  have f := F.toAdd
  unfold dirChange
  refine Rel.bind f (rel_askReadDir f _) ?_
  intro r
  split
  · exact Rel.pure f _
  · exact Rel.pure f _
  · refine Rel.bind f (rel_forUntil f _ ?_ _) (fun _ => Rel.pure f _)
    intro x
    split
    · exact Rel.pure f _
    · exact Rel.pure f _
    · refine Rel.bind f (rel_sendCreateIfNew F hev her _ _) ?_
      intro r
      split <;> exact Rel.pure f _

theorem rel_dropIfGone (e : Ev) : Rel R (dropIfGone e) := by
  have f := F.toAdd
  unfold dropIfGone
  split
  · exact Rel.bind f (rel_remove F _ _) (fun _ => rel_markSeen F _ _)
  · exact Rel.pure f _

theorem rel_deliver (p : KW) (e : Ev) : Rel R (deliver p e) := by
  have f := F.toAdd
  unfold deliver
  split
  · exact Rel.bind f (rel_dirChange F hev her _) (fun _ => Rel.pure f _)
  · exact hev _

theorem rel_afterRemove (p : KW) (e : Ev) : Rel R (afterRemove p e) := by
  have f := F.toAdd
  unfold afterRemove
  split
  · split
    · refine Rel.bind f (rel_byPath f _) ?_
      intro x
      obtain ⟨a, found⟩ := x
      simp only []
      split
      · exact Rel.bind f (rel_dirChange F hev her _) (fun _ => her _)
      · exact Rel.pure f _
    · refine Rel.bind f (rel_askLstat f _) ?_
      intro r
      cases r with
      | error e => exact Rel.pure f _
      | ok fi => exact Rel.bind f (rel_sendCreateIfNew F hev her _ _) (fun _ => her _)
  · exact Rel.pure f _

theorem rel_handleKevent (fd : Nat) (m : BitVec 32) : Rel R (handleKevent fd m) := by
  have f := F.toAdd
  unfold handleKevent
  refine Rel.bind f (rel_byWd f _) ?_
  intro x
  obtain ⟨p, ok⟩ := x
  simp only []
  refine Rel.bind f (rel_dropIfGone F hev her _) ?_
  intro _
  refine Rel.bind f (rel_deliver F hev her _ _) ?_
  intro c
  split
  · exact Rel.pure f _
  · exact rel_afterRemove F hev her _ _

theorem rel_handleBatch (evs : List (Nat × BitVec 32)) : Rel R (handleBatch evs) := by
  have f := F.toAdd
  induction evs with
  | nil => exact Rel.pure f _
  | cons e rest ih =>
    obtain ⟨fd, m⟩ := e
    unfold handleBatch
    refine Rel.bind f (rel_handleKevent F hev her _ _) ?_
    intro b
    split
    · exact ih
    · exact Rel.pure f _

theorem rel_reader (n : Nat) : Rel R (reader n) := by
  have f := F.toAdd
  induction n with
  | zero => exact Rel.pure f _
  | succ n ih =>
    intro w
    unfold reader
    split
    · rename_i evs t hw
      have h1 := rel_handleBatch F hev her evs { w with tape := t }
      have h0 : R w { w with tape := t } := f.tape w t w.bad
      dsimp only
      split
      · exact f.trans _ _ _ h0 (f.trans _ _ _ h1 (ih _))
      · exact f.trans _ _ _ h0 h1
    · exact f.refl w

end reader

/-! ## relations -/

/-- nothing is delivered: Events and Errors are as they were -/
def Silent (a b : W) : Prop := b.events = a.events ∧ b.errors = a.errors

theorem frame_silent : Frame Silent where
  refl := fun _ => ⟨rfl, rfl⟩
  trans := fun _ _ _ h1 h2 => ⟨h2.1.trans h1.1, h2.2.trans h1.2⟩
  tape := fun _ _ _ => ⟨rfl, rfl⟩
  opened := fun _ _ _ => ⟨rfl, rfl⟩
  tables := fun _ _ _ _ => ⟨rfl, rfl⟩

/-- no user path appears: the user-added set only shrinks -/
def NoNewUser (a b : W) : Prop := ∀ p, p ∈ b.s.byUser → p ∈ a.s.byUser

theorem frame_noNewUser : Frame NoNewUser where
  refl := fun _ _ h => h
  trans := fun _ _ _ h1 h2 p hp => h1 p (h2 p hp)
  tape := fun _ _ _ _ h => h
  opened := fun _ _ _ _ h => h
  tables := by
    intro w s' hu _ p hp
    rcases hu with hu | ⟨q, hu⟩
    · show p ∈ w.s.byUser; rw [← hu]; exact hp
    · have : p ∈ s'.byUser := hp
      rw [hu] at this
      exact (List.mem_filter.mp this).1

theorem noNewUser_sendEvent (e : Ev) : Rel NoNewUser (sendEvent e) := by
  intro w p hp; unfold sendEvent at hp; split at hp <;> (try split at hp) <;> exact hp

theorem noNewUser_sendError (e : Option Err) : Rel NoNewUser (sendError e) := by
  intro w p hp; unfold sendError at hp; split at hp <;> (try split at hp) <;> exact hp

/-- `Add` delivers nothing: nothing that exists when a watch is added is reported -/
theorem add_silent (name : Path) : Rel Silent (add name) := by
  unfold add
  refine Rel.bind frame_silent.toAdd (rel_addWatch frame_silent.toAdd _ _ _ _) ?_
  intro r
  cases r with
  | error e => exact Rel.pure frame_silent.toAdd _
  | ok p => exact Rel.bind frame_silent.toAdd (fun _ => ⟨rfl, rfl⟩) (fun _ => Rel.pure frame_silent.toAdd _)

/-- `Add` makes at most its own (cleaned) argument a user path -/
theorem add_user (name : Path) (w : W) : ∀ p, p ∈ (add name w).2.s.byUser → p ∈ w.s.byUser ∨ p = clean name := by
  intro p hp
  unfold add at hp
  simp only [bind_apply] at hp
  have h1 := rel_addWatch frame_noNewUser.toAdd fuel name noteAllEvents false w
  cases hr : (addWatch fuel name noteAllEvents false w).1 with
  | error e =>
    rw [hr] at hp
    exact Or.inl (h1 p hp)
  | ok q =>
    rw [hr] at hp
    simp only [addUserWatch, modify, bind_apply, pure_apply] at hp
    have hp' : p ∈ setInsert (clean name) (addWatch fuel name noteAllEvents false w).2.s.byUser := hp
    unfold setInsert at hp'
    split at hp'
    · exact Or.inl (h1 p hp')
    · rcases List.mem_append.mp hp' with h2 | h2
      · exact Or.inl (h1 p h2)
      · simp only [List.mem_singleton] at h2; exact Or.inr h2

end KqF
