import FsnVerif.Proofs.DecodeLemmas
/-!
# `trimNul` (the model of `strings.TrimRight(name, "\x00")`) for every input

No NUL at the end of the result; the input is the result followed by NULs only (nothing else is cut).
-/
namespace Fsn
theorem dropWhile_head_not (p : Nat → Bool) (l : List Nat) : ∀ a, (l.dropWhile p).head? = some a → p a = false := by
  induction l with
  | nil => intro a h; simp at h
  | cons x xs ih =>
    intro a h
    by_cases hx : p x = true
    · rw [List.dropWhile_cons_of_pos hx] at h; exact ih a h
    · rw [List.dropWhile_cons_of_neg hx] at h
      simp at h; subst h; simpa using hx

/-- **no padding byte survives**: whatever bytes the record carries, the trimmed name does not end in NUL -/
theorem trimNul_no_trailing_nul (bs : List Nat) : (trimNul bs).getLast? ≠ some 0 := by
  unfold trimNul
  rw [List.getLast?_reverse]
  intro h
  have := dropWhile_head_not (· == 0) bs.reverse 0 h
  simp at this

theorem takeWhile_all (p : Nat → Bool) (l : List Nat) : ∀ b ∈ l.takeWhile p, p b = true := by
  induction l with
  | nil => intro b h; simp at h
  | cons x xs ih =>
    intro b h
    by_cases hx : p x = true
    · rw [List.takeWhile_cons_of_pos hx] at h
      rcases List.mem_cons.mp h with rfl | h'
      · exact hx
      · exact ih b h'
    · rw [List.takeWhile_cons_of_neg hx] at h; simp at h

/-- trimming only removes a suffix of NULs -/
theorem trimNul_prefix (bs : List Nat) : ∃ k, bs = trimNul bs ++ List.replicate k 0 := by
  unfold trimNul
  have h := List.takeWhile_append_dropWhile (p := (· == 0)) (l := bs.reverse)
  refine ⟨(bs.reverse.takeWhile (· == 0)).length, ?_⟩
  have hz : bs.reverse.takeWhile (· == 0) = List.replicate (bs.reverse.takeWhile (· == 0)).length 0 := by
    apply List.eq_replicate_iff.mpr
    refine ⟨rfl, fun b hb => ?_⟩
    have := takeWhile_all (· == 0) bs.reverse b hb
    simpa using this
  have : bs = (bs.reverse.dropWhile (· == 0)).reverse ++ (bs.reverse.takeWhile (· == 0)).reverse := by
    rw [← List.reverse_append, h, List.reverse_reverse]
  rw [hz, List.reverse_replicate] at this
  simpa using this
end Fsn
