import FsnVerif.Model.Decode
/-! Round trip between the kernel's record layout and the decode loop, for every list of
well-formed records (any number, any name length / padding residue, any position). -/
namespace Fsn

theorem le32_toLe32 (n : Nat) (h : n < 4294967296) : le32 (toLe32 n) = n := by
  simp [le32, toLe32]
  omega

theorem toLe32_length (n : Nat) : (toLe32 n).length = 4 := rfl

/-- what the kernel guarantees about a record (K2): fields fit 32 bits, `len` is the name field's length -/
structure Raw.WF (r : Raw) : Prop where
  wd_lt  : r.wd < 4294967296
  len_lt : r.len < 4294967296
  len_eq : r.name.length = r.len

theorem encode_length (r : Raw) : (encode r).length = 16 + r.name.length := by
  simp [encode, toLe32_length]; omega

private theorem le32_append4 (a b c d : Nat) (t : List Nat) : le32 (a :: b :: c :: d :: t) = le32 [a, b, c, d] := by
  simp [le32]

theorem parseHeader_encode (r : Raw) (h : r.WF) (tail : List Nat) : parseHeader (encode r ++ tail) = r := by
  have hm : r.mask.toNat < 4294967296 := r.mask.isLt
  have hc : r.cookie.toNat < 4294967296 := r.cookie.isLt
  have e1 : le32 (encode r ++ tail) = r.wd := by
    have : le32 (encode r ++ tail) = le32 (toLe32 r.wd) := by simp [encode, toLe32, le32]
    rw [this, le32_toLe32 _ h.wd_lt]
  have e2 : le32 ((encode r ++ tail).drop 4) = r.mask.toNat := by
    have : le32 ((encode r ++ tail).drop 4) = le32 (toLe32 r.mask.toNat) := by simp [encode, toLe32, le32]
    rw [this, le32_toLe32 _ hm]
  have e3 : le32 ((encode r ++ tail).drop 8) = r.cookie.toNat := by
    have : le32 ((encode r ++ tail).drop 8) = le32 (toLe32 r.cookie.toNat) := by simp [encode, toLe32, le32]
    rw [this, le32_toLe32 _ hc]
  have e4 : le32 ((encode r ++ tail).drop 12) = r.len := by
    have : le32 ((encode r ++ tail).drop 12) = le32 (toLe32 r.len) := by simp [encode, toLe32, le32]
    rw [this, le32_toLe32 _ h.len_lt]
  have e5 : ((encode r ++ tail).drop 16).take r.len = r.name := by
    have : (encode r ++ tail).drop 16 = r.name ++ tail := by simp [encode, toLe32]
    rw [this, ← h.len_eq]; simp
  unfold parseHeader
  simp only [e1, e2, e3, e4, e5]
  cases r; simp

theorem drop_encode (r : Raw) (h : r.WF) (tail : List Nat) : (encode r ++ tail).drop (16 + r.len) = tail := by
  have : (encode r).length = 16 + r.len := by rw [encode_length, h.len_eq]
  rw [← this]; simp

/-- the loop visits every record exactly once, in order, whatever follows that is shorter than a header -/
theorem decodeLoop_encode (recs : List Raw) (hwf : ∀ r ∈ recs, r.WF) (trailing : List Nat) (ht : trailing.length < 16)
    (fuel : Nat) (hf : recs.length < fuel) (acc : List Raw) :
    decodeLoop fuel (recs.flatMap encode ++ trailing) acc = .ok (acc.reverse ++ recs) := by
  induction recs generalizing fuel acc with
  | nil =>
    cases fuel with
    | zero => omega
    | succ f => simp [decodeLoop, ht]
  | cons r rs ih =>
    cases fuel with
    | zero => omega
    | succ f =>
      have hr := hwf r (by simp)
      have hrs : ∀ x ∈ rs, x.WF := fun x hx => hwf x (by simp [hx])
      simp only [List.flatMap_cons, List.append_assoc]
      unfold decodeLoop
      have hlen : ¬ (encode r ++ (rs.flatMap encode ++ trailing)).length < 16 := by
        rw [List.length_append, encode_length]; omega
      rw [if_neg hlen]
      simp only [parseHeader_encode r hr]
      have hlen2 : ¬ (encode r ++ (rs.flatMap encode ++ trailing)).length < 16 + r.len := by
        rw [List.length_append, encode_length, hr.len_eq]; omega
      rw [if_neg hlen2, drop_encode r hr]
      rw [ih hrs f (by simp at hf; omega) (r :: acc)]
      try simp

theorem flatMap_encode_length_ge (recs : List Raw) : 16 * recs.length ≤ (recs.flatMap encode).length := by
  induction recs with
  | nil => simp
  | cons r rs ih =>
    rw [List.flatMap_cons, List.length_append, encode_length, List.length_cons]
    omega

/-- **decode ∘ encode = id** on whole buffers (C01: nothing skipped, nothing decoded twice; C08:
names are sliced exactly) -/
theorem decode_encode (recs : List Raw) (hwf : ∀ r ∈ recs, r.WF) (trailing : List Nat) (ht : trailing.length < 16) :
    decodeBuf (recs.flatMap encode ++ trailing) = .ok recs := by
  unfold decodeBuf
  have hlen : recs.length ≤ (recs.flatMap encode ++ trailing).length / 16 := by
    have := flatMap_encode_length_ge recs
    rw [List.length_append]
    omega
  rw [decodeLoop_encode recs hwf trailing ht _ (by omega) []]
  simp

/-! ### names -/

theorem trimNul_append_zeros (nm : List Nat) (k : Nat) (h : nm.getLast? ≠ some 0) :
    trimNul (nm ++ List.replicate k 0) = nm := by
  unfold trimNul
  rw [List.reverse_append, List.reverse_replicate]
  have : List.dropWhile (· == 0) (List.replicate k 0 ++ nm.reverse) = nm.reverse := by
    induction k with
    | zero =>
      simp
      cases hn : nm.reverse with
      | nil => rfl
      | cons x xs =>
        have : nm.getLast? = some x := by
          rw [List.getLast?_eq_head?_reverse, hn]; rfl
        rw [this] at h
        have hx : (x == 0) = false := by
          cases hx : x == 0
          · rfl
          · exact absurd (by simpa using hx) (fun hx' : x = 0 => h (by rw [hx']))
        simp [List.dropWhile, hx]
    | succ k ih => simpa [List.replicate_succ] using ih
  rw [this]; simp

/-- a kernel-padded name decodes to exactly the name: no padding byte, no truncation, for every
length (hence every padding residue 1…16) -/
theorem trimNul_padName (nm : List Nat) (h : nm.getLast? ≠ some 0) : trimNul (padName nm) = nm := by
  unfold padName
  exact trimNul_append_zeros nm _ h

theorem padName_length (nm : List Nat) (h : nm ≠ []) : (padName nm).length = (nm.length / 16 + 1) * 16 := by
  have : nm.length ≠ 0 := by simpa using h
  simp [padName, padLen, this]; omega

end Fsn
