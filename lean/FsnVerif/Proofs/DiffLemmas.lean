import FsnVerif.Model.Diff
/-! Lemmas for C20: an edit script that passes the (executable) validity check turns `a` into `b`. -/
namespace Diff

/-- what an opcode list produces when applied to `a` (taking inserted text from `b`) -/
def applyOps (a b : List Line) : List OpCode → List Line
  | [] => []
  | c :: cs =>
    (if c.tag == 'e' then slice a c.i1 c.i2
     else if c.tag == 'r' || c.tag == 'i' then slice b c.j1 c.j2
     else []) ++ applyOps a b cs

/-- executable validity of an opcode list starting at `(i, j)`: contiguous in both coordinates up
to `(|a|, |b|)`, equal ranges really equal, delete ranges empty in `b`, insert ranges empty in `a` -/
def validFrom (a b : List Line) : Nat → Nat → List OpCode → Bool
  | i, j, [] => i == a.length && j == b.length
  | i, j, c :: cs =>
    c.i1 == i && c.j1 == j && c.i1 ≤ c.i2 && c.j1 ≤ c.j2 && c.i2 ≤ a.length && c.j2 ≤ b.length &&
    (if c.tag == 'e' then slice a c.i1 c.i2 == slice b c.j1 c.j2
     else if c.tag == 'd' then c.j1 == c.j2
     else if c.tag == 'i' then c.i1 == c.i2
     else c.tag == 'r') &&
    validFrom a b c.i2 c.j2 cs

def validOps (a b : List Line) (ops : List OpCode) : Bool := validFrom a b 0 0 ops

theorem slice_append (l : List Line) (i j k : Nat) (h1 : i ≤ j) (h2 : j ≤ k) :
    slice l i j ++ slice l j k = slice l i k := by
  unfold slice
  have : (l.drop j) = (l.drop i).drop (j - i) := by rw [List.drop_drop]; congr 1; omega
  rw [this]
  have hk : k - i = (j - i) + (k - j) := by omega
  rw [hk, List.take_add]

theorem slice_full (l : List Line) (i : Nat) (h : i ≤ l.length) : slice l i l.length = l.drop i := by
  unfold slice
  exact List.take_of_length_le (by simp)

/-- **a valid edit script applied to the first text yields the second** (from any position) -/
theorem apply_validFrom (a b : List Line) (ops : List OpCode) (i j : Nat) (hj : j ≤ b.length)
    (h : validFrom a b i j ops = true) : applyOps a b ops = b.drop j := by
  induction ops generalizing i j with
  | nil =>
    simp only [validFrom, Bool.and_eq_true, beq_iff_eq] at h
    simp [applyOps, h.2]
  | cons c cs ih =>
    simp only [validFrom, Bool.and_eq_true, beq_iff_eq, decide_eq_true_eq] at h
    obtain ⟨⟨⟨⟨⟨⟨⟨h1, h2⟩, h3⟩, h4⟩, h5⟩, h6⟩, h7⟩, h8⟩ := h
    have ihr := ih c.i2 c.j2 h6 h8
    simp only [applyOps, ihr]
    subst h2
    have hsl : slice b c.j1 c.j2 ++ b.drop c.j2 = b.drop c.j1 := by
      rw [← slice_full b c.j2 h6, slice_append b c.j1 c.j2 b.length h4 h6, slice_full b c.j1 (by omega)]
    by_cases he : c.tag = 'e'
    · have he' : (c.tag == 'e') = true := by simp [he]
      rw [if_pos he] at h7
      simp only [he', if_true]
      have h7' : slice a c.i1 c.i2 = slice b c.j1 c.j2 := by simpa using h7
      rw [h7', hsl]
    · have he' : (c.tag == 'e') = false := by simpa using he
      rw [if_neg he] at h7
      simp only [he', Bool.false_eq_true, if_false]
      by_cases hd : c.tag = 'd'
      · rw [if_pos hd] at h7
        have : (c.tag == 'r' || c.tag == 'i') = false := by rw [hd]; decide
        simp only [this, Bool.false_eq_true, if_false, List.nil_append]
        have h7' : c.j1 = c.j2 := by simpa using h7
        rw [h7']
      · rw [if_neg hd] at h7
        have : (c.tag == 'r' || c.tag == 'i') = true := by
          by_cases hi : c.tag = 'i'
          · simp [hi]
          · rw [if_neg hi] at h7; simp [h7]
        simp only [this, if_true]
        exact hsl

theorem apply_valid (a b : List Line) (ops : List OpCode) (h : validOps a b ops = true) : applyOps a b ops = b := by
  have := apply_validFrom a b ops 0 0 (Nat.zero_le _) h
  simpa using this

/-- applying a script made of `equal` opcodes only reproduces a slice of `a`: so a valid all-equal
script means the texts are equal -/
theorem applyOps_all_equal (a b : List Line) (ops : List OpCode) (i j : Nat)
    (h : validFrom a b i j ops = true) (hall : ops.all (fun c => c.tag == 'e') = true) (hi : i ≤ a.length) :
    applyOps a b ops = a.drop i := by
  induction ops generalizing i j with
  | nil =>
    simp only [validFrom, Bool.and_eq_true, beq_iff_eq] at h
    simp [applyOps, h.1]
  | cons c cs ih =>
    simp only [validFrom, Bool.and_eq_true, beq_iff_eq, decide_eq_true_eq] at h
    obtain ⟨⟨⟨⟨⟨⟨⟨h1, h2⟩, h3⟩, h4⟩, h5⟩, h6⟩, h7⟩, h8⟩ := h
    simp only [List.all_cons, Bool.and_eq_true] at hall
    have ihr := ih c.i2 c.j2 h8 hall.2 h5
    simp only [applyOps, hall.1, if_true, ihr]
    subst h1
    rw [← slice_full a c.i2 h5, slice_append a c.i1 c.i2 a.length h3 h5, slice_full a c.i1 (by omega)]

theorem equal_of_valid_all_equal (a b : List Line) (ops : List OpCode) (h : validOps a b ops = true)
    (hall : ops.all (fun c => c.tag == 'e') = true) : a = b := by
  have h1 := apply_valid a b ops h
  have h2 := applyOps_all_equal a b ops 0 0 h hall (Nat.zero_le _)
  simp at h2
  rw [← h1, h2]

/-! ### `splitLines` loses nothing -/

theorem splitAfterNL_ne_nil (s : List Char) : splitAfterNL s ≠ [] := by
  induction s with
  | nil => simp [splitAfterNL]
  | cons c cs ih =>
    unfold splitAfterNL
    split
    · simp
    · split <;> simp

theorem splitAfterNL_flatten (s : List Char) : (splitAfterNL s).flatten = s := by
  induction s with
  | nil => simp [splitAfterNL]
  | cons c cs ih =>
    unfold splitAfterNL
    split
    · rename_i h; exact absurd h (splitAfterNL_ne_nil cs)
    · rename_i l ls h
      rw [h] at ih
      split
      · simp only [List.flatten_cons] at ih ⊢; rw [ih]; simp
      · simp only [List.flatten_cons, List.cons_append] at ih ⊢; rw [ih]

/-- the lines of a text, concatenated, are the text plus one final newline: `splitLines` is injective -/
theorem splitLines_flatten (s : List Char) : (splitLines s).flatten = s ++ ['\n'] := by
  unfold splitLines
  have hf := splitAfterNL_flatten s
  cases hr : (splitAfterNL s).reverse with
  | nil =>
    have : splitAfterNL s = [] := by simpa using hr
    exact absurd this (splitAfterNL_ne_nil s)
  | cons l rest =>
    have hs : splitAfterNL s = rest.reverse ++ [l] := by
      have := congrArg List.reverse hr
      simpa using this
    rw [hs] at hf
    simp only [List.flatten_append, List.flatten_cons, List.flatten_nil, List.append_nil] at hf ⊢
    rw [← hf]; simp

theorem splitLines_injective (s t : List Char) (h : splitLines s = splitLines t) : s = t := by
  have := congrArg List.flatten h
  rw [splitLines_flatten, splitLines_flatten] at this
  exact List.append_cancel_right this

end Diff
