import FsnVerif.Proofs.ProtoTables1Defs
/-! Kernel-evaluated table 1 of 3 (the inductive invariant), part a: reader program counters (allRPc.take 3). -/
namespace Proto

theorem chk_inv_a : ((coreOf (allRPc.take 3)).all invStep) = true := by decide +kernel

end Proto
