import FsnVerif.Model.Inotify
/-! Lemmas about `Lib.handle` / `Lib.stepRecords` (one record, then whole batches). -/
namespace Fsn

theorem newEvent_op (l : Lib) (n : Path) (m c : BitVec 32) : (l.newEvent n m c).2.op = inotifyNewEventOp m := by
  unfold Lib.newEvent; split <;> (try split) <;> (try split) <;> rfl

theorem newEvent_name (l : Lib) (n : Path) (m c : BitVec 32) : (l.newEvent n m c).2.name = n := by
  unfold Lib.newEvent; split <;> (try split) <;> (try split) <;> rfl

theorem newEvent_tables (l : Lib) (n : Path) (m c : BitVec 32) :
    (l.newEvent n m c).1.wdT = l.wdT ∧ (l.newEvent n m c).1.pathT = l.pathT := by
  unfold Lib.newEvent; split <;> (try split) <;> (try split) <;> exact ⟨rfl, rfl⟩

/-- `emit` adds at most one event, and only one with a non-empty operation set, named after the
watch and the record -/
theorem emit_events (l : Lib) (env : Env) (out : Out) (br : Branch) (w : Watch) (r : Raw) :
    (l.emit env out br w r).out.events = out.events ∨
    (∃ e, (l.emit env out br w r).out.events = [e] ∧ e.name = nameOf w r ∧ e.op = inotifyNewEventOp r.mask ∧
      e.op ≠ 0#32 ∧ ¬ ((r.mask &&& IN_DELETE_SELF) != 0#32 && alHas (dir w.path) l.pathT) = true) := by
  unfold Lib.emit
  split
  · exact Or.inl rfl
  · rename_i hsup
    simp only
    split
    · exact Or.inl rfl
    · rename_i hop
      refine Or.inr ⟨_, rfl, newEvent_name .., newEvent_op .., ?_, hsup⟩
      intro h0; exact hop (by simp [h0])

theorem emit_errors (l : Lib) (env : Env) (out : Out) (br : Branch) (w : Watch) (r : Raw) :
    (l.emit env out br w r).out.errors = out.errors := by
  unfold Lib.emit; split <;> (try simp only) <;> (try split) <;> rfl

theorem emit_panic (l : Lib) (env : Env) (out : Out) (br : Branch) (w : Watch) (r : Raw) :
    (l.emit env out br w r).out.panic = out.panic := by
  unfold Lib.emit; split <;> (try simp only) <;> (try split) <;> rfl

theorem recurseAfter_events (h : HRes) (w : Watch) (r : Raw) (reg : Lib → Env → Path → BitVec 32 → Bool → Lib × Env × Out) :
    (Lib.recurseAfter h w r reg).out.events = h.out.events := by
  unfold Lib.recurseAfter
  split
  · split
    · split <;> rfl
    · rfl
  · rfl

theorem recurseAfter_norec (h : HRes) (w : Watch) (r : Raw) (reg : Lib → Env → Path → BitVec 32 → Bool → Lib × Env × Out)
    (hw : w.recurse = false) : Lib.recurseAfter h w r reg = h := by
  unfold Lib.recurseAfter
  simp [hw]

theorem recurseAfter_nodir (h : HRes) (w : Watch) (r : Raw) (reg : Lib → Env → Path → BitVec 32 → Bool → Lib × Env × Out)
    (hd : test r.mask IN_ISDIR = false) : Lib.recurseAfter h w r reg = h := by
  unfold Lib.recurseAfter
  simp [hd]

theorem recurseAfter_panic (h : HRes) (w : Watch) (r : Raw) (reg : Lib → Env → Path → BitVec 32 → Bool → Lib × Env × Out) :
    (Lib.recurseAfter h w r reg).out.panic = h.out.panic := by
  unfold Lib.recurseAfter
  split
  · split
    · split <;> rfl
    · rfl
  · rfl

theorem remove_events (l : Lib) (env : Env) (p : Path) : (l.remove env p).2.2.events = [] := by
  unfold Lib.remove; split <;> rfl

theorem remove_errors (l : Lib) (env : Env) (p : Path) : (l.remove env p).2.2.errors = [] := by
  unfold Lib.remove; split <;> rfl

/-- events possible from the MOVE_SELF branch -/
theorem afterMoveSelf_events (l1 : Lib) (env : Env) (w : Watch) (r : Raw) :
    (l1.afterMoveSelf env w r).out.events = [] ∨
    (∃ e, (l1.afterMoveSelf env w r).out.events = [e] ∧ e.name = nameOf w r ∧ e.op = inotifyNewEventOp r.mask ∧
      e.op ≠ 0#32) := by
  unfold Lib.afterMoveSelf
  simp only
  by_cases hp : (l1.remove env w.path).2.2.panic = true
  · rw [if_pos hp]; exact Or.inl (remove_events ..)
  · rw [if_neg hp]
    split
    all_goals (try split)
    all_goals
      rcases emit_events _ _ _ _ w r with h | ⟨e, he, h1, h2, h3, _⟩
      · exact Or.inl (by rw [h])
      · exact Or.inr ⟨e, he, h1, h2, h3⟩

/-- what one record can produce: nothing, or exactly one event for the listed watch of its wd -/
theorem handle_events (l : Lib) (env : Env) (r : Raw) :
    (l.handle env r).out.events = [] ∨
    (∃ w e, alLookup r.wd l.wdT = some w ∧ (l.handle env r).out.events = [e] ∧ e.name = nameOf w r ∧
      e.op = inotifyNewEventOp r.mask ∧ e.op ≠ 0#32 ∧ ignoredOrUnmount r.mask = false) := by
  unfold Lib.handle
  split
  · exact Or.inl rfl
  · rename_i w hw
    by_cases hign : ignoredOrUnmount r.mask = true
    · rw [if_pos hign]; exact Or.inl rfl
    · have hign' : ignoredOrUnmount r.mask = false := by simpa using hign
      rw [if_neg hign]
      by_cases hm : test r.mask IN_MOVE_SELF = true
      · rw [if_pos hm]
        by_cases hr : w.recurse = true
        · rw [if_pos hr]; exact Or.inl rfl
        · rw [if_neg hr]
          rcases afterMoveSelf_events (l.afterDeleteSelf w r) env w r with h | ⟨e, he, h1, h2, h3⟩
          · exact Or.inl h
          · exact Or.inr ⟨w, e, hw, he, h1, h2, h3, hign'⟩
      · rw [if_neg hm, recurseAfter_events]
        rcases emit_events (l.afterDeleteSelf w r) env {} (if test r.mask IN_DELETE_SELF then .deleteSelf else .plain) w r
          with h | ⟨e, he, h1, h2, h3, _⟩
        · exact Or.inl (by rw [h])
        · exact Or.inr ⟨w, e, hw, he, h1, h2, h3, hign'⟩

theorem stepRecord_events (l : Lib) (env : Env) (r : Raw) :
    (l.stepRecord env r).out.events = (l.handle env r).out.events := by
  unfold Lib.stepRecord; simp only; split <;> rfl

end Fsn

namespace Fsn

theorem Out.append_assoc (a b c : Out) : (a.append b).append c = a.append (b.append c) := by
  simp [Out.append, List.append_assoc, Bool.or_assoc]

theorem Out.append_events (a b : Out) : (a.append b).events = a.events ++ b.events := rfl
theorem Out.append_errors (a b : Out) : (a.append b).errors = a.errors ++ b.errors := rfl

/-- events of a batch: the first record's, then the rest's (from the state the first left) -/
theorem stepRecords_cons_events (l : Lib) (env : Env) (r : Raw) (rs : List Raw)
    (hp : (l.stepRecord env r).out.panic = false) :
    (l.stepRecords env (r :: rs)).2.2.1.events =
      (l.stepRecord env r).out.events ++
      ((l.stepRecord env r).lib.stepRecords (l.stepRecord env r).env rs).2.2.1.events := by
  simp [Lib.stepRecords, hp, Out.append]

/-- no record of the batch panicked -/
def noPanic (l : Lib) (env : Env) (rs : List Raw) : Prop := (l.stepRecords env rs).2.2.1.panic = false

/-- **batching is irrelevant**: handling `rs₁ ++ rs₂` in one read is handling `rs₁` and then `rs₂`
from the state `rs₁` left — same final state, outputs concatenated in order -/
theorem stepRecords_append (l : Lib) (env : Env) (rs1 rs2 : List Raw) (hp : noPanic l env rs1) :
    let a := l.stepRecords env rs1
    let b := a.1.stepRecords a.2.1 rs2
    (l.stepRecords env (rs1 ++ rs2)).1 = b.1 ∧
    (l.stepRecords env (rs1 ++ rs2)).2.1 = b.2.1 ∧
    (l.stepRecords env (rs1 ++ rs2)).2.2.1 = a.2.2.1.append b.2.2.1 := by
  induction rs1 generalizing l env with
  | nil =>
    simp [Lib.stepRecords, Out.append]
  | cons r rs ih =>
    unfold noPanic at hp
    by_cases hpr : (l.stepRecord env r).out.panic = true
    · simp [Lib.stepRecords, hpr] at hp
    · have hpr' : (l.stepRecord env r).out.panic = false := by simpa using hpr
      have hrest : noPanic (l.stepRecord env r).lib (l.stepRecord env r).env rs := by
        unfold noPanic
        simp [Lib.stepRecords, hpr', Out.append] at hp
        exact hp
      have := ih (l.stepRecord env r).lib (l.stepRecord env r).env hrest
      simp only [List.cons_append, Lib.stepRecords, hpr', Bool.false_eq_true, if_false] at this ⊢
      obtain ⟨h1, h2, h3⟩ := this
      refine ⟨h1, h2, ?_⟩
      rw [h3, Out.append_assoc]

/-- what `newEvent` does to the ring: only a move-out with a non-zero cookie stores -/
theorem newEvent_ring (l : Lib) (name : Path) (mask cookie : BitVec 32) :
    (l.newEvent name mask cookie).1.ring =
      if cookie != 0#32 && test mask IN_MOVED_FROM then l.ring.store cookie name else l.ring := by
  unfold Lib.newEvent
  by_cases hc : (cookie != 0#32) = true <;> by_cases hf : test mask IN_MOVED_FROM = true <;>
    simp [hc, hf] <;> (try split) <;> rfl

/-- what old name an event carries: only a move-in (that is not also a move-out) with a non-zero
cookie looks one up -/
theorem newEvent_renamedFrom (l : Lib) (name : Path) (mask cookie : BitVec 32) :
    (l.newEvent name mask cookie).2.renamedFrom =
      if cookie != 0#32 && !test mask IN_MOVED_FROM && test mask IN_MOVED_TO then l.ring.find cookie else [] := by
  unfold Lib.newEvent
  by_cases hc : (cookie != 0#32) = true <;> by_cases hf : test mask IN_MOVED_FROM = true <;>
    by_cases ht : test mask IN_MOVED_TO = true <;> simp [hc, hf, ht]


end Fsn
