import FsnVerif.Generated.Skeleton
import FsnVerif.Expected.Skeleton
/-! Tie T (capacities, syscall sites, package-level state). -/
namespace SkeletonTie

theorem syscalls_ok : Gen.syscalls = Expected.syscalls := by decide +kernel
theorem chanCaps_ok : Gen.chanCaps = Expected.chanCaps := by decide +kernel
theorem pkgVars_ok : Gen.pkgVarsWritten = [] ∧ Gen.pkgVars = Expected.pkgVars := by decide +kernel

end SkeletonTie
