import FsnVerif.Model.Kqueue
import FsnVerif.Proofs.ALLemmas
import FsnVerif.Proofs.InvLemmas
/-! The kqueue descriptor invariant: open descriptors = wd-table keys, preserved by add / remove /
Close; Close releases everything. -/
namespace Kq
open Fsn

structure KInv (s : KState) : Prop where
  open_sub : ∀ fd, fd ∈ s.openFds → ∃ w, alLookup fd s.wd = some w
  wd_open : ∀ fd w, alLookup fd s.wd = some w → fd ∈ s.openFds
  named : ∀ fd w, alLookup fd s.wd = some w → w.wd = fd ∧ alLookup w.name s.path = some fd

theorem inv_init : KInv {} where
  open_sub := by intro fd h; simp at h
  wd_open := by intro fd w h; simp [alLookup] at h
  named := by intro fd w h; simp [alLookup] at h

/-- adding a path that is not watched yet, with a descriptor the kernel just handed out -/
theorem KInv.addOk {s : KState} (h : KInv s) (p link : Path) (fd : Nat) (isDir : Bool)
    (hfresh : fd ∉ s.openFds)
    (hnew : ∀ fd' w, alLookup p s.path = some fd' → alLookup fd' s.wd = some w → False) :
    KInv (s.addOk p link fd isDir) := by
  have hnowd : alLookup fd s.wd = none := by
    cases hl : alLookup fd s.wd with
    | none => rfl
    | some w => exact absurd (h.wd_open fd w hl) hfresh
  refine ⟨?_, ?_, ?_⟩
  · intro fd' hfd'
    simp only [KState.addOk, KState.tblAdd, List.mem_cons] at hfd' ⊢
    by_cases he : fd' = fd
    · subst he; exact ⟨_, alLookup_insert_same _ _ _⟩
    · rcases hfd' with h1 | h1
      · exact absurd h1 he
      · obtain ⟨w, hw⟩ := h.open_sub fd' h1
        exact ⟨w, by rw [alLookup_insert_other _ _ _ _ he]; exact hw⟩
  · intro fd' w hw
    simp only [KState.addOk, KState.tblAdd, List.mem_cons] at hw ⊢
    by_cases he : fd' = fd
    · exact Or.inl he
    · rw [alLookup_insert_other _ _ _ _ he] at hw
      exact Or.inr (h.wd_open fd' w hw)
  · intro fd' w hw
    simp only [KState.addOk, KState.tblAdd] at hw ⊢
    by_cases he : fd' = fd
    · subst he
      rw [alLookup_insert_same] at hw; injection hw with hw; subst hw
      exact ⟨rfl, alLookup_insert_same _ _ _⟩
    · rw [alLookup_insert_other _ _ _ _ he] at hw
      obtain ⟨a, b⟩ := h.named fd' w hw
      refine ⟨a, ?_⟩
      have hne : w.name ≠ p := by
        intro hh; rw [hh] at b; exact hnew fd' w b hw
      rw [alLookup_insert_other _ _ _ _ hne]; exact b

theorem KInv.rmOne {s : KState} (h : KInv s) (name : Path) (ok : Bool) : KInv (s.rmOne name ok) := by
  unfold KState.rmOne
  cases hp : alLookup name s.path with
  | none => simp only [hp]; exact h
  | some fd =>
    simp only [hp]
    cases hw : alLookup fd s.wd with
    | none => simp only [hw]; exact h
    | some w0 =>
      simp only [hw]
      cases ok with
      | false => exact h
      | true =>
        simp only [Bool.not_true, Bool.false_eq_true, if_false]
        obtain ⟨hw0a, hw0b⟩ := h.named fd w0 hw
        refine ⟨?_, ?_, ?_⟩
        · intro fd' hfd'
          simp only [KState.tblRemove, List.mem_filter, bne_iff_ne, ne_eq] at hfd' ⊢
          obtain ⟨w, hw'⟩ := h.open_sub fd' hfd'.1
          exact ⟨w, by rw [alLookup_erase_other _ _ _ hfd'.2]; exact hw'⟩
        · intro fd' w hw'
          simp only [KState.tblRemove, List.mem_filter, bne_iff_ne, ne_eq] at hw' ⊢
          by_cases he : fd' = fd
          · subst he; rw [alLookup_erase_same] at hw'; cases hw'
          · rw [alLookup_erase_other _ _ _ he] at hw'
            exact ⟨h.wd_open fd' w hw', he⟩
        · intro fd' w hw'
          simp only [KState.tblRemove] at hw' ⊢
          by_cases he : fd' = fd
          · subst he; rw [alLookup_erase_same] at hw'; cases hw'
          · rw [alLookup_erase_other _ _ _ he] at hw'
            obtain ⟨a, b⟩ := h.named fd' w hw'
            refine ⟨a, ?_⟩
            have hne : w.name ≠ name := by
              intro hh; rw [hh, hp] at b; injection b with b; exact he b.symm
            rw [alLookup_erase_other _ _ _ hne]; exact b

/-- what `rmOne` leaves: every remaining entry is an old entry whose name is not `name` -/
theorem rmOne_entries {s : KState} (h : KInv s) (name : Path) (fd : Nat) (w : KW)
    (hw : alLookup fd (s.rmOne name true).wd = some w) : alLookup fd s.wd = some w ∧ w.name ≠ name := by
  unfold KState.rmOne at hw
  cases hp : alLookup name s.path with
  | none =>
    simp only [hp] at hw
    refine ⟨hw, ?_⟩
    intro hh
    have := (h.named fd w hw).2; rw [hh, hp] at this; cases this
  | some fd0 =>
    simp only [hp] at hw
    cases hw0 : alLookup fd0 s.wd with
    | none =>
      simp only [hw0] at hw
      refine ⟨hw, ?_⟩
      intro hh
      have := (h.named fd w hw).2; rw [hh, hp] at this; injection this with this
      subst this; rw [hw0] at hw; cases hw
    | some w0 =>
      simp only [hw0, Bool.not_true, Bool.false_eq_true, if_false, KState.tblRemove] at hw
      by_cases he : fd = fd0
      · subst he; rw [alLookup_erase_same] at hw; cases hw
      · rw [alLookup_erase_other _ _ _ he] at hw
        refine ⟨hw, ?_⟩
        intro hh
        have := (h.named fd w hw).2; rw [hh, hp] at this; injection this with this
        exact he this.symm

theorem foldl_rmOne_inv (ks : List Path) (s : KState) (h : KInv s) :
    KInv (ks.foldl (fun acc p => acc.rmOne p true) s) := by
  induction ks generalizing s with
  | nil => exact h
  | cons k ks ih => exact ih _ (h.rmOne k true)

theorem foldl_rmOne_clears (ks : List Path) (s : KState) (h : KInv s)
    (hall : ∀ fd w, alLookup fd s.wd = some w → w.name ∈ ks) :
    ∀ fd, alLookup fd (ks.foldl (fun acc p => acc.rmOne p true) s).wd = none := by
  induction ks generalizing s with
  | nil =>
    intro fd
    cases hl : alLookup fd s.wd with
    | none => exact hl
    | some w => exact absurd (hall fd w hl) (by simp)
  | cons k ks ih =>
    intro fd
    apply ih _ (h.rmOne k true)
    intro fd' w hw
    obtain ⟨a, b⟩ := rmOne_entries h k fd' w hw
    have := hall fd' w a
    rcases List.mem_cons.mp this with h1 | h1
    · exact absurd h1 b
    · exact h1

/-- **Close releases every descriptor** (finding F4 repaired: `Close` uses the removal that does not
look at the closed flag) -/
theorem close_releases_all (s : KState) (h : KInv s) : (s.closeAll).openFds = [] := by
  unfold KState.closeAll
  have h0 : KInv { s with closed := true } := ⟨h.open_sub, h.wd_open, h.named⟩
  have hclear := foldl_rmOne_clears (s.path.map (·.1)) { s with closed := true } h0 (by
    intro fd w hw
    exact mem_keys_of_lookup (h.named fd w hw).2)
  have hinv := foldl_rmOne_inv (s.path.map (·.1)) { s with closed := true } h0
  generalize List.foldl (fun (acc : KState) p => acc.rmOne p true) { s with closed := true } (s.path.map (·.1)) = fin
    at hclear hinv
  cases hl : fin.openFds with
  | nil => rfl
  | cons fd rest =>
    obtain ⟨w, hw⟩ := hinv.open_sub fd (by rw [hl]; simp)
    rw [hclear fd] at hw; cases hw

end Kq
