import FsnVerif.Generated.Skeleton
import FsnVerif.Expected.Skeleton
/-!
# Tie T (concurrency skeleton): regenerated from the source on every run = hand-reviewed expectation
-/
namespace SkeletonTie
open Skel

def lookupFn (n : String) (sk : List FnSkel) : Option (List SkOp) :=
  match sk.find? (fun f => f.name == n) with
  | some f => some f.ops
  | none => none

/-- the functions the protocol model (`Model/Proto`) abstracts -/
def protocolFns : List String :=
  ["shared.close", "shared.isClosed", "shared.sendEvent", "shared.sendError", "newShared", "newBackend",
   "inotify.Close", "inotify.readEvents", "inotify.Add", "inotify.AddWith", "inotify.Remove", "inotify.WatchList",
   "inotify.handleEvent", "inotify.remove", "inotify.register", "NewWatcher", "NewBufferedWatcher"]

def expectedOf (n : String) : Option (List SkOp) :=
  match Expected.functions.find? (fun f => f.1 == n) with
  | some f => some f.2
  | none => none

/-- the functions that run entirely under `mu` on behalf of a protocol function: the protocol model
sees them through `Skel.quiet` (bookkeeping-only conditionals do not matter to it) -/
def leafFns : List String := ["inotify.handleEvent", "inotify.register", "inotify.remove"]

def viewOf (n : String) (ops : Option (List SkOp)) : Option (List SkOp) :=
  if leafFns.contains n then ops.map Skel.quiet else ops.map Skel.lite

end SkeletonTie
