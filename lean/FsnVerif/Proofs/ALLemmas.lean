import FsnVerif.Model.Inotify
/-! Association lists as Go maps: lookup after insert / erase. -/
namespace Fsn
variable {κ ν : Type} [DecidableEq κ]

theorem alLookup_insert_same (k : κ) (v : ν) (l : List (κ × ν)) : alLookup k (alInsert k v l) = some v := by
  induction l with
  | nil => simp [alInsert, alLookup]
  | cons h t ih =>
    obtain ⟨k', v'⟩ := h
    unfold alInsert
    by_cases hk : k' = k
    · simp [hk, alLookup]
    · simp [hk, alLookup, ih]

theorem alLookup_insert_other (k k2 : κ) (v : ν) (l : List (κ × ν)) (h : k2 ≠ k) :
    alLookup k2 (alInsert k v l) = alLookup k2 l := by
  induction l with
  | nil => simp [alInsert, alLookup, Ne.symm h]
  | cons hd t ih =>
    obtain ⟨k', v'⟩ := hd
    unfold alInsert
    by_cases hk : k' = k
    · subst hk; simp [alLookup, Ne.symm h]
    · simp only [hk, if_false]
      by_cases hk2 : k' = k2
      · simp [alLookup, hk2]
      · simp [alLookup, hk2, ih]

theorem alLookup_erase_same (k : κ) (l : List (κ × ν)) : alLookup k (alErase k l) = none := by
  induction l with
  | nil => rfl
  | cons hd t ih =>
    obtain ⟨k', v'⟩ := hd
    unfold alErase
    by_cases hk : k' = k
    · simp only [List.filter_cons, hk, decide_true, Bool.not_true, Bool.false_eq_true, if_false]; exact ih
    · simp only [List.filter_cons, hk, decide_false, Bool.not_false, if_true, alLookup]; exact ih

theorem alLookup_erase_other (k k2 : κ) (l : List (κ × ν)) (h : k2 ≠ k) :
    alLookup k2 (alErase k l) = alLookup k2 l := by
  induction l with
  | nil => rfl
  | cons hd t ih =>
    obtain ⟨k', v'⟩ := hd
    unfold alErase
    by_cases hk : k' = k
    · subst hk
      simp only [List.filter_cons, decide_true, Bool.not_true, Bool.false_eq_true, if_false, alLookup, Ne.symm h]
      exact ih
    · simp only [List.filter_cons, hk, decide_false, Bool.not_false, if_true, alLookup]
      by_cases hk2 : k' = k2
      · simp [hk2]
      · simp only [hk2, if_false]; exact ih

theorem alHas_erase_same (k : κ) (l : List (κ × ν)) : alHas k (alErase k l) = false := by
  simp [alHas, alLookup_erase_same]

end Fsn
