import FsnVerif.Model.Kernel
import FsnVerif.Proofs.InvLemmas
/-!
# The library's tables and the kernel's marks, step by step

What each library operation does to the key set of the `wd` table and to the kernel's mark set
(through `inotify_rm_watch`), in the form needed for the joint invariant of `Model/Kernel`.
-/
namespace Kern
open Fsn

theorem alHas_insert' {κ ν : Type} [DecidableEq κ] (k k2 : κ) (v : ν) (l : List (κ × ν)) :
    alHas k2 (alInsert k v l) = (decide (k2 = k) || alHas k2 l) := by
  by_cases h : k2 = k
  · subst h; simp [alHas, alLookup_insert_same]
  · simp [alHas, alLookup_insert_other _ _ _ _ h, h]

theorem alHas_erase' {κ ν : Type} [DecidableEq κ] (k k2 : κ) (l : List (κ × ν)) :
    alHas k2 (alErase k l) = (!decide (k2 = k) && alHas k2 l) := by
  by_cases h : k2 = k
  · subst h; simp [alHas, alLookup_erase_same]
  · simp [alHas, alLookup_erase_other _ _ _ h, h]

theorem alHas_of_lookup {κ ν : Type} [DecidableEq κ] {k : κ} {v : ν} {l : List (κ × ν)} (h : alLookup k l = some v) :
    alHas k l = true := by simp [alHas, h]

/-- keys of the `wd` table after `applyAdd`: the answered descriptor is in, the path's previous
descriptor (if it is another one) is out, nothing else changes -/
theorem applyAdd_has {l : Lib} (h : l.Inv) (path : Path) (fl : BitVec 32) (rc : Bool) (wd : Nat) (x : Nat) :
    alHas x (l.applyAdd path fl rc wd).wdT =
      (decide (x = wd) || (alHas x l.wdT && !(decide (alLookup path l.pathT = some x) && decide (x ≠ wd)))) := by
  unfold Lib.applyAdd
  -- the two cases of the final formula, for a stored entry whose descriptor is `wd`
  have fin : ∀ (upd : Watch) (old : Nat), upd.wd = wd → (alLookup path l.pathT).getD 0 = old →
      (old = 0 → alLookup path l.pathT = none) → (old ≠ 0 → alLookup path l.pathT = some old) →
      alHas x (if (upd.wd != old) = true then alErase old (alInsert upd.wd upd l.wdT) else alInsert upd.wd upd l.wdT) =
        (decide (x = wd) || (alHas x l.wdT && !(decide (alLookup path l.pathT = some x) && decide (x ≠ wd)))) := by
    intro upd old hw _ h0 h1
    rw [hw]
    by_cases hk : wd = old
    · subst hk
      simp only [bne_self_eq_false, Bool.false_eq_true, if_false, alHas_insert']
      by_cases hx : x = wd
      · simp [hx]
      · simp only [hx, decide_false, Bool.false_or, ne_eq, not_false_eq_true, decide_true, Bool.and_true]
        have : alLookup path l.pathT ≠ some x := by
          intro hc
          by_cases h00 : wd = 0
          · rw [h0 h00] at hc; cases hc
          · rw [h1 h00] at hc; injection hc with hc; exact hx hc.symm
        simp [this]
    · have : (wd != old) = true := by simpa using hk
      simp only [this, if_true, alHas_erase', alHas_insert']
      by_cases ho : old = 0
      · subst ho
        rw [h0 rfl]
        by_cases hx0 : x = 0
        · subst hx0
          have : alHas 0 l.wdT = false := by simp [alHas, h.no_zero]
          simp [this, Ne.symm hk]
        · simp [hx0]
      · rw [h1 ho]
        by_cases hxk : x = old
        · subst hxk
          simp [Ne.symm hk]
        · have : ¬ (old = x) := fun e => hxk e.symm
          simp [hxk, this]
  cases hp : alLookup path l.pathT with
  | none =>
    cases he : alLookup wd l.wdT with
    | some e =>
      simp only [he, Option.getD_none, Option.bind_none]
      have := fin e 0 (h.bwd _ _ he).1 (by simp [hp]) (fun _ => hp) (fun hh => absurd rfl hh)
      rw [hp] at this
      exact this
    | none =>
      simp only [he, Option.getD_none, Option.bind_none]
      have := fin { wd := wd, path := path, flags := fl, recurse := rc } 0 rfl (by simp [hp]) (fun _ => hp) (fun hh => absurd rfl hh)
      rw [hp] at this
      exact this
  | some k =>
    obtain ⟨w, hw, _, hww⟩ := h.fwd _ _ hp
    have hk0 : k ≠ 0 := by
      intro hk; subst hk; rw [h.no_zero] at hw; cases hw
    cases he : alLookup wd l.wdT with
    | some e =>
      simp only [he, Option.getD_some]
      have := fin e k (h.bwd _ _ he).1 (by simp [hp]) (fun hh => absurd hh hk0) (fun _ => hp)
      rw [hp] at this
      exact this
    | none =>
      simp only [he, Option.getD_some, Option.bind_some, hw]
      have := fin { w with wd := wd, flags := fl } k rfl (by simp [hp]) (fun hh => absurd hh hk0) (fun _ => hp)
      rw [hp] at this
      exact this


/-! ## `inotify_rm_watch` on the mark set -/

theorem rm_marks (env : Env) (hnd : env.marks.Nodup) (wd x : Nat) :
    (x ∈ (env.rm wd).1.marks ↔ x ∈ env.marks ∧ x ≠ wd) ∧ (env.rm wd).1.marks.Nodup := by
  unfold Env.rm
  by_cases hc : env.marks.contains wd = true
  · simp only [hc, if_true]
    refine ⟨?_, hnd.erase _⟩
    rw [hnd.mem_erase_iff]
    exact ⟨fun h => ⟨h.2, h.1⟩, fun h => ⟨h.2, h.1⟩⟩
  · simp only [hc, if_false]
    have : wd ∉ env.marks := by simpa using hc
    refine ⟨⟨fun h => ⟨h, fun e => this (e ▸ h)⟩, fun h => h.1⟩, hnd⟩

theorem rm_addWatch (env : Env) (wd : Nat) : (env.rm wd).1.addWatch = env.addWatch := by
  unfold Env.rm; split <;> rfl

/-! ## `Add` -/

theorem recursivePath_off (p : Path) : recursivePath false p = (clean p, false) := by simp [recursivePath]

/-- the kernel refuses: nothing changes -/
theorem add_err (l : Lib) (env : Env) (arg : Path) (ops : BitVec 32) (nf : Bool) (e : String)
    (hk : ∀ p f, env.addWatch p f = .error e) :
    (l.add env arg ops nf).1 = l ∧ (l.add env arg ops nf).2.1 = env ∧ (l.add env arg ops nf).2.2.ret.isSome = true := by
  unfold Lib.add
  rw [recursivePath_off]
  unfold Lib.register
  simp [hk]

/-- the kernel answers `wd`: the descriptor is known and marked afterwards, the path's previous
descriptor (if another) is neither, nothing else changes -/
theorem add_ok {l : Lib} (h : l.Inv) (env : Env) (hnd : env.marks.Nodup) (arg : Path) (ops : BitVec 32) (nf : Bool) (wd : Nat)
    (hk : ∀ p f, env.addWatch p f = .ok wd) :
    (l.add env arg ops nf).2.2.ret = none ∧
    (∀ x, alHas x (l.add env arg ops nf).1.wdT =
      (decide (x = wd) || (alHas x l.wdT && !(decide (alLookup (clean arg) l.pathT = some x) && decide (x ≠ wd))))) ∧
    (∀ x, x ∈ (l.add env arg ops nf).2.1.marks ↔
      ((x = wd ∨ x ∈ env.marks) ∧ ¬(alLookup (clean arg) l.pathT = some x ∧ x ≠ wd))) ∧
    (l.add env arg ops nf).2.1.marks.Nodup := by
  unfold Lib.add
  rw [recursivePath_off]
  unfold Lib.register
  simp only [hk]
  -- the mark set once the kernel has (perhaps) created the mark
  have h1 : ∀ x, x ∈ (if env.marks.contains wd = true then env else { env with marks := wd :: env.marks }).marks ↔ (x = wd ∨ x ∈ env.marks) := by
    intro x
    split
    · rename_i hc
      have : wd ∈ env.marks := by simpa using hc
      exact ⟨fun hx => Or.inr hx, fun hx => hx.elim (fun e => e ▸ this) id⟩
    · exact List.mem_cons
  have h1n : (if env.marks.contains wd = true then env else { env with marks := wd :: env.marks }).marks.Nodup := by
    split
    · exact hnd
    · rename_i hc
      have : wd ∉ env.marks := by simpa using hc
      exact List.nodup_cons.mpr ⟨this, hnd⟩
  refine ⟨trivial, fun x => applyAdd_has h _ _ _ _ x, ?_, ?_⟩
  · intro x
    cases hp : alLookup (clean arg) l.pathT with
    | none =>
      simp only [Option.bind_none]
      rw [h1 x]; simp
    | some k =>
      obtain ⟨w, hw, _, hww⟩ := h.fwd _ _ hp
      simp only [Option.bind_some, hw, hww]
      by_cases hkw : k = wd
      · subst hkw
        simp only [bne_self_eq_false, Bool.false_eq_true, if_false]
        rw [h1 x]
        constructor
        · intro hx; exact ⟨hx, fun hc => hc.2 (by injection hc.1 with e; exact e.symm)⟩
        · intro hx; exact hx.1
      · have : (k != wd) = true := by simpa using hkw
        simp only [this, if_true]
        rw [(rm_marks _ h1n k x).1, h1 x]
        constructor
        · rintro ⟨hx, hne⟩
          exact ⟨hx, fun hc => hne (by injection hc.1 with e; exact e.symm)⟩
        · rintro ⟨hx, hne⟩
          refine ⟨hx, fun e => hne ⟨by rw [e], ?_⟩⟩
          rw [e]; exact hkw
  · cases hp : alLookup (clean arg) l.pathT with
    | none => simp only [Option.bind_none]; exact h1n
    | some k =>
      obtain ⟨w, hw, _, hww⟩ := h.fwd _ _ hp
      simp only [Option.bind_some, hw, hww]
      split
      · exact (rm_marks _ h1n k 0).2
      · exact h1n

/-! ## `Remove` -/

theorem dropWatch_has (l : Lib) (w : Watch) (x : Nat) : alHas x (l.dropWatch w).wdT = (!decide (x = w.wd) && alHas x l.wdT) := by
  unfold Lib.dropWatch; exact alHas_erase' _ _ _

/-- `Remove`: nothing happens, or one entry is dropped and its mark released -/
theorem remove_effect {l : Lib} (h : l.Inv) (hn : l.NoRec) (env : Env) (hnd : env.marks.Nodup) (arg : Path) :
    ((l.remove env arg).1 = l ∧ (l.remove env arg).2.1 = env) ∨
    (∃ w, alLookup w.wd l.wdT = some w ∧ (l.remove env arg).1 = l.dropWatch w ∧
      (∀ x, x ∈ (l.remove env arg).2.1.marks ↔ x ∈ env.marks ∧ x ≠ w.wd) ∧ (l.remove env arg).2.1.marks.Nodup) := by
  unfold Lib.remove
  rcases Lib.removePath_spec h hn arg with ⟨_, he⟩ | ⟨wd, w, _, hw, hww, _, he⟩
  · rw [he]; exact Or.inl ⟨rfl, rfl⟩
  · rw [he]
    right
    refine ⟨w, by rw [hww]; exact hw, rfl, ?_⟩
    have hm := rm_marks env hnd wd
    simp only [rmAll]
    cases hr : env.rm wd with
    | mk env' ok =>
      rw [hr] at hm
      cases ok <;> simp only [rmAll] <;> rw [hww] <;> exact ⟨fun x => (hm x).1, (hm 0).2⟩


/-! ## the reader -/

/-- what handling one record can do to the key set of the `wd` table and to the mark set -/
structure ReadEffect (l : Lib) (env : Env) (r : Raw) (l' : Lib) (env' : Env) : Prop where
  keys_shrink : ∀ x, alHas x l'.wdT = true → alHas x l.wdT = true
  marks_shrink : ∀ x, x ∈ env'.marks → x ∈ env.marks
  marks_nodup : env'.marks.Nodup
  released_dropped : ∀ x, x ∈ env.marks → x ∉ env'.marks → alHas x l'.wdT = false
  dropped_why : ∀ x, alHas x l.wdT = true → alHas x l'.wdT = false → (x = r.wd ∧ gone r.mask = true) ∨ x ∉ env'.marks
  gone_dropped : gone r.mask = true → alHas r.wd l'.wdT = false

theorem ReadEffect.refl (l : Lib) (env : Env) (hnd : env.marks.Nodup) (r : Raw) (hg : gone r.mask = true → alHas r.wd l.wdT = false) :
    ReadEffect l env r l env :=
  ⟨fun _ h => h, fun _ h => h, hnd, fun x h1 h2 => absurd h1 h2, fun x h1 h2 => (by rw [h1] at h2; cases h2), hg⟩

/-- tables after `emit` are the tables before -/
theorem emit_wdT (l : Lib) (env : Env) (out : Out) (br : Branch) (w : Watch) (r : Raw) :
    (l.emit env out br w r).lib.wdT = l.wdT ∧ (l.emit env out br w r).env = env := by
  unfold Lib.emit
  split
  · exact ⟨rfl, rfl⟩
  · simp only
    split <;> exact ⟨(newEvent_tables _ _ _ _).1, rfl⟩

theorem handle_effect {l : Lib} (h : l.Inv) (hn : l.NoRec) (env : Env) (hnd : env.marks.Nodup) (r : Raw) :
    ReadEffect l env r (l.stepRecord env r).lib (l.stepRecord env r).env := by
  have hsr : (l.stepRecord env r).lib = (l.handle env r).lib ∧ (l.stepRecord env r).env = (l.handle env r).env := by
    unfold Lib.stepRecord; simp only; split <;> exact ⟨rfl, rfl⟩
  rw [hsr.1, hsr.2]
  unfold Lib.handle
  split
  · rename_i hnone
    exact ReadEffect.refl l env hnd r (fun _ => by simp [alHas, hnone])
  · rename_i w hw
    obtain ⟨hwwd, _⟩ := h.bwd _ _ hw
    have hww : alLookup w.wd l.wdT = some w := by rw [hwwd]; exact hw
    -- dropping `w` (because the record says its mark is gone)
    have drop_eff : gone r.mask = true → ReadEffect l env r (l.dropWatch w) env := by
      intro hg
      refine ⟨?_, fun _ h => h, hnd, fun x h1 h2 => absurd h1 h2, ?_, ?_⟩
      · intro x hx; rw [dropWatch_has] at hx; simp at hx; exact hx.2
      · intro x hx hx'
        rw [dropWatch_has, hx] at hx'
        simp at hx'
        exact Or.inl ⟨by rw [hx', hwwd], hg⟩
      · intro _; rw [dropWatch_has, hwwd]; simp
    by_cases hign : ignoredOrUnmount r.mask = true
    · rw [if_pos hign]
      exact drop_eff (by simp [gone, hign])
    · rw [if_neg hign]
      -- the state after the DELETE_SELF clean-up
      have l1_eff : ReadEffect l env r (l.afterDeleteSelf w r) env := by
        unfold Lib.afterDeleteSelf
        split
        · rename_i hd; exact drop_eff (by simp [gone, hd])
        · rename_i hd
          exact ReadEffect.refl l env hnd r (fun hg => by
            simp only [gone, Bool.or_eq_true] at hg
            rcases hg with hg | hg
            · exact absurd hg hign
            · exact absurd hg hd)
      obtain ⟨hi1, hn1⟩ := h.afterDeleteSelf hn w hww r
      by_cases hm : test r.mask IN_MOVE_SELF = true
      · rw [if_pos hm, if_neg (by rw [hn.entries _ _ hw]; simp)]
        -- `remove(watch.path)` on the state after the clean-up, then `emit`
        have hfin : ((l.afterDeleteSelf w r).afterMoveSelf env w r).lib.wdT = ((l.afterDeleteSelf w r).remove env w.path).1.wdT ∧
            ((l.afterDeleteSelf w r).afterMoveSelf env w r).env = ((l.afterDeleteSelf w r).remove env w.path).2.1 := by
          unfold Lib.afterMoveSelf
          simp only
          split
          · exact ⟨rfl, rfl⟩
          · split
            all_goals (try split)
            all_goals exact emit_wdT _ _ _ _ _ _
        have hkeys : ∀ x, alHas x ((l.afterDeleteSelf w r).afterMoveSelf env w r).lib.wdT = alHas x ((l.afterDeleteSelf w r).remove env w.path).1.wdT := by
          intro x; rw [hfin.1]
        rw [hfin.2]
        rcases remove_effect hi1 hn1 env hnd w.path with ⟨e1, e2⟩ | ⟨w', hw', e1, e2, e3⟩
        · -- nothing removed
          refine ⟨?_, ?_, ?_, ?_, ?_, ?_⟩
          · intro x hx; rw [hkeys, e1] at hx; exact l1_eff.keys_shrink x hx
          · intro x hx; rw [e2] at hx; exact hx
          · rw [e2]; exact hnd
          · intro x h1 h2; rw [e2] at h2; exact absurd h1 h2
          · intro x h1 h2; rw [hkeys, e1] at h2; rw [e2]; exact l1_eff.dropped_why x h1 h2
          · intro hg; rw [hkeys, e1]; exact l1_eff.gone_dropped hg
        · refine ⟨?_, ?_, e3, ?_, ?_, ?_⟩
          · intro x hx
            rw [hkeys, e1, dropWatch_has] at hx
            simp at hx
            exact l1_eff.keys_shrink x hx.2
          · intro x hx; exact ((e2 x).mp hx).1
          · intro x h1 h2
            have : x = w'.wd := by
              by_cases hxw : x = w'.wd
              · exact hxw
              · exact absurd ((e2 x).mpr ⟨h1, hxw⟩) h2
            rw [hkeys, e1, dropWatch_has, this]; simp
          · intro x h1 h2
            rw [hkeys, e1, dropWatch_has] at h2
            by_cases hxw : x = w'.wd
            · right; intro hc; exact ((e2 x).mp hc).2 hxw
            · simp [hxw] at h2
              rcases l1_eff.dropped_why x h1 h2 with h3 | h3
              · exact Or.inl h3
              · right; intro hc; exact h3 ((e2 x).mp hc).1
          · intro hg
            rw [hkeys, e1, dropWatch_has, l1_eff.gone_dropped hg]; simp
      · rw [if_neg hm, recurseAfter_norec _ _ _ _ (hn.entries _ _ hw)]
        have := emit_wdT (l.afterDeleteSelf w r) env {} (if test r.mask IN_DELETE_SELF then .deleteSelf else .plain) w r
        rw [this.2]
        refine ⟨?_, l1_eff.marks_shrink, hnd, fun x h1 h2 => absurd h1 h2, ?_, ?_⟩
        · intro x hx; rw [this.1] at hx; exact l1_eff.keys_shrink x hx
        · intro x h1 h2; rw [this.1] at h2; exact l1_eff.dropped_why x h1 h2
        · intro hg; rw [this.1]; exact l1_eff.gone_dropped hg

end Kern
