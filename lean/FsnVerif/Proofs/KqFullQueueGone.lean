import FsnVerif.Proofs.KqFullInv
/-!
# `Close` when the queue is gone already (finding F18, repaired)

`Close()` marks the Watcher closed and then runs `rm` for every path. The reader goroutine exits as soon as a
send finds the Watcher closed, and closes the kqueue on its way out — so `register(EV_DELETE)` may fail for
every path `Close` still has to release. Before the repair `rm` returned at that point and the descriptor
stayed open. In the model: the kernel's knotes (ghost) are replaced by ANY list after `closed := true`
(the empty list is "the queue is gone"); the descriptors and tables end up exactly as in the undisturbed `Close`.
-/
namespace KqF
open Fsn

/-- forget the knotes -/
def noKn (w : W) : W := { w with s := { w.s with knotes := [] } }

/-- what `rm(name, false)` does on a closed Watcher, knotes aside -/
def rmClosed (name0 : Path) (w : W) : W :=
  let name := clean name0
  let r := byPath name w
  if !r.1.2 then w else ((do closeFd r.1.1.wd; let _ ← watchesRemove r.1.1.wd name; pure ()) : M Unit) w |>.2

theorem noKn_rm_closed (fuel : Nat) (name : Path) (w : W) (hc : w.s.closed = true) :
    noKn (rm (fuel + 1) name false w).2 = noKn (rmClosed name (noKn w)) ∧ (rm (fuel + 1) name false w).2.s.closed = true := by
  cases hl : alLookup ((alLookup (clean name) w.s.path).getD 0) w.s.wd with
  | none =>
    unfold rm rmClosed
    simp [bind_apply, byPath, get, pure_apply, noKn, hl, hc]
  | some info =>
    unfold rm rmClosed
    simp only [bind_apply, byPath, get, pure_apply, noKn, hl, registerDelete]
    by_cases hk : alHas info.wd w.s.knotes = true
    · simp [hk, modify, closeFd, watchesRemove, get, hc]
    · simp [hk, rmErr, modify, closeFd, watchesRemove, get, hc]

/-- the loop of `Close` -/
def closeLoop (ps : List Path) : M (Option Unit) :=
  forUntil (fun (p : Path) => do let _ ← rm fuel p false; pure (none : Option Unit)) ps

def loopClosed (ps : List Path) (w : W) : W := ps.foldl (fun w p => noKn (rmClosed p w)) w

@[simp] theorem noKn_noKn (w : W) : noKn (noKn w) = noKn w := rfl

theorem noKn_closeLoop (ps : List Path) : ∀ (w : W), w.s.closed = true →
    noKn (closeLoop ps w).2 = loopClosed ps (noKn w) := by
  induction ps with
  | nil => intro w _; rfl
  | cons p ps ih =>
    intro w hc
    obtain ⟨h1, h2⟩ := noKn_rm_closed 5 p w hc
    have e : (closeLoop (p :: ps) w).2 = (closeLoop ps (rm fuel p false w).2).2 := by
      simp only [closeLoop, forUntil, bind_apply, pure_apply]
    rw [e]
    have := ih (rm (5 + 1) p false w).2 h2
    rw [h1] at this
    exact this

/-- **`Close` releases every descriptor whatever has become of the queue**: the knotes replaced by anything
(by nothing: the reader has closed the kqueue) once the Watcher is marked closed, the loop of `Close` still
leaves no descriptor open and no table entry -/
theorem close_releases_queue_gone (w : W) (h : Inv w.s) (hc : w.s.closed = false) (kn : List (Nat × BitVec 32)) :
    let r := (closeLoop (w.s.path.map (·.1)) { w with s := { w.s with closed := true, knotes := kn } }).2
    r.s.openFds = [] ∧ r.s.wd = [] := by
  intro r
  have hclose : (close w).2 = (closeLoop (w.s.path.map (·.1)) { w with s := { w.s with closed := true } }).2 := by
    unfold close closeLoop
    simp [bind_apply, get, pure_apply, hc, modify]
  have h0 := noKn_closeLoop (w.s.path.map (·.1)) { w with s := { w.s with closed := true } } rfl
  have h1 := noKn_closeLoop (w.s.path.map (·.1)) { w with s := { w.s with closed := true, knotes := kn } } rfl
  have hsame : noKn r = noKn (close w).2 := by
    rw [hclose, h0]; exact h1
  obtain ⟨ho, hw, _⟩ := close_releases w h hc
  have e1 : r.s.openFds = (close w).2.s.openFds := congrArg (fun x => x.s.openFds) hsame
  have e2 : r.s.wd = (close w).2.s.wd := congrArg (fun x => x.s.wd) hsame
  exact ⟨e1.trans ho, e2.trans hw⟩

end KqF
