import FsnVerif.Proofs.ProtoTables1Defs
/-! Kernel-evaluated table 1 of 3 (the inductive invariant), part c: reader program counters ((allRPc.drop 6).take 3). -/
namespace Proto

theorem chk_inv_c : ((coreOf ((allRPc.drop 6).take 3)).all invStep) = true := by decide +kernel

end Proto
