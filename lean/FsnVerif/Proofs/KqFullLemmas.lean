import FsnVerif.Model.KqFull
import FsnVerif.Proofs.ALLemmas
/-!
# Hoare-style reasoning about the full kqueue model (`Model/KqFull`)

`Tr P m Q`: started in a world whose table state satisfies `P`, the computation `m` ends in one
satisfying `Q result`. Whatever is on the tape — the triples quantify over every world, hence over
every sequence of environment answers.
-/
namespace KqF
open Fsn

def Tr {α : Type} (P : KS → Prop) (m : M α) (Q : α → KS → Prop) : Prop :=
  ∀ w : W, P w.s → Q (m w).1 (m w).2.s

@[simp] theorem bind_apply {α β : Type} (m : M α) (f : α → M β) (w : W) : (m >>= f) w = f (m w).1 (m w).2 := rfl
@[simp] theorem pure_apply {α : Type} (a : α) (w : W) : (pure a : M α) w = (a, w) := rfl

theorem Tr.bind {α β : Type} {P : KS → Prop} {m : M α} {Q : α → KS → Prop} {f : α → M β} {R : β → KS → Prop}
    (h1 : Tr P m Q) (h2 : ∀ a, Tr (Q a) (f a) R) : Tr P (m >>= f) R := by
  intro w hw
  simp only [bind_apply]
  exact h2 _ _ (h1 w hw)

theorem Tr.pure {α : Type} {P : KS → Prop} {Q : α → KS → Prop} (a : α) (h : ∀ s, P s → Q a s) : Tr P (pure a : M α) Q := by
  intro w hw; exact h _ hw

theorem Tr.weaken {α : Type} {P P' : KS → Prop} {m : M α} {Q Q' : α → KS → Prop}
    (h : Tr P m Q) (hp : ∀ s, P' s → P s) (hq : ∀ a s, Q a s → Q' a s) : Tr P' m Q' := by
  intro w hw; exact hq _ _ (h w (hp _ hw))

/-- a computation that never touches the tables -/
def Pure {α : Type} (m : M α) : Prop := ∀ w : W, (m w).2.s = w.s

theorem Pure.tr {α : Type} {m : M α} (h : Pure m) (P : KS → Prop) : Tr P m (fun _ => P) := by
  intro w hw; rw [h w]; exact hw

theorem pure_askLstat (p : Path) : Pure (askLstat p) := by
  intro w; unfold askLstat; split <;> (try split) <;> rfl
theorem pure_askReadlink (p : Path) : Pure (askReadlink p) := by
  intro w; unfold askReadlink; split <;> (try split) <;> rfl
theorem pure_askReadDir (p : Path) : Pure (askReadDir p) := by
  intro w; unfold askReadDir; split <;> (try split) <;> rfl
theorem pure_setBad (m : String) : Pure (setBad m) := fun _ => rfl
theorem pure_get : Pure get := fun _ => rfl
theorem pure_sendEvent (e : Ev) : Pure (sendEvent e) := by
  intro w; unfold sendEvent; split <;> (try split) <;> rfl
theorem pure_sendError (e : Option Err) : Pure (sendError e) := by
  intro w; unfold sendError; split <;> (try split) <;> rfl

/-- `get` returns the state -/
theorem tr_get (P : KS → Prop) : Tr P get (fun a s => a = s ∧ P s) := by
  intro w hw; exact ⟨rfl, hw⟩

theorem tr_modify (f : KS → KS) (Q : Unit → KS → Prop) : Tr (fun s => Q () (f s)) (modify f) Q := by
  intro w hw; exact hw

/-- reading functions return something about the state and leave it alone -/
theorem tr_byPath (P : KS → Prop) (name : Path) :
    Tr P (byPath name) (fun r s => P s ∧
      (r.2 = true → alLookup ((alLookup name s.path).getD 0) s.wd = some r.1) ∧
      (r.2 = false → alLookup ((alLookup name s.path).getD 0) s.wd = none)) := by
  intro w hw
  simp only [byPath, get, bind_apply]
  cases h : alLookup ((alLookup name w.s.path).getD 0) w.s.wd <;> simp_all

theorem tr_byWd (P : KS → Prop) (fd : Nat) :
    Tr P (byWd fd) (fun _ s => P s) := by
  intro w hw
  simp only [byWd, get, bind_apply]
  cases h : alLookup fd w.s.wd <;> simp_all

theorem pure_seenBefore (p : Path) : Pure (seenBefore p) := fun _ => rfl
theorem pure_watchesInDir (p : Path) : Pure (watchesInDir p) := fun _ => rfl
theorem pure_watchList : Pure watchList := fun _ => rfl

/-- `forUntil` preserves whatever its body preserves -/
theorem tr_forUntil {α β : Type} (P : KS → Prop) (f : α → M (Option β)) (h : ∀ x, Tr P (f x) (fun _ => P)) (xs : List α) :
    Tr P (forUntil f xs) (fun _ => P) := by
  induction xs with
  | nil => exact Tr.pure _ (fun _ h => h)
  | cons x xs ih =>
    unfold forUntil
    refine Tr.bind (h x) ?_
    intro r
    cases r with
    | none => exact ih
    | some r => exact Tr.pure _ (fun _ h => h)

end KqF
