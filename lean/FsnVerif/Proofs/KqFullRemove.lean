import FsnVerif.Proofs.KqFullInv
import FsnVerif.Proofs.KqFullFrame
/-!
# `Remove` of a watched directory over the full kqueue model

The invariant's `bydir` clause (every entry's descriptor is in the `byDir` set of its parent) makes
`watchesInDir` complete, the children loop removes every path it is given, and `rm` never adds an entry.
-/
namespace KqF
open Fsn

/-- the closed flag is not touched (by anything but `Close`) -/
def SameClosed (a b : W) : Prop := b.s.closed = a.s.closed

theorem frame_sameClosed : Frame SameClosed where
  refl := fun _ => rfl
  trans := fun _ _ _ h1 h2 => h2.trans h1
  tape := fun _ _ _ => rfl
  opened := fun _ _ _ => rfl
  tables := fun _ _ _ hc => hc

/-- `rm` of any path, with or without its children: afterwards no entry is named that path, and no entry appeared -/
theorem rm_named_any (fuel : Nat) (p : Path) (unwatch : Bool) (N : Nat → KW → Prop) (w : W) (h : Inv w.s) (hN : AllEnt N w.s) :
    Inv (rm (fuel + 1) p unwatch w).2.s ∧ AllEnt (fun k e => N k e ∧ e.name ≠ p) (rm (fuel + 1) p unwatch w).2.s := by
  cases hl : alLookup ((alLookup (clean p) w.s.path).getD 0) w.s.wd with
  | none =>
    -- nothing is found: nothing changes, and no entry can be named `p`
    have e : (rm (fuel + 1) p unwatch w).2 = w := by
      unfold rm
      simp only [bind_apply, byPath, get, pure_apply, hl]
      rfl
    rw [e]
    refine ⟨h, fun k kw hk => ⟨hN k kw hk, fun he => ?_⟩⟩
    have hc := h.keys_clean k kw hk
    have hli := h.listed k kw hk
    rw [he] at hc hli
    rw [hc, hli] at hl
    simp [hk] at hl
  | some info =>
    have core := tr_rmCore' (clean p) info N (rmChildren fuel (clean p) unwatch)
      (fun _ s => Inv s ∧ AllEnt (fun k e => N k e ∧ e.name ≠ clean p ∧ k ≠ info.wd) s)
      (fun b => rmChildren_ent_ok fuel (clean p) unwatch b _) (fun e => rmErr e info (clean p)) w ⟨h, hl, hN⟩
    have e : rm (fuel + 1) p unwatch w = (do
          match ← registerDelete info.wd with
          | .error e => rmErr e info (clean p)
          | .ok () => do
            closeFd info.wd
            let isDir ← watchesRemove info.wd (clean p)
            rmChildren fuel (clean p) unwatch isDir : M (Option Err)) w := by
      unfold rm rmChildren
      simp only [bind_apply, byPath, get, pure_apply, hl]
      rfl
    rw [e]
    refine ⟨core.1, fun k kw hk => ⟨(core.2 k kw hk).1, fun he => ?_⟩⟩
    have hc := core.1.keys_clean k kw hk
    rw [he] at hc
    exact (core.2 k kw hk).2.1 (by rw [he, hc])

/-- the children loop of `rm`: every path of the list is gone afterwards (if the Watcher is not closed) -/
theorem childLoop_named (fuel : Nat) (ps : List Path) : ∀ (N : Nat → KW → Prop) (w : W), Inv w.s → w.s.closed = false → AllEnt N w.s →
    let w' := ((forUntil (fun (p : Path) => do
        let s ← get
        if s.closed then pure (none : Option Unit) else do
          let _ ← rm (fuel + 1) p true
          pure none) ps) w).2
    Inv w'.s ∧ w'.s.closed = false ∧ AllEnt (fun k e => N k e ∧ e.name ∉ ps) w'.s := by
  induction ps with
  | nil =>
    intro N w h hc hN
    exact ⟨h, hc, fun k e hk => ⟨hN k e hk, by simp⟩⟩
  | cons p ps ih =>
    intro N w h hc hN
    unfold forUntil
    simp only [bind_apply, get, hc, Bool.false_eq_true, if_false, pure_apply]
    obtain ⟨h1, h2⟩ := rm_named_any fuel p true N w h hN
    have hc1 : (rm (fuel + 1) p true w).2.s.closed = false := by
      have := rel_rm frame_sameClosed (fuel + 1) p true w
      rw [this]; exact hc
    obtain ⟨i1, i2, i3⟩ := ih (fun k e => N k e ∧ e.name ≠ p) _ h1 hc1 h2
    refine ⟨i1, i2, fun k e hk => ?_⟩
    obtain ⟨⟨a, b⟩, c⟩ := i3 k e hk
    exact ⟨a, by simp [b, c]⟩


/-- the world after `register(EV_DELETE)`, `unix.Close` and `watches.remove` for the entry `info` listed under `name` -/
def afterCore (w : W) (info : KW) (name : Path) : W :=
  (watchesRemove info.wd name (closeFd info.wd { w with s := { w.s with knotes := alErase info.wd w.s.knotes } }).2).2

theorem rm_unfold (fuel : Nat) (name : Path) (unwatch : Bool) (w : W) (h : Inv w.s) (info : KW)
    (hi : alLookup ((alLookup (clean name) w.s.path).getD 0) w.s.wd = some info) :
    rm (fuel + 1) name unwatch w = rmChildren fuel (clean name) unwatch info.isDir (afterCore w info (clean name)) := by
  have hkey := h.key_wd _ _ hi
  have hhas : alHas info.wd w.s.knotes = true := by
    apply h.has_knote
    rw [hkey]; exact (alHas_iff _ _).mpr ⟨_, hi⟩
  have hself : alLookup info.wd w.s.wd = some info := by rw [hkey]; exact hi
  have e1 : rm (fuel + 1) name unwatch w = (do
        match ← registerDelete info.wd with
        | .error e => rmErr e info (clean name)
        | .ok () => do
          closeFd info.wd
          let isDir ← watchesRemove info.wd (clean name)
          rmChildren fuel (clean name) unwatch isDir : M (Option Err)) w := by
    unfold rm rmChildren
    simp only [bind_apply, byPath, get, pure_apply, hi]
    rfl
  rw [e1]
  simp only [bind_apply, registerDelete, get, hhas, if_true, modify, pure_apply, closeFd, watchesRemove, afterCore, hself]

/-- **`Remove` of a watched directory releases the watches of its entries**: afterwards the only watches left
directly inside the directory are ones the user added himself -/
theorem remove_dir_releases_entries (fuel : Nat) (name : Path) (w : W) (h : Inv w.s) (hc : w.s.closed = false) (info : KW)
    (hi : alLookup ((alLookup (clean name) w.s.path).getD 0) w.s.wd = some info) (hd : info.isDir = true) :
    ∀ k e, alLookup k (rm (fuel + 2) name true w).2.s.wd = some e → dir e.name = clean name → e.name ∈ w.s.byUser := by
  intro k e hk hdir
  rw [rm_unfold (fuel + 1) name true w h info hi] at hk
  -- the world after the directory's own watch is gone
  have hkey := h.key_wd _ _ hi
  have hself : alLookup info.wd w.s.wd = some info := by rw [hkey]; exact hi
  have h1 : Inv (afterCore w info (clean name)).s := by
    unfold afterCore
    simp only [watchesRemove, closeFd, modify, get, bind_apply, pure_apply, hself]
    exact inv_after_rm h (clean name) info hi rfl rfl rfl rfl rfl
  have hc1 : (afterCore w info (clean name)).s.closed = false := by
    unfold afterCore
    simp only [watchesRemove, closeFd, modify, get, bind_apply, pure_apply]
    exact hc
  have hu1 : ∀ p, p ∈ (afterCore w info (clean name)).s.byUser → p ∈ w.s.byUser := by
    intro p hp
    unfold afterCore at hp
    simp only [watchesRemove, closeFd, modify, get, bind_apply, pure_apply] at hp
    exact (List.mem_filter.mp hp).1
  generalize afterCore w info (clean name) = w1 at hk h1 hc1 hu1
  unfold rmChildren at hk
  simp only [hd, Bool.and_self, if_true, bind_apply, watchesInDir, get, pure_apply] at hk
  obtain ⟨i1, _, i3⟩ := childLoop_named fuel
    (((alLookup (clean name) w1.s.byDir).getD []).map (fun fd => ((alLookup fd w1.s.wd).getD {}).name) |>.filter
      (fun n => !(w1.s.byUser.contains n)))
    (fun k e => alLookup k w1.s.wd = some e) w1 h1 hc1 (fun _ _ hx => hx)
  obtain ⟨hin1, hnot⟩ := i3 k e hk
  -- the entry was there after the core step, under the directory: its descriptor is in byDir
  have hbd := h1.bydir k e hin1
  rw [hdir] at hbd
  by_cases hu : w1.s.byUser.contains e.name = true
  · exact hu1 _ (by simpa using hu)
  · exfalso
    apply hnot
    simp only [List.mem_filter, List.mem_map, Bool.not_eq_true']
    refine ⟨⟨k, hbd, by rw [hin1]; rfl⟩, by simpa using hu⟩

end KqF
