import FsnVerif.Model.Bits
/-! Generic lemmas about table-form flag translators (all 32-bit inputs, no enumeration). -/
namespace Fsn

theorem twoPow_ne_zero (k : Nat) (h : k < 32) : BitVec.twoPow 32 k ≠ 0#32 := by
  intro h0
  have := congrArg (fun v => v.getLsbD k) h0
  simp [h] at this

/-- testing a single bit is reading that bit -/
theorem test_twoPow (m : BitVec 32) (k : Nat) (h : k < 32) :
    test m (BitVec.twoPow 32 k) = m.getLsbD k := by
  unfold test
  rw [BitVec.and_twoPow]
  by_cases hb : m.getLsbD k
  · simp [hb]
  · have := twoPow_ne_zero k h
    simp [hb]
    exact fun h' => this h'.symm

/-- executable single-bit test -/
def isSingleBit (f : BitVec 32) : Bool := (List.range 32).any (fun k => f == BitVec.twoPow 32 k)

theorem isSingleBit_spec {f : BitVec 32} (h : isSingleBit f = true) : ∃ k, k < 32 ∧ f = BitVec.twoPow 32 k := by
  unfold isSingleBit at h
  rw [List.any_eq_true] at h
  obtain ⟨k, hk, he⟩ := h
  exact ⟨k, List.mem_range.mp hk, by simpa using he⟩

theorem test_or_single {f : BitVec 32} (hf : isSingleBit f = true) (a b : BitVec 32) :
    test (a ||| b) f = (test a f || test b f) := by
  obtain ⟨k, hk, rfl⟩ := isSingleBit_spec hf
  simp [test_twoPow _ _ hk]

theorem opHas_or_left (a b h : BitVec 32) : opHas (a ||| b) h = (opHas a h || opHas b h) := by
  unfold opHas
  rw [BitVec.and_or_distrib_right, Bool.eq_iff_iff]
  simp only [bne_iff_ne, ne_eq, Bool.or_eq_true, BitVec.or_eq_zero_iff]
  by_cases h1 : a &&& h = 0#32 <;> by_cases h2 : b &&& h = 0#32 <;> simp [h1, h2]

theorem opHas_comm (a b : BitVec 32) : opHas a b = opHas b a := by
  unfold opHas; rw [BitVec.and_comm]

theorem opHas_or_right (o a b : BitVec 32) : opHas o (a ||| b) = (opHas o a || opHas o b) := by
  rw [opHas_comm, opHas_or_left, opHas_comm a, opHas_comm b]

theorem opHas_zero (h : BitVec 32) : opHas 0#32 h = false := by simp [opHas]

/-- `foldl` with an OR-accumulator splits off the accumulator -/
theorem foldl_or_acc (g : Rule → BitVec 32) (rs : List Rule) (acc : BitVec 32) :
    rs.foldl (fun acc r => acc ||| g r) acc = acc ||| rs.foldl (fun acc r => acc ||| g r) 0#32 := by
  induction rs generalizing acc with
  | nil => simp
  | cons r rs ih =>
    simp only [List.foldl]
    rw [ih (acc ||| g r), ih (0#32 ||| g r)]
    simp [BitVec.or_assoc]

theorem applyRules_nil (m : BitVec 32) : applyRules [] m = 0#32 := rfl

theorem applyRules_cons (r : Rule) (rs : List Rule) (m : BitVec 32) :
    applyRules (r :: rs) m = (if r.flags.any (test m) then r.op else 0#32) ||| applyRules rs m := by
  unfold applyRules
  simp only [List.foldl]
  rw [foldl_or_acc]
  simp

/-- every flag of every rule is a single bit -/
def rulesSingleBit (rs : List Rule) : Bool := rs.all (fun r => r.flags.all isSingleBit)

theorem any_test_or {fs : List (BitVec 32)} (h : fs.all isSingleBit = true) (a b : BitVec 32) :
    fs.any (test (a ||| b)) = (fs.any (test a) || fs.any (test b)) := by
  induction fs with
  | nil => simp
  | cons f fs ih =>
    simp only [List.all_cons, Bool.and_eq_true] at h
    simp only [List.any_cons, ih h.2, test_or_single h.1]
    cases test a f <;> cases test b f <;> cases fs.any (test a) <;> cases fs.any (test b) <;> rfl

/-- **Union law** for table-form translators: a combination of native flags yields exactly the
union of what its parts yield — for all 32-bit `a`, `b`. -/
theorem applyRules_or {rs : List Rule} (h : rulesSingleBit rs = true) (a b : BitVec 32) :
    applyRules rs (a ||| b) = applyRules rs a ||| applyRules rs b := by
  induction rs with
  | nil => simp [applyRules_nil]
  | cons r rs ih =>
    simp only [rulesSingleBit, List.all_cons, Bool.and_eq_true] at h
    have ih' := ih (by simpa [rulesSingleBit] using h.2)
    simp only [applyRules_cons, ih', any_test_or h.1]
    cases r.flags.any (test a) <;> cases r.flags.any (test b) <;> simp
    · ac_rfl
    · ac_rfl
    · ac_rfl

/-- which operations a table-form translator reports -/
theorem applyRules_has (rs : List Rule) (m o : BitVec 32) :
    opHas (applyRules rs m) o = rs.any (fun r => r.flags.any (test m) && opHas r.op o) := by
  induction rs with
  | nil => simp [applyRules_nil, opHas_zero]
  | cons r rs ih =>
    simp only [applyRules_cons, opHas_or_left, ih, List.any_cons]
    cases r.flags.any (test m) <;> simp [opHas_zero]

end Fsn

namespace Fsn

theorem test_mono {f g : BitVec 32} (hfg : f &&& g = g) (m : BitVec 32) (h : test m f = true) : test m g = true := by
  unfold test at *
  have h' : m &&& f = f := by simpa using h
  have : m &&& g = g := by
    calc m &&& g = m &&& (f &&& g) := by rw [hfg]
      _ = (m &&& f) &&& g := by rw [BitVec.and_assoc]
      _ = f &&& g := by rw [h']
      _ = g := hfg
  simpa using this

/-- `opHas` only looks at the bits of the probe -/
theorem opHas_mask (S D o : BitVec 32) (h : D &&& o = o) : opHas (S &&& D) o = opHas S o := by
  unfold opHas
  rw [BitVec.and_assoc, h]

/-- request tables: union law (no single-bit requirement, `opHas` distributes over `|||`) -/
theorem applyReq_nil (s : BitVec 32) : applyReq [] s = 0#32 := rfl

theorem applyReq_cons (r : Rule) (rs : List Rule) (s : BitVec 32) :
    applyReq (r :: rs) s = (if r.flags.any (opHas s) then r.op else 0#32) ||| applyReq rs s := by
  unfold applyReq
  simp only [List.foldl]
  rw [foldl_or_acc]
  simp

theorem any_opHas_or (fs : List (BitVec 32)) (a b : BitVec 32) :
    fs.any (opHas (a ||| b)) = (fs.any (opHas a) || fs.any (opHas b)) := by
  induction fs with
  | nil => simp
  | cons f fs ih =>
    simp only [List.any_cons, ih, opHas_or_left]
    cases opHas a f <;> cases opHas b f <;> cases fs.any (opHas a) <;> cases fs.any (opHas b) <;> rfl

theorem applyReq_or (rs : List Rule) (a b : BitVec 32) :
    applyReq rs (a ||| b) = applyReq rs a ||| applyReq rs b := by
  induction rs with
  | nil => simp [applyReq_nil]
  | cons r rs ih =>
    simp only [applyReq_cons, ih, any_opHas_or]
    cases r.flags.any (opHas a) <;> cases r.flags.any (opHas b) <;> simp
    · ac_rfl
    · ac_rfl
    · ac_rfl

theorem any_opHas_mask (fs : List (BitVec 32)) (D S : BitVec 32)
    (h : fs.all (fun o => D &&& o == o) = true) : fs.any (opHas (S &&& D)) = fs.any (opHas S) := by
  induction fs with
  | nil => rfl
  | cons o os ih =>
    simp only [List.all_cons, Bool.and_eq_true, beq_iff_eq] at h
    simp only [List.any_cons, ih h.2, opHas_mask S D o h.1]

theorem applyReq_mask (rs : List Rule) (D S : BitVec 32)
    (h : rs.all (fun r => r.flags.all (fun o => D &&& o == o)) = true) :
    applyReq rs (S &&& D) = applyReq rs S := by
  induction rs with
  | nil => rfl
  | cons r rs ih =>
    simp only [List.all_cons, Bool.and_eq_true] at h
    rw [applyReq_cons, applyReq_cons, ih h.2, any_opHas_mask _ _ _ h.1]

/-- a value masked to the low 9 bits is one of 512 values -/
theorem masked_lt (S : BitVec 32) : (S &&& 0x1ff#32).toNat < 512 := by
  rw [BitVec.toNat_and]
  exact Nat.lt_of_le_of_lt Nat.and_le_right (by decide)

theorem forall_masked9 (P : BitVec 32 → Prop) (hfin : ∀ n, n < 512 → P (BitVec.ofNat 32 n)) (S : BitVec 32) :
    P (S &&& definedOps) := by
  have := hfin _ (masked_lt S)
  simpa [definedOps] using this

theorem all_range {p : Nat → Bool} {n : Nat} (h : (List.range n).all p = true) : ∀ k, k < n → p k = true := by
  intro k hk
  exact List.all_eq_true.mp h k (List.mem_range.mpr hk)

end Fsn
