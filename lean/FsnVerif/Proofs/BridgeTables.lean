import FsnVerif.Generated.Tables
import FsnVerif.Model.Bits
import FsnVerif.Proofs.BitsLemmas
import FsnVerif.Proofs.BridgeEventOp
/-!
# Tie T (tables): regenerated definitions = hand-written table-form model

Every theorem here is about a definition that `tools/gotolean` re-emits from
`/repo`'s working tree on every run. A change to a flag table, to `Op.Has`,
`Op.String`, `xSupports`, the Windows translators or a buffer size breaks one
of them (or the residue/shape equalities) at build time.
-/
namespace Bridge
open Fsn

theorem inotifyRequest_eq (nf : Bool) (ops : BitVec 32) : Gen.inotifyRequest nf ops = Fsn.inotifyRequest nf ops := by
  have h : Gen.inotifyRequest nf ops = inotifyRequestRules.foldl
      (fun acc r => acc ||| (if r.flags.any (Fsn.opHas ops) then r.op else 0#32))
      (0#32 ||| (if nf then IN_DONT_FOLLOW else 0#32)) := by
    simp only [Gen.inotifyRequest, inotifyRequestRules, List.foldl, List.any, Bool.or_false, opHas_eq]
    rfl
  rw [h, foldl_or_acc]
  simp [Fsn.inotifyRequest, applyReq]

theorem inotifyRequest_residue : Gen.inotifyRequest.residue = ["return w.register(path, flags, recurse)"] := rfl

theorem xSupportsInotify_eq (op : BitVec 32) : Gen.xSupportsInotify op = Fsn.xSupportsInotify op := rfl

theorem kqueueNewEventOp_eq (m : BitVec 32) : Gen.kqueueNewEventOp m = Fsn.kqueueNewEventOp m := by
  simp only [Gen.kqueueNewEventOp, Fsn.kqueueNewEventOp, dropWriteIfRemove, applyRules, kqueueRules, List.foldl,
    List.any, test, Bool.or_false, opHas_eq]
  rfl

theorem kqueueNewEventOp_residue : Gen.kqueueNewEventOp.residue = ["if linkName != \"\" { e.Name = linkName }"] := rfl

theorem noteAllEvents_eq : Gen.noteAllEvents = Fsn.noteAllEvents := by decide

theorem winNewEventOp_eq (m : BitVec 32) : Gen.winNewEventOp m = Fsn.winNewEventOp m := by
  simp only [Gen.winNewEventOp, Fsn.winNewEventOp, applyRules, winRules, List.foldl, List.any, test,
    Bool.or_false, Bool.or_assoc]
  rfl
theorem winNewEventOp_residue : Gen.winNewEventOp.residue = [] := rfl

theorem toWindowsFlags_eq (m : BitVec 64) : Gen.toWindowsFlags m = Fsn.toWindowsFlags m := by
  simp only [Gen.toWindowsFlags, Fsn.toWindowsFlags, BitVec.zero_or]
  rfl
theorem toFSnotifyFlags_eq (a : BitVec 32) : Gen.toFSnotifyFlags a = Fsn.toFSnotifyFlags a := rfl

theorem ite_not (c : Bool) : (if c = true then false else true) = !c := by cases c <;> rfl

theorem xSupportsPortable_aux (op : BitVec 32) :
    (!((((Fsn.opHas op 0x20#32) || (Fsn.opHas op 0x40#32)) || (Fsn.opHas op 0x80#32)) || (Fsn.opHas op 0x100#32)))
      = Fsn.xSupportsPortableOnly op := by
  have : unportableOps = ((0x20#32 ||| 0x40#32) ||| 0x80#32) ||| 0x100#32 := by decide
  unfold xSupportsPortableOnly
  rw [this, opHas_or_right, opHas_or_right, opHas_or_right]

theorem xSupportsKqueue_eq (op : BitVec 32) : Gen.xSupportsKqueue op = Fsn.xSupportsPortableOnly op := by
  rw [← xSupportsPortable_aux]
  simp only [Gen.xSupportsKqueue, opHas_eq]
  exact ite_not _

theorem xSupportsWindows_eq (op : BitVec 32) : Gen.xSupportsWindows op = Fsn.xSupportsPortableOnly op := by
  rw [← xSupportsPortable_aux]
  simp only [Gen.xSupportsWindows, opHas_eq]
  exact ite_not _

theorem xSupportsFen_eq (op : BitVec 32) : Gen.xSupportsFen op = Fsn.xSupportsPortableOnly op := by
  rw [← xSupportsPortable_aux]
  simp only [Gen.xSupportsFen, opHas_eq]
  exact ite_not _

theorem defaultOps_eq : Gen.defaultOps = Fsn.defaultOps := rfl

end Bridge
