import FsnVerif.Generated.Tables
import FsnVerif.Model.Bits
import FsnVerif.Proofs.BitsLemmas
/-!
# Tie T (tables): regenerated definitions = hand-written table-form model

Every theorem here is about a definition that `tools/gotolean` re-emits from
`/repo`'s working tree on every run. A change to a flag table, to `Op.Has`,
`Op.String`, `xSupports`, the Windows translators or a buffer size breaks one
of them (or the residue/shape equalities) at build time.
-/
namespace Bridge
open Fsn

theorem opConsts_eq :
    Gen.allOpConsts = [("Chmod", Chmod), ("Create", Create), ("Remove", Remove), ("Rename", Rename),
      ("Write", Write), ("xUnportableCloseRead", CloseRead), ("xUnportableCloseWrite", CloseWrite),
      ("xUnportableOpen", Open), ("xUnportableRead", Read)] := rfl

theorem opHas_eq (o h : BitVec 32) : Gen.opHas o h = Fsn.opHas o h := rfl
theorem opHas_residue : Gen.opHas.residue = [] := rfl

theorem inotifyNewEventOp_eq (m : BitVec 32) : Gen.inotifyNewEventOp m = Fsn.inotifyNewEventOp m := by
  simp only [Gen.inotifyNewEventOp, Fsn.inotifyNewEventOp, applyRules, inotifyRules, List.foldl, List.any, test,
    Bool.or_false]
  rfl

theorem inotifyRequest_eq (nf : Bool) (ops : BitVec 32) : Gen.inotifyRequest nf ops = Fsn.inotifyRequest nf ops := by
  have h : Gen.inotifyRequest nf ops = inotifyRequestRules.foldl
      (fun acc r => acc ||| (if r.flags.any (Fsn.opHas ops) then r.op else 0#32))
      (0#32 ||| (if nf then IN_DONT_FOLLOW else 0#32)) := by
    simp only [Gen.inotifyRequest, inotifyRequestRules, List.foldl, List.any, Bool.or_false, opHas_eq]
    rfl
  rw [h, foldl_or_acc]
  simp [Fsn.inotifyRequest, applyReq]

theorem inotifyRequest_residue : Gen.inotifyRequest.residue = ["return w.register(path, flags, recurse)"] := rfl

theorem xSupportsInotify_eq (op : BitVec 32) : Gen.xSupportsInotify op = Fsn.xSupportsInotify op := rfl

theorem kqueueNewEventOp_eq (m : BitVec 32) : Gen.kqueueNewEventOp m = Fsn.kqueueNewEventOp m := by
  simp only [Gen.kqueueNewEventOp, Fsn.kqueueNewEventOp, dropWriteIfRemove, applyRules, kqueueRules, List.foldl,
    List.any, test, Bool.or_false, opHas_eq]
  rfl

theorem kqueueNewEventOp_residue : Gen.kqueueNewEventOp.residue = ["if linkName != \"\" { e.Name = linkName }"] := rfl

theorem noteAllEvents_eq : Gen.noteAllEvents = Fsn.noteAllEvents := by decide

theorem winNewEventOp_eq (m : BitVec 32) : Gen.winNewEventOp m = Fsn.winNewEventOp m := by
  simp only [Gen.winNewEventOp, Fsn.winNewEventOp, applyRules, winRules, List.foldl, List.any, test,
    Bool.or_false, Bool.or_assoc]
  rfl
theorem winNewEventOp_residue : Gen.winNewEventOp.residue = [] := rfl

theorem toWindowsFlags_eq (m : BitVec 64) : Gen.toWindowsFlags m = Fsn.toWindowsFlags m := by
  simp only [Gen.toWindowsFlags, Fsn.toWindowsFlags, BitVec.zero_or]
  rfl
theorem toFSnotifyFlags_eq (a : BitVec 32) : Gen.toFSnotifyFlags a = Fsn.toFSnotifyFlags a := rfl

theorem ite_not (c : Bool) : (if c = true then false else true) = !c := by cases c <;> rfl

theorem xSupportsPortable_aux (op : BitVec 32) :
    (!((((Fsn.opHas op 0x20#32) || (Fsn.opHas op 0x40#32)) || (Fsn.opHas op 0x80#32)) || (Fsn.opHas op 0x100#32)))
      = Fsn.xSupportsPortableOnly op := by
  have : unportableOps = ((0x20#32 ||| 0x40#32) ||| 0x80#32) ||| 0x100#32 := by decide
  unfold xSupportsPortableOnly
  rw [this, opHas_or_right, opHas_or_right, opHas_or_right]

theorem xSupportsKqueue_eq (op : BitVec 32) : Gen.xSupportsKqueue op = Fsn.xSupportsPortableOnly op := by
  rw [← xSupportsPortable_aux]
  simp only [Gen.xSupportsKqueue, opHas_eq]
  exact ite_not _

theorem xSupportsWindows_eq (op : BitVec 32) : Gen.xSupportsWindows op = Fsn.xSupportsPortableOnly op := by
  rw [← xSupportsPortable_aux]
  simp only [Gen.xSupportsWindows, opHas_eq]
  exact ite_not _

theorem xSupportsFen_eq (op : BitVec 32) : Gen.xSupportsFen op = Fsn.xSupportsPortableOnly op := by
  rw [← xSupportsPortable_aux]
  simp only [Gen.xSupportsFen, opHas_eq]
  exact ite_not _

/-- channel capacities: `NewWatcher` uses the platform default, which is 0 everywhere but Windows (50) -/
theorem defaultBufferSizes :
    Gen.defaultBufferSize_linux = 0 ∧ Gen.defaultBufferSize_freebsd = 0 ∧
    Gen.defaultBufferSize_solaris = 0 ∧ Gen.defaultBufferSize_windows = 50 := by decide

theorem defaultOps_eq : Gen.defaultOps = Fsn.defaultOps := rfl

theorem eventStringShape_eq : Gen.eventStringShape = [
    ("e.renamedFrom != \"\"", "%-13s %q ← %q", ["e.Op.String()", "e.Name", "e.renamedFrom"]),
    ("", "%-13s %q", ["e.Op.String()", "e.Name"])] := rfl

theorem eventHas_eq : Gen.eventHasBody = ["return e.Op.Has(op)"] := rfl

end Bridge

namespace Bridge
open Fsn

/-- `Op.String` as written in the source (a `strings.Builder` chain, `[1:]`) equals the
table-driven model, for all 2^32 values: both depend on the value only through the nine
`Has` tests, and the 512 combinations are checked by the kernel. -/
theorem opString_eq (o : BitVec 32) : Gen.opString o = Fsn.opString o := by
  delta Gen.opString Fsn.opString opNames opNameTable Gen.opHas Fsn.opHas Create Remove Write Open Read CloseWrite
    CloseRead Rename Chmod
  simp only [List.flatMap_cons, List.flatMap_nil]
  generalize ((o &&& 0x1#32) != 0#32) = b1
  generalize ((o &&& 0x2#32) != 0#32) = b2
  generalize ((o &&& 0x4#32) != 0#32) = b3
  generalize ((o &&& 0x8#32) != 0#32) = b4
  generalize ((o &&& 0x10#32) != 0#32) = b5
  generalize ((o &&& 0x20#32) != 0#32) = b6
  generalize ((o &&& 0x40#32) != 0#32) = b7
  generalize ((o &&& 0x80#32) != 0#32) = b8
  generalize ((o &&& 0x100#32) != 0#32) = b9
  revert b1 b2 b3 b4 b5 b6 b7 b8 b9
  decide

theorem opString_residue : Gen.opString.residue = [] := rfl

end Bridge
