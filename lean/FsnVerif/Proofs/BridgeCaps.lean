import FsnVerif.Generated.Tables
/-! # Tie T (channel capacities), used by C14 only -/
namespace Bridge

/-- channel capacities: `NewWatcher` uses the platform default, which is 0 everywhere but Windows (50) -/
theorem defaultBufferSizes :
    Gen.defaultBufferSize_linux = 0 ∧ Gen.defaultBufferSize_freebsd = 0 ∧
    Gen.defaultBufferSize_solaris = 0 ∧ Gen.defaultBufferSize_windows = 50 := by decide

end Bridge
