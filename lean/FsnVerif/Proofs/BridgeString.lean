import FsnVerif.Generated.Tables
import FsnVerif.Model.Bits
import FsnVerif.Proofs.BitsLemmas
/-! # Tie T (`Op.String`, `Event.String`, `Event.Has`), used by C16 only -/
namespace Bridge
open Fsn

/-- (the second alternative: `h&o != 0` is the same function as `o&h != 0`) -/
theorem opHas_eq' (o h : BitVec 32) : Gen.opHas o h = Fsn.opHas o h := by
  first
  | rfl
  | (unfold Gen.opHas Fsn.opHas; rw [BitVec.and_comm])

theorem eventStringShape_eq : Gen.eventStringShape = [
    ("e.renamedFrom != \"\"", "%-13s %q ← %q", ["e.Op.String()", "e.Name", "e.renamedFrom"]),
    ("", "%-13s %q", ["e.Op.String()", "e.Name"])] := rfl

theorem eventHas_eq : Gen.eventHasBody = ["return e.Op.Has(op)"] := rfl

end Bridge

namespace Bridge
open Fsn

/-- `Op.String` as written in the source (a `strings.Builder` chain, `[1:]`) equals the
table-driven model, for all 2^32 values: both depend on the value only through the nine
`Has` tests, and the 512 combinations are checked by the kernel. -/
theorem opString_eq (o : BitVec 32) : Gen.opString o = Fsn.opString o := by
  delta Gen.opString
  simp only [opHas_eq']
  delta Fsn.opString opNames opNameTable Fsn.opHas Create Remove Write Open Read CloseWrite
    CloseRead Rename Chmod
  simp only [List.flatMap_cons, List.flatMap_nil]
  generalize ((o &&& 0x1#32) != 0#32) = b1
  generalize ((o &&& 0x2#32) != 0#32) = b2
  generalize ((o &&& 0x4#32) != 0#32) = b3
  generalize ((o &&& 0x8#32) != 0#32) = b4
  generalize ((o &&& 0x10#32) != 0#32) = b5
  generalize ((o &&& 0x20#32) != 0#32) = b6
  generalize ((o &&& 0x40#32) != 0#32) = b7
  generalize ((o &&& 0x80#32) != 0#32) = b8
  generalize ((o &&& 0x100#32) != 0#32) = b9
  revert b1 b2 b3 b4 b5 b6 b7 b8 b9
  decide

theorem opString_residue : Gen.opString.residue = [] := rfl

end Bridge
