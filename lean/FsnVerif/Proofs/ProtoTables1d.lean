import FsnVerif.Proofs.ProtoTables1Defs
/-! Kernel-evaluated table 1 of 3 (the inductive invariant), part d: reader program counters (allRPc.drop 9). -/
namespace Proto

theorem chk_inv_d : ((coreOf (allRPc.drop 9)).all invStep) = true := by decide +kernel

end Proto
