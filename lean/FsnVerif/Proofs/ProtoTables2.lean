import FsnVerif.Model.Proto
/-! Kernel-evaluated table 2 of 3 over the 5632 core states of the protocol model (`decide +kernel`:
the quantifier is a finite table; lifted to all states in `ProtoLemmas`). One module per table so
that the three are checked in parallel. -/
namespace Proto

theorem chk_prog : (core.all fun s => !Inv true s || reach true 16 s) = true := by decide +kernel

end Proto
