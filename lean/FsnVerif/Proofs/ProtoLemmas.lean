import FsnVerif.Proofs.ProtoTables
/-! Finite-state checks over the protocol model (kernel-evaluated) and their lifting to all states. -/
namespace Proto

theorem mem_allRPc (r : RPc) : r ∈ allRPc := by cases r <;> decide
theorem mem_allCPc (c : CPc) : c ∈ allCPc := by cases c <;> decide
theorem mem_allHolder (h : Holder) : h ∈ allHolder := by cases h <;> decide
theorem mem_allBool (b : Bool) : b ∈ allBool := by cases b <;> decide
theorem mem_allLabels (l : Label) : l ∈ allLabels := by
  cases l <;> first | decide | (rename_i f; cases f <;> decide)

theorem mem_core (r : RPc) (c : CPc) (mu : Holder) (d f e k : Bool) : mk r c mu d f e k ∈ core := by
  unfold core
  simp only [List.mem_flatMap, List.mem_map]
  exact ⟨r, mem_allRPc r, c, mem_allCPc c, mu, mem_allHolder mu, d, mem_allBool d, f, mem_allBool f, e, mem_allBool e,
    k, mem_allBool k, rfl⟩

/-- the conjuncts of the invariant, by name -/
structure InvP (b : Bool) (s : S) : Prop where
  mu_reader : decide (s.mu = .reader) = (decide (s.r = .inHandle) || decide (s.r = .errSendLocked))
  mu_me : decide (s.mu = .me) = (decide (s.c = .crit) || decide (s.c = .cCrit))
  fd_done : (s.fdOpen || s.doneClosed) = true
  resp : s.respClosed = (decide (s.r = .closing1) || decide (s.r = .closing2) || decide (s.r = .exited))
  er : s.erClosed = (decide (s.r = .closing2) || decide (s.r = .exited))
  ev : s.evClosed = decide (s.r = .exited)
  exit_done : (!(decide (s.r = .closing0) || s.respClosed) || s.doneClosed) = true
  closing_done : (!(decide (s.c = .cFile) || decide (s.c = .cWait)) || s.doneClosed) = true
  wait_fd : (!decide (s.c = .cWait) || !s.fdOpen) = true
  crit_open : (!decide (s.c = .crit) || (s.fdOpen && !s.doneClosed)) = true
  strict : (!(b && decide (s.r = .errSendLocked)) || !s.fdOpen) = true

theorem inv_iff (b : Bool) (s : S) : Inv b s = true ↔ InvP b s := by
  simp only [Inv, Bool.and_eq_true, beq_iff_eq]
  constructor
  · rintro ⟨⟨⟨⟨⟨⟨⟨⟨⟨⟨h1, h2⟩, h3⟩, h4⟩, h5⟩, h6⟩, h7⟩, h8⟩, h9⟩, h10⟩, h11⟩
    exact ⟨h1, h2, h3, h4, h5, h6, h7, h8, h9, h10, h11⟩
  · rintro ⟨h1, h2, h3, h4, h5, h6, h7, h8, h9, h10, h11⟩
    exact ⟨⟨⟨⟨⟨⟨⟨⟨⟨⟨h1, h2⟩, h3⟩, h4⟩, h5⟩, h6⟩, h7⟩, h8⟩, h9⟩, h10⟩, h11⟩

/-- a state satisfying the invariant has its closed flags determined by the reader's position -/
theorem inv_core {b : Bool} {s : S} (h : Inv b s = true) : s ∈ core := by
  have hp := (inv_iff b s).mp h
  have : s = mk s.r s.c s.mu s.doneClosed s.fdOpen s.evFull s.dataReady := by
    obtain ⟨r, c, mu, d, f, rc, ec, vc, e, k⟩ := s
    have h4 := hp.resp; have h5 := hp.er; have h6 := hp.ev
    simp only at h4 h5 h6
    simp only [mk]
    rw [h4, h5, h6]
  rw [this]; exact mem_core ..

/-- the invariant is inductive: every step (system, kernel or consumer) preserves it -/
theorem inv_step (s s' : S) (l : Label) (h : Inv true s = true) (hs : step true s l = some s') : Inv true s' = true := by
  have h1 := List.all_eq_true.mp chk_inv s (inv_core h)
  have h2 := List.all_eq_true.mp h1 l (mem_allLabels l)
  simp only [h, Bool.not_true, Bool.false_or, hs] at h2
  exact h2

theorem inv_init (c : CPc) (hc : c = .chk ∨ c = .cLock ∨ c = .returned) : Inv true (init c) = true := by
  rcases hc with h | h | h <;> subst h <;> decide

/-- reachable states of the protocol (any labels, including consumer steps) -/
inductive Reach : S → Prop
  | init (c : CPc) (hc : c = .chk ∨ c = .cLock ∨ c = .returned) : Reach (init c)
  | step (s s' : S) (l : Label) : Reach s → step true s l = some s' → Reach s'

theorem reach_inv {s : S} (h : Reach s) : Inv true s = true := by
  induction h with
  | init c hc => exact inv_init c hc
  | step s s' l _ hs ih => exact inv_step s s' l ih hs

theorem reach_invP {s : S} (h : Reach s) : InvP true s := (inv_iff true s).mp (reach_inv h)

theorem prog_of_inv (s : S) (h : Inv true s = true) : reach true 16 s = true := by
  have := List.all_eq_true.mp chk_prog s (inv_core h)
  simpa [h] using this

theorem exit_of_inv (s : S) (h : Inv true s = true) (hd : s.doneClosed = true) (hf : s.fdOpen = false) :
    reachExit true 16 s = true := by
  have := List.all_eq_true.mp chk_exit s (inv_core h)
  simpa [h, hd, hf] using this

/-- runs made of system steps only -/
inductive SysRun : S → S → Prop
  | refl (s : S) : SysRun s s
  | step (s s' s'' : S) (l : Label) : l.isSystem = true → step true s l = some s' → SysRun s' s'' → SysRun s s''

theorem reach_sound (n : Nat) (s : S) (h : reach true n s = true) : ∃ s', SysRun s s' ∧ s'.c = .returned := by
  induction n generalizing s with
  | zero => exact ⟨s, .refl s, by simpa [reach] using h⟩
  | succ n ih =>
    unfold reach at h
    by_cases hc : s.c = .returned
    · exact ⟨s, .refl s, hc⟩
    · rw [if_neg hc] at h
      cases hn : next s with
      | none => simp [hn] at h
      | some l =>
        simp only [hn] at h
        by_cases hl : l.isSystem = true
        · rw [if_pos hl] at h
          cases hs : step true s l with
          | none => simp [hs] at h
          | some s1 =>
            simp only [hs] at h
            obtain ⟨s', hr, hret⟩ := ih s1 h
            exact ⟨s', .step s s1 s' l hl hs hr, hret⟩
        · rw [if_neg hl] at h; cases h

theorem reachExit_sound (n : Nat) (s : S) (h : reachExit true n s = true) : ∃ s', SysRun s s' ∧ s'.r = .exited := by
  induction n generalizing s with
  | zero => exact ⟨s, .refl s, by simpa [reachExit] using h⟩
  | succ n ih =>
    unfold reachExit at h
    by_cases hc : s.r = .exited
    · exact ⟨s, .refl s, hc⟩
    · rw [if_neg hc] at h
      cases hn : nextExit s with
      | none => simp [hn] at h
      | some l =>
        simp only [hn] at h
        by_cases hl : l.isSystem = true
        · rw [if_pos hl] at h
          cases hs : step true s l with
          | none => simp [hs] at h
          | some s1 =>
            simp only [hs] at h
            obtain ⟨s', hr, hret⟩ := ih s1 h
            exact ⟨s', .step s s1 s' l hl hs hr, hret⟩
        · rw [if_neg hl] at h; cases h

end Proto
