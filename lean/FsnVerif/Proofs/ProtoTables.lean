import FsnVerif.Proofs.ProtoTables1
import FsnVerif.Proofs.ProtoTables2
import FsnVerif.Proofs.ProtoTables3
/-! Kernel-evaluated tables over the 5632 core states of the protocol model: `chk_inv`, `chk_prog`,
`chk_exit` (one module each, checked in parallel). -/
