import FsnVerif.Model.Proto
/-! Kernel-evaluated tables over the 5632 core states of the protocol model (`decide +kernel`:
the quantifier is a finite table; lifted to all states in `ProtoLemmas`). Kept in a module of
their own because they take about a minute to check. -/
namespace Proto

/-! ### the three kernel-evaluated tables (strict protocol = the repaired code) -/

theorem chk_inv : (core.all fun s => allLabels.all fun l =>
    !Inv true s || (match step true s l with | none => true | some s' => Inv true s')) = true := by decide +kernel

theorem chk_prog : (core.all fun s => !Inv true s || reach true 16 s) = true := by decide +kernel

theorem chk_exit : (core.all fun s => !(Inv true s && s.doneClosed && !s.fdOpen) || reachExit true 16 s) = true := by
  decide +kernel


end Proto
