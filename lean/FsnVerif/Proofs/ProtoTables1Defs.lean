import FsnVerif.Model.Proto
/-! the core states grouped by reader program counter, so that the invariant table can be checked in
four parallel parts -/
namespace Proto

def coreOf (rs : List RPc) : List S :=
  rs.flatMap fun r => allCPc.flatMap fun c => allHolder.flatMap fun mu =>
  allBool.flatMap fun d => allBool.flatMap fun f => allBool.flatMap fun e => allBool.map fun k => mk r c mu d f e k

def invStep (s : S) : Bool := allLabels.all fun l =>
    !Inv true s || (match step true s l with | none => true | some s' => Inv true s')

theorem core_eq : core = coreOf allRPc := rfl

end Proto
