import FsnVerif.Generated.Skeleton
import FsnVerif.Expected.Skeleton
/-! Tie T (lock facts): which functions touch the tables without holding the mutex themselves. -/
namespace SkeletonTie

theorem needMu_ok : Gen.needMuFromCaller = Expected.needMuFromCaller ∧ Gen.needCookiesMuFromCaller = Expected.needCookiesMuFromCaller := by decide +kernel

end SkeletonTie
