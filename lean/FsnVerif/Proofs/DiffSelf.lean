import FsnVerif.Proofs.DiffValid
/-!
# `Diff(s, s)` is empty: the matcher finds the whole text when both texts are the same

`findLongestMatch a a 0 n 0 n` walks the diagonal: after row `i` the cell `(i, i)` holds a run of
`i + 1` lines and the best block is at least that long; a block of equal lines inside the window
(`flm_ok`) that is `n` long is the whole window.
-/
namespace Diff

theorem j2get_append_of_absent (m : List (Nat × Nat)) (j k x : Nat) (h : ∀ p, p ∈ m → p.1 ≠ x) :
    j2get (m ++ [(j, k)]) x = if j = x then k else 0 := by
  unfold j2get
  rw [List.find?_append]
  have : m.find? (fun p => p.1 == x) = none := by
    apply List.find?_eq_none.mpr
    intro p hp; simpa using h p hp
  rw [this]
  by_cases hj : j = x
  · subst hj; simp
  · simp [hj]

theorem j2get_append_of_ne (m : List (Nat × Nat)) (j k x : Nat) (h : j ≠ x) :
    j2get (m ++ [(j, k)]) x = j2get m x := by
  unfold j2get
  rw [List.find?_append]
  cases hf : m.find? (fun p => p.1 == x) with
  | some p => simp
  | none => simp [h]

/-- the run length the DP assigns to cell `(i, x)` -/
def kOf (j2len : List (Nat × Nat)) (x : Nat) : Nat := (if x = 0 then 0 else j2get j2len (x - 1)) + 1

/-- the condition under which `flmStep` touches cell `x` -/
def cellOn (a b : List Line) (i blo bhi x : Nat) : Bool := b.getD x [] == a.getD i [] && decide (blo ≤ x) && decide (x < bhi)

theorem flmStep_on {a b : List Line} {i blo bhi : Nat} {j2len : List (Nat × Nat)} (acc : List (Nat × Nat) × Match) (x : Nat)
    (h : cellOn a b i blo bhi x = true) :
    (flmStep a b i blo bhi j2len acc x).1 = acc.1 ++ [(x, kOf j2len x)] ∧
    acc.2.size ≤ (flmStep a b i blo bhi j2len acc x).2.size ∧ kOf j2len x ≤ (flmStep a b i blo bhi j2len acc x).2.size := by
  unfold flmStep
  have h' : (b.getD x [] == a.getD i [] && decide (blo ≤ x) && decide (x < bhi)) = true := h
  rw [if_pos h']
  unfold kOf
  simp only
  generalize ((if x = 0 then 0 else j2get j2len (x - 1)) + 1) = k
  by_cases hk : k > acc.2.size
  · rw [if_pos hk]
    exact ⟨rfl, by show acc.2.size ≤ k; omega, Nat.le_refl _⟩
  · rw [if_neg hk]
    exact ⟨rfl, Nat.le_refl _, by show k ≤ acc.2.size; omega⟩

theorem flmStep_off {a b : List Line} {i blo bhi : Nat} {j2len : List (Nat × Nat)} (acc : List (Nat × Nat) × Match) (x : Nat)
    (h : cellOn a b i blo bhi x = false) : flmStep a b i blo bhi j2len acc x = acc := by
  unfold flmStep
  have h' : ¬ ((b.getD x [] == a.getD i [] && decide (blo ≤ x) && decide (x < bhi)) = true) := by
    intro hc; unfold cellOn at h; rw [hc] at h; cases h
  rw [if_neg h']

/-- one row of the DP: sizes only grow, untouched cells keep their value, a touched cell gets its run length -/
theorem flmFold_self {a b : List Line} {i blo bhi : Nat} {j2len : List (Nat × Nat)} (js : List Nat) :
    ∀ acc : List (Nat × Nat) × Match,
    acc.2.size ≤ (js.foldl (flmStep a b i blo bhi j2len) acc).2.size ∧
    (∀ x, x ∉ js → j2get (js.foldl (flmStep a b i blo bhi j2len) acc).1 x = j2get acc.1 x) ∧
    (js.Nodup → ∀ x, x ∈ js → cellOn a b i blo bhi x = true → (∀ p, p ∈ acc.1 → p.1 ≠ x) →
      j2get (js.foldl (flmStep a b i blo bhi j2len) acc).1 x = kOf j2len x ∧
      kOf j2len x ≤ (js.foldl (flmStep a b i blo bhi j2len) acc).2.size) := by
  induction js with
  | nil =>
    intro acc
    exact ⟨Nat.le_refl _, fun _ _ => rfl, fun _ x hx => by cases hx⟩
  | cons j js ih =>
    intro acc
    simp only [List.foldl_cons]
    obtain ⟨i1, i2, i3⟩ := ih (flmStep a b i blo bhi j2len acc j)
    cases hon : cellOn a b i blo bhi j with
    | false =>
      rw [flmStep_off acc j hon] at i1 i2 i3 ⊢
      refine ⟨i1, ?_, ?_⟩
      · intro x hx
        exact i2 x (fun hc => hx (List.mem_cons_of_mem _ hc))
      · intro hnd x hx hc habs
        obtain ⟨hjn, hnd'⟩ := List.nodup_cons.mp hnd
        rcases List.mem_cons.mp hx with rfl | hx'
        · rw [hon] at hc; cases hc
        · exact i3 hnd' x hx' hc habs
    | true =>
      obtain ⟨s1, s2, s3⟩ := flmStep_on (j2len := j2len) acc j hon
      refine ⟨Nat.le_trans s2 i1, ?_, ?_⟩
      · intro x hx
        have hxj : j ≠ x := fun e => hx (e ▸ List.mem_cons_self)
        rw [i2 x (fun hc => hx (List.mem_cons_of_mem _ hc)), s1, j2get_append_of_ne _ _ _ _ hxj]
      · intro hnd x hx hc habs
        obtain ⟨hjn, hnd'⟩ := List.nodup_cons.mp hnd
        rcases List.mem_cons.mp hx with rfl | hx'
        · rw [i2 x hjn, s1, j2get_append_of_absent _ _ _ _ habs]
          simp only [if_true]
          exact ⟨trivial, Nat.le_trans s3 i1⟩
        · have hxj : j ≠ x := fun e => hjn (e ▸ hx')
          apply i3 hnd' x hx' hc
          intro p hp
          rw [s1] at hp
          rcases List.mem_append.mp hp with hp | hp
          · exact habs p hp
          · simp only [List.mem_singleton] at hp; subst hp; exact hxj


theorem extendBack_size (a b : List Line) (alo blo : Nat) (fuel : Nat) (m : Match) :
    m.size ≤ (extendBack a b alo blo fuel m).size := by
  induction fuel generalizing m with
  | zero => exact Nat.le_refl _
  | succ f ih =>
    unfold extendBack
    split
    · exact Nat.le_trans (Nat.le_succ _) (ih ⟨m.a - 1, m.b - 1, m.size + 1⟩)
    · exact Nat.le_refl _

theorem extendFwd_size (a b : List Line) (ahi bhi : Nat) (fuel : Nat) (m : Match) :
    m.size ≤ (extendFwd a b ahi bhi fuel m).size := by
  induction fuel generalizing m with
  | zero => exact Nat.le_refl _
  | succ f ih =>
    unfold extendFwd
    split
    · exact Nat.le_trans (Nat.le_succ _) (ih { m with size := m.size + 1 })
    · exact Nat.le_refl _

/-- walking down the diagonal of `a` against itself: after the rows `i0 … i0+m-1` the best block is
at least `i0 + m` long -/
theorem flmRows_self (a : List Line) (m : Nat) : ∀ (i0 : Nat) (j2len : List (Nat × Nat)) (best : Match),
    i0 + m ≤ a.length → (i0 = 0 ∨ i0 ≤ j2get j2len (i0 - 1)) → i0 ≤ best.size →
    i0 + m ≤ (flmRows a a 0 a.length ((List.range m).map (· + i0)) j2len best).size := by
  induction m with
  | zero => intro i0 j2len best _ _ hb; simpa [flmRows] using hb
  | succ m ih =>
    intro i0 j2len best hlen hprev hb
    have hr : (List.range (m + 1)).map (· + i0) = i0 :: (List.range m).map (· + (i0 + 1)) := by
      rw [List.range_succ_eq_map]
      simp only [List.map_cons, List.map_map, Nat.zero_add]
      congr 1
      apply List.map_congr_left
      intro x _; simp only [Function.comp]; omega
    rw [hr]
    simp only [flmRows]
    unfold flmRow
    have hi0 : i0 < a.length := by omega
    have hon : cellOn a a i0 0 a.length i0 = true := by
      unfold cellOn; simp [hi0]
    obtain ⟨_, _, f3⟩ := flmFold_self (a := a) (b := a) (i := i0) (blo := 0) (bhi := a.length) (j2len := j2len)
      (List.range a.length) ([], best)
    obtain ⟨g1, g2⟩ := f3 List.nodup_range i0 (List.mem_range.mpr hi0) hon (by intro p hp; cases hp)
    have hk : i0 + 1 ≤ kOf j2len i0 := by
      unfold kOf
      rcases hprev with h0 | h0
      · subst h0; simp
      · by_cases hz : i0 = 0
        · subst hz; simp
        · simp only [hz, if_false]; omega
    have := ih (i0 + 1) _ _ (by omega) (Or.inr (by simp only [Nat.add_sub_cancel]; rw [g1]; exact hk)) (Nat.le_trans hk g2)
    omega

/-- **a text matched against itself is one block: the whole text** -/
theorem flm_self (a : List Line) : findLongestMatch a a 0 a.length 0 a.length = ⟨0, 0, a.length⟩ := by
  have hok := flm_ok a a 0 a.length 0 a.length (Nat.zero_le _) (Nat.zero_le _)
  have hsz : a.length ≤ (findLongestMatch a a 0 a.length 0 a.length).size := by
    unfold findLongestMatch
    refine Nat.le_trans ?_ (extendFwd_size _ _ _ _ _ _)
    refine Nat.le_trans ?_ (extendBack_size _ _ _ _ _ _)
    have := flmRows_self a a.length 0 [] ⟨0, 0, 0⟩ (by omega) (Or.inl rfl) (Nat.zero_le _)
    simpa using this
  obtain ⟨h1, h2, h3, h4, _⟩ := hok
  generalize findLongestMatch a a 0 a.length 0 a.length = m at *
  obtain ⟨ma, mb, ms⟩ := m
  simp only at h1 h2 h3 h4 hsz
  have e1 : ms = a.length := by omega
  have e2 : ma = 0 := by omega
  have e3 : mb = 0 := by omega
  subst e1 e2 e3; rfl


theorem matchingBlocks_self (a : List Line) (hne : a ≠ []) :
    matchingBlocks a a = [⟨0, 0, a.length⟩, ⟨a.length, a.length, 0⟩] := by
  have hn : 0 < a.length := List.length_pos_iff.mpr hne
  unfold matchingBlocks
  have hmb : matchBlocks a a (a.length + a.length + 1) 0 a.length 0 a.length [] = [⟨0, 0, a.length⟩] := by
    simp only [matchBlocks, flm_self]
    simp [hn]
  rw [hmb]
  simp only [collapse, List.foldl_cons, List.foldl_nil, collapseStep]
  simp [hn]

theorem getOpCodes_self (a : List Line) (hne : a ≠ []) : getOpCodes a a = [⟨'e', 0, a.length, 0, a.length⟩] := by
  have hn : 0 < a.length := List.length_pos_iff.mpr hne
  unfold getOpCodes
  rw [matchingBlocks_self a hne]
  simp only [opCodesOf, List.foldl_cons, List.foldl_nil, opStep, opGap, opEq]
  simp [hn]

theorem groupOpCodes_single_equal (n : Nat) (hn : 0 < n) : groupOpCodes 3 [⟨'e', 0, n, 0, n⟩] = [] := by
  simp only [groupOpCodes, List.isEmpty_cons, Bool.false_eq_true, if_false, trimFirst, trimLast, List.reverse_cons,
    List.reverse_nil, List.nil_append, beq_self_eq_true, if_true, List.foldl_cons, List.foldl_nil, groupStep]
  have h6 : ¬ (6 < min n (n - 3 + 3) - (n - 3)) := by omega
  simp [h6]

/-- **equal texts give an empty diff** (the converse of `unifiedDiff_nil_eq`) -/
theorem unifiedDiff_self (a : List Line) (hne : a ≠ []) : unifiedDiff a a = [] := by
  have hn : 0 < a.length := List.length_pos_iff.mpr hne
  unfold unifiedDiff
  rw [getOpCodes_self a hne, groupOpCodes_single_equal a.length hn]
  rfl

theorem splitLines_ne_nil (s : List Char) : splitLines s ≠ [] := by
  unfold splitLines
  split
  · rename_i h
    have : splitAfterNL s ≠ [] := by
      cases s with
      | nil => simp [splitAfterNL]
      | cons c cs =>
        unfold splitAfterNL
        split
        · simp
        · split <;> simp
    exact absurd (List.reverse_eq_nil_iff.mp h) this
  · simp

theorem diff_self (s : List Char) : diff s s = [] := by
  unfold diff
  rw [unifiedDiff_self _ (splitLines_ne_nil s)]
  rfl

end Diff
