import FsnVerif.Model.Inotify
/-! The rename-cookie ring is a sliding window over the last ten stores (C11). -/
namespace Fsn

abbrev Slot := BitVec 32 × Path
def zeroSlot : Slot := (0#32, [])

/-- slots oldest first: the slot at `idx` is the next to be overwritten -/
def Ring.window (r : Ring) : List Slot := r.slots.drop r.idx ++ r.slots.take r.idx

def Ring.WF (r : Ring) : Prop := r.slots.length = 10 ∧ r.idx < 10

theorem Ring.empty_wf : Ring.empty.WF := by constructor <;> simp [Ring.empty]

theorem len10 {α : Type} (l : List α) (h : l.length = 10) :
    ∃ a0 a1 a2 a3 a4 a5 a6 a7 a8 a9, l = [a0, a1, a2, a3, a4, a5, a6, a7, a8, a9] := by
  match l, h with
  | [a0, a1, a2, a3, a4, a5, a6, a7, a8, a9], _ => exact ⟨a0, a1, a2, a3, a4, a5, a6, a7, a8, a9, rfl⟩

theorem Ring.store_wf (r : Ring) (h : r.WF) (c : BitVec 32) (p : Path) : (r.store c p).WF := by
  obtain ⟨hl, hi⟩ := h
  constructor
  · simp [Ring.store, hl]
  · simp only [Ring.store]; split <;> omega

/-- storing drops the oldest entry of the window and appends the new one -/
theorem Ring.store_window (r : Ring) (h : r.WF) (c : BitVec 32) (p : Path) :
    (r.store c p).window = r.window.tail ++ [(c, p)] := by
  obtain ⟨hl, hi⟩ := h
  obtain ⟨a0, a1, a2, a3, a4, a5, a6, a7, a8, a9, hs⟩ := len10 r.slots hl
  obtain ⟨slots, idx⟩ := r
  simp only at hs hi
  subst hs
  have : idx = 0 ∨ idx = 1 ∨ idx = 2 ∨ idx = 3 ∨ idx = 4 ∨ idx = 5 ∨ idx = 6 ∨ idx = 7 ∨ idx = 8 ∨ idx = 9 := by omega
  rcases this with h | h | h | h | h | h | h | h | h | h <;> subst h <;> rfl

theorem Ring.window_length (r : Ring) (h : r.WF) : r.window.length = 10 := by
  obtain ⟨hl, hi⟩ := h
  simp [Ring.window, hl]; omega

/-- the ring after a history of stores (oldest first) -/
def ringOf (stores : List Slot) : Ring := stores.foldl (fun r s => r.store s.1 s.2) Ring.empty

theorem ringOf_wf (stores : List Slot) : (ringOf stores).WF := by
  unfold ringOf
  suffices ∀ r : Ring, r.WF → (stores.foldl (fun r s => r.store s.1 s.2) r).WF from this _ Ring.empty_wf
  induction stores with
  | nil => intro r h; exact h
  | cons s ss ih => intro r h; exact ih _ (Ring.store_wf r h _ _)

theorem ringOf_snoc (stores : List Slot) (s : Slot) : ringOf (stores ++ [s]) = (ringOf stores).store s.1 s.2 := by
  simp [ringOf, List.foldl_append]

theorem foldl_store_window (ss : List Slot) (r : Ring) (h : r.WF) :
    (ss.foldl (fun r s => r.store s.1 s.2) r).window = (r.window ++ ss).drop ss.length := by
  induction ss generalizing r with
  | nil => simp
  | cons s ss ih =>
    simp only [List.foldl_cons]
    rw [ih _ (Ring.store_wf r h _ _), Ring.store_window r h]
    have hl := Ring.window_length r h
    match hw : r.window, hl with
    | a :: t, _ =>
      simp only [List.tail_cons, List.length_cons, List.cons_append, List.drop_succ_cons, List.append_assoc,
        List.nil_append]

/-- **window invariant**: after any number of stores the ten slots are exactly the last ten
stored (cookie, path) pairs (padded with the zero value while fewer than ten were stored) -/
theorem ring_is_window (stores : List Slot) :
    (ringOf stores).window = (List.replicate 10 zeroSlot ++ stores).drop stores.length := by
  unfold ringOf
  rw [foldl_store_window stores Ring.empty Ring.empty_wf]
  rfl

/-- front-to-back search for a cookie -/
def findIn (l : List Slot) (c : BitVec 32) : Path :=
  match l.find? (fun s => s.1 == c) with
  | some s => s.2
  | none => []

theorem Ring.find_eq (r : Ring) (c : BitVec 32) : r.find c = findIn r.slots c := rfl

/-- if at most one slot carries cookie `c`, the search finds that slot's path wherever it is -/
theorem findIn_of_unique (l : List Slot) (c : BitVec 32) (p : Path) (hmem : (c, p) ∈ l)
    (huniq : ∀ s ∈ l, s.1 = c → s = (c, p)) : findIn l c = p := by
  unfold findIn
  induction l with
  | nil => cases hmem
  | cons s ss ih =>
    simp only [List.find?_cons]
    by_cases hs : s.1 = c
    · have := huniq s (by simp) hs
      simp [this]
    · have hne : (s.1 == c) = false := by simpa using hs
      simp only [hne]
      apply ih
      · rcases List.mem_cons.mp hmem with h | h
        · exact absurd (by rw [← h]) hs
        · exact h
      · intro t ht; exact huniq t (List.mem_cons_of_mem _ ht)

theorem findIn_of_absent (l : List Slot) (c : BitVec 32) (h : ∀ s ∈ l, s.1 ≠ c) : findIn l c = [] := by
  unfold findIn
  have : l.find? (fun s => s.1 == c) = none := by
    rw [List.find?_eq_none]; intro s hs; simpa using h s hs
  rw [this]

theorem Ring.mem_window (r : Ring) (s : Slot) : s ∈ r.window ↔ s ∈ r.slots := by
  unfold Ring.window
  rw [List.mem_append]
  constructor
  · rintro (h | h)
    · exact List.mem_of_mem_drop h
    · exact List.mem_of_mem_take h
  · intro h
    rw [← List.take_append_drop r.idx r.slots] at h
    rcases List.mem_append.mp h with h | h
    · exact Or.inr h
    · exact Or.inl h

end Fsn
