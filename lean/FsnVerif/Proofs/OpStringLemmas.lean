import FsnVerif.Proofs.BitsLemmas
/-! Lemmas for C16: `Op.String` depends only on the nine defined bits and can be parsed back. -/
namespace Fsn

/-- `o & b` for a single bit `b` -/
theorem and_single {b : BitVec 32} (hb : isSingleBit b = true) (o : BitVec 32) :
    o &&& b = if opHas o b then b else 0#32 := by
  obtain ⟨k, hk, rfl⟩ := isSingleBit_spec hb
  unfold opHas
  rw [BitVec.and_twoPow]
  have := twoPow_ne_zero k hk
  by_cases h : o.getLsbD k <;> simp [h, this]

/-- the defined part of an `Op` as a function of the nine `Has` tests -/
theorem and_defined (o : BitVec 32) :
    o &&& definedOps =
      ((((((((if opHas o Create then Create else 0#32) ||| (if opHas o Write then Write else 0#32)) |||
        (if opHas o Remove then Remove else 0#32)) ||| (if opHas o Rename then Rename else 0#32)) |||
        (if opHas o Chmod then Chmod else 0#32)) ||| (if opHas o Open then Open else 0#32)) |||
        (if opHas o Read then Read else 0#32)) ||| (if opHas o CloseWrite then CloseWrite else 0#32)) |||
        (if opHas o CloseRead then CloseRead else 0#32) := by
  have hd : definedOps = (((((((Create ||| Write) ||| Remove) ||| Rename) ||| Chmod) ||| Open) ||| Read) |||
      CloseWrite) ||| CloseRead := by decide
  rw [hd]
  simp only [BitVec.and_or_distrib_left]
  rw [and_single (b := Create) (by decide), and_single (b := Write) (by decide), and_single (b := Remove) (by decide),
    and_single (b := Rename) (by decide), and_single (b := Chmod) (by decide), and_single (b := Open) (by decide),
    and_single (b := Read) (by decide), and_single (b := CloseWrite) (by decide),
    and_single (b := CloseRead) (by decide)]

/-! ### parsing a rendering back -/

def splitBar (s : List Char) : List (List Char) :=
  s.foldr (fun c acc => if c == '|' then [] :: acc else
    match acc with
    | [] => [[c]]
    | x :: xs => (c :: x) :: xs) [[]]

def lookupName (n : List Char) : BitVec 32 :=
  match opNameTable.find? (fun p => p.2 == n) with
  | some p => p.1
  | none => 0#32

def parseOps (s : List Char) : BitVec 32 :=
  (splitBar s).foldl (fun acc n => acc ||| lookupName n) 0#32

end Fsn
