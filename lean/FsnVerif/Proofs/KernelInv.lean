import FsnVerif.Proofs.KernelLemmas
/-!
# The joint invariant of library and kernel (`Model/Kernel`)

Every kernel mark is known to the library; every descriptor the library knows is backed by a mark
or by a queued record that says the mark is gone; such a record never names a live mark;
descriptors are handed out in ascending order.
-/
namespace Kern
open Fsn

structure Agree (j : J) : Prop where
  inv : j.lib.Inv
  norec : j.lib.NoRec
  nodup : j.marks.Nodup
  mark_known : ∀ x, x ∈ j.marks → alHas x j.lib.wdT = true
  known_backed : ∀ x, alHas x j.lib.wdT = true → x ∈ j.marks ∨ ∃ r, r ∈ j.queue ∧ r.wd = x ∧ gone r.mask = true
  gone_dead : ∀ r, r ∈ j.queue → gone r.mask = true → r.wd ∉ j.marks
  marks_below : ∀ x, x ∈ j.marks → x < j.next
  queue_below : ∀ r, r ∈ j.queue → r.wd < j.next
  next_pos : 0 < j.next

theorem agree_init : Agree {} where
  inv := Lib.inv_empty
  norec := Lib.norec_empty
  nodup := List.nodup_nil
  mark_known := by intro x h; cases h
  known_backed := by intro x h; simp [alHas, alLookup] at h
  gone_dead := by intro r h; cases h
  marks_below := by intro x h; cases h
  queue_below := by intro r h; cases h
  next_pos := by decide

theorem gone_ignored (wd : Nat) : gone (ignoredRec wd).mask = true := by
  show gone IN_IGNORED = true
  decide

theorem mem_released {before after : List Nat} {r : Raw} (h : r ∈ released before after) :
    r.wd ∈ before ∧ r.wd ∉ after ∧ gone r.mask = true := by
  unfold released at h
  simp only [List.mem_map, List.mem_filter] at h
  obtain ⟨wd, ⟨h1, h2⟩, rfl⟩ := h
  refine ⟨h1, ?_, gone_ignored wd⟩
  show wd ∉ after
  simpa using h2

theorem released_of {before after : List Nat} {wd : Nat} (h1 : wd ∈ before) (h2 : wd ∉ after) :
    ∃ r, r ∈ released before after ∧ r.wd = wd ∧ gone r.mask = true := by
  refine ⟨ignoredRec wd, ?_, rfl, gone_ignored wd⟩
  unfold released
  simp only [List.mem_map, List.mem_filter]
  exact ⟨wd, ⟨h1, by simpa using h2⟩, rfl⟩

theorem K0_envOf (j : J) (a : Agree j) (ans : AddAns) (hadm : ∀ wd, ans = .existing wd → wd ∈ j.marks) : (envOf j ans).K0 := by
  intro p f wd h
  unfold envOf at h
  simp only at h
  cases ans with
  | err e => cases h
  | existing wd' =>
    injection h with h; subst h
    have := a.mark_known _ (hadm _ rfl)
    intro h0; subst h0
    simp [alHas, a.inv.no_zero] at this
  | fresh =>
    injection h with h; subst h
    exact Nat.pos_iff_ne_zero.mp a.next_pos

theorem agree_add (j : J) (a : Agree j) (arg : Path) (ops : BitVec 32) (nf : Bool) (ans : AddAns)
    (hadm : admissible j (.add arg ops nf ans)) : Agree (step j (.add arg ops nf ans)) := by
  have hadm' : ∀ wd, ans = .existing wd → wd ∈ j.marks := by
    intro wd h; subst h; exact hadm
  have hk0 := K0_envOf j a ans hadm'
  obtain ⟨hinv', hnorec'⟩ := a.inv.add a.norec (envOf j ans) hk0 arg ops nf
  cases ans with
  | err e =>
    obtain ⟨e1, e2, e3⟩ := add_err j.lib (envOf j (.err e)) arg ops nf e (fun _ _ => rfl)
    have hnone : ((j.lib.add (envOf j (AddAns.err e)) arg ops nf).2.2.ret.isNone) = false := by
      cases hr : (j.lib.add (envOf j (AddAns.err e)) arg ops nf).2.2.ret with
      | none => rw [hr] at e3; cases e3
      | some _ => rfl
    have hrel : released j.marks j.marks = [] := by
      unfold released
      simp
    have e2' : (j.lib.add (envOf j (AddAns.err e)) arg ops nf).2.1.marks = j.marks := by rw [e2]; rfl
    have : step j (.add arg ops nf (.err e)) = j := by
      simp only [step, e1, e2', hrel, List.append_nil, reduceCtorEq, decide_false, Bool.false_and, Bool.false_eq_true, if_false]
    rw [this]
    exact a
  | existing wd =>
    have hwd : wd ∈ j.marks := hadm
    obtain ⟨hret, hkeys, hmarks, hnd⟩ := add_ok a.inv (envOf j (.existing wd)) a.nodup arg ops nf wd (fun _ _ => rfl)
    simp only [step, reduceCtorEq, decide_false, Bool.false_and, Bool.false_eq_true, if_false]
    refine { inv := hinv', norec := hnorec', nodup := hnd, mark_known := ?_, known_backed := ?_, gone_dead := ?_,
             marks_below := ?_, queue_below := ?_, next_pos := a.next_pos }
    · intro x hx
      obtain ⟨h1, h2⟩ := (hmarks x).mp hx
      rw [hkeys x]
      by_cases hxw : x = wd
      · simp [hxw]
      · have hxm : x ∈ j.marks := h1.resolve_left hxw
        have : ¬ (alLookup (clean arg) j.lib.pathT = some x) := fun hc => h2 ⟨hc, hxw⟩
        simp [a.mark_known x hxm, this]
    · intro x hx
      rw [hkeys x] at hx
      by_cases hxw : x = wd
      · left; apply (hmarks x).mpr
        exact ⟨Or.inl hxw, fun hc => hc.2 hxw⟩
      · simp [hxw] at hx
        rcases a.known_backed x hx.1 with h1 | ⟨r, hr, hrw, hg⟩
        · left; apply (hmarks x).mpr
          exact ⟨Or.inr h1, fun hc => by simpa [hc.1, hxw] using hx.2⟩
        · right; exact ⟨r, List.mem_append_left _ hr, hrw, hg⟩
    · intro r hr hg
      rcases List.mem_append.mp hr with hr | hr
      · intro hc
        have := ((hmarks r.wd).mp hc).1
        rcases this with h1 | h1
        · exact a.gone_dead r hr hg (h1 ▸ hwd)
        · exact a.gone_dead r hr hg h1
      · exact (mem_released hr).2.1
    · intro x hx
      rcases ((hmarks x).mp hx).1 with h1 | h1
      · rw [h1]; exact a.marks_below _ hwd
      · exact a.marks_below _ h1
    · intro r hr
      rcases List.mem_append.mp hr with hr | hr
      · exact a.queue_below r hr
      · exact a.marks_below _ (mem_released hr).1
  | fresh =>
    obtain ⟨hret, hkeys, hmarks, hnd⟩ := add_ok a.inv (envOf j .fresh) a.nodup arg ops nf j.next (fun _ _ => rfl)
    have hisnone : ((j.lib.add (envOf j AddAns.fresh) arg ops nf).2.2.ret.isNone) = true := by rw [hret]; rfl
    simp only [step, decide_true, Bool.true_and, hisnone, if_true]
    have hfresh : j.next ∉ j.marks := fun hc => Nat.lt_irrefl _ (a.marks_below _ hc)
    refine { inv := hinv', norec := hnorec', nodup := hnd, mark_known := ?_, known_backed := ?_, gone_dead := ?_,
             marks_below := ?_, queue_below := ?_, next_pos := Nat.succ_pos _ }
    · intro x hx
      obtain ⟨h1, h2⟩ := (hmarks x).mp hx
      rw [hkeys x]
      by_cases hxw : x = j.next
      · simp [hxw]
      · have hxm : x ∈ j.marks := h1.resolve_left hxw
        have : ¬ (alLookup (clean arg) j.lib.pathT = some x) := fun hc => h2 ⟨hc, hxw⟩
        simp [a.mark_known x hxm, this]
    · intro x hx
      rw [hkeys x] at hx
      by_cases hxw : x = j.next
      · left; apply (hmarks x).mpr
        exact ⟨Or.inl hxw, fun hc => hc.2 hxw⟩
      · simp [hxw] at hx
        rcases a.known_backed x hx.1 with h1 | ⟨r, hr, hrw, hg⟩
        · left; apply (hmarks x).mpr
          exact ⟨Or.inr h1, fun hc => by simpa [hc.1, hxw] using hx.2⟩
        · right; exact ⟨r, List.mem_append_left _ hr, hrw, hg⟩
    · intro r hr hg
      rcases List.mem_append.mp hr with hr | hr
      · intro hc
        rcases ((hmarks r.wd).mp hc).1 with h1 | h1
        · exact Nat.lt_irrefl _ (h1 ▸ a.queue_below r hr)
        · exact a.gone_dead r hr hg h1
      · exact (mem_released hr).2.1
    · intro x hx
      rcases ((hmarks x).mp hx).1 with h1 | h1
      · rw [h1]; exact Nat.lt_succ_self _
      · exact Nat.lt_succ_of_lt (a.marks_below _ h1)
    · intro r hr
      rcases List.mem_append.mp hr with hr | hr
      · exact Nat.lt_succ_of_lt (a.queue_below r hr)
      · exact Nat.lt_succ_of_lt (a.marks_below _ (mem_released hr).1)


theorem agree_remove (j : J) (a : Agree j) (arg : Path) : Agree (step j (.remove arg)) := by
  obtain ⟨hinv', hnorec', _⟩ := a.inv.remove a.norec (envOf j (.err "")) (clean arg)
  rcases remove_effect a.inv a.norec (envOf j (.err "")) a.nodup (clean arg) with ⟨e1, e2⟩ | ⟨w, hw, e1, e2, e3⟩
  · have e2' : (j.lib.remove (envOf j (.err "")) (clean arg)).2.1.marks = j.marks := by rw [e2]; rfl
    have hrel : released j.marks j.marks = [] := by unfold released; simp
    have : step j (.remove arg) = j := by
      simp only [step, e1, e2', hrel, List.append_nil]
    rw [this]; exact a
  · simp only [step]
    refine { inv := hinv', norec := hnorec', nodup := e3, mark_known := ?_, known_backed := ?_, gone_dead := ?_,
             marks_below := ?_, queue_below := ?_, next_pos := a.next_pos }
    · intro x hx
      obtain ⟨h1, h2⟩ := (e2 x).mp hx
      rw [e1, dropWatch_has]
      simp [h2, a.mark_known x h1]
    · intro x hx
      rw [e1, dropWatch_has] at hx
      simp at hx
      rcases a.known_backed x hx.2 with h1 | ⟨r, hr, hrw, hg⟩
      · left; exact (e2 x).mpr ⟨h1, hx.1⟩
      · right; exact ⟨r, List.mem_append_left _ hr, hrw, hg⟩
    · intro r hr hg
      rcases List.mem_append.mp hr with hr | hr
      · intro hc; exact a.gone_dead r hr hg ((e2 _).mp hc).1
      · exact (mem_released hr).2.1
    · intro x hx; exact a.marks_below _ ((e2 x).mp hx).1
    · intro r hr
      rcases List.mem_append.mp hr with hr | hr
      · exact a.queue_below r hr
      · exact a.marks_below _ (mem_released hr).1

theorem agree_note (j : J) (a : Agree j) (r : Raw) (hadm : admissible j (.note r)) : Agree (step j (.note r)) := by
  obtain ⟨hm, hg⟩ := hadm
  simp only [step]
  refine { inv := a.inv, norec := a.norec, nodup := a.nodup, mark_known := a.mark_known, known_backed := ?_, gone_dead := ?_,
           marks_below := a.marks_below, queue_below := ?_, next_pos := a.next_pos }
  · intro x hx
    rcases a.known_backed x hx with h1 | ⟨r', hr, hrw, hg'⟩
    · exact Or.inl h1
    · exact Or.inr ⟨r', List.mem_append_left _ hr, hrw, hg'⟩
  · intro r' hr hg'
    rcases List.mem_append.mp hr with hr | hr
    · exact a.gone_dead r' hr hg'
    · simp only [List.mem_singleton] at hr; subst hr; rw [hg] at hg'; cases hg'
  · intro r' hr
    rcases List.mem_append.mp hr with hr | hr
    · exact a.queue_below r' hr
    · simp only [List.mem_singleton] at hr; subst hr; exact a.marks_below _ hm

theorem agree_kill (j : J) (a : Agree j) (wd : Nat) (um : Bool) (hadm : admissible j (.kill wd um)) : Agree (step j (.kill wd um)) := by
  have hwd : wd ∈ j.marks := hadm
  simp only [step]
  have hmem : ∀ x, x ∈ j.marks.erase wd ↔ x ≠ wd ∧ x ∈ j.marks := fun x => a.nodup.mem_erase_iff
  have hgone : gone (if um then IN_UNMOUNT else IN_DELETE_SELF) = true := by cases um <;> decide
  refine { inv := a.inv, norec := a.norec, nodup := a.nodup.erase _, mark_known := ?_, known_backed := ?_, gone_dead := ?_,
           marks_below := ?_, queue_below := ?_, next_pos := a.next_pos }
  · intro x hx; exact a.mark_known x ((hmem x).mp hx).2
  · intro x hx
    rcases a.known_backed x hx with h1 | ⟨r', hr, hrw, hg'⟩
    · by_cases hxw : x = wd
      · right
        exact ⟨ignoredRec wd, by simp, hxw.symm, gone_ignored wd⟩
      · exact Or.inl ((hmem x).mpr ⟨hxw, h1⟩)
    · exact Or.inr ⟨r', List.mem_append_left _ hr, hrw, hg'⟩
  · intro r' hr hg'
    rcases List.mem_append.mp hr with hr | hr
    · intro hc; exact a.gone_dead r' hr hg' ((hmem _).mp hc).2
    · simp only [List.mem_cons, List.mem_singleton, List.not_mem_nil, or_false] at hr
      rcases hr with rfl | rfl
      · intro hc; exact ((hmem _).mp hc).1 rfl
      · intro hc; exact ((hmem _).mp hc).1 rfl
  · intro x hx; exact a.marks_below _ ((hmem x).mp hx).2
  · intro r' hr
    rcases List.mem_append.mp hr with hr | hr
    · exact a.queue_below r' hr
    · simp only [List.mem_cons, List.mem_singleton, List.not_mem_nil, or_false] at hr
      rcases hr with rfl | rfl
      · exact a.marks_below _ hwd
      · exact a.marks_below _ hwd

theorem agree_read (j : J) (a : Agree j) : Agree (step j .read) := by
  unfold step
  cases hq : j.queue with
  | nil => simp only; exact a
  | cons r q =>
    simp only
    obtain ⟨hinv', hnorec', _⟩ := a.inv.stepRecord a.norec (envOf j (.err "")) r
    have eff := handle_effect a.inv a.norec (envOf j (.err "")) a.nodup r
    have hrq : r ∈ j.queue := by rw [hq]; simp
    have hqq : ∀ r', r' ∈ q → r' ∈ j.queue := fun r' h => by rw [hq]; exact List.mem_cons_of_mem _ h
    refine { inv := hinv', norec := hnorec', nodup := eff.marks_nodup, mark_known := ?_, known_backed := ?_, gone_dead := ?_,
             marks_below := ?_, queue_below := ?_, next_pos := a.next_pos }
    · intro x hx
      have hxm : x ∈ j.marks := eff.marks_shrink x hx
      have hk := a.mark_known x hxm
      cases hh : alHas x (j.lib.stepRecord (envOf j (.err "")) r).lib.wdT with
      | true => rfl
      | false =>
        rcases eff.dropped_why x hk hh with ⟨h1, h2⟩ | h1
        · exact absurd (h1 ▸ hxm) (a.gone_dead r hrq h2)
        · exact absurd hx h1
    · intro x hx
      have hk := eff.keys_shrink x hx
      rcases a.known_backed x hk with h1 | ⟨r', hr, hrw, hg⟩
      · by_cases hxm : x ∈ (j.lib.stepRecord (envOf j (.err "")) r).env.marks
        · exact Or.inl hxm
        · have := eff.released_dropped x h1 hxm
          rw [this] at hx; cases hx
      · rw [hq] at hr
        rcases List.mem_cons.mp hr with rfl | hr
        · have := eff.gone_dropped hg
          rw [hrw, hx] at this; cases this
        · exact Or.inr ⟨r', List.mem_append_left _ hr, hrw, hg⟩
    · intro r' hr hg
      rcases List.mem_append.mp hr with hr | hr
      · intro hc; exact a.gone_dead r' (hqq r' hr) hg (eff.marks_shrink _ hc)
      · exact (mem_released hr).2.1
    · intro x hx; exact a.marks_below _ (eff.marks_shrink x hx)
    · intro r' hr
      rcases List.mem_append.mp hr with hr | hr
      · exact a.queue_below r' (hqq r' hr)
      · exact a.marks_below _ (mem_released hr).1

/-- the joint invariant holds in every reachable state of library + kernel -/
theorem reach_agree {j : J} (h : Reach j) : Agree j := by
  induction h with
  | init => exact agree_init
  | step j op _ hadm ih =>
    cases op with
    | add arg ops nf ans => exact agree_add j ih arg ops nf ans hadm
    | remove arg => exact agree_remove j ih arg
    | note r => exact agree_note j ih r hadm
    | kill wd um => exact agree_kill j ih wd um hadm
    | read => exact agree_read j ih

end Kern
