import FsnVerif.Proofs.SkeletonTieDefs
import FsnVerif.Proofs.SkeletonTieFns
/-!
# Tie T (concurrency skeleton): regenerated from the source on every run = hand-reviewed expectation
(definitions in `SkeletonTieDefs`, the per-function comparison in `SkeletonTieFns`)
-/
namespace SkeletonTie
open Skel

/-- no function WITH PROTOCOL CONTENT (a lock, a send, a close, a syscall, a protocol call, a `go`: anything its
`Skel.lite` view keeps besides returns) was added to or removed from the three files; a new helper that only
computes is none of the protocol's business -/
def hasContent (ops : List SkOp) : Bool := (Skel.lite ops).any (fun o => o.kind != "ret" && o.kind != "ifBegin" && o.kind != "ifEnd")

theorem function_set_ok :
    (Gen.skeleton.filter (fun f => hasContent f.ops)).map (·.name) =
      (Expected.functions.filter (fun f => hasContent f.2)).map (·.1) := by decide +kernel

theorem sendsWhileLocked_ok : Gen.sendsWhileLocked = Expected.sendsWhileLocked := by decide +kernel
theorem closers_ok : Gen.closers = Expected.closers := by decide +kernel
theorem senders_ok : Gen.senders = Expected.senders := by decide +kernel
theorem goStmts_ok : Gen.goStmts = Expected.goStmts := by decide +kernel
theorem withCreate_dead : Gen.withCreateCallers = [] := by decide +kernel

end SkeletonTie
