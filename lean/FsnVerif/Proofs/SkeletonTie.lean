import FsnVerif.Generated.Skeleton
import FsnVerif.Expected.Skeleton
/-!
# Tie T (concurrency skeleton): regenerated from the source on every run = hand-reviewed expectation
-/
namespace SkeletonTie
open Skel

def lookupFn (n : String) (sk : List FnSkel) : Option (List SkOp) :=
  match sk.find? (fun f => f.name == n) with
  | some f => some f.ops
  | none => none

/-- the functions the protocol model (`Model/Proto`) abstracts -/
def protocolFns : List String :=
  ["shared.close", "shared.isClosed", "shared.sendEvent", "shared.sendError", "newShared", "newBackend",
   "inotify.Close", "inotify.readEvents", "inotify.Add", "inotify.AddWith", "inotify.Remove", "inotify.WatchList",
   "inotify.handleEvent", "inotify.remove", "inotify.register", "NewWatcher", "NewBufferedWatcher"]

def expectedOf (n : String) : Option (List SkOp) :=
  match Expected.functions.find? (fun f => f.1 == n) with
  | some f => some f.2
  | none => none

/-- every protocol function has exactly the expected lock / send / close / syscall skeleton -/
theorem protocol_skeleton_ok : protocolFns.all (fun n => lookupFn n Gen.skeleton == expectedOf n && (expectedOf n).isSome) = true := by
  decide +kernel

/-- no function was added to or removed from the three files -/
theorem function_set_ok : Gen.skeleton.map (·.name) = Expected.functions.map (·.1) := by decide +kernel

theorem sendsWhileLocked_ok : Gen.sendsWhileLocked = Expected.sendsWhileLocked := by decide +kernel
theorem closers_ok : Gen.closers = Expected.closers := by decide +kernel
theorem senders_ok : Gen.senders = Expected.senders := by decide +kernel
theorem goStmts_ok : Gen.goStmts = Expected.goStmts := by decide +kernel
theorem withCreate_dead : Gen.withCreateCallers = [] := by decide +kernel

end SkeletonTie
