import FsnVerif.Proofs.SkeletonTieDefs
import FsnVerif.Proofs.SkeletonTieFns
/-!
# Tie T (concurrency skeleton): regenerated from the source on every run = hand-reviewed expectation
(definitions in `SkeletonTieDefs`, the per-function comparison in `SkeletonTieFns`)
-/
namespace SkeletonTie
open Skel

/-- no function was added to or removed from the three files -/
theorem function_set_ok : Gen.skeleton.map (·.name) = Expected.functions.map (·.1) := by decide +kernel

theorem sendsWhileLocked_ok : Gen.sendsWhileLocked = Expected.sendsWhileLocked := by decide +kernel
theorem closers_ok : Gen.closers = Expected.closers := by decide +kernel
theorem senders_ok : Gen.senders = Expected.senders := by decide +kernel
theorem goStmts_ok : Gen.goStmts = Expected.goStmts := by decide +kernel
theorem withCreate_dead : Gen.withCreateCallers = [] := by decide +kernel

end SkeletonTie
