import FsnVerif.Proofs.KqFullFrame
import FsnVerif.Proofs.PathLemmas
/-!
# What the reader reports for directory entries, over the full kqueue model

`sendCreateIfNew` is the one place where a Create is synthesised; `Ret` statements pin down what an
internal watch answers (never a followed link), `Keep` what the adding side leaves alone.
-/
namespace KqF
open Fsn

/-- a statement about the value a computation returns, whatever the world -/
def Ret {α : Type} (S : α → Prop) (m : M α) : Prop := ∀ w : W, S (m w).1

theorem Ret.bind {α β : Type} {S : β → Prop} {m : M α} {k : α → M β} (h : ∀ a, Ret S (k a)) : Ret S (m >>= k) := by
  intro w; simp only [bind_apply]; exact h _ _

theorem Ret.pure {α : Type} {S : α → Prop} (a : α) (h : S a) : Ret S (pure a : M α) := fun _ => h

/-- internal watches (`listDir = true`) never follow links: what `openNew` hands on is the name it was given -/
def PreSame (name : Path) : Pre → Prop
  | .error (.ok p) => p = []
  | .error (.error _) => True
  | .ok (n, _, _) => n = name

theorem ret_openTail (name2 : Path) (info2 : KW) (fi2 : Kind) :
    Ret (PreSame name2) (do
        let __do_lift ← askOpen name2
        match __do_lift with
          | Except.error e => pure (Except.error (Except.error (Err.fs e)))
          | Except.ok fd =>
            pure (Except.ok (name2, { info2 with wd := fd, isDir := isDirKind fi2 }, false)) : M Pre) := by
  refine Ret.bind ?_
  intro r
  cases r with
  | error e => exact Ret.pure _ trivial
  | ok fd => exact Ret.pure _ rfl

theorem ret_openNew_internal (name : Path) (info0 : KW) : Ret (PreSame name) (openNew name info0 true) := by
  unfold openNew
  refine Ret.bind ?_
  intro r
  cases r with
  | error e => exact Ret.pure _ trivial
  | ok fi =>
    simp only []
    split
    · exact Ret.pure _ rfl
    · simp only [Bool.not_true, Bool.false_and, Bool.false_eq_true, if_false]
      exact ret_openTail name info0 fi

/-- `finishAdd` answers an error, the empty name, or the name it was given -/
def NameOrEmpty (name : Path) : Except Err Path → Prop
  | .error _ => True
  | .ok p => p = [] ∨ p = name

theorem ret_finishAdd (wdf : Path → M (Option Err)) (name : Path) (info : KW) (already : Bool) (flags : BitVec 32) :
    Ret (NameOrEmpty name) (finishAdd wdf name info already flags) := by
  unfold finishAdd
  refine Ret.bind ?_
  intro r
  cases r with
  | error e => exact Ret.bind (fun _ => Ret.pure _ trivial)
  | ok u =>
    have tail : Ret (NameOrEmpty name) (if info.isDir = true then
          have watchDir :=
            flags &&& NOTE_WRITE == NOTE_WRITE && (!already || info.dirFlags &&& NOTE_WRITE != NOTE_WRITE);
          do
          let __do_lift ← updateDirFlags name flags
          if (!__do_lift) = true then pure (Except.ok [])
            else
              if watchDir = true then
                have d := if (info.linkName != []) = true then info.linkName else name;
                do
                let __do_lift ← wdf d
                match __do_lift with
                  | some e => pure (Except.error e)
                  | none => pure (Except.ok name)
              else pure (Except.ok name)
        else pure (Except.ok name) : M (Except Err Path)) := by
      split
      · simp only []
        refine Ret.bind ?_
        intro b
        split
        · exact Ret.pure _ (Or.inl rfl)
        · split
          · refine Ret.bind ?_
            intro r; cases r
            · exact Ret.pure _ (Or.inr rfl)
            · exact Ret.pure _ trivial
          · exact Ret.pure _ (Or.inr rfl)
      · exact Ret.pure _ (Or.inr rfl)
    cases already with
    | true => exact tail
    | false => exact Ret.bind (fun _ => tail)

/-- an internal watch answers an error, the empty name, or the cleaned name it was asked for -/
theorem ret_addWatch_internal (fuel : Nat) (n : Path) (fl : BitVec 32) :
    Ret (NameOrEmpty (clean n)) (addWatch fuel n fl true) := by
  cases fuel with
  | zero =>
    unfold addWatch
    exact Ret.bind (fun _ => Ret.pure _ trivial)
  | succ fuel =>
    unfold addWatch
    refine Ret.bind ?_
    intro s0
    split
    · exact Ret.pure _ trivial
    · simp only []
      refine Ret.bind ?_
      intro x
      obtain ⟨info0, already0⟩ := x
      simp only []
      split
      · exact ret_finishAdd _ _ _ _ _
      · intro w
        simp only [bind_apply]
        have h1 := ret_openNew_internal (clean n) info0 w
        cases hp : (openNew (clean n) info0 true w).1 with
        | error r =>
          rw [hp] at h1
          cases r with
          | error e => trivial
          | ok p => simp only [PreSame] at h1; exact Or.inl h1
        | ok v =>
          obtain ⟨name, info, already⟩ := v
          rw [hp] at h1
          simp only [PreSame] at h1
          subst h1
          exact ret_finishAdd _ _ _ _ _ _


/-- the adding side delivers nothing, forgets nothing it has seen and does not close the Watcher -/
def Keep (a b : W) : Prop :=
  (∀ p, p ∈ a.s.seen → p ∈ b.s.seen) ∧ b.s.closed = a.s.closed ∧ b.events = a.events ∧ b.errors = a.errors

theorem frameAdd_keep : FrameAdd Keep where
  refl := fun _ => ⟨fun _ h => h, rfl, rfl, rfl⟩
  trans := fun _ _ _ h1 h2 => ⟨fun p hp => h2.1 p (h1.1 p hp), h2.2.1.trans h1.2.1, h2.2.2.1.trans h1.2.2.1, h2.2.2.2.trans h1.2.2.2⟩
  tape := fun _ _ _ => ⟨fun _ h => h, rfl, rfl, rfl⟩
  opened := fun _ _ _ => ⟨fun _ h => h, rfl, rfl, rfl⟩
  grow := fun _ _ hs _ hc => ⟨hs, hc, rfl, rfl⟩

theorem ret_internalWatch (fuel : Nat) (path : Path) (k : Kind) :
    Ret (NameOrEmpty (clean path)) (internalWatch (addWatch fuel) path k) := by
  unfold internalWatch
  split
  · exact Ret.bind (fun _ => ret_addWatch_internal _ _ _)
  · exact ret_addWatch_internal _ _ _

/-- **`sendCreateIfNew`**: Create is delivered exactly when the path has not been seen, and a call
that succeeds leaves the path seen -/
theorem sendCreateIfNew_spec (path : Path) (k : Kind) (w : W) (hc : w.s.closed = false) (hp : clean path = path) :
    (sendCreateIfNew path k w).2.events = w.events ++ (if w.s.seen.contains path then [] else [⟨path, Create⟩]) ∧
    (sendCreateIfNew path k w).2.errors = w.errors ∧
    (sendCreateIfNew path k w).2.s.closed = false ∧
    (∀ p, p ∈ w.s.seen → p ∈ (sendCreateIfNew path k w).2.s.seen) ∧
    ((sendCreateIfNew path k w).1 = none → path ∈ (sendCreateIfNew path k w).2.s.seen) := by
  -- the announcement
  have ha : (announce path w).1 = true ∧ (announce path w).2.s = w.s ∧ (announce path w).2.errors = w.errors ∧
      (announce path w).2.events = w.events ++ (if w.s.seen.contains path then [] else [⟨path, Create⟩]) := by
    by_cases hs : w.s.seen.contains path = true
    · have hm : path ∈ w.s.seen := by simpa using hs
      simp [announce, seenBefore, KqF.get, hm]
    · have hm : path ∉ w.s.seen := by simpa using hs
      have hne : (Create : BitVec 32) ≠ 0#32 := by decide
      simp [announce, seenBefore, KqF.get, hm, sendEvent, hc, hne]
  obtain ⟨a1, a2, a3, a4⟩ := ha
  have hk := rel_internalWatch frameAdd_keep (addWatch fuel) (rel_addWatch frameAdd_keep fuel) path k (announce path w).2
  have hr := ret_internalWatch fuel path k (announce path w).2
  obtain ⟨k1, k2, k3, k4⟩ := hk
  unfold sendCreateIfNew
  simp only [bind_apply, a1, Bool.not_true, Bool.false_eq_true, if_false]
  cases hres : (internalWatch (addWatch fuel) path k (announce path w).2).1 with
  | error e =>
    simp only [pure_apply]
    refine ⟨by rw [k3, a4], by rw [k4, a3], by rw [k2, a2, hc], fun p hp' => k1 p (a2 ▸ hp'), fun hn => by cases hn⟩
  | ok watched =>
    rw [hres] at hr
    simp only [NameOrEmpty, hp] at hr
    simp only [markSeen, modify, bind_apply, pure_apply, if_true]
    refine ⟨by rw [k3, a4], by rw [k4, a3], by rw [k2, a2, hc], fun p hp' => mem_setInsert (k1 p (a2 ▸ hp')), fun _ => ?_⟩
    have : (if (watched != []) = true then watched else path) = path := by
      rcases hr with h | h
      · subst h; simp
      · subst h; split <;> rfl
    rw [this]
    show path ∈ setInsert path _
    unfold setInsert
    split
    · rename_i hcn; simpa using hcn
    · simp

/-- **Create exactly once**: after a successful `sendCreateIfNew` for an entry, another one for the same
entry — whatever the environment answers this time — delivers nothing -/
theorem create_once (path : Path) (k k' : Kind) (w : W) (hc : w.s.closed = false) (hp : clean path = path)
    (h1 : (sendCreateIfNew path k w).1 = none) (tape' : List Ans) :
    (sendCreateIfNew path k' { (sendCreateIfNew path k w).2 with tape := tape' }).2.events = (sendCreateIfNew path k w).2.events := by
  obtain ⟨_, _, c1, _, c3⟩ := sendCreateIfNew_spec path k w hc hp
  have hseen := c3 h1
  have := (sendCreateIfNew_spec path k' { (sendCreateIfNew path k w).2 with tape := tape' } c1 hp).1
  rw [this]
  have hcont : ({ (sendCreateIfNew path k w).2 with tape := tape' } : W).s.seen.contains path = true := by
    show (sendCreateIfNew path k w).2.s.seen.contains path = true
    simpa using hseen
  rw [hcont]
  simp

/-- **a name that was removed is reported again**: the Remove notification un-marks it, and the next
`sendCreateIfNew` delivers Create -/
theorem remove_then_create (path : Path) (k : Kind) (w : W) (hc : w.s.closed = false) (hp : clean path = path) :
    (sendCreateIfNew path k (markSeen path false w).2).2.events = w.events ++ [⟨path, Create⟩] := by
  have hc' : (markSeen path false w).2.s.closed = false := hc
  have := (sendCreateIfNew_spec path k (markSeen path false w).2 hc' hp).1
  rw [this]
  have : (markSeen path false w).2.s.seen.contains path = false := by
    simp [markSeen, modify, List.contains_eq_mem, List.mem_filter]
  simp only [this]
  rfl

/-! ## `dirChange` as a whole -/

theorem join_clean (a b : Path) : clean (join a b) = join a b := by
  unfold join
  split
  · exact clean_idem _
  · split <;> exact clean_idem _

/-- the Creates `dirChange` may deliver for a listing: one per listed entry that has not been seen -/
def newEntries (seen : List Path) (d : Path) (files : List (Path × Except FsErr Kind)) : List Path :=
  (files.map fun f => join d f.1).filter fun p => !(seen.contains p)

/-- what the loop of `dirChange` has done after any number of entries: delivered Creates only for listed
entries that were not seen when it started, delivered nothing else, forgot nothing, did not close -/
def DcInv (w0 : W) (d : Path) (files : List (Path × Except FsErr Kind)) (w : W) : Prop :=
  w.s.closed = false ∧ w.errors = w0.errors ∧ (∀ p, p ∈ w0.s.seen → p ∈ w.s.seen) ∧
  ∃ cs : List Path, w.events = w0.events ++ cs.map (fun p => (⟨p, Create⟩ : Ev)) ∧ ∀ p, p ∈ cs → p ∈ newEntries w0.s.seen d files

theorem dirChange_loop (w0 : W) (d : Path) (all : List (Path × Except FsErr Kind)) :
    ∀ (files : List (Path × Except FsErr Kind)), (∀ f, f ∈ files → f ∈ all) → ∀ w, DcInv w0 d all w →
    DcInv w0 d all ((forUntil (fun (f : Path × Except FsErr Kind) => do
      match f.2 with
      | .error .noent => pure (some (none : Option Err))
      | .error e => pure (some (some (Err.fs e)))
      | .ok k =>
        match ← sendCreateIfNew (join d f.1) k with
        | none => pure none
        | some (.fs .acces) => pure (some none)
        | some (.fs .noent) => pure (some none)
        | some e => pure (some (some e))) files) w).2 := by
  intro files
  induction files with
  | nil => intro _ w h; exact h
  | cons f rest ih =>
    intro hsub w h
    unfold forUntil
    simp only [bind_apply]
    obtain ⟨hc, he, hs, cs, hev, hcs⟩ := h
    cases hk : f.2 with
    | error e =>
      cases e <;> simp only [pure_apply] <;> exact ⟨hc, he, hs, cs, hev, hcs⟩
    | ok k =>
      simp only [bind_apply]
      obtain ⟨s1, s2, s3, s4, _⟩ := sendCreateIfNew_spec (join d f.1) k w hc (join_clean _ _)
      -- the world after this entry still satisfies the invariant
      have hinv : DcInv w0 d all (sendCreateIfNew (join d f.1) k w).2 := by
        refine ⟨s3, by rw [s2, he], fun p hp => s4 p (hs p hp), ?_⟩
        by_cases hseen : w.s.seen.contains (join d f.1) = true
        · refine ⟨cs, ?_, hcs⟩
          rw [s1, hseen]; simp [hev]
        · have hseen' : w.s.seen.contains (join d f.1) = false := by simpa using hseen
          refine ⟨cs ++ [join d f.1], ?_, ?_⟩
          · rw [s1, hseen', hev]; simp
          · intro p hp
            rcases List.mem_append.mp hp with hp | hp
            · exact hcs p hp
            · simp only [List.mem_singleton] at hp
              subst hp
              unfold newEntries
              simp only [List.mem_filter, List.mem_map, Bool.not_eq_true']
              refine ⟨⟨f, hsub f (by simp), rfl⟩, ?_⟩
              -- not seen now, and the seen set only grew: not seen at the start
              cases h0 : w0.s.seen.contains (join d f.1) with
              | false => rfl
              | true =>
                have : join d f.1 ∈ w.s.seen := hs _ (by simpa using h0)
                have : w.s.seen.contains (join d f.1) = true := by simpa using this
                rw [this] at hseen'; cases hseen'
      cases hr : (sendCreateIfNew (join d f.1) k w).1 with
      | none =>
        simp only []
        exact ih (fun x hx => hsub x (List.mem_cons_of_mem _ hx)) _ hinv
      | some e =>
        cases e with
        | closed => simp only [pure_apply]; exact hinv
        | nonExistent => simp only [pure_apply]; exact hinv
        | fs e' => cases e' <;> simp only [pure_apply] <;> exact hinv


/-- **`dirChange`**: whatever the directory holds and whatever the environment answers, it delivers
nothing but Creates, each for an entry of the listing it read that had not been seen before; it puts
nothing on Errors itself and forgets nothing it has seen -/
theorem dirChange_creates (d : Path) (w : W) (hc : w.s.closed = false) :
    (dirChange d w).2.errors = w.errors ∧ (∀ p, p ∈ w.s.seen → p ∈ (dirChange d w).2.s.seen) ∧
    ∃ (cs : List Path) (files : List (Path × Except FsErr Kind)),
      (dirChange d w).2.events = w.events ++ cs.map (fun p => (⟨p, Create⟩ : Ev)) ∧
      ∀ p, p ∈ cs → (∃ f, f ∈ files ∧ p = join d f.1) ∧ p ∉ w.s.seen := by
  have hpure := pure_askReadDir d w
  have hev : (askReadDir d w).2.events = w.events ∧ (askReadDir d w).2.errors = w.errors := by
    unfold askReadDir; split <;> (try split) <;> exact ⟨rfl, rfl⟩
  unfold dirChange
  simp only [bind_apply]
  have base : DcInv (askReadDir d w).2 d [] (askReadDir d w).2 := ⟨by rw [hpure]; exact hc, rfl, fun _ h => h, [], by simp, by intro p hp; cases hp⟩
  cases hr : (askReadDir d w).1 with
  | error e =>
    cases e <;> simp only [pure_apply] <;>
      exact ⟨hev.2, fun p hp => by rw [hpure]; exact hp, [], [], by simp [hev.1], by intro p hp; cases hp⟩
  | ok files =>
    simp only [bind_apply, pure_apply]
    have start : DcInv (askReadDir d w).2 d files (askReadDir d w).2 :=
      ⟨by rw [hpure]; exact hc, rfl, fun _ h => h, [], by simp, by intro p hp; cases hp⟩
    obtain ⟨_, e2, e3, cs, e4, e5⟩ := dirChange_loop (askReadDir d w).2 d files files (fun _ h => h) _ start
    refine ⟨e2.trans hev.2, fun p hp => e3 p (by rw [hpure]; exact hp), cs, files, e4.trans (by rw [hev.1]), ?_⟩
    intro p hp
    have := e5 p hp
    unfold newEntries at this
    simp only [List.mem_filter, List.mem_map, Bool.not_eq_true'] at this
    obtain ⟨⟨f, hf, rfl⟩, hns⟩ := this
    refine ⟨⟨f, hf, rfl⟩, ?_⟩
    rw [hpure] at hns
    intro hc'
    have : w.s.seen.contains (join d f.1) = true := by simpa using hc'
    rw [this] at hns; cases hns

end KqF
