import FsnVerif.Proofs.ALLemmas
import FsnVerif.Proofs.InotifyLemmas
/-!
# The bookkeeping invariant (C04, C09, C12)

`Lib.Inv`: the two tables are inverse to each other (every listed path has its entry and every
entry is listed under its own path), keys are unique, and wd 0 (Go's zero value, never issued by
the kernel: K0) is not a key. Preserved by every operation of the library for every kernel answer.
-/
namespace Fsn

section AL
variable {κ ν : Type} [DecidableEq κ]

def KeysNodup (l : List (κ × ν)) : Prop := (l.map (·.1)).Nodup

theorem mem_keys_of_lookup {k : κ} {v : ν} {l : List (κ × ν)} (h : alLookup k l = some v) : k ∈ l.map (·.1) := by
  induction l with
  | nil => cases h
  | cons hd t ih =>
    obtain ⟨k', v'⟩ := hd
    unfold alLookup at h
    by_cases hk : k' = k
    · simp [hk]
    · simp only [hk, if_false] at h
      simp [ih h]

theorem lookup_none_of_not_mem {k : κ} {l : List (κ × ν)} (h : k ∉ l.map (·.1)) : alLookup k l = none := by
  induction l with
  | nil => rfl
  | cons hd t ih =>
    obtain ⟨k', v'⟩ := hd
    simp only [List.map_cons, List.mem_cons, not_or] at h
    unfold alLookup
    rw [if_neg (fun hk => h.1 hk.symm)]
    exact ih h.2

theorem not_mem_keys_of_lookup_none {k : κ} {l : List (κ × ν)} (h : alLookup k l = none) : k ∉ l.map (·.1) := by
  induction l with
  | nil => simp
  | cons hd t ih =>
    obtain ⟨k', v'⟩ := hd
    unfold alLookup at h
    by_cases hk : k' = k
    · simp [hk] at h
    · simp only [hk, if_false] at h
      simp only [List.map_cons, List.mem_cons, not_or]
      exact ⟨fun hh => hk hh.symm, ih h⟩

theorem keys_erase_sublist (k : κ) (l : List (κ × ν)) : ((alErase k l).map (·.1)).Sublist (l.map (·.1)) := by
  unfold alErase
  exact List.Sublist.map _ List.filter_sublist

theorem KeysNodup.erase {l : List (κ × ν)} (h : KeysNodup l) (k : κ) : KeysNodup (alErase k l) :=
  List.Nodup.sublist (keys_erase_sublist k l) h

theorem keys_insert (k : κ) (v : ν) (l : List (κ × ν)) :
    (alInsert k v l).map (·.1) = if k ∈ l.map (·.1) then l.map (·.1) else l.map (·.1) ++ [k] := by
  induction l with
  | nil => simp [alInsert]
  | cons hd t ih =>
    obtain ⟨k', v'⟩ := hd
    unfold alInsert
    by_cases hk : k' = k
    · subst hk; simp
    · simp only [hk, if_false, List.map_cons, ih, List.mem_cons]
      have : ¬ k = k' := fun h => hk h.symm
      by_cases hm : k ∈ t.map (·.1)
      · simp [hm]
      · simp [hm, this]

theorem KeysNodup.insert {l : List (κ × ν)} (h : KeysNodup l) (k : κ) (v : ν) : KeysNodup (alInsert k v l) := by
  unfold KeysNodup at *
  rw [keys_insert]
  split
  · exact h
  · rename_i hm
    exact List.nodup_append.mpr ⟨h, by simp, by
      intro a ha b hb
      simp only [List.mem_singleton] at hb
      subst hb
      exact fun hab => hm (hab ▸ ha)⟩

end AL

structure Lib.Inv (l : Lib) : Prop where
  wd_nodup : KeysNodup l.wdT
  path_nodup : KeysNodup l.pathT
  fwd : ∀ p wd, alLookup p l.pathT = some wd → ∃ w, alLookup wd l.wdT = some w ∧ w.path = p ∧ w.wd = wd
  bwd : ∀ wd w, alLookup wd l.wdT = some w → w.wd = wd ∧ alLookup w.path l.pathT = some wd
  no_zero : alLookup 0 l.wdT = none

theorem Lib.inv_empty : ({} : Lib).Inv where
  wd_nodup := by simp [KeysNodup]
  path_nodup := by simp [KeysNodup]
  fwd := by intro p wd h; simp [alLookup] at h
  bwd := by intro wd w h; simp [alLookup] at h
  no_zero := rfl

/-- dropping a listed entry (both keys) keeps the invariant -/
theorem Lib.Inv.drop {l : Lib} (h : l.Inv) (w : Watch) (hw : alLookup w.wd l.wdT = some w) :
    (l.dropWatch w).Inv := by
  have hb := h.bwd w.wd w hw
  refine ⟨h.wd_nodup.erase _, h.path_nodup.erase _, ?_, ?_, ?_⟩
  · intro p wd hp
    simp only [Lib.dropWatch] at hp ⊢
    by_cases hpp : p = w.path
    · subst hpp; rw [alLookup_erase_same] at hp; cases hp
    · rw [alLookup_erase_other _ _ _ hpp] at hp
      obtain ⟨w', hw', hp', hwd'⟩ := h.fwd p wd hp
      have hne : wd ≠ w.wd := by
        intro he; subst he
        rw [hw] at hw'; injection hw' with hw'; subst hw'
        exact hpp hp'.symm
      exact ⟨w', by rw [alLookup_erase_other _ _ _ hne]; exact hw', hp', hwd'⟩
  · intro wd w' hw'
    simp only [Lib.dropWatch] at hw' ⊢
    by_cases hne : wd = w.wd
    · subst hne; rw [alLookup_erase_same] at hw'; cases hw'
    · rw [alLookup_erase_other _ _ _ hne] at hw'
      obtain ⟨h1, h2⟩ := h.bwd wd w' hw'
      refine ⟨h1, ?_⟩
      have hpp : w'.path ≠ w.path := by
        intro he
        rw [he, hb.2] at h2
        injection h2 with h2
        exact hne h2.symm
      rw [alLookup_erase_other _ _ _ hpp]; exact h2
  · simp only [Lib.dropWatch]
    by_cases h0 : (0 : Nat) = w.wd
    · rw [h0, alLookup_erase_same]
    · rw [alLookup_erase_other _ _ _ h0]; exact h.no_zero

theorem Lib.Inv.newEvent {l : Lib} (h : l.Inv) (n : Path) (m c : BitVec 32) : (l.newEvent n m c).1.Inv := by
  obtain ⟨h1, h2⟩ := newEvent_tables l n m c
  exact ⟨by rw [h1]; exact h.wd_nodup, by rw [h2]; exact h.path_nodup,
    by rw [h1, h2]; exact h.fwd, by rw [h1, h2]; exact h.bwd, by rw [h1]; exact h.no_zero⟩

end Fsn

namespace Fsn

section AL2
variable {κ ν : Type} [DecidableEq κ]
/-- re-inserting the value that is already there changes no lookup -/
theorem alLookup_insert_self (k k2 : κ) (v : ν) (l : List (κ × ν)) (h : alLookup k l = some v) :
    alLookup k2 (alInsert k v l) = alLookup k2 l := by
  by_cases hk : k2 = k
  · subst hk; rw [alLookup_insert_same, h]
  · exact alLookup_insert_other _ _ _ _ hk
end AL2

theorem KeysNodup.ite_erase_insert {κ ν : Type} [DecidableEq κ] {l : List (κ × ν)} (h : KeysNodup l)
    (c : Prop) [Decidable c] (k a : κ) (b : ν) :
    KeysNodup (if c then alErase k (alInsert a b l) else alInsert a b l) := by
  split
  · exact (h.insert _ _).erase _
  · exact h.insert _ _

/-- an `Inv`-shaped statement about lookups only (keys-nodup handled separately) -/
structure LookupInv (wdT : List (Nat × Watch)) (pathT : List (Path × Nat)) : Prop where
  fwd : ∀ p wd, alLookup p pathT = some wd → ∃ w, alLookup wd wdT = some w ∧ w.path = p ∧ w.wd = wd
  bwd : ∀ wd w, alLookup wd wdT = some w → w.wd = wd ∧ alLookup w.path pathT = some wd
  no_zero : alLookup 0 wdT = none

theorem LookupInv.congr {wdT wdT' : List (Nat × Watch)} {pathT pathT' : List (Path × Nat)}
    (h : LookupInv wdT pathT) (h1 : ∀ k, alLookup k wdT' = alLookup k wdT) (h2 : ∀ p, alLookup p pathT' = alLookup p pathT) :
    LookupInv wdT' pathT' :=
  ⟨by intro p wd hp; rw [h2] at hp; obtain ⟨w, a, b, c⟩ := h.fwd p wd hp; exact ⟨w, by rw [h1]; exact a, b, c⟩,
   by intro wd w hw; rw [h1] at hw; obtain ⟨a, b⟩ := h.bwd wd w hw; exact ⟨a, by rw [h2]; exact b⟩,
   by rw [h1]; exact h.no_zero⟩

theorem Lib.Inv.lookups {l : Lib} (h : l.Inv) : LookupInv l.wdT l.pathT := ⟨h.fwd, h.bwd, h.no_zero⟩

/-- **`register` keeps the tables inverse**, whatever non-zero wd the kernel answers (K0) -/
theorem Lib.Inv.applyAdd {l : Lib} (h : l.Inv) (path : Path) (fl : BitVec 32) (rc : Bool) (wd : Nat) (hwd : wd ≠ 0) :
    (l.applyAdd path fl rc wd).Inv := by
  have hwd' : (wd != 0) = true := by simpa using hwd
  -- key-uniqueness is independent of the case analysis
  have hn1 : KeysNodup (l.applyAdd path fl rc wd).wdT := by
    unfold Lib.applyAdd; simp only
    exact h.wd_nodup.ite_erase_insert _ _ _ _
  have hn2 : KeysNodup (l.applyAdd path fl rc wd).pathT := by
    unfold Lib.applyAdd; simp only
    exact h.path_nodup.ite_erase_insert _ _ _ _
  suffices hl : LookupInv (l.applyAdd path fl rc wd).wdT (l.applyAdd path fl rc wd).pathT from
    ⟨hn1, hn2, hl.fwd, hl.bwd, hl.no_zero⟩
  unfold Lib.applyAdd
  cases hp : alLookup path l.pathT with
  | none =>
    have hhas : alHas path l.pathT = false := by simp [alHas, hp]
    cases he : alLookup wd l.wdT with
    | some e =>
      -- alias of an entry listed under another path: nothing changes
      obtain ⟨hewd, hepath⟩ := h.bwd wd e he
      simp only [hp, he, Option.getD_none, Option.bind_none, hewd, hwd', if_true, hhas, Bool.and_false, Bool.false_and,
        Bool.false_eq_true, if_false]
      apply h.lookups.congr
      · intro k
        by_cases hk : k = 0
        · subst hk; rw [alLookup_erase_same, h.no_zero]
        · rw [alLookup_erase_other _ _ _ hk, alLookup_insert_self _ _ _ _ he]
      · intro p; exact alLookup_insert_self _ _ _ _ hepath
    | none =>
      -- a new entry
      simp only [hp, he, Option.getD_none, Option.bind_none, hwd', if_true, hhas, Bool.and_false, Bool.false_and,
        Bool.false_eq_true, if_false]
      refine ⟨?_, ?_, ?_⟩
      · intro p wd2 hp2
        by_cases hpp : p = path
        · subst hpp
          rw [alLookup_insert_same] at hp2; injection hp2 with hp2; subst hp2
          exact ⟨_, by rw [alLookup_erase_other _ _ _ hwd, alLookup_insert_same], rfl, rfl⟩
        · rw [alLookup_insert_other _ _ _ _ hpp] at hp2
          obtain ⟨w', a, b, c⟩ := h.fwd p wd2 hp2
          have hne : wd2 ≠ wd := by intro hh; subst hh; rw [he] at a; cases a
          have hne0 : wd2 ≠ 0 := by intro hh; subst hh; rw [h.no_zero] at a; cases a
          exact ⟨w', by rw [alLookup_erase_other _ _ _ hne0, alLookup_insert_other _ _ _ _ hne]; exact a, b, c⟩
      · intro k w' hw'
        by_cases hk0 : k = 0
        · subst hk0; rw [alLookup_erase_same] at hw'; cases hw'
        · rw [alLookup_erase_other _ _ _ hk0] at hw'
          by_cases hk : k = wd
          · subst hk
            rw [alLookup_insert_same] at hw'; injection hw' with hw'; subst hw'
            exact ⟨rfl, alLookup_insert_same _ _ _⟩
          · rw [alLookup_insert_other _ _ _ _ hk] at hw'
            obtain ⟨a, b⟩ := h.bwd k w' hw'
            have hpp : w'.path ≠ path := by intro hh; rw [hh, hp] at b; cases b
            exact ⟨a, by rw [alLookup_insert_other _ _ _ _ hpp]; exact b⟩
      · exact alLookup_erase_same _ _
  | some oldWd =>
    obtain ⟨w0, hw0, hw0p, hw0w⟩ := h.fwd path oldWd hp
    have hold0 : oldWd ≠ 0 := by intro hh; subst hh; rw [h.no_zero] at hw0; cases hw0
    have hhas : alHas path l.pathT = true := by simp [alHas, hp]
    cases he : alLookup wd l.wdT with
    | some e =>
      obtain ⟨hewd, hepath⟩ := h.bwd wd e he
      simp only [hp, he, Option.getD_some, Option.bind_some, hw0, hewd, hhas, Bool.and_true]
      by_cases hsame : wd = oldWd
      · -- same file as before: nothing changes
        subst hsame
        have : (wd != wd) = false := by simp
        simp only [this, Bool.false_eq_true, if_false, Bool.false_and]
        apply h.lookups.congr
        · intro k; exact alLookup_insert_self _ _ _ _ he
        · intro p; exact alLookup_insert_self _ _ _ _ hepath
      · -- the path now names a file listed under another path: that entry wins, this one is dropped
        have hne : (wd != oldWd) = true := by simpa using hsame
        have hep : e.path ≠ path := by
          intro hh; rw [hh, hp] at hepath; injection hepath with hepath; exact hsame hepath.symm
        have hep' : (e.path != path) = true := by simpa using hep
        simp only [hne, hep', if_true, Bool.and_self]
        have hdrop := (h.drop w0 (by rw [hw0w]; exact hw0)).lookups
        simp only [Lib.dropWatch, hw0p, hw0w] at hdrop
        apply hdrop.congr
        · intro k
          by_cases hk : k = oldWd
          · subst hk; rw [alLookup_erase_same, alLookup_erase_same]
          · rw [alLookup_erase_other _ _ _ hk, alLookup_erase_other _ _ _ hk, alLookup_insert_self _ _ _ _ he]
        · intro p
          by_cases hpp : p = path
          · subst hpp; rw [alLookup_erase_same, alLookup_erase_same]
          · rw [alLookup_erase_other _ _ _ hpp, alLookup_erase_other _ _ _ hpp, alLookup_insert_self _ _ _ _ hepath]
    | none =>
      -- the path now names a file that is not listed: the entry moves to the new wd
      have hne : wd ≠ oldWd := by intro hh; subst hh; rw [he] at hw0; cases hw0
      have hne' : (wd != oldWd) = true := by simpa using hne
      have hpeq : (w0.path != path) = false := by simp [hw0p]
      simp only [hp, he, Option.getD_some, Option.bind_some, hw0, hne', if_true, hpeq, Bool.and_false, Bool.false_eq_true,
        if_false, hw0p, bne_self_eq_false]
      refine ⟨?_, ?_, ?_⟩
      · intro p wd2 hp2
        by_cases hpp : p = path
        · subst hpp
          rw [alLookup_insert_same] at hp2; injection hp2 with hp2; subst hp2
          exact ⟨⟨wd, fl, p, w0.recurse⟩, by rw [alLookup_erase_other _ _ _ hne, alLookup_insert_same], rfl, rfl⟩
        · rw [alLookup_insert_other _ _ _ _ hpp] at hp2
          obtain ⟨w', a, b, c⟩ := h.fwd p wd2 hp2
          have h1 : wd2 ≠ wd := by intro hh; subst hh; rw [he] at a; cases a
          have h2 : wd2 ≠ oldWd := by
            intro hh; subst hh; rw [hw0] at a; injection a with a; subst a; exact hpp (b.symm.trans hw0p)
          exact ⟨w', by rw [alLookup_erase_other _ _ _ h2, alLookup_insert_other _ _ _ _ h1]; exact a, b, c⟩
      · intro k w' hw'
        by_cases hko : k = oldWd
        · subst hko; rw [alLookup_erase_same] at hw'; cases hw'
        · rw [alLookup_erase_other _ _ _ hko] at hw'
          by_cases hk : k = wd
          · subst hk
            rw [alLookup_insert_same] at hw'; injection hw' with hw'; subst hw'
            exact ⟨rfl, by simp only [hw0p]; exact alLookup_insert_same _ _ _⟩
          · rw [alLookup_insert_other _ _ _ _ hk] at hw'
            obtain ⟨a, b⟩ := h.bwd k w' hw'
            have hpp : w'.path ≠ path := by
              intro hh; rw [hh, hp] at b; injection b with b; exact hko b.symm
            exact ⟨a, by rw [alLookup_insert_other _ _ _ _ hpp]; exact b⟩
      · rw [alLookup_erase_other _ _ _ (Ne.symm hold0), alLookup_insert_other _ _ _ _ (Ne.symm hwd)]
        exact h.no_zero

end Fsn

namespace Fsn

/-- the public API never creates recursive watches -/
structure Lib.NoRec (l : Lib) : Prop where
  off : l.enableRecurse = false
  entries : ∀ wd w, alLookup wd l.wdT = some w → w.recurse = false

theorem Lib.norec_empty : ({} : Lib).NoRec := ⟨rfl, by intro wd w h; simp [alLookup] at h⟩

theorem alLookup_erase_some {κ ν : Type} [DecidableEq κ] {k k2 : κ} {v : ν} {l : List (κ × ν)}
    (h : alLookup k2 (alErase k l) = some v) : alLookup k2 l = some v := by
  by_cases hk : k2 = k
  · subst hk; rw [alLookup_erase_same] at h; cases h
  · rwa [alLookup_erase_other _ _ _ hk] at h

theorem alLookup_ite_erase_some {κ ν : Type} [DecidableEq κ] (c : Prop) [Decidable c] {k a : κ} {v : ν}
    {t : List (κ × ν)} (h : alLookup k (if c then alErase a t else t) = some v) : alLookup k t = some v := by
  split at h
  · exact alLookup_erase_some h
  · exact h

theorem Lib.NoRec.drop {l : Lib} (h : l.NoRec) (w : Watch) : (l.dropWatch w).NoRec :=
  ⟨h.off, by intro wd w' hw'; exact h.entries wd w' (alLookup_erase_some hw')⟩

/-- with `Inv`, `removePath` on the public API cannot hit the nil dereference, and what it does to
a listed path is exactly dropping that path's entry -/
theorem Lib.removePath_spec {l : Lib} (h : l.Inv) (hn : l.NoRec) (arg : Path) :
    (alLookup (clean arg) l.pathT = none ∧ l.removePath arg = .err .nonExistentWatch) ∨
    (∃ wd w, alLookup (clean arg) l.pathT = some wd ∧ alLookup wd l.wdT = some w ∧ w.wd = wd ∧ w.path = clean arg ∧
      l.removePath arg = .ok (l.dropWatch w) [wd]) := by
  unfold Lib.removePath recursivePath
  simp only [hn.off, Bool.not_false, if_true]
  cases hp : alLookup (clean arg) l.pathT with
  | none => exact Or.inl ⟨rfl, rfl⟩
  | some wd =>
    obtain ⟨w, hw, hwp, hww⟩ := h.fwd _ _ hp
    right
    refine ⟨wd, w, rfl, hw, hww, hwp, ?_⟩
    simp only [hw, Bool.false_and, Bool.false_eq_true, if_false, hn.entries wd w hw, Bool.not_false, if_true]
    simp [Lib.dropWatch, hwp, hww, hn.off]

theorem Lib.remove_lib {l : Lib} (h : l.Inv) (hn : l.NoRec) (env : Env) (arg : Path) :
    ((l.remove env arg).1 = l ∧ (l.remove env arg).2.2.ret = some .nonExistentWatch ∧ alLookup (clean arg) l.pathT = none) ∨
    (∃ w, alLookup w.wd l.wdT = some w ∧ w.path = clean arg ∧ (l.remove env arg).1 = l.dropWatch w ∧
      (l.remove env arg).2.2.panic = false) := by
  unfold Lib.remove
  rcases Lib.removePath_spec h hn arg with ⟨hnone, he⟩ | ⟨wd, w, _, hw, hww, hwp, he⟩
  · rw [he]; exact Or.inl ⟨rfl, rfl, hnone⟩
  · rw [he]; exact Or.inr ⟨w, by rw [hww]; exact hw, hwp, rfl, rfl⟩

theorem Lib.Inv.remove {l : Lib} (h : l.Inv) (hn : l.NoRec) (env : Env) (arg : Path) :
    (l.remove env arg).1.Inv ∧ (l.remove env arg).1.NoRec ∧ (l.remove env arg).2.2.panic = false := by
  rcases Lib.remove_lib h hn env arg with ⟨h1, h2, _⟩ | ⟨w, hw, _, h1, h2⟩
  · rw [h1]
    refine ⟨h, hn, ?_⟩
    unfold Lib.remove
    rcases Lib.removePath_spec h hn arg with ⟨_, he⟩ | ⟨wd, w, _, _, _, _, he⟩ <;> rw [he]
  · rw [h1]; exact ⟨h.drop w hw, hn.drop w, h2⟩

theorem Lib.NoRec.applyAdd {l : Lib} (h : l.NoRec) (hi : l.Inv) (path : Path) (fl : BitVec 32) (wd : Nat) :
    (l.applyAdd path fl false wd).NoRec := by
  refine ⟨h.off, ?_⟩
  intro k w hk
  unfold Lib.applyAdd at hk
  simp only at hk
  -- every entry of the new table is an old entry, or the updated one, whose `recurse` is false
  have hupd : ∀ upd : Watch, upd.recurse = false → ∀ t : List (Nat × Watch),
      (∀ k w, alLookup k t = some w → w.recurse = false) →
      ∀ k w, alLookup k (alInsert upd.wd upd t) = some w → w.recurse = false := by
    intro upd hu t ht k w hkw
    by_cases hh : k = upd.wd
    · subst hh; rw [alLookup_insert_same] at hkw; injection hkw with hkw; subst hkw; exact hu
    · rw [alLookup_insert_other _ _ _ _ hh] at hkw; exact ht k w hkw
  have hrec : (match alLookup wd l.wdT with
      | some e => e
      | none => match (alLookup path l.pathT).bind (fun wd => alLookup wd l.wdT) with
        | none => ({ wd := wd, path := path, flags := fl, recurse := false } : Watch)
        | some e => { e with wd := wd, flags := fl }).recurse = false := by
    split
    · rename_i e he; exact h.entries wd e he
    · split
      · rfl
      · rename_i e he
        cases hp : alLookup path l.pathT with
        | none => simp [hp] at he
        | some ow => simp only [hp, Option.bind_some] at he; exact h.entries ow e he
  exact hupd _ hrec _ h.entries k w (alLookup_ite_erase_some _ hk)

/-- K0: the kernel never answers `inotify_add_watch` with wd 0 -/
def Env.K0 (env : Env) : Prop := ∀ p f wd, env.addWatch p f = .ok wd → wd ≠ 0

theorem Lib.Inv.register {l : Lib} (h : l.Inv) (hn : l.NoRec) (env : Env) (hk : env.K0) (path : Path) (fl : BitVec 32) :
    (l.register env path fl false).1.Inv ∧ (l.register env path fl false).1.NoRec := by
  unfold Lib.register
  simp only
  split
  · exact ⟨h, hn⟩
  · rename_i wd hwd
    exact ⟨h.applyAdd _ _ _ _ (hk _ _ _ hwd), hn.applyAdd h _ _ _⟩

theorem Lib.Inv.add {l : Lib} (h : l.Inv) (hn : l.NoRec) (env : Env) (hk : env.K0) (arg : Path) (ops : BitVec 32) (nf : Bool) :
    (l.add env arg ops nf).1.Inv ∧ (l.add env arg ops nf).1.NoRec := by
  unfold Lib.add recursivePath
  simp only [Bool.not_false, if_true]
  exact h.register hn env hk _ _

theorem Lib.NoRec.newEvent {l : Lib} (h : l.NoRec) (n : Path) (m c : BitVec 32) : (l.newEvent n m c).1.NoRec := by
  obtain ⟨h1, _⟩ := newEvent_tables l n m c
  have he : (l.newEvent n m c).1.enableRecurse = l.enableRecurse := by
    unfold Lib.newEvent; split <;> (try split) <;> (try split) <;> rfl
  exact ⟨by rw [he]; exact h.off, by rw [h1]; exact h.entries⟩

theorem emit_lib (l : Lib) (env : Env) (out : Out) (br : Branch) (w : Watch) (r : Raw) :
    (l.emit env out br w r).lib = l ∨ (l.emit env out br w r).lib = (l.newEvent (nameOf w r) r.mask r.cookie).1 := by
  unfold Lib.emit
  split
  · exact Or.inl rfl
  · simp only; split <;> exact Or.inr rfl

theorem Lib.Inv.emit {l : Lib} (h : l.Inv) (hn : l.NoRec) (env : Env) (out : Out) (br : Branch) (w : Watch) (r : Raw) :
    (l.emit env out br w r).lib.Inv ∧ (l.emit env out br w r).lib.NoRec := by
  rcases emit_lib l env out br w r with h1 | h1 <;> rw [h1]
  · exact ⟨h, hn⟩
  · exact ⟨h.newEvent _ _ _, hn.newEvent _ _ _⟩

theorem Lib.Inv.afterDeleteSelf {l : Lib} (h : l.Inv) (hn : l.NoRec) (w : Watch) (hw : alLookup w.wd l.wdT = some w) (r : Raw) :
    (l.afterDeleteSelf w r).Inv ∧ (l.afterDeleteSelf w r).NoRec := by
  unfold Lib.afterDeleteSelf
  split
  · exact ⟨h.drop w hw, hn.drop w⟩
  · exact ⟨h, hn⟩

theorem Lib.Inv.afterMoveSelf {l : Lib} (h : l.Inv) (hn : l.NoRec) (env : Env) (w : Watch) (r : Raw) :
    (l.afterMoveSelf env w r).lib.Inv ∧ (l.afterMoveSelf env w r).lib.NoRec ∧ (l.afterMoveSelf env w r).out.panic = false := by
  obtain ⟨hi, hnr, hp⟩ := h.remove hn env w.path
  unfold Lib.afterMoveSelf
  simp only
  rw [if_neg (by simp [hp])]
  split
  all_goals (try split)
  all_goals
    obtain ⟨a, b⟩ := Lib.Inv.emit hi hnr (l.remove env w.path).2.1 _ _ w r
    exact ⟨a, b, by rw [emit_panic]⟩

/-- **every record keeps the tables inverse** (and never panics), for every stream -/
theorem Lib.Inv.handle {l : Lib} (h : l.Inv) (hn : l.NoRec) (env : Env) (r : Raw) :
    (l.handle env r).lib.Inv ∧ (l.handle env r).lib.NoRec ∧ (l.handle env r).out.panic = false := by
  unfold Lib.handle
  split
  · exact ⟨h, hn, rfl⟩
  · rename_i w hw
    have hww : alLookup w.wd l.wdT = some w := by rw [(h.bwd _ _ hw).1]; exact hw
    by_cases hign : ignoredOrUnmount r.mask = true
    · rw [if_pos hign]; exact ⟨h.drop w hww, hn.drop w, rfl⟩
    · rw [if_neg hign]
      obtain ⟨hd, hdn⟩ := h.afterDeleteSelf hn w hww r
      by_cases hm : test r.mask IN_MOVE_SELF = true
      · rw [if_pos hm]
        by_cases hr : w.recurse = true
        · rw [if_pos hr]; exact ⟨hd, hdn, rfl⟩
        · rw [if_neg hr]; exact hd.afterMoveSelf hdn env w r
      · rw [if_neg hm, recurseAfter_norec _ _ _ _ (hn.entries _ _ hw)]
        obtain ⟨a, b⟩ := Lib.Inv.emit hd hdn env {} (if test r.mask IN_DELETE_SELF then .deleteSelf else .plain) w r
        exact ⟨a, b, by rw [emit_panic]⟩

theorem Lib.Inv.stepRecord {l : Lib} (h : l.Inv) (hn : l.NoRec) (env : Env) (r : Raw) :
    (l.stepRecord env r).lib.Inv ∧ (l.stepRecord env r).lib.NoRec ∧ (l.stepRecord env r).out.panic = false := by
  unfold Lib.stepRecord; simp only
  split <;> exact h.handle hn env r

theorem Lib.Inv.stepRecords {l : Lib} (h : l.Inv) (hn : l.NoRec) (env : Env) (rs : List Raw) :
    (l.stepRecords env rs).1.Inv ∧ (l.stepRecords env rs).1.NoRec ∧ (l.stepRecords env rs).2.2.1.panic = false := by
  induction rs generalizing l env with
  | nil => exact ⟨h, hn, rfl⟩
  | cons r rs ih =>
    obtain ⟨a, b, c⟩ := h.stepRecord hn env r
    simp only [Lib.stepRecords, c, Bool.false_eq_true, if_false]
    obtain ⟨a', b', c'⟩ := ih a b (l.stepRecord env r).env
    exact ⟨a', b', by simp [Out.append, c, c']⟩

end Fsn
