import FsnVerif.Proofs.SkeletonTieDefs
/-! the per-function comparison (the expensive part of the skeleton tie), in a module of its own -/
namespace SkeletonTie
open Skel

/-- every protocol function has exactly the expected lock / send / close / syscall skeleton (the three
functions that run wholly under `mu` are compared through `Skel.quiet`) -/
theorem protocol_skeleton_ok : protocolFns.all (fun n => viewOf n (lookupFn n Gen.skeleton) == viewOf n (expectedOf n) && (expectedOf n).isSome) = true := by
  decide +kernel

end SkeletonTie
