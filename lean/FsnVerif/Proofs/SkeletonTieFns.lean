import FsnVerif.Proofs.SkeletonTieDefs
/-! the per-function comparison (the expensive part of the skeleton tie), in a module of its own -/
namespace SkeletonTie
open Skel

/-- every protocol function has exactly the expected lock / send / close / syscall skeleton -/
theorem protocol_skeleton_ok : protocolFns.all (fun n => lookupFn n Gen.skeleton == expectedOf n && (expectedOf n).isSome) = true := by
  decide +kernel

end SkeletonTie
