import FsnVerif.Proofs.DiffLemmas
import FsnVerif.Proofs.DiffValid
/-!
# The grouped (context-trimmed) edit script is still correct

`GetGroupedOpCodes(n)` cuts the opcode list into hunks: leading and trailing `equal` runs are trimmed to `n`
lines, an `equal` run longer than `2n` closes one hunk after `n` lines and opens the next `n` lines before
its end. `applyGroups` is what `patch` does with such hunks: copy the first text up to the hunk, apply the
hunk, go on behind it; copy the rest. **For every valid opcode list the result is the second text**: what the
hunks leave out is exactly the interior of `equal` runs.
-/
namespace Diff

/-- one opcode is sound: inside both texts, an `equal` range really is equal, anything that is neither
`equal`, `replace` nor `insert` produces nothing in the second text -/
def OkOp (a b : List Line) (c : OpCode) : Prop :=
  c.i1 ≤ c.i2 ∧ c.j1 ≤ c.j2 ∧ c.i2 ≤ a.length ∧ c.j2 ≤ b.length ∧
  (c.tag = 'e' → slice a c.i1 c.i2 = slice b c.j1 c.j2) ∧
  (c.tag ≠ 'e' → c.tag ≠ 'r' → c.tag ≠ 'i' → c.j1 = c.j2)

/-- a contiguous run of sound opcodes from `(i, j)` to `(i', j')` -/
def Chain (a b : List Line) : Nat → Nat → List OpCode → Nat → Nat → Prop
  | i, j, [], i', j' => i = i' ∧ j = j'
  | i, j, c :: cs, i', j' => c.i1 = i ∧ c.j1 = j ∧ OkOp a b c ∧ Chain a b c.i2 c.j2 cs i' j'

theorem Chain.le {a b : List Line} : ∀ {cs : List OpCode} {i j i' j' : Nat}, Chain a b i j cs i' j' →
    i ≤ i' ∧ j ≤ j' ∧ (cs ≠ [] → i' ≤ a.length ∧ j' ≤ b.length)
  | [], i, j, i', j', h => ⟨by rw [h.1]; exact Nat.le_refl _, by rw [h.2]; exact Nat.le_refl _, fun h => absurd rfl h⟩
  | c :: cs, i, j, i', j', h => by
    obtain ⟨h1, h2, ok, rest⟩ := h
    have r := Chain.le rest
    refine ⟨by have := ok.1; omega, by have := ok.2.1; omega, fun _ => ?_⟩
    by_cases hcs : cs = []
    · subst hcs
      obtain ⟨e1, e2⟩ := rest
      exact ⟨e1 ▸ ok.2.2.1, e2 ▸ ok.2.2.2.1⟩
    · exact r.2.2 hcs

theorem Chain.append {a b : List Line} : ∀ {xs ys : List OpCode} {i j m n i' j' : Nat},
    Chain a b i j xs m n → Chain a b m n ys i' j' → Chain a b i j (xs ++ ys) i' j'
  | [], ys, i, j, m, n, i', j', h1, h2 => by obtain ⟨e1, e2⟩ := h1; subst e1; subst e2; exact h2
  | x :: xs, ys, i, j, m, n, i', j', h1, h2 => ⟨h1.1, h1.2.1, h1.2.2.1, Chain.append h1.2.2.2 h2⟩

theorem slice_drop (l : List Line) (i j : Nat) (h1 : i ≤ j) (h2 : j ≤ l.length) : slice l i j ++ l.drop j = l.drop i := by
  rw [← slice_full l j h2, slice_append l i j l.length h1 h2, slice_full l i (by omega)]

/-- applying a chain writes the stretch of the second text it spans -/
theorem Chain.apply {a b : List Line} : ∀ {cs : List OpCode} {i j i' j' : Nat}, Chain a b i j cs i' j' → j' ≤ b.length →
    applyOps a b cs = slice b j j'
  | [], i, j, i', j', h, _ => by simp [applyOps, slice, h.2]
  | c :: cs, i, j, i', j', h, hb => by
    obtain ⟨h1, h2, ok, rest⟩ := h
    obtain ⟨o1, o2, o3, o4, oe, on⟩ := ok
    have ih := Chain.apply rest hb
    have hle := (Chain.le rest).2.1
    simp only [applyOps, ih]
    subst h2
    by_cases he : c.tag = 'e'
    · simp only [he, beq_self_eq_true, if_true]
      rw [oe he, slice_append b c.j1 c.j2 j' o2 hle]
    · have he' : (c.tag == 'e') = false := by simpa using he
      simp only [he', Bool.false_eq_true, if_false]
      by_cases hri : (c.tag == 'r' || c.tag == 'i') = true
      · simp only [hri, if_true]
        exact slice_append b c.j1 c.j2 j' o2 hle
      · have hr : c.tag ≠ 'r' := fun h => hri (by simp [h])
        have hi : c.tag ≠ 'i' := fun h => hri (by simp [h])
        simp only [hri, Bool.false_eq_true, if_false, List.nil_append]
        rw [on he hr hi]

/-- the last opcode of a non-empty chain ends where the chain ends; its first starts where it starts -/
theorem Chain.last_end {a b : List Line} : ∀ {cs : List OpCode} {i j i' j' : Nat}, Chain a b i j cs i' j' →
    ∀ l, cs.getLast? = some l → l.i2 = i' ∧ l.j2 = j'
  | [], _, _, _, _, _, l, hl => by simp at hl
  | [c], i, j, i', j', h, l, hl => by
    simp at hl; subst hl
    exact ⟨h.2.2.2.1, h.2.2.2.2⟩
  | c :: d :: cs, i, j, i', j', h, l, hl => by
    have : (c :: d :: cs).getLast? = (d :: cs).getLast? := by simp [List.getLast?_cons_cons]
    rw [this] at hl
    exact Chain.last_end h.2.2.2 l hl

theorem Chain.first_start {a b : List Line} {c : OpCode} {cs : List OpCode} {i j i' j' : Nat}
    (h : Chain a b i j (c :: cs) i' j') : c.i1 = i ∧ c.j1 = j := ⟨h.1, h.2.1⟩

/-- an `equal` opcode spans as many lines in either text -/
theorem okOp_e_len {a b : List Line} {c : OpCode} (ok : OkOp a b c) (he : c.tag = 'e') : c.i2 - c.i1 = c.j2 - c.j1 := by
  obtain ⟨o1, o2, o3, o4, oe, _⟩ := ok
  have := congrArg List.length (oe he)
  simp only [slice, List.length_take, List.length_drop] at this
  omega

/-- sub-ranges at the same offsets of an `equal` opcode are equal -/
theorem okOp_e_sub {a b : List Line} {c : OpCode} (ok : OkOp a b c) (he : c.tag = 'e') (k m : Nat) (hkm : k ≤ m)
    (hm : m ≤ c.i2 - c.i1) : slice a (c.i1 + k) (c.i1 + m) = slice b (c.j1 + k) (c.j1 + m) := by
  have hlen := okOp_e_len ok he
  obtain ⟨o1, o2, o3, o4, oe, _⟩ := ok
  have e := oe he
  have ha : slice a (c.i1 + k) (c.i1 + m) = ((slice a c.i1 c.i2).drop k).take (m - k) := by
    unfold slice
    rw [List.drop_take, List.drop_drop, List.take_take]
    have e1 : min (m - k) (c.i2 - c.i1 - k) = c.i1 + m - (c.i1 + k) := by omega
    have e2 : c.i1 + k = k + c.i1 := by omega
    rw [e1, e2]
  have hb : slice b (c.j1 + k) (c.j1 + m) = ((slice b c.j1 c.j2).drop k).take (m - k) := by
    unfold slice
    rw [List.drop_take, List.drop_drop, List.take_take]
    have e1 : min (m - k) (c.j2 - c.j1 - k) = c.j1 + m - (c.j1 + k) := by omega
    have e2 : c.j1 + k = k + c.j1 := by omega
    rw [e1, e2]
  rw [ha, hb, e]

/-! ## what `patch` does with the hunks -/

def applyGroups (a b : List Line) : Nat → List (List OpCode) → List Line
  | pos, [] => a.drop pos
  | pos, g :: gs =>
    match g.head?, g.getLast? with
    | some f, some l => slice a pos f.i1 ++ applyOps a b g ++ applyGroups a b l.i2 gs
    | _, _ => applyGroups a b pos gs

/-- the last step of `GetGroupedOpCodes`: the open group is kept unless it is a lone `equal` -/
def finalize (r : List (List OpCode) × List OpCode) : List (List OpCode) :=
  if r.2.length > 0 && !(r.2.length == 1 && (r.2.headD (OpCode.mk 'x' 0 0 0 0)).tag == 'e') then r.1 ++ [r.2] else r.1

theorem groupStep_prefix (n : Nat) (d x : List (List OpCode)) (cur : List OpCode) (c : OpCode) :
    groupStep n (d ++ x, cur) c = (d ++ (groupStep n (x, cur) c).1, (groupStep n (x, cur) c).2) := by
  unfold groupStep
  split <;> simp

theorem fold_prefix (n : Nat) (d : List (List OpCode)) : ∀ (cs : List OpCode) (x : List (List OpCode)) (cur : List OpCode),
    cs.foldl (groupStep n) (d ++ x, cur) =
      (d ++ (cs.foldl (groupStep n) (x, cur)).1, (cs.foldl (groupStep n) (x, cur)).2)
  | [], x, cur => rfl
  | c :: cs, x, cur => by
    simp only [List.foldl_cons]
    rw [groupStep_prefix]
    exact fold_prefix n d cs _ _

theorem finalize_prefix (d : List (List OpCode)) (r : List (List OpCode) × List OpCode) :
    finalize (d ++ r.1, r.2) = d ++ finalize r := by
  unfold finalize
  split <;> simp

def groupsFrom (n : Nat) (cur cs : List OpCode) : List (List OpCode) := finalize (cs.foldl (groupStep n) ([], cur))

theorem drop_split (l : List Line) (i j : Nat) (h1 : i ≤ j) (h2 : j ≤ l.length) : l.drop i = slice l i j ++ l.drop j :=
  (slice_drop l i j h1 h2).symm

/-- the heart: whatever group is open (`cur`, spanning `(ci, cj)`–`(i, j)`), with the stretch from the end of
the previous hunk (`pos` / `posB`) up to it equal in both texts, patching with the hunks that the remaining
opcodes produce writes the rest of the second text -/
theorem groups_apply (a b : List Line) (n : Nat) : ∀ (cs cur : List OpCode) (pos posB ci cj i j ei ej : Nat),
    pos ≤ ci → posB ≤ cj → slice a pos ci = slice b posB cj →
    Chain a b ci cj cur i j → Chain a b i j cs ei ej → ei ≤ a.length → ej ≤ b.length → a.drop ei = b.drop ej →
    applyGroups a b pos (groupsFrom n cur cs) = b.drop posB
  | [], cur, pos, posB, ci, cj, i, j, ei, ej, hp, hq, hpre, hcur, hcs, hea, heb, hsuf => by
    obtain ⟨e1, e2⟩ := hcs
    subst e1; subst e2
    have hle := Chain.le hcur
    have happ := Chain.apply hcur heb
    unfold groupsFrom
    simp only [List.foldl_nil]
    have tailB : b.drop posB = slice b posB cj ++ (slice b cj j ++ b.drop j) := by
      rw [slice_drop b cj j hle.2.1 heb, slice_drop b posB cj hq (by omega)]
    have tailA : a.drop pos = slice a pos ci ++ (slice a ci i ++ a.drop i) := by
      rw [slice_drop a ci i hle.1 hea, slice_drop a pos ci hp (by omega)]
    match cur, hcur, happ with
    | [], hcur, _ =>
      obtain ⟨e1, e2⟩ := hcur
      subst e1; subst e2
      simp only [finalize, List.length_nil, Nat.lt_irrefl, decide_false, Bool.false_and, Bool.false_eq_true, if_false, applyGroups]
      rw [tailA, tailB, hpre, hsuf]
      simp [slice]
    | [c], hcur, happ =>
      obtain ⟨c1, c2, ok, e1, e2⟩ := hcur
      by_cases he : c.tag = 'e'
      · have : finalize (([] : List (List OpCode)), [c]) = [] := by simp [finalize, he]
        rw [this]
        simp only [applyGroups]
        rw [tailA, tailB, hpre, hsuf]
        have := ok.2.2.2.2.1 he
        rw [c1, c2, e1, e2] at this
        rw [this]
      · have : finalize (([] : List (List OpCode)), [c]) = [[c]] := by simp [finalize, he]
        rw [this]
        simp only [applyGroups, List.head?_cons, List.getLast?_singleton]
        rw [happ, c1, e1, tailB, hpre, hsuf]
        simp
    | c :: d :: cur', hcur, happ =>
      have hfin : finalize (([] : List (List OpCode)), c :: d :: cur') = [c :: d :: cur'] := by simp [finalize]
      rw [hfin]
      obtain ⟨l, hl⟩ : ∃ l, (c :: d :: cur').getLast? = some l := by
        cases hh : (c :: d :: cur').getLast? with
        | none => simp at hh
        | some l => exact ⟨l, rfl⟩
      have hend := Chain.last_end hcur l hl
      simp only [applyGroups, List.head?_cons, hl]
      rw [happ, hcur.1, hend.1, tailB, hpre, hsuf]
      simp
  | c :: cs, cur, pos, posB, ci, cj, i, j, ei, ej, hp, hq, hpre, hcur, hcs, hea, heb, hsuf => by
    obtain ⟨c1, c2, ok, rest⟩ := hcs
    have hlecur := Chain.le hcur
    unfold groupsFrom
    simp only [List.foldl_cons]
    by_cases hsplit : (c.tag == 'e' && c.i2 - c.i1 > n + n) = true
    · -- the opcode closes the open hunk after n lines and opens the next one n lines before its end
      have he : c.tag = 'e' := by
        simp only [Bool.and_eq_true, beq_iff_eq] at hsplit; exact hsplit.1
      have hlong : c.i2 - c.i1 > n + n := by
        simp only [Bool.and_eq_true, decide_eq_true_eq] at hsplit; exact hsplit.2
      have hlen := okOp_e_len ok he
      obtain ⟨o1, o2, o3, o4, oe, on⟩ := ok
      have okc : OkOp a b c := ⟨o1, o2, o3, o4, oe, on⟩
      let tl : OpCode := OpCode.mk c.tag c.i1 (min c.i2 (c.i1 + n)) c.j1 (min c.j2 (c.j1 + n))
      let hd : OpCode := OpCode.mk c.tag (max c.i1 (c.i2 - n)) c.i2 (max c.j1 (c.j2 - n)) c.j2
      have hstep : groupStep n (([] : List (List OpCode)), cur) c = ([cur ++ [tl]], [hd]) := by
        unfold groupStep; rw [if_pos hsplit]; rfl
      rw [hstep]
      have hfold := fold_prefix n [cur ++ [tl]] cs [] [hd]
      simp only [List.append_nil] at hfold
      rw [hfold]
      have hfin := finalize_prefix [cur ++ [tl]] (cs.foldl (groupStep n) ([], [hd]))
      rw [hfin]
      show applyGroups a b pos ((cur ++ [tl]) :: groupsFrom n [hd] cs) = b.drop posB
      -- the pieces of the equal run
      have t1 : min c.i2 (c.i1 + n) = c.i1 + n := by omega
      have t2 : min c.j2 (c.j1 + n) = c.j1 + n := by omega
      have t3 : max c.i1 (c.i2 - n) = c.i1 + (c.i2 - c.i1 - n) := by omega
      have t4 : max c.j1 (c.j2 - n) = c.j1 + (c.i2 - c.i1 - n) := by omega
      have s1 := okOp_e_sub okc he 0 n (Nat.zero_le _) (by omega)
      have s2 := okOp_e_sub okc he n (c.i2 - c.i1 - n) (by omega) (by omega)
      have s3 := okOp_e_sub okc he (c.i2 - c.i1 - n) (c.i2 - c.i1) (by omega) (Nat.le_refl _)
      simp only [Nat.add_zero] at s1
      have e5 : c.i1 + (c.i2 - c.i1) = c.i2 := by omega
      have e6 : c.j1 + (c.i2 - c.i1) = c.j2 := by omega
      rw [e5, e6] at s3
      have oktl : OkOp a b tl := ⟨by show c.i1 ≤ min c.i2 (c.i1 + n); omega, by show c.j1 ≤ min c.j2 (c.j1 + n); omega,
        by show min c.i2 (c.i1 + n) ≤ a.length; omega, by show min c.j2 (c.j1 + n) ≤ b.length; omega,
        fun _ => by show slice a c.i1 (min c.i2 (c.i1 + n)) = slice b c.j1 (min c.j2 (c.j1 + n)); rw [t1, t2]; exact s1,
        fun h => absurd he h⟩
      have okhd : OkOp a b hd := ⟨by show max c.i1 (c.i2 - n) ≤ c.i2; omega, by show max c.j1 (c.j2 - n) ≤ c.j2; omega, o3, o4,
        fun _ => by show slice a (max c.i1 (c.i2 - n)) c.i2 = slice b (max c.j1 (c.j2 - n)) c.j2; rw [t3, t4]; exact s3,
        fun h => absurd he h⟩
      have chtl : Chain a b i j [tl] (c.i1 + n) (c.j1 + n) := ⟨c1, c2, oktl, t1, t2⟩
      have chg : Chain a b ci cj (cur ++ [tl]) (c.i1 + n) (c.j1 + n) := Chain.append hcur chtl
      have chhd : Chain a b (c.i1 + (c.i2 - c.i1 - n)) (c.j1 + (c.i2 - c.i1 - n)) [hd] c.i2 c.j2 :=
        ⟨t3, t4, okhd, rfl, rfl⟩
      have ih := groups_apply a b n cs [hd] (c.i1 + n) (c.j1 + n) (c.i1 + (c.i2 - c.i1 - n)) (c.j1 + (c.i2 - c.i1 - n))
        c.i2 c.j2 ei ej (by omega) (by omega) s2 chhd rest hea heb hsuf
      have hapg := Chain.apply chg (by omega)
      have hlast : (cur ++ [tl]).getLast? = some tl := by simp
      obtain ⟨f, fs, hf⟩ : ∃ f fs, cur ++ [tl] = f :: fs := by
        cases cur with
        | nil => exact ⟨tl, [], rfl⟩
        | cons x xs => exact ⟨x, xs ++ [tl], rfl⟩
      have hfi : f.i1 = ci := by rw [hf] at chg; exact chg.1
      have hhead : (cur ++ [tl]).head? = some f := by rw [hf]; rfl
      simp only [applyGroups, hhead, hlast]
      show slice a pos f.i1 ++ applyOps a b (cur ++ [tl]) ++ applyGroups a b (min c.i2 (c.i1 + n)) (groupsFrom n [hd] cs) = b.drop posB
      rw [t1, ih, hapg, hfi, hpre]
      have hcjle : cj ≤ c.j1 + n := by have := (Chain.le chg).2.1; exact this
      rw [List.append_assoc, slice_drop b cj (c.j1 + n) hcjle (by omega), slice_drop b posB cj hq (by omega)]
    · -- the opcode joins the open hunk
      have hstep : groupStep n (([] : List (List OpCode)), cur) c = ([], cur ++ [c]) := by
        unfold groupStep; rw [if_neg hsplit]
      rw [hstep]
      have chc : Chain a b i j [c] c.i2 c.j2 := ⟨c1, c2, ok, rfl, rfl⟩
      exact groups_apply a b n cs (cur ++ [c]) pos posB ci cj c.i2 c.j2 ei ej hp hq hpre (Chain.append hcur chc) rest hea heb hsuf

/-! ## from the executable validity check to chains; the two trims -/

theorem chain_of_validFrom (a b : List Line) : ∀ (cs : List OpCode) (i j : Nat), validFrom a b i j cs = true →
    Chain a b i j cs a.length b.length
  | [], i, j, h => by
    simp only [validFrom, Bool.and_eq_true, beq_iff_eq] at h
    exact h
  | c :: cs, i, j, h => by
    simp only [validFrom, Bool.and_eq_true, beq_iff_eq, decide_eq_true_eq] at h
    obtain ⟨⟨⟨⟨⟨⟨⟨h1, h2⟩, h3⟩, h4⟩, h5⟩, h6⟩, h7⟩, h8⟩ := h
    refine ⟨h1, h2, ⟨h3, h4, h5, h6, ?_, ?_⟩, chain_of_validFrom a b cs _ _ h8⟩
    · intro he
      rw [if_pos he] at h7
      simpa using h7
    · intro he hr hi
      rw [if_neg he] at h7
      by_cases hd : c.tag = 'd'
      · rw [if_pos hd] at h7; simpa using h7
      · rw [if_neg hd, if_neg hi] at h7
        exact absurd (by simpa using h7) hr

theorem Chain.split_last {a b : List Line} : ∀ {xs : List OpCode} {c : OpCode} {i j i' j' : Nat},
    Chain a b i j (xs ++ [c]) i' j' → ∃ m n, Chain a b i j xs m n ∧ Chain a b m n [c] i' j'
  | [], c, i, j, i', j', h => ⟨i, j, ⟨rfl, rfl⟩, h⟩
  | x :: xs, c, i, j, i', j', h => by
    obtain ⟨h1, h2, ok, rest⟩ := h
    obtain ⟨m, n, r1, r2⟩ := Chain.split_last rest
    exact ⟨m, n, ⟨h1, h2, ok, r1⟩, r2⟩

theorem slice_self (l : List Line) (i : Nat) : slice l i i = [] := by simp [slice]

theorem trimFirst_chain (a b : List Line) (n : Nat) (cs : List OpCode) (i j i' j' : Nat) (h : Chain a b i j cs i' j') :
    ∃ fi fj, i ≤ fi ∧ j ≤ fj ∧ slice a i fi = slice b j fj ∧ Chain a b fi fj (trimFirst n cs) i' j' := by
  match cs, h with
  | [], h => exact ⟨i, j, Nat.le_refl _, Nat.le_refl _, by rw [slice_self, slice_self], h⟩
  | c :: rest, h =>
    obtain ⟨c1, c2, ok, r⟩ := h
    by_cases he : c.tag = 'e'
    · have hlen := okOp_e_len ok he
      obtain ⟨o1, o2, o3, o4, oe, on⟩ := ok
      have okc : OkOp a b c := ⟨o1, o2, o3, o4, oe, on⟩
      have t3 : max c.i1 (c.i2 - n) = c.i1 + (c.i2 - c.i1 - min (c.i2 - c.i1) n) := by omega
      have t4 : max c.j1 (c.j2 - n) = c.j1 + (c.i2 - c.i1 - min (c.i2 - c.i1) n) := by omega
      have s0 := okOp_e_sub okc he 0 (c.i2 - c.i1 - min (c.i2 - c.i1) n) (Nat.zero_le _) (by omega)
      have s3 := okOp_e_sub okc he (c.i2 - c.i1 - min (c.i2 - c.i1) n) (c.i2 - c.i1) (by omega) (Nat.le_refl _)
      simp only [Nat.add_zero] at s0
      have e5 : c.i1 + (c.i2 - c.i1) = c.i2 := by omega
      have e6 : c.j1 + (c.i2 - c.i1) = c.j2 := by omega
      rw [e5, e6] at s3
      refine ⟨c.i1 + (c.i2 - c.i1 - min (c.i2 - c.i1) n), c.j1 + (c.i2 - c.i1 - min (c.i2 - c.i1) n), by omega, by omega, ?_, ?_⟩
      · rw [← c1, ← c2]; exact s0
      · have : trimFirst n (c :: rest) = OpCode.mk c.tag (max c.i1 (c.i2 - n)) c.i2 (max c.j1 (c.j2 - n)) c.j2 :: rest := by
          simp [trimFirst, he]
        rw [this]
        refine ⟨t3, t4, ⟨?_, ?_, o3, o4, ?_, fun h => absurd he h⟩, r⟩
        · show max c.i1 (c.i2 - n) ≤ c.i2; omega
        · show max c.j1 (c.j2 - n) ≤ c.j2; omega
        · intro _
          show slice a (max c.i1 (c.i2 - n)) c.i2 = slice b (max c.j1 (c.j2 - n)) c.j2
          rw [t3, t4]; exact s3
    · have : trimFirst n (c :: rest) = c :: rest := by simp [trimFirst, he]
      rw [this]
      exact ⟨i, j, Nat.le_refl _, Nat.le_refl _, by rw [slice_self, slice_self], c1, c2, ok, r⟩

theorem trimLast_chain (a b : List Line) (n : Nat) (cs : List OpCode) (i j i' j' : Nat) (h : Chain a b i j cs i' j')
    (hi : i' ≤ a.length) (hj : j' ≤ b.length) (hsuf : a.drop i' = b.drop j') :
    ∃ ei ej, ei ≤ a.length ∧ ej ≤ b.length ∧ a.drop ei = b.drop ej ∧ Chain a b i j (trimLast n cs) ei ej := by
  unfold trimLast
  cases hr : cs.reverse with
  | nil => exact ⟨i', j', hi, hj, hsuf, h⟩
  | cons c rest =>
    have hcs : cs = rest.reverse ++ [c] := by
      have := congrArg List.reverse hr
      simpa using this
    simp only []
    by_cases he : c.tag = 'e'
    · simp only [he, beq_self_eq_true, if_true]
      rw [hcs] at h
      obtain ⟨m, k, r1, r2⟩ := Chain.split_last h
      obtain ⟨c1, c2, ok, e1, e2⟩ := r2
      have hlen := okOp_e_len ok he
      obtain ⟨o1, o2, o3, o4, oe, on⟩ := ok
      have okc : OkOp a b c := ⟨o1, o2, o3, o4, oe, on⟩
      have t1 : min c.i2 (c.i1 + n) = c.i1 + min (c.i2 - c.i1) n := by omega
      have t2 : min c.j2 (c.j1 + n) = c.j1 + min (c.i2 - c.i1) n := by omega
      have s1 := okOp_e_sub okc he 0 (min (c.i2 - c.i1) n) (Nat.zero_le _) (by omega)
      have s2 := okOp_e_sub okc he (min (c.i2 - c.i1) n) (c.i2 - c.i1) (by omega) (Nat.le_refl _)
      simp only [Nat.add_zero] at s1
      have e5 : c.i1 + (c.i2 - c.i1) = c.i2 := by omega
      have e6 : c.j1 + (c.i2 - c.i1) = c.j2 := by omega
      rw [e5, e6] at s2
      refine ⟨c.i1 + min (c.i2 - c.i1) n, c.j1 + min (c.i2 - c.i1) n, by omega, by omega, ?_, ?_⟩
      · rw [drop_split a (c.i1 + min (c.i2 - c.i1) n) c.i2 (by omega) o3,
          drop_split b (c.j1 + min (c.i2 - c.i1) n) c.j2 (by omega) o4, s2, e1, e2, hsuf]
      · have : (OpCode.mk 'e' c.i1 (min c.i2 (c.i1 + n)) c.j1 (min c.j2 (c.j1 + n)) :: rest).reverse =
            rest.reverse ++ [OpCode.mk 'e' c.i1 (min c.i2 (c.i1 + n)) c.j1 (min c.j2 (c.j1 + n))] := by simp
        rw [this]
        refine Chain.append r1 ⟨c1, c2, ⟨?_, ?_, ?_, ?_, ?_, fun h => absurd rfl h⟩, t1, t2⟩
        · show c.i1 ≤ min c.i2 (c.i1 + n); omega
        · show c.j1 ≤ min c.j2 (c.j1 + n); omega
        · show min c.i2 (c.i1 + n) ≤ a.length; omega
        · show min c.j2 (c.j1 + n) ≤ b.length; omega
        · intro _
          show slice a c.i1 (min c.i2 (c.i1 + n)) = slice b c.j1 (min c.j2 (c.j1 + n))
          rw [t1, t2]; exact s1
    · have he' : (c.tag == 'e') = false := by simpa using he
      simp only [he', Bool.false_eq_true, if_false]
      exact ⟨i', j', hi, hj, hsuf, h⟩

theorem groupOpCodes_eq (n : Nat) (ops : List OpCode) (hne : ops ≠ []) :
    groupOpCodes n ops = groupsFrom n [] (trimLast n (trimFirst n ops)) := by
  unfold groupOpCodes groupsFrom finalize
  have : ops.isEmpty = false := by cases ops with | nil => exact absurd rfl hne | cons _ _ => rfl
  simp only [this, Bool.false_eq_true, if_false]

/-- **patching the first text with the hunks `GetGroupedOpCodes(n)` makes — for any amount of context `n` —
gives the second text**, for every valid opcode list -/
theorem grouped_script_correct (a b : List Line) (n : Nat) (ops : List OpCode) (h : validOps a b ops = true) (hne : ops ≠ []) :
    applyGroups a b 0 (groupOpCodes n ops) = b := by
  have ch := chain_of_validFrom a b ops 0 0 h
  obtain ⟨fi, fj, _, _, hpre, ch1⟩ := trimFirst_chain a b n ops 0 0 _ _ ch
  obtain ⟨ei, ej, hea, heb, hsuf, ch2⟩ := trimLast_chain a b n _ fi fj _ _ ch1 (Nat.le_refl _) (Nat.le_refl _)
    (by simp)
  rw [groupOpCodes_eq n ops hne]
  have := groups_apply a b n _ [] 0 0 fi fj fi fj ei ej (Nat.zero_le _) (Nat.zero_le _) hpre ⟨rfl, rfl⟩ ch2 hea heb hsuf
  simpa using this

end Diff
