import FsnVerif.Proofs.ProtoTables1Defs
/-! Kernel-evaluated table 1 of 3 (the inductive invariant), part b: reader program counters ((allRPc.drop 3).take 3). -/
namespace Proto

theorem chk_inv_b : ((coreOf ((allRPc.drop 3).take 3)).all invStep) = true := by decide +kernel

end Proto
