import FsnVerif.Generated.Tables
import FsnVerif.Model.Bits
import FsnVerif.Proofs.BitsLemmas
/-!
# Tie T (native mask -> Op, inotify): the part of the table bridge that the event-side properties
(C01, C02, C09, C11) rest on, kept apart from the request side (`inotifyRequest`, C15 only)
-/
namespace Bridge
open Fsn

theorem opConsts_eq :
    Gen.allOpConsts = [("Chmod", Chmod), ("Create", Create), ("Remove", Remove), ("Rename", Rename),
      ("Write", Write), ("xUnportableCloseRead", CloseRead), ("xUnportableCloseWrite", CloseWrite),
      ("xUnportableOpen", Open), ("xUnportableRead", Read)] := rfl

/-- `Op.Has` as the source has it is the model's `opHas`. (`o&h != 0` and `h&o != 0` are the same
function: the second alternative keeps the tie quiet under that harmless rewrite.) -/
theorem opHas_eq (o h : BitVec 32) : Gen.opHas o h = Fsn.opHas o h := by
  first
  | rfl
  | (unfold Gen.opHas Fsn.opHas; rw [BitVec.and_comm])
theorem opHas_residue : Gen.opHas.residue = [] := rfl

theorem inotifyNewEventOp_eq (m : BitVec 32) : Gen.inotifyNewEventOp m = Fsn.inotifyNewEventOp m := by
  simp only [Gen.inotifyNewEventOp, Fsn.inotifyNewEventOp, applyRules, inotifyRules, List.foldl, List.any, test,
    Bool.or_false]
  rfl

end Bridge

namespace EventOp
open Fsn

/-- a combination of native flags yields exactly the union of what its parts yield -/
theorem inotify_union (a b : BitVec 32) :
    Gen.inotifyNewEventOp (a ||| b) = Gen.inotifyNewEventOp a ||| Gen.inotifyNewEventOp b := by
  simp only [Bridge.inotifyNewEventOp_eq]
  exact applyRules_or (by decide) a b

/-- housekeeping bits (`IN_ISDIR`, `IN_IGNORED`, `IN_UNMOUNT`, `IN_Q_OVERFLOW`, the control bits)
contribute no operation, alone or combined with anything -/
theorem inotify_housekeeping_silent (m h : BitVec 32)
    (hh : h &&& 0xfff#32 = 0#32) : Gen.inotifyNewEventOp (m ||| h) = Gen.inotifyNewEventOp m := by
  rw [inotify_union]
  have : Gen.inotifyNewEventOp h = 0#32 := by
    rw [Bridge.inotifyNewEventOp_eq]
    have ht : ∀ f, f &&& 0xfff#32 = f → f ≠ 0#32 → test h f = false := by
      intro f hf hne
      unfold test
      have : h &&& f = 0#32 := by
        calc h &&& f = h &&& (0xfff#32 &&& f) := by rw [BitVec.and_comm 0xfff#32 f, hf]
          _ = (h &&& 0xfff#32) &&& f := by rw [BitVec.and_assoc]
          _ = 0#32 := by rw [hh]; simp
      rw [this]
      simpa using fun h' => hne h'.symm
    simp only [Fsn.inotifyNewEventOp, applyRules, inotifyRules, List.foldl, List.any, Bool.or_false]
    rw [ht IN_CREATE (by decide) (by decide), ht IN_MOVED_TO (by decide) (by decide),
      ht IN_DELETE_SELF (by decide) (by decide), ht IN_DELETE (by decide) (by decide),
      ht IN_MODIFY (by decide) (by decide), ht IN_OPEN (by decide) (by decide),
      ht IN_ACCESS (by decide) (by decide), ht IN_CLOSE_WRITE (by decide) (by decide),
      ht IN_CLOSE_NOWRITE (by decide) (by decide), ht IN_MOVE_SELF (by decide) (by decide),
      ht IN_MOVED_FROM (by decide) (by decide), ht IN_ATTRIB (by decide) (by decide)]
    decide
  rw [this]; simp

end EventOp
