import FsnVerif.Proofs.InvLemmas
import FsnVerif.Proofs.PathLemmas
/-! Every stored watch path is a fixed point of `clean` (so re-cleaning it in `removePath` is harmless). -/
namespace Fsn

def Lib.PathsClean (l : Lib) : Prop := ∀ wd w, alLookup wd l.wdT = some w → clean w.path = w.path

theorem Lib.pathsClean_empty : ({} : Lib).PathsClean := by intro wd w h; simp [alLookup] at h

theorem Lib.PathsClean.drop {l : Lib} (h : l.PathsClean) (w : Watch) : (l.dropWatch w).PathsClean := by
  intro wd w' hw'; exact h wd w' (alLookup_erase_some hw')

theorem Lib.PathsClean.applyAdd {l : Lib} (h : l.PathsClean) (path : Path) (fl : BitVec 32) (rc : Bool) (wd : Nat)
    (hp : clean path = path) : (l.applyAdd path fl rc wd).PathsClean := by
  intro k w hk
  unfold Lib.applyAdd at hk
  simp only at hk
  have hgen : ∀ upd : Watch, clean upd.path = upd.path → ∀ t : List (Nat × Watch),
      (∀ k w, alLookup k t = some w → clean w.path = w.path) →
      ∀ k w, alLookup k (alInsert upd.wd upd t) = some w → clean w.path = w.path := by
    intro upd hu t ht k w hkw
    by_cases hh : k = upd.wd
    · subst hh; rw [alLookup_insert_same] at hkw; injection hkw with hkw; subst hkw; exact hu
    · rw [alLookup_insert_other _ _ _ _ hh] at hkw; exact ht k w hkw
  have hupd : clean (match alLookup wd l.wdT with
      | some e => e
      | none => match (alLookup path l.pathT).bind (fun wd => alLookup wd l.wdT) with
        | none => ({ wd := wd, path := path, flags := fl, recurse := rc } : Watch)
        | some e => { e with wd := wd, flags := fl }).path =
      (match alLookup wd l.wdT with
      | some e => e
      | none => match (alLookup path l.pathT).bind (fun wd => alLookup wd l.wdT) with
        | none => ({ wd := wd, path := path, flags := fl, recurse := rc } : Watch)
        | some e => { e with wd := wd, flags := fl }).path := by
    split
    · rename_i e he; exact h wd e he
    · split
      · exact hp
      · rename_i e he
        cases hpp : alLookup path l.pathT with
        | none => simp [hpp] at he
        | some ow => simp only [hpp, Option.bind_some] at he; exact h ow e he
  exact hgen _ hupd _ h k w (alLookup_ite_erase_some _ hk)

theorem Lib.PathsClean.of_wdT_eq {l l' : Lib} (h : l.PathsClean) (he : l'.wdT = l.wdT) : l'.PathsClean := by
  intro wd w hw; rw [he] at hw; exact h wd w hw

theorem Lib.PathsClean.add {l : Lib} (h : l.PathsClean) (env : Env) (arg : Path) (ops : BitVec 32) (nf : Bool) :
    (l.add env arg ops nf).1.PathsClean := by
  unfold Lib.add recursivePath Lib.register
  simp only [Bool.not_false, if_true]
  split
  · exact h
  · exact h.applyAdd _ _ _ _ (clean_idem arg)

theorem Lib.PathsClean.remove {l : Lib} (h : l.PathsClean) (hi : l.Inv) (hn : l.NoRec) (env : Env) (arg : Path) :
    (l.remove env arg).1.PathsClean := by
  rcases Lib.remove_lib hi hn env arg with ⟨h1, _, _⟩ | ⟨w, _, _, h1, _⟩ <;> rw [h1]
  · exact h
  · exact h.drop w

theorem Lib.PathsClean.emit {l : Lib} (h : l.PathsClean) (env : Env) (out : Out) (br : Branch) (w : Watch) (r : Raw) :
    (l.emit env out br w r).lib.PathsClean := by
  rcases emit_lib l env out br w r with h1 | h1 <;> rw [h1]
  · exact h
  · exact h.of_wdT_eq (newEvent_tables ..).1

theorem Lib.PathsClean.handle {l : Lib} (h : l.PathsClean) (hi : l.Inv) (hn : l.NoRec) (env : Env) (r : Raw) :
    (l.handle env r).lib.PathsClean := by
  unfold Lib.handle
  split
  · exact h
  · rename_i w hw
    have hww : alLookup w.wd l.wdT = some w := by rw [(hi.bwd _ _ hw).1]; exact hw
    by_cases hign : ignoredOrUnmount r.mask = true
    · rw [if_pos hign]; exact h.drop w
    · rw [if_neg hign]
      have hd : (l.afterDeleteSelf w r).PathsClean := by
        unfold Lib.afterDeleteSelf; split
        · exact h.drop w
        · exact h
      obtain ⟨hdi, hdn⟩ := hi.afterDeleteSelf hn w hww r
      by_cases hm : test r.mask IN_MOVE_SELF = true
      · rw [if_pos hm]
        by_cases hr : w.recurse = true
        · rw [if_pos hr]; exact hd
        · rw [if_neg hr]
          unfold Lib.afterMoveSelf
          simp only
          have hp := (hdi.remove hdn env w.path).2.2
          rw [if_neg (by simp [hp])]
          have hrm := hd.remove hdi hdn env w.path
          split
          all_goals (try split)
          all_goals exact hrm.emit _ _ _ w r
      · rw [if_neg hm, recurseAfter_norec _ _ _ _ (hn.entries _ _ hw)]
        exact hd.emit _ _ _ w r

theorem Lib.PathsClean.stepRecords {l : Lib} (h : l.PathsClean) (hi : l.Inv) (hn : l.NoRec) (env : Env) (rs : List Raw) :
    (l.stepRecords env rs).1.PathsClean := by
  induction rs generalizing l env with
  | nil => exact h
  | cons r rs ih =>
    obtain ⟨a, b, c⟩ := hi.stepRecord hn env r
    have hc : (l.stepRecord env r).lib.PathsClean := by
      unfold Lib.stepRecord; simp only; split <;> exact h.handle hi hn env r
    simp only [Lib.stepRecords, c, Bool.false_eq_true, if_false]
    exact ih hc a b _

end Fsn
