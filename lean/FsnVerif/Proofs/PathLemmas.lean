import FsnVerif.Model.Path
/-! `clean` is idempotent (the library relies on it: `removePath` re-cleans stored watch paths). -/
namespace Fsn

/-- a component as it can sit on the stack -/
def NoSlash (c : Path) : Prop := slash ∉ c
def Normal (c : Path) : Prop := c ≠ [] ∧ c ≠ [dot] ∧ c ≠ dotdot ∧ NoSlash c

theorem splitSlash_ne_nil (p : Path) : splitSlash p ≠ [] := by
  unfold splitSlash
  induction p with
  | nil => simp
  | cons c cs ih =>
    simp only [List.foldr_cons]
    split
    · simp
    · split <;> simp

theorem splitSlash_cons (c : Nat) (cs : Path) :
    splitSlash (c :: cs) = if c == slash then [] :: splitSlash cs else
      match splitSlash cs with
      | [] => [[c]]
      | x :: xs => (c :: x) :: xs := by
  unfold splitSlash; rfl

theorem splitSlash_noslash (p : Path) : ∀ c ∈ splitSlash p, NoSlash c := by
  induction p with
  | nil => intro c hc; simp [splitSlash] at hc; subst hc; simp [NoSlash]
  | cons a as ih =>
    intro c hc
    rw [splitSlash_cons] at hc
    by_cases ha : (a == slash) = true
    · simp only [ha, if_true, List.mem_cons] at hc
      rcases hc with h | h
      · subst h; simp [NoSlash]
      · exact ih c h
    · simp only [ha, Bool.false_eq_true, if_false] at hc
      cases hs : splitSlash as with
      | nil => exact absurd hs (splitSlash_ne_nil as)
      | cons x xs =>
        rw [hs] at hc ih
        simp only [List.mem_cons] at hc
        rcases hc with h | h
        · subst h
          have hx := ih x (by simp)
          unfold NoSlash at *
          simp only [List.mem_cons, not_or]
          exact ⟨fun h' => ha (by simp [h']), hx⟩
        · exact ih c (by simp [h])

/-- splitting a slash-free component gives that component -/
theorem splitSlash_single (c : Path) (h : NoSlash c) : splitSlash c = [c] := by
  induction c with
  | nil => rfl
  | cons a as ih =>
    unfold NoSlash at h
    simp only [List.mem_cons, not_or] at h
    rw [splitSlash_cons, ih h.2]
    have : (a == slash) = false := by simpa using fun h' => h.1 h'.symm
    simp [this]

theorem splitSlash_append_slash (c : Path) (rest : Path) (h : NoSlash c) :
    splitSlash (c ++ slash :: rest) = c :: splitSlash rest := by
  induction c with
  | nil => simp [splitSlash_cons]
  | cons a as ih =>
    unfold NoSlash at h
    simp only [List.mem_cons, not_or] at h
    have ha : (a == slash) = false := by simpa using fun h' => h.1 h'.symm
    rw [List.cons_append, splitSlash_cons, ih h.2]
    simp [ha]

/-- `split ∘ join = id` on non-empty lists of slash-free components -/
theorem splitSlash_joinSlash (cs : List Path) (hne : cs ≠ []) (h : ∀ c ∈ cs, NoSlash c) :
    splitSlash (joinSlash cs) = cs := by
  induction cs with
  | nil => exact absurd rfl hne
  | cons c rest ih =>
    cases rest with
    | nil => simp only [joinSlash]; exact splitSlash_single c (h c (by simp))
    | cons d ds =>
      simp only [joinSlash]
      rw [splitSlash_append_slash c _ (h c (by simp))]
      rw [ih (by simp) (fun x hx => h x (List.mem_cons_of_mem _ hx))]

/-- shape of the stack (top first): normal components on top of a run of `..` (none when rooted) -/
def StackOK (rooted : Bool) (st : List Path) : Prop :=
  ∃ normals dds, st = normals ++ dds ∧ (∀ c ∈ normals, Normal c) ∧ (∀ c ∈ dds, c = dotdot) ∧ (rooted = true → dds = [])

theorem stackOK_nil (r : Bool) : StackOK r [] := ⟨[], [], rfl, by simp, by simp, fun _ => rfl⟩

theorem dotdot_noslash : NoSlash dotdot := by unfold NoSlash; decide

theorem cleanStep_ok (rooted : Bool) (st : List Path) (c : Path) (h : StackOK rooted st) (hc : NoSlash c) :
    StackOK rooted (cleanStep rooted st c) := by
  obtain ⟨ns, dds, rfl, hn, hd, hr⟩ := h
  unfold cleanStep
  by_cases h1 : (c == [] || c == [dot]) = true
  · rw [if_pos h1]; exact ⟨ns, dds, rfl, hn, hd, hr⟩
  · rw [if_neg h1]
    have hc1 : c ≠ [] ∧ c ≠ [dot] := by
      simp only [Bool.or_eq_true, beq_iff_eq, not_or] at h1; exact h1
    by_cases h2 : (c == dotdot) = true
    · rw [if_pos h2]
      have hcd : c = dotdot := by simpa using h2
      cases ns with
      | nil =>
        simp only [List.nil_append]
        cases dds with
        | nil =>
          simp only
          cases rooted with
          | true => exact stackOK_nil true
          | false => exact ⟨[], [c], rfl, by simp, by simp [hcd], by simp⟩
        | cons d ds =>
          simp only
          have hdd : d = dotdot := hd d (by simp)
          have : (d == dotdot) = true := by simp [hdd]
          rw [if_pos this]
          exact ⟨[], c :: d :: ds, rfl, by simp, by
            intro x hx; rcases List.mem_cons.mp hx with h' | h'
            · rw [h']; exact hcd
            · exact hd x h', by
            intro hr'; have := hr hr'; cases this⟩
      | cons n ns' =>
        simp only [List.cons_append]
        have hnn : Normal n := hn n (by simp)
        have : (n == dotdot) = false := by simpa using hnn.2.2.1
        rw [if_neg (by simp [this])]
        exact ⟨ns', dds, rfl, fun x hx => hn x (List.mem_cons_of_mem _ hx), hd, hr⟩
    · rw [if_neg h2]
      have hcd : c ≠ dotdot := by simpa using h2
      exact ⟨c :: ns, dds, rfl, by
        intro x hx; rcases List.mem_cons.mp hx with h' | h'
        · rw [h']; exact ⟨hc1.1, hc1.2, hcd, hc⟩
        · exact hn x h', hd, hr⟩

theorem foldl_cleanStep_ok (rooted : Bool) (cs : List Path) (st : List Path) (h : StackOK rooted st)
    (hc : ∀ c ∈ cs, NoSlash c) : StackOK rooted (cs.foldl (cleanStep rooted) st) := by
  induction cs generalizing st with
  | nil => exact h
  | cons c cs ih =>
    exact ih _ (cleanStep_ok rooted st c h (hc c (by simp))) (fun x hx => hc x (List.mem_cons_of_mem _ hx))

/-- replaying a well-shaped stack (bottom first) rebuilds it -/
theorem foldl_replay (rooted : Bool) (ns dds : List Path) (hn : ∀ c ∈ ns, Normal c) (hd : ∀ c ∈ dds, c = dotdot)
    (hr : rooted = true → dds = []) :
    (ns ++ dds).reverse.foldl (cleanStep rooted) [] = ns ++ dds := by
  rw [List.reverse_append, List.foldl_append]
  -- first the `..` run (bottom), then the normal components
  have h1 : ∀ (ds acc : List Path), (∀ c ∈ ds, c = dotdot) → (∀ c ∈ acc, c = dotdot) → rooted = false →
      ds.foldl (cleanStep rooted) acc = ds.reverse ++ acc := by
    intro ds
    induction ds with
    | nil => intro acc _ _ _; rfl
    | cons d ds ih =>
      intro acc hds hacc hrf
      have hdd : d = dotdot := hds d (by simp)
      simp only [List.foldl_cons]
      have step : cleanStep rooted acc d = d :: acc := by
        unfold cleanStep
        subst hdd
        have : ¬ ((dotdot == [] || dotdot == [dot]) = true) := by decide
        rw [if_neg this, if_pos (by decide)]
        cases acc with
        | nil => simp [hrf]
        | cons a as =>
          have : a = dotdot := hacc a (by simp)
          subst this; simp
      rw [step, ih (d :: acc) (fun x hx => hds x (List.mem_cons_of_mem _ hx)) (by
        intro x hx; rcases List.mem_cons.mp hx with h' | h'
        · rw [h']; exact hdd
        · exact hacc x h') hrf]
      simp
  have h2 : ∀ (ms acc : List Path), (∀ c ∈ ms, Normal c) → ms.foldl (cleanStep rooted) acc = ms.reverse ++ acc := by
    intro ms
    induction ms with
    | nil => intro acc _; rfl
    | cons m ms ih =>
      intro acc hms
      have hm : Normal m := hms m (by simp)
      simp only [List.foldl_cons]
      have step : cleanStep rooted acc m = m :: acc := by
        unfold cleanStep
        have a1 : ¬ ((m == [] || m == [dot]) = true) := by
          simp only [Bool.or_eq_true, beq_iff_eq, not_or]; exact ⟨hm.1, hm.2.1⟩
        have a2 : ¬ ((m == dotdot) = true) := by simpa using hm.2.2.1
        rw [if_neg a1, if_neg a2]
      rw [step, ih (m :: acc) (fun x hx => hms x (List.mem_cons_of_mem _ hx))]
      simp
  have hdfold : dds.reverse.foldl (cleanStep rooted) [] = dds := by
    cases hb : rooted with
    | true => have := hr hb; subst this; rfl
    | false =>
      have := h1 dds.reverse [] (fun c hc => hd c (by simpa using hc)) (by simp) hb
      subst hb
      simpa using this
  rw [hdfold, h2 ns.reverse dds (fun c hc => hn c (by simpa using hc))]
  simp

theorem joinSlash_head_ne_slash (cs : List Path) (c : Path) (rest : List Path) (hcs : cs = c :: rest)
    (hc : c ≠ [] ∧ NoSlash c) : (joinSlash cs).head? ≠ some slash := by
  subst hcs
  obtain ⟨hne, hns⟩ := hc
  cases c with
  | nil => exact absurd rfl hne
  | cons a as =>
    have : a ≠ slash := by
      intro h; apply hns; simp [h]
    cases rest with
    | nil => simpa [joinSlash] using this
    | cons d ds => simpa [joinSlash] using this

theorem joinSlash_ne_nil (cs : List Path) (c : Path) (rest : List Path) (hcs : cs = c :: rest) (hc : c ≠ []) :
    joinSlash cs ≠ [] := by
  subst hcs
  cases rest with
  | nil => simpa [joinSlash] using hc
  | cons d ds => simp [joinSlash, hc]

end Fsn

namespace Fsn

theorem comp_facts {rooted : Bool} {ns dds : List Path} (hn : ∀ c ∈ ns, Normal c) (hd : ∀ c ∈ dds, c = dotdot) :
    ∀ c ∈ (ns ++ dds).reverse, c ≠ [] ∧ NoSlash c := by
  intro c hc
  simp only [List.mem_reverse, List.mem_append] at hc
  rcases hc with h | h
  · exact ⟨(hn c h).1, (hn c h).2.2.2⟩
  · rw [hd c h]; exact ⟨by decide, dotdot_noslash⟩

/-- **`filepath.Clean` (as modelled) is idempotent** -/
theorem clean_idem (p : Path) : clean (clean p) = clean p := by
  by_cases hp : p = []
  · subst hp; decide
  · -- the shape of the first result
    have hpe : (p == []) = false := by simpa using hp
    generalize hr : (p.head? == some slash) = rooted
    obtain ⟨ns, dds, hst, hn, hd, hrd⟩ := foldl_cleanStep_ok rooted (splitSlash p) [] (stackOK_nil rooted) (splitSlash_noslash p)
    have hfacts := comp_facts (rooted := rooted) hn hd
    have hout : clean p = if rooted then slash :: joinSlash (ns ++ dds).reverse
        else if joinSlash (ns ++ dds).reverse == [] then [dot] else joinSlash (ns ++ dds).reverse := by
      unfold clean
      simp only [hpe, Bool.false_eq_true, if_false, hr, hst]
    rw [hout]
    cases hcomps : (ns ++ dds).reverse with
    | nil =>
      -- nothing left: "/" or "."
      cases rooted <;> decide
    | cons c0 rest =>
      have hc0 := hfacts c0 (by rw [hcomps]; simp)
      have hall : ∀ c ∈ c0 :: rest, NoSlash c := fun c hc => (hfacts c (by rw [hcomps]; exact hc)).2
      have hbody_ne : joinSlash (c0 :: rest) ≠ [] := joinSlash_ne_nil _ c0 rest rfl hc0.1
      have hsplit : splitSlash (joinSlash (c0 :: rest)) = c0 :: rest := splitSlash_joinSlash _ (by simp) hall
      have hreplay : (c0 :: rest).foldl (cleanStep rooted) [] = ns ++ dds := by
        rw [← hcomps]; exact foldl_replay rooted ns dds hn hd hrd
      cases hb : rooted with
      | true =>
        subst hb
        simp only [if_true]
        unfold clean
        have h1 : ((slash :: joinSlash (c0 :: rest)) == []) = false := by simp
        have h2 : ((slash :: joinSlash (c0 :: rest)).head? == some slash) = true := by simp
        simp only [h1, Bool.false_eq_true, if_false, h2, if_true]
        have h3 : splitSlash (slash :: joinSlash (c0 :: rest)) = [] :: (c0 :: rest) := by
          rw [splitSlash_cons, hsplit]; simp
        have h4 : cleanStep true [] [] = [] := by decide
        rw [h3, List.foldl_cons, h4, hreplay, hcomps]
      | false =>
        subst hb
        have hbe : (joinSlash (c0 :: rest) == []) = false := by simpa using hbody_ne
        simp only [Bool.false_eq_true, if_false, hbe]
        unfold clean
        have h2 : ((joinSlash (c0 :: rest)).head? == some slash) = false := by
          have := joinSlash_head_ne_slash _ c0 rest rfl hc0
          simpa using this
        simp only [hbe, Bool.false_eq_true, if_false, h2, hsplit, hreplay, hcomps]

end Fsn
