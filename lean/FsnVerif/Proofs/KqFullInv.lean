import FsnVerif.Proofs.KqFullLemmas
import FsnVerif.Proofs.PathLemmas
/-!
# The bookkeeping invariant of the full kqueue model and its preservation by every function

`InvP pend s`: the descriptors obtained from `unix.Open` and not closed are exactly the keys of the
`wd` table (plus `pend`, the one descriptor `addWatch` holds between `Open` and `watches.add`);
every entry carries its own key, is listed under its own (clean) name in the path table, and has a
knote; knotes exist only on open descriptors.
-/
namespace KqF
open Fsn

structure InvP (pend : Option Nat) (s : KS) : Prop where
  open_iff : ∀ fd, fd ∈ s.openFds ↔ (alHas fd s.wd = true ∨ pend = some fd)
  pend_fresh : ∀ fd, pend = some fd → alHas fd s.wd = false
  key_wd : ∀ k w, alLookup k s.wd = some w → w.wd = k
  listed : ∀ k w, alLookup k s.wd = some w → alLookup w.name s.path = some k
  knote_open : ∀ fd, alHas fd s.knotes = true → fd ∈ s.openFds
  has_knote : ∀ k, alHas k s.wd = true → alHas k s.knotes = true
  keys_clean : ∀ k w, alLookup k s.wd = some w → clean w.name = w.name
  bydir : ∀ k w, alLookup k s.wd = some w → k ∈ (alLookup (dir w.name) s.byDir).getD []

abbrev Inv (s : KS) : Prop := InvP none s

theorem inv_init : Inv {} where
  open_iff := by intro fd; simp [alHas, alLookup]
  pend_fresh := by intro fd h; cases h
  key_wd := by intro k w h; simp [alLookup] at h
  listed := by intro k w h; simp [alLookup] at h
  knote_open := by intro fd h; simp [alHas, alLookup] at h
  has_knote := by intro k h; simp [alHas, alLookup] at h
  keys_clean := by intro k w h; simp [alLookup] at h
  bydir := by intro k w h; simp [alLookup] at h

/-- the invariant only looks at four fields -/
theorem InvP.congr {pend : Option Nat} {s s' : KS} (h : InvP pend s) (h1 : s'.wd = s.wd) (h2 : s'.path = s.path)
    (h3 : s'.openFds = s.openFds) (h4 : s'.knotes = s.knotes) (h5 : s'.byDir = s.byDir) : InvP pend s' where
  open_iff := by rw [h1, h3]; exact h.open_iff
  pend_fresh := by rw [h1]; exact h.pend_fresh
  key_wd := by rw [h1]; exact h.key_wd
  listed := by rw [h1, h2]; exact h.listed
  knote_open := by rw [h3, h4]; exact h.knote_open
  has_knote := by rw [h1, h4]; exact h.has_knote
  keys_clean := by rw [h1]; exact h.keys_clean
  bydir := by rw [h1, h5]; exact h.bydir

/-- "`byPath name` finds nothing" -/
def NotWatched (name : Path) (s : KS) : Prop := alLookup ((alLookup name s.path).getD 0) s.wd = none

theorem alHas_iff {κ ν : Type} [DecidableEq κ] (k : κ) (l : List (κ × ν)) : alHas k l = true ↔ ∃ v, alLookup k l = some v := by
  unfold alHas; cases alLookup k l <;> simp

theorem alHas_false_iff {κ ν : Type} [DecidableEq κ] (k : κ) (l : List (κ × ν)) : alHas k l = false ↔ alLookup k l = none := by
  unfold alHas; cases alLookup k l <;> simp

theorem alHas_insert {κ ν : Type} [DecidableEq κ] (k k2 : κ) (v : ν) (l : List (κ × ν)) :
    alHas k2 (alInsert k v l) = (decide (k2 = k) || alHas k2 l) := by
  by_cases h : k2 = k
  · subst h; simp [alHas, alLookup_insert_same]
  · simp [alHas, alLookup_insert_other _ _ _ _ h, h]

theorem alHas_erase {κ ν : Type} [DecidableEq κ] (k k2 : κ) (l : List (κ × ν)) :
    alHas k2 (alErase k l) = (!decide (k2 = k) && alHas k2 l) := by
  by_cases h : k2 = k
  · subst h; simp [alHas, alLookup_erase_same]
  · simp [alHas, alLookup_erase_other _ _ _ h, h]

theorem alLookup_insert_cases {κ ν : Type} [DecidableEq κ] (k k2 : κ) (v kw : ν) (l : List (κ × ν))
    (h : alLookup k2 (alInsert k v l) = some kw) : (k2 = k ∧ kw = v) ∨ (k2 ≠ k ∧ alLookup k2 l = some kw) := by
  by_cases hk : k2 = k
  · subst hk; rw [alLookup_insert_same] at h; injection h with h; exact Or.inl ⟨rfl, h.symm⟩
  · rw [alLookup_insert_other _ _ _ _ hk] at h; exact Or.inr ⟨hk, h⟩

/-- no entry is named `name` when `byPath name` finds nothing -/
theorem InvP.no_entry_named {pend : Option Nat} {s : KS} (h : InvP pend s) {name : Path} (hn : NotWatched name s)
    (k : Nat) (w : KW) (hw : alLookup k s.wd = some w) : w.name ≠ name := by
  intro he
  have := h.listed k w hw
  rw [he] at this
  unfold NotWatched at hn
  rw [this] at hn
  simp [hw] at hn

/-! ## the writers -/

theorem tr_markSeen (pend : Option Nat) (F : KS → Prop) (hF : ∀ s s' : KS, s'.wd = s.wd → s'.path = s.path → F s → F s')
    (p : Path) (b : Bool) :
    Tr (fun s => InvP pend s ∧ F s) (markSeen p b) (fun _ s => InvP pend s ∧ F s) := by
  intro w ⟨h, hf⟩
  exact ⟨h.congr rfl rfl rfl rfl rfl, hF w.s _ rfl rfl hf⟩

theorem tr_markSeen' (p : Path) (b : Bool) : Tr Inv (markSeen p b) (fun _ => Inv) := by
  intro w h; exact h.congr rfl rfl rfl rfl rfl

theorem tr_addUserWatch (p : Path) : Tr Inv (addUserWatch p) (fun _ => Inv) := by
  intro w h; exact h.congr rfl rfl rfl rfl rfl

/-- `addLink(name, 0)` for a name nothing is listed under -/
theorem tr_addLink (name : Path) (fd : Nat) :
    Tr (fun s => Inv s ∧ NotWatched name s) (addLink name fd) (fun _ => Inv) := by
  intro w ⟨h, hn⟩
  show InvP none { w.s with path := alInsert name fd w.s.path, seen := setInsert name w.s.seen }
  refine { open_iff := h.open_iff, pend_fresh := h.pend_fresh, key_wd := h.key_wd, listed := ?_, knote_open := h.knote_open,
           has_knote := h.has_knote, keys_clean := h.keys_clean, bydir := h.bydir }
  intro k kw hk
  have hne := h.no_entry_named hn k kw hk
  show alLookup kw.name (alInsert name fd w.s.path) = some k
  rw [alLookup_insert_other _ _ _ _ hne]
  exact h.listed k kw hk

/-- `unix.Open`: a fresh descriptor is pending afterwards -/
theorem tr_askOpen (F : KS → Prop) (hF : ∀ s s' : KS, s'.wd = s.wd → s'.path = s.path → F s → F s') (p : Path) :
    Tr (fun s => Inv s ∧ F s) (askOpen p)
      (fun r s => F s ∧ match r with | .ok fd => InvP (some fd) s | .error _ => Inv s) := by
  intro w ⟨h, hf⟩
  unfold askOpen
  split
  · rename_i q r t
    split
    · split
      · rename_i fd
        split
        · exact ⟨hf, h⟩
        · rename_i hc
          refine ⟨hF w.s _ rfl rfl hf, ?_⟩
          have hc' : fd ∉ w.s.openFds := by simpa using hc
          show InvP (some fd) { w.s with openFds := fd :: w.s.openFds }
          refine { open_iff := ?_, pend_fresh := ?_, key_wd := h.key_wd, listed := h.listed, knote_open := ?_,
                   has_knote := h.has_knote, keys_clean := h.keys_clean, bydir := h.bydir }
          · intro x
            show x ∈ fd :: w.s.openFds ↔ _
            rw [List.mem_cons, h.open_iff x]
            constructor
            · rintro (rfl | h1)
              · exact Or.inr rfl
              · rcases h1 with h1 | h1
                · exact Or.inl h1
                · cases h1
            · rintro (h1 | h1)
              · exact Or.inr (Or.inl h1)
              · injection h1 with h1; exact Or.inl h1.symm
          · intro x hx
            injection hx with hx; subst hx
            cases hh : alHas fd w.s.wd
            · rfl
            · exact absurd ((h.open_iff fd).mpr (Or.inl hh)) hc'
          · intro x hx
            exact List.mem_cons_of_mem _ (h.knote_open x hx)
      · exact ⟨hf, h⟩
    · exact ⟨hf, h⟩
  · exact ⟨hf, h⟩

/-- `register(EV_ADD)` on a descriptor that is open: succeeds and leaves a knote -/
theorem tr_registerAdd (pend : Option Nat) (F : KS → Prop) (hF : ∀ s s' : KS, s'.wd = s.wd → s'.path = s.path → F s → F s')
    (fd : Nat) (fflags : BitVec 32) :
    Tr (fun s => InvP pend s ∧ fd ∈ s.openFds ∧ F s) (registerAdd fd fflags)
      (fun r s => r = .ok () ∧ InvP pend s ∧ alHas fd s.knotes = true ∧ F s) := by
  intro w ⟨h, ho, hf⟩
  have hc : w.s.openFds.contains fd = true := by simpa using ho
  simp only [registerAdd, get, modify, bind_apply, pure_apply, hc, if_true]
  refine ⟨trivial, ?_, ?_, hF w.s _ rfl rfl hf⟩
  · show InvP pend { w.s with knotes := alInsert fd fflags w.s.knotes }
    refine { open_iff := h.open_iff, pend_fresh := h.pend_fresh, key_wd := h.key_wd, listed := h.listed, knote_open := ?_,
             has_knote := ?_, keys_clean := h.keys_clean, bydir := h.bydir }
    · intro x hx
      have : alHas x (alInsert fd fflags w.s.knotes) = true := hx
      rw [alHas_insert] at this
      by_cases hxf : x = fd
      · subst hxf; exact ho
      · simp [hxf] at this; exact h.knote_open x this
    · intro k hk
      show alHas k (alInsert fd fflags w.s.knotes) = true
      rw [alHas_insert, h.has_knote k hk]; simp
  · show alHas fd (alInsert fd fflags w.s.knotes) = true
    rw [alHas_insert]; simp

/-- `watches.add` of the pending descriptor under a clean name nothing is listed under -/
theorem tr_watchesAdd (name link : Path) (fd : Nat) (isDir : Bool) :
    Tr (fun s => InvP (some fd) s ∧ NotWatched name s ∧ clean name = name ∧ alHas fd s.knotes = true)
      (watchesAdd name link fd isDir)
      (fun _ s => Inv s ∧ alLookup name s.path = some fd ∧ ∃ w, alLookup fd s.wd = some w) := by
  intro w ⟨h, hn, hc, hk⟩
  have hfresh := h.pend_fresh fd rfl
  refine ⟨?_, ?_, ?_⟩
  · refine { open_iff := ?_, pend_fresh := ?_, key_wd := ?_, listed := ?_, knote_open := h.knote_open, has_knote := ?_, keys_clean := ?_, bydir := ?_ }
    · intro x
      show x ∈ w.s.openFds ↔ (alHas x (alInsert fd _ w.s.wd) = true ∨ _)
      rw [h.open_iff x, alHas_insert]
      by_cases hx : x = fd
      · subst hx; simp
      · simp [hx]
        intro h1; exact absurd h1.symm hx
    · intro x hx; cases hx
    · intro k kw hkw
      rcases alLookup_insert_cases _ _ _ _ _ hkw with ⟨rfl, rfl⟩ | ⟨_, h2⟩
      · rfl
      · exact h.key_wd k kw h2
    · intro k kw hkw
      show alLookup kw.name (alInsert name fd w.s.path) = some k
      rcases alLookup_insert_cases _ _ _ _ _ hkw with ⟨rfl, rfl⟩ | ⟨_, h2⟩
      · exact alLookup_insert_same _ _ _
      · have hne := h.no_entry_named hn k kw h2
        rw [alLookup_insert_other _ _ _ _ hne]
        exact h.listed k kw h2
    · intro k hk'
      have : alHas k (alInsert fd _ w.s.wd) = true := hk'
      rw [alHas_insert] at this
      by_cases hkf : k = fd
      · subst hkf; exact hk
      · simp [hkf] at this; exact h.has_knote k this
    · intro k kw hkw
      rcases alLookup_insert_cases _ _ _ _ _ hkw with ⟨rfl, rfl⟩ | ⟨_, h2⟩
      · exact hc
      · exact h.keys_clean k kw h2
    · intro k kw hkw
      show k ∈ (alLookup (dir kw.name) (alInsert (dir name) _ w.s.byDir)).getD []
      rcases alLookup_insert_cases _ _ _ _ _ hkw with ⟨rfl, rfl⟩ | ⟨_, h2⟩
      · rw [alLookup_insert_same]
        simp only [Option.getD_some]
        split
        · rename_i hcn; simpa using hcn
        · simp
      · have hold := h.bydir k kw h2
        by_cases hd : dir kw.name = dir name
        · rw [hd, alLookup_insert_same]
          simp only [Option.getD_some]
          rw [hd] at hold
          split
          · exact hold
          · exact List.mem_append_left _ hold
        · rw [alLookup_insert_other _ _ _ _ hd]; exact hold
  · exact alLookup_insert_same _ _ _
  · exact ⟨_, alLookup_insert_same _ _ _⟩

/-- `updateDirFlags(name, flags)` when the path entry (if any) points at a table entry -/
theorem tr_updateDirFlags (name : Path) (flags : BitVec 32) :
    Tr (fun s => Inv s ∧ ∀ fd, alLookup name s.path = some fd → ∃ w, alLookup fd s.wd = some w)
      (updateDirFlags name flags) (fun _ => Inv) := by
  intro w ⟨h, hp⟩
  simp only [updateDirFlags, get, bind_apply, pure_apply]
  cases hl : alLookup name w.s.path with
  | none => exact h
  | some fd =>
    obtain ⟨info, hi⟩ := hp fd hl
    simp only [modify, bind_apply, pure_apply, hi, Option.getD_some]
    show InvP none { w.s with wd := alInsert fd { info with dirFlags := flags } w.s.wd }
    refine { open_iff := ?_, pend_fresh := ?_, key_wd := ?_, listed := ?_, knote_open := h.knote_open, has_knote := ?_, keys_clean := ?_, bydir := ?_ }
    · intro x
      show x ∈ w.s.openFds ↔ (alHas x (alInsert fd _ w.s.wd) = true ∨ _)
      rw [h.open_iff x, alHas_insert]
      by_cases hx : x = fd
      · subst hx; simp [(alHas_iff _ _).mpr ⟨_, hi⟩]
      · simp [hx]
    · intro x hx; cases hx
    · intro k kw hkw
      rcases alLookup_insert_cases _ _ _ _ _ hkw with ⟨rfl, rfl⟩ | ⟨_, h2⟩
      · exact h.key_wd _ info hi
      · exact h.key_wd k kw h2
    · intro k kw hkw
      rcases alLookup_insert_cases _ _ _ _ _ hkw with ⟨rfl, rfl⟩ | ⟨_, h2⟩
      · exact h.listed _ info hi
      · exact h.listed k kw h2
    · intro k hk
      have : alHas k (alInsert fd _ w.s.wd) = true := hk
      rw [alHas_insert] at this
      by_cases hkf : k = fd
      · subst hkf; exact h.has_knote k ((alHas_iff _ _).mpr ⟨_, hi⟩)
      · simp [hkf] at this; exact h.has_knote k this
    · intro k kw hkw
      rcases alLookup_insert_cases _ _ _ _ _ hkw with ⟨rfl, rfl⟩ | ⟨_, h2⟩
      · exact h.keys_clean _ info hi
      · exact h.keys_clean k kw h2
    · intro k kw hkw
      rcases alLookup_insert_cases _ _ _ _ _ hkw with ⟨rfl, rfl⟩ | ⟨_, h2⟩
      · exact h.bydir _ info hi
      · exact h.bydir k kw h2

/-! ## `addWatch`, first half -/

theorem tr_followLink (name : Path) (info0 : KW) :
    Tr (fun s => Inv s ∧ NotWatched name s) (followLink name info0)
      (fun r s => match r with
        | .error _ => Inv s
        | .ok (link, _, _) => Inv s ∧ NotWatched link s ∧ clean link = link) := by
  unfold followLink
  refine Tr.bind ((pure_askReadlink name).tr _) ?_
  intro r
  cases r with
  | error e => exact Tr.pure _ (fun s h => h.1)
  | ok link0 =>
    simp only []
    have hcl := clean_idem (if isAbs link0 = true then link0 else join (dir name) link0)
    generalize clean (if isAbs link0 = true then link0 else join (dir name) link0) = link at hcl ⊢
    refine Tr.bind (tr_byPath _ _) ?_
    intro x
    split
    · refine Tr.bind (Tr.weaken (tr_addLink name 0) (fun s h => h.1) (fun _ s h => h)) ?_
      intro _; exact Tr.pure _ (fun s h => h)
    · rename_i hx
      refine Tr.bind ((pure_askLstat _).tr _) ?_
      intro r; cases r with
      | error e => exact Tr.pure _ (fun s h => h.1.1)
      | ok fi2 =>
        refine Tr.pure _ (fun s h => ⟨h.1.1, ?_, hcl⟩)
        exact h.2.2 (by simpa using hx)

theorem tr_openTail (name2 : Path) (info2 : KW) (fi2 : Kind) :
    Tr (fun s => Inv s ∧ NotWatched name2 s ∧ clean name2 = name2)
      (do
        let __do_lift ← askOpen name2
        match __do_lift with
          | Except.error e => pure (Except.error (Except.error (Err.fs e)))
          | Except.ok fd =>
            pure (Except.ok (name2, { info2 with wd := fd, isDir := isDirKind fi2 }, false)) : M Pre)
      (fun r s => match r with
        | .error _ => Inv s
        | .ok (n2, info, already) => already = false ∧ InvP (some info.wd) s ∧ NotWatched n2 s ∧ clean n2 = n2) := by
  refine Tr.bind (Tr.weaken (tr_askOpen (fun s => NotWatched name2 s ∧ clean name2 = name2)
    (fun s s' h1 h2 h => ⟨by unfold NotWatched at *; rw [h1, h2]; exact h.1, h.2⟩) name2) (fun s h => h) (fun _ _ h => h)) ?_
  intro r
  cases r with
  | error e => exact Tr.pure _ (fun s h => h.2)
  | ok fd => exact Tr.pure _ (fun s h => ⟨rfl, h.2, h.1.1, h.1.2⟩)

/-- the `if !alreadyWatching` block -/
theorem tr_openNew (name : Path) (info0 : KW) (listDir : Bool) :
    Tr (fun s => Inv s ∧ NotWatched name s ∧ clean name = name) (openNew name info0 listDir)
      (fun r s => match r with
        | .error _ => Inv s
        | .ok (n2, info, already) => already = false ∧ InvP (some info.wd) s ∧ NotWatched n2 s ∧ clean n2 = n2) := by
  unfold openNew
  refine Tr.bind ((pure_askLstat name).tr _) ?_
  intro r
  cases r with
  | error e => exact Tr.pure _ (fun s h => h.1)
  | ok fi =>
    simp only []
    split
    · exact Tr.pure _ (fun s h => h.1)
    · split
      · refine Tr.bind (Tr.weaken (tr_followLink name info0) (fun s h => ⟨h.1, h.2.1⟩) (fun _ _ h => h)) ?_
        intro r2
        cases r2 with
        | error r => exact Tr.pure _ (fun s h => h)
        | ok v =>
          obtain ⟨name2, info2, fi2⟩ := v
          exact tr_openTail name2 info2 fi2
      · exact tr_openTail name info0 fi
/-! ## `addWatch`, second half -/

/-- what `finishAdd` needs to know about its `(name, info, already)` -/
def FinPre (name : Path) (info : KW) (already : Bool) (s : KS) : Prop :=
  (already = true → Inv s ∧ alLookup ((alLookup name s.path).getD 0) s.wd = some info) ∧
  (already = false → InvP (some info.wd) s ∧ NotWatched name s ∧ clean name = name)

/-- the directory tail of `finishAdd` -/
theorem tr_dirTail (wdf : Path → M (Option Err)) (hwdf : ∀ d, Tr Inv (wdf d) (fun _ => Inv))
    (name : Path) (info : KW) (already : Bool) (flags : BitVec 32) :
    Tr (fun s => Inv s ∧ ∀ fd, alLookup name s.path = some fd → ∃ w, alLookup fd s.wd = some w)
      (if info.isDir then
        let watchDir := (flags &&& NOTE_WRITE) == NOTE_WRITE && (!already || (info.dirFlags &&& NOTE_WRITE) != NOTE_WRITE)
        do
          if !(← updateDirFlags name flags) then pure (.ok []) else
          if watchDir then
            let d := if info.linkName != [] then info.linkName else name
            match ← wdf d with
            | some e => pure (.error e)
            | none => pure (.ok name)
          else pure (.ok name)
      else pure (.ok name) : M (Except Err Path))
      (fun _ => Inv) := by
  split
  · simp only []
    refine Tr.bind (tr_updateDirFlags name flags) ?_
    intro b
    split
    · exact Tr.pure _ (fun s h => h)
    · split
      · refine Tr.bind (hwdf _) ?_
        intro r
        cases r <;> exact Tr.pure _ (fun s h => h)
      · exact Tr.pure _ (fun s h => h)
  · exact Tr.pure _ (fun s h => h.1)

theorem tr_finishAdd (wdf : Path → M (Option Err)) (hwdf : ∀ d, Tr Inv (wdf d) (fun _ => Inv))
    (name : Path) (info : KW) (already : Bool) (flags : BitVec 32) :
    Tr (FinPre name info already) (finishAdd wdf name info already flags) (fun _ => Inv) := by
  unfold finishAdd
  cases already with
  | true =>
    refine Tr.bind (Tr.weaken (tr_registerAdd none (fun s => alLookup ((alLookup name s.path).getD 0) s.wd = some info)
      (fun s s' h1 h2 h => by rw [h1, h2]; exact h) info.wd flags) ?_ (fun _ _ h => h)) ?_
    · intro s h
      obtain ⟨hi, hl⟩ := h.1 rfl
      refine ⟨hi, ?_, hl⟩
      have hk := hi.key_wd _ _ hl
      rw [hk]
      exact (hi.open_iff _).mpr (Or.inl ((alHas_iff _ _).mpr ⟨_, hl⟩))
    · intro r
      cases r with
      | error e => exact fun w h => absurd h.1 (by simp)
      | ok u =>
        simp only [Bool.not_true, Bool.false_eq_true, if_false]
        refine Tr.weaken (tr_dirTail wdf hwdf name info true flags) ?_ (fun _ _ h => h)
        intro s h
        refine ⟨h.2.1, ?_⟩
        intro fd hfd
        have := h.2.2.2
        rw [hfd] at this
        exact ⟨_, this⟩
  | false =>
    refine Tr.bind (Tr.weaken (tr_registerAdd (some info.wd) (fun s => NotWatched name s ∧ clean name = name)
      (fun s s' h1 h2 h => ⟨by unfold NotWatched at *; rw [h1, h2]; exact h.1, h.2⟩) info.wd flags) ?_ (fun _ _ h => h)) ?_
    · intro s h
      obtain ⟨hi, hn, hc⟩ := h.2 rfl
      exact ⟨hi, (hi.open_iff _).mpr (Or.inr rfl), hn, hc⟩
    · intro r
      cases r with
      | error e => exact fun w h => absurd h.1 (by simp)
      | ok u =>
        simp only [Bool.not_false, if_true]
        refine Tr.bind (Tr.weaken (tr_watchesAdd name info.linkName info.wd info.isDir) ?_ (fun _ _ h => h)) ?_
        · intro s h; exact ⟨h.2.1, h.2.2.2.1, h.2.2.2.2, h.2.2.1⟩
        · intro _
          refine Tr.weaken (tr_dirTail wdf hwdf name info false flags) ?_ (fun _ _ h => h)
          intro s h
          refine ⟨h.1, ?_⟩
          intro fd hfd
          rw [h.2.1] at hfd
          injection hfd with hfd
          subst hfd
          exact h.2.2
/-! ## `addWatch` -/

/-- an `addWatch` that keeps the invariant -/
def AwOk (aw : AddWatch) : Prop := ∀ n f l, Tr Inv (aw n f l) (fun _ => Inv)

theorem tr_internalWatch (aw : AddWatch) (h : AwOk aw) (name : Path) (k : Kind) :
    Tr Inv (internalWatch aw name k) (fun _ => Inv) := by
  unfold internalWatch
  split
  · refine Tr.bind (tr_byPath Inv name) ?_
    intro x
    exact Tr.weaken (h _ _ _) (fun s h => h.1) (fun _ _ h => h)
  · exact h _ _ _

theorem tr_watchDirectoryFiles (aw : AddWatch) (h : AwOk aw) (d : Path) :
    Tr Inv (watchDirectoryFiles aw d) (fun _ => Inv) := by
  unfold watchDirectoryFiles
  refine Tr.bind ((pure_askReadDir d).tr _) ?_
  intro r
  cases r with
  | error e => exact Tr.pure _ (fun s h => h)
  | ok files =>
    refine tr_forUntil Inv _ ?_ files
    intro f
    simp only []
    split
    · exact Tr.pure _ (fun s h => h)
    · refine Tr.bind (tr_internalWatch aw h _ _) ?_
      intro r
      split
      · refine Tr.bind (tr_markSeen' _ _) ?_
        intro _; exact Tr.pure _ (fun s h => h)
      · exact Tr.pure _ (fun s h => h)
      · refine Tr.bind (tr_markSeen' _ _) ?_
        intro _; exact Tr.pure _ (fun s h => h)

theorem addWatch_ok (fuel : Nat) : AwOk (addWatch fuel) := by
  induction fuel with
  | zero =>
    intro n f l
    unfold addWatch
    refine Tr.bind ((pure_setBad _).tr _) ?_
    intro _; exact Tr.pure _ (fun s h => h)
  | succ fuel ih =>
    intro n f l
    unfold addWatch
    refine Tr.bind (tr_get Inv) ?_
    intro s0
    split
    · exact Tr.pure _ (fun s h => h.2)
    · simp only []
      refine Tr.bind (tr_byPath _ _) ?_
      intro x
      obtain ⟨info0, already0⟩ := x
      have hw := fun d => tr_watchDirectoryFiles (addWatch fuel) ih d
      simp only []
      split
      · rename_i ha
        refine Tr.weaken (tr_finishAdd _ hw (clean n) info0 true f) ?_ (fun _ _ h => h)
        intro s h
        exact ⟨fun _ => ⟨h.1.2, h.2.1 ha⟩, fun hc => by cases hc⟩
      · rename_i ha
        refine Tr.bind (Tr.weaken (tr_openNew (clean n) info0 l) ?_ (fun _ _ h => h)) ?_
        · intro s h
          exact ⟨h.1.2, h.2.2 (by simpa using ha), clean_idem n⟩
        · intro pre
          cases pre with
          | error r => exact Tr.pure _ (fun s h => h)
          | ok v =>
            obtain ⟨name, info, already⟩ := v
            refine Tr.weaken (tr_finishAdd _ hw name info already f) ?_ (fun _ _ h => h)
            intro s h
            obtain ⟨h1, h2, h3, h4⟩ := h
            subst h1
            exact ⟨fun hc => (by cases hc), fun _ => ⟨h2, h3, h4⟩⟩
/-! ## `rm` -/

theorem alLookup_erase_cases {κ ν : Type} [DecidableEq κ] (k k2 : κ) (kw : ν) (l : List (κ × ν))
    (h : alLookup k2 (alErase k l) = some kw) : k2 ≠ k ∧ alLookup k2 l = some kw := by
  by_cases hk : k2 = k
  · subst hk; rw [alLookup_erase_same] at h; cases h
  · rw [alLookup_erase_other _ _ _ hk] at h; exact ⟨hk, h⟩

/-- the state after `register(EV_DELETE)`, `unix.Close` and `watches.remove` of the entry `byPath name` found -/
theorem inv_after_rm {s s' : KS} (h : Inv s) (name : Path) (info : KW)
    (hi : alLookup ((alLookup name s.path).getD 0) s.wd = some info)
    (hwd : s'.wd = alErase info.wd s.wd) (hpath : s'.path = alErase name s.path)
    (hopen : s'.openFds = s.openFds.filter (· != info.wd)) (hkn : s'.knotes = alErase info.wd (alErase info.wd s.knotes))
    (hbd : s'.byDir = match alLookup (dir name) s.byDir with
      | none => s.byDir
      | some cur => if (cur.filter (· != info.wd)).isEmpty then alErase (dir name) s.byDir
                    else alInsert (dir name) (cur.filter (· != info.wd)) s.byDir) :
    Inv s' := by
  have hkey := h.key_wd _ _ hi
  refine { open_iff := ?_, pend_fresh := ?_, key_wd := ?_, listed := ?_, knote_open := ?_, has_knote := ?_, keys_clean := ?_, bydir := ?_ }
  · intro x
    rw [hopen, hwd, alHas_erase, List.mem_filter, h.open_iff x]
    by_cases hx : x = info.wd <;> simp [hx]
  · intro x hx; cases hx
  · intro k kw hk
    rw [hwd] at hk
    exact h.key_wd k kw (alLookup_erase_cases _ _ _ _ hk).2
  · intro k kw hk
    rw [hwd] at hk
    obtain ⟨hne, hk'⟩ := alLookup_erase_cases _ _ _ _ hk
    have hl := h.listed k kw hk'
    rw [hpath]
    have : kw.name ≠ name := by
      intro he
      rw [he] at hl
      rw [hl] at hi
      simp only [Option.getD_some] at hi
      rw [hk'] at hi
      injection hi with hi
      subst hi
      exact hne (h.key_wd k kw hk').symm
    rw [alLookup_erase_other _ _ _ this]
    exact hl
  · intro x hx
    rw [hkn, alHas_erase, alHas_erase] at hx
    rw [hopen, List.mem_filter]
    by_cases hxf : x = info.wd
    · simp [hxf] at hx
    · simp [hxf] at hx
      exact ⟨h.knote_open x hx, by simpa using hxf⟩
  · intro k hk
    rw [hwd, alHas_erase] at hk
    rw [hkn, alHas_erase, alHas_erase]
    by_cases hkf : k = info.wd
    · simp [hkf] at hk
    · simp [hkf] at hk
      simp [hkf, h.has_knote k hk]
  · intro k kw hk
    rw [hwd] at hk
    exact h.keys_clean k kw (alLookup_erase_cases _ _ _ _ hk).2
  · intro k kw hk
    rw [hwd] at hk
    obtain ⟨hne, hk'⟩ := alLookup_erase_cases _ _ _ _ hk
    have hold := h.bydir k kw hk'
    rw [hbd]
    cases hcur : alLookup (dir name) s.byDir with
    | none => exact hold
    | some cur =>
      simp only []
      by_cases hd : dir kw.name = dir name
      · rw [hd, hcur] at hold
        simp only [Option.getD_some] at hold
        have hmem : k ∈ cur.filter (· != info.wd) := by
          simp only [List.mem_filter]; exact ⟨hold, by simpa using hne⟩
        have hnonempty : (cur.filter (· != info.wd)).isEmpty = false := by
          cases hl : cur.filter (· != info.wd) with
          | nil => rw [hl] at hmem; cases hmem
          | cons _ _ => rfl
        rw [hnonempty]
        simp only [Bool.false_eq_true, if_false]
        rw [hd, alLookup_insert_same]
        exact hmem
      · split
        · rw [alLookup_erase_other _ _ _ hd]; exact hold
        · rw [alLookup_insert_other _ _ _ _ hd]; exact hold

/-- `register(EV_DELETE)`, `unix.Close`, `watches.remove` in sequence -/
theorem tr_rmCore (name : Path) (info : KW) {β : Type} (k : Bool → M β) (R : β → KS → Prop)
    (hk : ∀ b, Tr Inv (k b) R) (kerr : FsErr → M β) :
    Tr (fun s => Inv s ∧ alLookup ((alLookup name s.path).getD 0) s.wd = some info)
      (do
        match ← registerDelete info.wd with
        | .error e => kerr e
        | .ok () => do
          closeFd info.wd
          let isDir ← watchesRemove info.wd name
          k isDir) R := by
  intro w ⟨h, hi⟩
  have hkey := h.key_wd _ _ hi
  have hhas : alHas info.wd w.s.knotes = true := by
    apply h.has_knote
    rw [hkey]; exact (alHas_iff _ _).mpr ⟨_, hi⟩
  simp only [bind_apply, registerDelete, get, hhas, if_true, modify, pure_apply, closeFd, watchesRemove]
  apply hk
  exact inv_after_rm h name info hi rfl rfl rfl rfl rfl
/-! ## every operation keeps the invariant -/

theorem rm_ok (fuel : Nat) : ∀ name unwatch, Tr Inv (rm fuel name unwatch) (fun _ => Inv) := by
  induction fuel with
  | zero =>
    intro name unwatch
    unfold rm
    refine Tr.bind ((pure_setBad _).tr _) ?_
    intro _; exact Tr.pure _ (fun s h => h)
  | succ fuel ih =>
    intro name unwatch
    unfold rm
    simp only []
    refine Tr.bind (tr_byPath Inv _) ?_
    intro x
    obtain ⟨info, ok⟩ := x
    simp only []
    split
    · exact Tr.pure _ (fun s h => h.1)
    · rename_i hok
      refine Tr.weaken (tr_rmCore (clean name) info _ (fun _ => Inv) ?_ _) ?_ (fun _ _ h => h)
      · intro isDir
        split
        · refine Tr.bind ((pure_watchesInDir _).tr _) ?_
          intro ps
          refine Tr.bind (tr_forUntil Inv _ ?_ ps) ?_
          · intro p
            refine Tr.bind (tr_get Inv) ?_
            intro s0
            split
            · exact Tr.pure _ (fun s h => h.2)
            · refine Tr.bind (Tr.weaken (ih p true) (fun s h => h.2) (fun _ _ h => h)) ?_
              intro _; exact Tr.pure _ (fun s h => h)
          · intro _; exact Tr.pure _ (fun s h => h)
        · exact Tr.pure _ (fun s h => h)
      · intro s h
        exact ⟨h.1, h.2.1 (by simpa using hok)⟩

theorem remove_ok (name : Path) (unwatch : Bool) : Tr Inv (remove name unwatch) (fun _ => Inv) := by
  unfold remove
  refine Tr.bind (tr_get Inv) ?_
  intro s0
  split
  · exact Tr.pure _ (fun s h => h.2)
  · exact Tr.weaken (rm_ok _ _ _) (fun s h => h.2) (fun _ _ h => h)

theorem add_ok (name : Path) : Tr Inv (add name) (fun _ => Inv) := by
  unfold add
  refine Tr.bind (addWatch_ok _ _ _ _) ?_
  intro r
  cases r with
  | error e => exact Tr.pure _ (fun s h => h)
  | ok p =>
    refine Tr.bind (tr_addUserWatch _) ?_
    intro _; exact Tr.pure _ (fun s h => h)

theorem close_ok : Tr Inv close (fun _ => Inv) := by
  unfold close
  refine Tr.bind (tr_get Inv) ?_
  intro s0
  split
  · exact Tr.pure _ (fun s h => h.2)
  · refine Tr.bind (Q := fun _ => Inv) ?_ ?_
    · intro w h; exact h.2.congr rfl rfl rfl rfl rfl
    · intro _
      refine Tr.bind (tr_forUntil Inv _ ?_ _) ?_
      · intro p
        refine Tr.bind (rm_ok _ _ _) ?_
        intro _; exact Tr.pure _ (fun s h => h)
      · intro _; exact Tr.pure _ (fun s h => h)

theorem announce_ok (path : Path) : Tr Inv (announce path) (fun _ => Inv) := by
  unfold announce
  refine Tr.bind ((pure_seenBefore _).tr _) ?_
  intro seen
  split
  · exact (pure_sendEvent _).tr _
  · exact Tr.pure _ (fun s h => h)

theorem sendCreateIfNew_ok (path : Path) (k : Kind) : Tr Inv (sendCreateIfNew path k) (fun _ => Inv) := by
  unfold sendCreateIfNew
  refine Tr.bind (announce_ok _) ?_
  intro cont
  split
  · exact Tr.pure _ (fun s h => h)
  · refine Tr.bind (tr_internalWatch _ (addWatch_ok _) _ _) ?_
    intro r
    cases r with
    | error e => exact Tr.pure _ (fun s h => h)
    | ok watched =>
      refine Tr.bind (tr_markSeen' _ _) ?_
      intro _; exact Tr.pure _ (fun s h => h)

theorem dirChange_ok (d : Path) : Tr Inv (dirChange d) (fun _ => Inv) := by
  unfold dirChange
  refine Tr.bind ((pure_askReadDir d).tr _) ?_
  intro r
  split
  · exact Tr.pure _ (fun s h => h)
  · exact Tr.pure _ (fun s h => h)
  · refine Tr.bind (tr_forUntil Inv _ ?_ _) ?_
    · intro f
      split
      · exact Tr.pure _ (fun s h => h)
      · exact Tr.pure _ (fun s h => h)
      · refine Tr.bind (sendCreateIfNew_ok _ _) ?_
        intro r
        split <;> exact Tr.pure _ (fun s h => h)
    · intro _; exact Tr.pure _ (fun s h => h)

theorem dropIfGone_ok (e : Ev) : Tr Inv (dropIfGone e) (fun _ => Inv) := by
  unfold dropIfGone
  split
  · refine Tr.bind (remove_ok _ _) ?_
    intro _
    exact tr_markSeen' _ _
  · exact Tr.pure _ (fun s h => h)

theorem deliver_ok (path : KW) (e : Ev) : Tr Inv (deliver path e) (fun _ => Inv) := by
  unfold deliver
  split
  · refine Tr.bind (dirChange_ok _) ?_
    intro _; exact Tr.pure _ (fun s h => h)
  · exact (pure_sendEvent _).tr _

theorem afterRemove_ok (path : KW) (e : Ev) : Tr Inv (afterRemove path e) (fun _ => Inv) := by
  unfold afterRemove
  split
  · split
    · refine Tr.bind (tr_byPath Inv _) ?_
      intro x
      obtain ⟨a, found⟩ := x
      simp only []
      split
      · refine Tr.bind (Tr.weaken (dirChange_ok _) (fun s (h : _ ∧ _) => h.1) (fun _ _ h => h)) ?_
        intro err; exact (pure_sendError _).tr _
      · exact Tr.pure _ (fun s (h : _ ∧ _) => h.1)
    · refine Tr.bind ((pure_askLstat _).tr _) ?_
      intro r
      cases r with
      | error e => exact Tr.pure _ (fun s h => h)
      | ok fi =>
        refine Tr.bind (sendCreateIfNew_ok _ _) ?_
        intro err; exact (pure_sendError _).tr _
  · exact Tr.pure _ (fun s h => h)

theorem handleKevent_ok (fd : Nat) (mask : BitVec 32) : Tr Inv (handleKevent fd mask) (fun _ => Inv) := by
  unfold handleKevent
  refine Tr.bind (tr_byWd Inv fd) ?_
  intro x
  obtain ⟨path, ok⟩ := x
  simp only []
  refine Tr.bind (dropIfGone_ok _) ?_
  intro _
  refine Tr.bind (deliver_ok _ _) ?_
  intro cont
  split
  · exact Tr.pure _ (fun s h => h)
  · exact afterRemove_ok _ _

theorem handleBatch_ok (evs : List (Nat × BitVec 32)) : Tr Inv (handleBatch evs) (fun _ => Inv) := by
  induction evs with
  | nil => exact Tr.pure _ (fun s h => h)
  | cons e rest ih =>
    obtain ⟨fd, m⟩ := e
    unfold handleBatch
    refine Tr.bind (handleKevent_ok fd m) ?_
    intro b
    split
    · exact ih
    · exact Tr.pure _ (fun s h => h)

theorem reader_ok (n : Nat) : Tr Inv (reader n) (fun _ => Inv) := by
  induction n with
  | zero => exact Tr.pure _ (fun s h => h)
  | succ n ih =>
    intro w h
    unfold reader
    split
    · rename_i evs t hw
      have h1 := handleBatch_ok evs { w with tape := t } h
      dsimp only
      split
      · exact ih _ h1
      · exact h1
    · exact h
/-! ## `Close` -/

/-- every entry of the `wd` table satisfies `N key entry` -/
def AllEnt (N : Nat → KW → Prop) (s : KS) : Prop := ∀ k w, alLookup k s.wd = some w → N k w

/-- every entry of the `wd` table has a name satisfying `N` -/
abbrev AllNamed (N : Path → Prop) (s : KS) : Prop := AllEnt (fun _ w => N w.name) s

/-- `tr_rmCore`, also saying that the removed entry is gone, nothing is left under the removed name
and no entry appeared -/
theorem tr_rmCore' (name : Path) (info : KW) (N : Nat → KW → Prop) {β : Type} (k : Bool → M β) (R : β → KS → Prop)
    (hk : ∀ b, Tr (fun s => Inv s ∧ AllEnt (fun k w => N k w ∧ w.name ≠ name ∧ k ≠ info.wd) s) (k b) R) (kerr : FsErr → M β) :
    Tr (fun s => Inv s ∧ alLookup ((alLookup name s.path).getD 0) s.wd = some info ∧ AllEnt N s)
      (do
        match ← registerDelete info.wd with
        | .error e => kerr e
        | .ok () => do
          closeFd info.wd
          let isDir ← watchesRemove info.wd name
          k isDir) R := by
  intro w ⟨h, hi, hN⟩
  have hkey := h.key_wd _ _ hi
  have hhas : alHas info.wd w.s.knotes = true := by
    apply h.has_knote
    rw [hkey]; exact (alHas_iff _ _).mpr ⟨_, hi⟩
  simp only [bind_apply, registerDelete, get, hhas, if_true, modify, pure_apply, closeFd, watchesRemove]
  apply hk
  refine ⟨inv_after_rm h name info hi rfl rfl rfl rfl rfl, ?_⟩
  intro k kw hk
  have hk' : alLookup k (alErase info.wd w.s.wd) = some kw := hk
  obtain ⟨hne, hk2⟩ := alLookup_erase_cases _ _ _ _ hk'
  refine ⟨hN k kw hk2, ?_, hne⟩
  intro he
  have hli := h.listed k kw hk2
  rw [he] at hli
  rw [hli] at hi
  simp only [Option.getD_some] at hi
  rw [hk2] at hi
  injection hi with hi
  subst hi
  exact hne (h.key_wd k kw hk2).symm

/-- `rm` never adds an entry: whatever held of every entry still does -/
theorem rm_ent_ok (fuel : Nat) : ∀ name unwatch (N : Nat → KW → Prop),
    Tr (fun s => Inv s ∧ AllEnt N s) (rm fuel name unwatch) (fun _ s => Inv s ∧ AllEnt N s) := by
  induction fuel with
  | zero =>
    intro name unwatch N
    unfold rm
    refine Tr.bind ((pure_setBad _).tr _) ?_
    intro _; exact Tr.pure _ (fun s h => h)
  | succ fuel ih =>
    intro name unwatch N
    unfold rm
    simp only []
    refine Tr.bind (tr_byPath _ _) ?_
    intro x
    obtain ⟨info, ok⟩ := x
    simp only []
    split
    · exact Tr.pure _ (fun s h => h.1)
    · rename_i hok
      refine Tr.weaken (tr_rmCore' (clean name) info N _ (fun _ s => Inv s ∧ AllEnt N s) ?_ _) ?_ (fun _ _ h => h)
      · intro isDir
        have weak : ∀ s, (Inv s ∧ AllEnt (fun k w => N k w ∧ w.name ≠ clean name ∧ k ≠ info.wd) s) → (Inv s ∧ AllEnt N s) :=
          fun s h => ⟨h.1, fun k w hk => (h.2 k w hk).1⟩
        split
        · refine Tr.weaken (P := fun s => Inv s ∧ AllEnt N s) ?_ weak (fun _ _ h => h)
          refine Tr.bind ((pure_watchesInDir _).tr _) ?_
          intro ps
          refine Tr.bind (tr_forUntil (fun s => Inv s ∧ AllEnt N s) _ ?_ ps) ?_
          · intro p
            refine Tr.bind (tr_get _) ?_
            intro s0
            split
            · exact Tr.pure _ (fun s h => h.2)
            · refine Tr.bind (Tr.weaken (ih p true N) (fun s h => h.2) (fun _ _ h => h)) ?_
              intro _; exact Tr.pure _ (fun s h => h)
          · intro _; exact Tr.pure _ (fun s h => h)
        · exact Tr.pure _ (fun s h => weak s h)
      · intro s h
        exact ⟨h.1.1, h.2.1 (by simpa using hok), h.1.2⟩

/-- `rm(p, false)`: afterwards no entry is named `p`, and no entry appeared -/
theorem tr_rm_named (fuel : Nat) (p : Path) (N : Path → Prop) :
    Tr (fun s => Inv s ∧ AllNamed N s) (rm (fuel + 1) p false)
      (fun _ s => Inv s ∧ AllNamed (fun n => N n ∧ n ≠ p) s) := by
  unfold rm
  simp only []
  refine Tr.bind (tr_byPath _ _) ?_
  intro x
  obtain ⟨info, ok⟩ := x
  simp only []
  -- an entry named `p` is found by `byPath (clean p)`
  have key : ∀ s : KS, Inv s → ∀ k kw, alLookup k s.wd = some kw → kw.name = p →
      alLookup ((alLookup (clean p) s.path).getD 0) s.wd = some kw := by
    intro s h k kw hk he
    have hc := h.keys_clean k kw hk
    have hli := h.listed k kw hk
    rw [he] at hc hli
    rw [hc, hli]; exact hk
  split
  · rename_i hok
    refine Tr.pure _ ?_
    intro s h
    refine ⟨h.1.1, fun k kw hk => ⟨h.1.2 k kw hk, fun he => ?_⟩⟩
    have := key s h.1.1 k kw hk he
    rw [h.2.2 (by simpa using hok)] at this
    cases this
  · rename_i hok
    refine Tr.weaken (tr_rmCore' (clean p) info (fun _ w => N w.name) _ _ ?_ _) ?_ (fun _ _ h => h)
    · intro isDir
      simp only [Bool.false_and, Bool.false_eq_true, if_false]
      refine Tr.pure _ ?_
      intro s h
      refine ⟨h.1, fun k kw hk => ⟨(h.2 k kw hk).1, fun he => ?_⟩⟩
      have hc := h.1.keys_clean k kw hk
      rw [he] at hc
      exact (h.2 k kw hk).2.1 (by rw [he, hc])
    · intro s h
      exact ⟨h.1.1, h.2.1 (by simpa using hok), h.1.2⟩

theorem tr_closeLoop (L : List Path) : ∀ (N : Path → Prop),
    Tr (fun s => Inv s ∧ AllNamed N s)
      (forUntil (fun (p : Path) => do let _ ← rm fuel p false; pure (none : Option Unit)) L)
      (fun _ s => Inv s ∧ AllNamed (fun n => N n ∧ n ∉ L) s) := by
  induction L with
  | nil =>
    intro N
    exact Tr.pure _ (fun s h => ⟨h.1, fun k w hk => ⟨h.2 k w hk, by simp⟩⟩)
  | cons p L ih =>
    intro N
    unfold forUntil
    refine Tr.bind (Q := fun r s => r = none ∧ Inv s ∧ AllNamed (fun n => N n ∧ n ≠ p) s) ?_ ?_
    · refine Tr.bind (tr_rm_named _ p N) ?_
      intro _; exact Tr.pure _ (fun s h => ⟨rfl, h⟩)
    · intro r
      cases r with
      | some u => exact fun w h => by cases h.1
      | none =>
        refine Tr.weaken (ih _) (fun s h => h.2) ?_
        intro _ s h
        refine ⟨h.1, fun k w hk => ?_⟩
        obtain ⟨⟨h1, h2⟩, h3⟩ := h.2 k w hk
        exact ⟨h1, by simp [h2, h3]⟩

theorem alLookup_mem_keys {κ ν : Type} [DecidableEq κ] (k : κ) (v : ν) (l : List (κ × ν)) (h : alLookup k l = some v) :
    k ∈ l.map (·.1) := by
  induction l with
  | nil => simp [alLookup] at h
  | cons hd t ih =>
    obtain ⟨k', v'⟩ := hd
    unfold alLookup at h
    by_cases hk : k' = k
    · simp [hk]
    · simp only [hk, if_false] at h
      simp [ih h]

theorem al_empty_of_no_lookup {κ ν : Type} [DecidableEq κ] (l : List (κ × ν)) (h : ∀ k v, alLookup k l ≠ some v) : l = [] := by
  cases l with
  | nil => rfl
  | cons hd t =>
    obtain ⟨k, v⟩ := hd
    exact absurd (by simp [alLookup]) (h k v)

/-- **Close releases everything**: whatever the history and the environment's answers were, after
`Close` no descriptor is open, no table entry and no knote is left -/
theorem close_releases (w : W) (h : Inv w.s) (hc : w.s.closed = false) :
    (close w).2.s.openFds = [] ∧ (close w).2.s.wd = [] ∧ (close w).2.s.knotes = [] := by
  have main : Tr (fun s => Inv s ∧ s.closed = false) close (fun _ s => Inv s ∧ AllNamed (fun _ => False) s) := by
    unfold close
    refine Tr.bind (tr_get _) ?_
    intro s0
    split
    · rename_i hcl
      exact fun w h => by rw [h.1, h.2.2] at hcl; cases hcl
    · refine Tr.bind (Q := fun _ s => Inv s ∧ AllNamed (fun n => n ∈ s0.path.map (·.1)) s) ?_ ?_
      · intro w h
        refine ⟨h.2.1.congr rfl rfl rfl rfl rfl, ?_⟩
        intro k kw hk
        have := h.2.1.listed k kw hk
        rw [h.1]
        exact alLookup_mem_keys _ _ _ this
      · intro _
        refine Tr.bind (tr_closeLoop _ _) ?_
        intro _
        refine Tr.pure _ ?_
        intro s h
        exact ⟨h.1, fun k kw hk => (h.2 k kw hk).2 (h.2 k kw hk).1⟩
  obtain ⟨hi, hn⟩ := main w ⟨h, hc⟩
  have hwd : (close w).2.s.wd = [] := al_empty_of_no_lookup _ (fun k v hk => hn k v hk)
  have hop : (close w).2.s.openFds = [] := by
    apply List.eq_nil_iff_forall_not_mem.mpr
    intro fd hfd
    have := (hi.open_iff fd).mp hfd
    rw [hwd] at this
    simp [alHas, alLookup] at this
  refine ⟨hop, hwd, ?_⟩
  apply al_empty_of_no_lookup
  intro k v hk
  have := hi.knote_open k ((alHas_iff _ _).mpr ⟨v, hk⟩)
  rw [hop] at this
  cases this
/-! ## `Remove` of a watched path -/

/-- the children loop of `rm` -/
def rmChildren (fuel : Nat) (name : Path) (unwatch isDir : Bool) : M (Option Err) :=
  if unwatch && isDir then do
    let ps ← watchesInDir name
    let _ ← forUntil (fun (p : Path) => do
      let s ← get
      if s.closed then pure (none : Option Unit) else do
        let _ ← rm fuel p true
        pure none) ps
    pure none
  else pure none

theorem rmChildren_ent_ok (fuel : Nat) (name : Path) (unwatch isDir : Bool) (N : Nat → KW → Prop) :
    Tr (fun s => Inv s ∧ AllEnt N s) (rmChildren fuel name unwatch isDir) (fun _ s => Inv s ∧ AllEnt N s) := by
  unfold rmChildren
  split
  · refine Tr.bind ((pure_watchesInDir _).tr _) ?_
    intro ps
    refine Tr.bind (tr_forUntil _ _ ?_ ps) ?_
    · intro p
      refine Tr.bind (tr_get _) ?_
      intro s0
      split
      · exact Tr.pure _ (fun s h => h.2)
      · refine Tr.bind (Tr.weaken (rm_ent_ok _ p true _) (fun s h => h.2) (fun _ _ h => h)) ?_
        intro _; exact Tr.pure _ (fun s h => h)
    · intro _; exact Tr.pure _ (fun s h => h)
  · exact Tr.pure _ (fun s h => h)

/-- `rm` of a path that `byPath` finds: its descriptor is closed, its entry and name are gone -/
theorem rm_found (fuel : Nat) (name : Path) (unwatch : Bool) (w : W) (h : Inv w.s) (info : KW)
    (hi : alLookup ((alLookup (clean name) w.s.path).getD 0) w.s.wd = some info) :
    Inv (rm (fuel + 1) name unwatch w).2.s ∧
      AllEnt (fun k e => k ≠ info.wd ∧ e.name ≠ clean name) (rm (fuel + 1) name unwatch w).2.s := by
  have core := tr_rmCore' (clean name) info (fun _ _ => True) (rmChildren fuel (clean name) unwatch)
    (fun _ s => Inv s ∧ AllEnt (fun k e => True ∧ e.name ≠ clean name ∧ k ≠ info.wd) s)
    (fun b => rmChildren_ent_ok fuel (clean name) unwatch b _) (fun e => rmErr e info (clean name)) w ⟨h, hi, fun _ _ _ => trivial⟩
  have e : rm (fuel + 1) name unwatch w = (do
        match ← registerDelete info.wd with
        | .error e => rmErr e info (clean name)
        | .ok () => do
          closeFd info.wd
          let isDir ← watchesRemove info.wd (clean name)
          rmChildren fuel (clean name) unwatch isDir : M (Option Err)) w := by
    unfold rm rmChildren
    simp only [bind_apply, byPath, get, pure_apply, hi]
    rfl
  rw [e]
  exact ⟨core.1, fun k e hk => ⟨(core.2 k e hk).2.2, (core.2 k e hk).2.1⟩⟩
end KqF
