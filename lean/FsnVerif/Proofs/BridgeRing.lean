import FsnVerif.Generated.Tables
/-! Tie T (cookie ring): the part of `newEvent` that is not a flag table is modelled by hand
(`Model/Inotify.lean`, `Ring`) and tied by differential execution; this pins its source text, so
that any edit of the ring code breaks an obligation of C11 and triggers the failing-input search. -/
namespace Bridge

theorem inotifyNewEventOp_residue : Gen.inotifyNewEventOp.residue = [
  "if cookie != 0 { if mask&unix.IN_MOVED_FROM == unix.IN_MOVED_FROM { w.cookiesMu.Lock() w.cookies[w.cookieIndex] = koekje{cookie: cookie, path: e.Name} w.cookieIndex++ if w.cookieIndex > 9 { w.cookieIndex = 0 } w.cookiesMu.Unlock() } else if mask&unix.IN_MOVED_TO == unix.IN_MOVED_TO { w.cookiesMu.Lock() var prev string for _, c := range w.cookies { if c.cookie == cookie { prev = c.path break } } w.cookiesMu.Unlock() e.renamedFrom = prev } }"] := rfl


end Bridge
