import FsnVerif.Proofs.ProtoTables1a
import FsnVerif.Proofs.ProtoTables1b
import FsnVerif.Proofs.ProtoTables1c
import FsnVerif.Proofs.ProtoTables1d
/-! Kernel-evaluated table 1 of 3 over the 5632 core states of the protocol model: the inductive
invariant, assembled from four parts checked in parallel. -/
namespace Proto

theorem allRPc_split : allRPc = allRPc.take 3 ++ ((allRPc.drop 3).take 3 ++ ((allRPc.drop 6).take 3 ++ allRPc.drop 9)) := by decide

theorem chk_inv : (core.all fun s => allLabels.all fun l =>
    !Inv true s || (match step true s l with | none => true | some s' => Inv true s')) = true := by
  show (core.all invStep) = true
  rw [core_eq, allRPc_split]
  simp only [coreOf, List.flatMap_append, List.all_append, Bool.and_eq_true]
  exact ⟨chk_inv_a, chk_inv_b, chk_inv_c, chk_inv_d⟩

end Proto
