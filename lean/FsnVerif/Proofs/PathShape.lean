import FsnVerif.Proofs.PathLemmas
/-!
# Shape of a cleaned path (all inputs)

`clean p` is never empty, and it is absolute exactly when `p` is: the stored watch path — the
prefix of every event name (C08) — keeps the caller's choice between a relative and an absolute
spelling.
-/
namespace Fsn

/-- the shape of `clean p` for a non-empty `p`, in terms of the final component stack -/
theorem clean_shape (p : Path) (hp : p ≠ []) :
    ∃ comps : List Path, (∀ c ∈ comps, c ≠ [] ∧ NoSlash c) ∧
      clean p = (if p.head? == some slash then slash :: joinSlash comps
        else if joinSlash comps == [] then [dot] else joinSlash comps) := by
  have hpe : (p == []) = false := by simpa using hp
  generalize hr : (p.head? == some slash) = rooted
  obtain ⟨ns, dds, hst, hn, hd, _⟩ :=
    foldl_cleanStep_ok rooted (splitSlash p) [] (stackOK_nil rooted) (splitSlash_noslash p)
  refine ⟨(ns ++ dds).reverse, comp_facts (rooted := rooted) hn hd, ?_⟩
  unfold clean
  simp only [hpe, Bool.false_eq_true, if_false, hr, hst]

/-- **a cleaned path is never empty** -/
theorem clean_ne_nil (p : Path) : clean p ≠ [] := by
  by_cases hp : p = []
  · subst hp; decide
  · obtain ⟨comps, _, h⟩ := clean_shape p hp
    rw [h]
    split
    · simp
    · split
      · simp
      · rename_i hb; simpa using hb

/-- **absolute stays absolute, relative stays relative** -/
theorem clean_head_slash (p : Path) : (clean p).head? = some slash ↔ p.head? = some slash := by
  by_cases hp : p = []
  · subst hp; decide
  · obtain ⟨comps, hfacts, h⟩ := clean_shape p hp
    rw [h]
    by_cases hr : p.head? = some slash
    · simp [hr]
    · have hrb : (p.head? == some slash) = false := by simpa using hr
      simp only [hrb, Bool.false_eq_true, if_false]
      constructor
      · intro hh
        exfalso
        split at hh
        · revert hh; decide
        · cases hc : comps with
          | nil => rw [hc] at hh; simp [joinSlash] at hh
          | cons c0 rest =>
            exact joinSlash_head_ne_slash comps c0 rest hc (hfacts c0 (by rw [hc]; simp)) hh
      · intro hh; exact absurd hh hr

/-- joined non-empty slash-free components do not end in a separator -/
theorem joinSlash_getLast_ne_slash (cs : List Path) (hne : cs ≠ []) (h : ∀ c ∈ cs, c ≠ [] ∧ NoSlash c) :
    (joinSlash cs).getLast? ≠ some slash := by
  induction cs with
  | nil => exact absurd rfl hne
  | cons c rest ih =>
    cases rest with
    | nil =>
      simp only [joinSlash]
      obtain ⟨hc, hns⟩ := h c (by simp)
      intro hl
      apply hns
      exact List.mem_of_getLast? hl
    | cons d ds =>
      simp only [joinSlash]
      have ih' := ih (by simp) (fun x hx => h x (List.mem_cons_of_mem _ hx))
      have hjn : joinSlash (d :: ds) ≠ [] := joinSlash_ne_nil _ d ds rfl (h d (by simp)).1
      intro hl
      apply ih'
      cases hj : joinSlash (d :: ds) with
      | nil => exact absurd hj hjn
      | cons a as =>
        rw [hj] at hl
        simpa [List.getLast?_append, List.getLast?_cons_cons] using hl

/-- **a cleaned path ends in a separator only when it is the root** -/
theorem clean_no_trailing_slash (p : Path) : clean p = [slash] ∨ (clean p).getLast? ≠ some slash := by
  by_cases hp : p = []
  · subst hp; right; decide
  · obtain ⟨comps, hfacts, h⟩ := clean_shape p hp
    rw [h]
    cases hc : comps with
    | nil =>
      cases hr : (p.head? == some slash) with
      | true => left; simp [joinSlash]
      | false => right; simp [joinSlash]; decide
    | cons c0 rest =>
      right
      have hl := joinSlash_getLast_ne_slash comps (by rw [hc]; simp) hfacts
      have hn : joinSlash comps ≠ [] := joinSlash_ne_nil comps c0 rest hc (hfacts c0 (by rw [hc]; simp)).1
      rw [← hc]
      cases hr : (p.head? == some slash) with
      | true =>
        simp only [if_true]
        cases hj : joinSlash comps with
        | nil => exact absurd hj hn
        | cons a as => rw [hj] at hl; simpa [List.getLast?_cons_cons] using hl
      | false =>
        have : (joinSlash comps == []) = false := by simpa using hn
        simp only [Bool.false_eq_true, if_false, this]
        exact hl

end Fsn
