import FsnVerif.Model.Skel
/-!
# Expected concurrency skeleton (hand-reviewed copy)

One definition per function of `backend_inotify.go` / `shared.go` / the constructors: the ordered
lock / unlock / select / send / close / go / syscall / table-access operations and the mutexes
lexically held at each. `Proofs/SkeletonTie.lean` proves the skeleton regenerated from the source
on every run equal to these; the protocol model (`Model/Proto.lean`) was written against them.
-/
namespace Expected
open Skel

def fn_NewBufferedWatcher : List SkOp := [
    ⟨"makeChan", "Event", ["sz"], []⟩,
    ⟨"makeChan", "error", ["0"], []⟩,
    ⟨"call", "newBackend", [], []⟩,
    ⟨"ifBegin", "%1!=nil", [], []⟩,
    ⟨"ret", "nil, %1", [], []⟩,
    ⟨"ifEnd", "", [], []⟩,
    ⟨"ret", "&Watcher{b: %1, Events: %2, Errors: %3}, nil", [], []⟩
]

def fn_NewWatcher : List SkOp := [
    ⟨"makeChan", "Event", ["defaultBufferSize"], []⟩,
    ⟨"makeChan", "error", ["0"], []⟩,
    ⟨"call", "newBackend", [], []⟩,
    ⟨"ifBegin", "%1!=nil", [], []⟩,
    ⟨"ret", "nil, %1", [], []⟩,
    ⟨"ifEnd", "", [], []⟩,
    ⟨"ret", "&Watcher{b: %1, Events: %2, Errors: %3}, nil", [], []⟩
]

def fn_inotify_Add : List SkOp := [
    ⟨"call", "AddWith", [], []⟩,
    ⟨"ret", "%1.AddWith(%2)", [], []⟩
]

def fn_inotify_AddWith : List SkOp := [
    ⟨"call", "isClosed", [], []⟩,
    ⟨"ifBegin", "%1.isClosed()", [], []⟩,
    ⟨"ret", "ErrClosed", [], []⟩,
    ⟨"ifEnd", "", [], []⟩,
    ⟨"ifBegin", "debug", [], []⟩,
    ⟨"ifEnd", "", [], []⟩,
    ⟨"call", "getOptions", [], []⟩,
    ⟨"call", "xSupports", [], []⟩,
    ⟨"ifBegin", "!%1.xSupports(%2.·)", [], []⟩,
    ⟨"ret", "fmt.Errorf(\"%w: %s\", xErrUnsupported, %1.·)", [], []⟩,
    ⟨"ifEnd", "", [], []⟩,
    ⟨"lock", "mu", [], []⟩,
    ⟨"deferUnlock", "mu", [], ["mu"]⟩,
    ⟨"call", "isClosed", [], ["mu"]⟩,
    ⟨"ifBegin", "%1.isClosed()", [], ["mu"]⟩,
    ⟨"ret", "ErrClosed", [], ["mu"]⟩,
    ⟨"ifEnd", "", [], ["mu"]⟩,
    ⟨"call", "recursivePath", [], ["mu"]⟩,
    ⟨"ifBegin", "!(%1)", [], ["mu"]⟩,
    ⟨"call", "AddWith$add", [], ["mu"]⟩,
    ⟨"ret", "%1(…)", [], ["mu"]⟩,
    ⟨"ifEnd", "", [], ["mu"]⟩,
    ⟨"litBegin", "", [], ["mu"]⟩,
    ⟨"ifBegin", "%1!=nil", [], ["mu"]⟩,
    ⟨"ret", "%1", [], ["mu"]⟩,
    ⟨"ifEnd", "", [], ["mu"]⟩,
    ⟨"ifBegin", "%1.IsDir()", [], ["mu"]⟩,
    ⟨"ifBegin", "%1.·&&%2!=%3", [], ["mu"]⟩,
    ⟨"call", "sendEvent", [], ["mu"]⟩,
    ⟨"ifEnd", "", [], ["mu"]⟩,
    ⟨"call", "AddWith$add", [], ["mu"]⟩,
    ⟨"ret", "%1(…)", [], ["mu"]⟩,
    ⟨"ifEnd", "", [], ["mu"]⟩,
    ⟨"ifBegin", "%1==%2", [], ["mu"]⟩,
    ⟨"ret", "fmt.Errorf(\"fsnotify: not a directory: %q\", %1)", [], ["mu"]⟩,
    ⟨"ifEnd", "", [], ["mu"]⟩,
    ⟨"ret", "nil", [], ["mu"]⟩,
    ⟨"litEnd", "", [], ["mu"]⟩,
    ⟨"ret", "filepath.WalkDir(%1, func(%2 string, %3 fs.DirEntry, %4 error) error { if %4!=nil { return %4 } if !%3.IsDir() { if %2==%1 { return fmt.Errorf(\"fsnotify: not a directory: %q\", %1) } return nil } if %5.·&&%2!=%1 { %6.sendEvent(…) } return %7(…) })", [], ["mu"]⟩
]

def fn_inotify_AddWith_add : List SkOp := [
    ⟨"ifBegin", "%1.·", [], []⟩,
    ⟨"ifEnd", "", [], []⟩,
    ⟨"call", "Has", [], []⟩,
    ⟨"ifBegin", "%1.·.Has(Create)", [], []⟩,
    ⟨"ifEnd", "", [], []⟩,
    ⟨"call", "Has", [], []⟩,
    ⟨"ifBegin", "%1.·.Has(Write)", [], []⟩,
    ⟨"ifEnd", "", [], []⟩,
    ⟨"call", "Has", [], []⟩,
    ⟨"ifBegin", "%1.·.Has(Remove)", [], []⟩,
    ⟨"ifEnd", "", [], []⟩,
    ⟨"call", "Has", [], []⟩,
    ⟨"ifBegin", "%1.·.Has(Rename)", [], []⟩,
    ⟨"ifEnd", "", [], []⟩,
    ⟨"call", "Has", [], []⟩,
    ⟨"ifBegin", "%1.·.Has(Chmod)", [], []⟩,
    ⟨"ifEnd", "", [], []⟩,
    ⟨"call", "Has", [], []⟩,
    ⟨"ifBegin", "%1.·.Has(xUnportableOpen)", [], []⟩,
    ⟨"ifEnd", "", [], []⟩,
    ⟨"call", "Has", [], []⟩,
    ⟨"ifBegin", "%1.·.Has(xUnportableRead)", [], []⟩,
    ⟨"ifEnd", "", [], []⟩,
    ⟨"call", "Has", [], []⟩,
    ⟨"ifBegin", "%1.·.Has(xUnportableCloseWrite)", [], []⟩,
    ⟨"ifEnd", "", [], []⟩,
    ⟨"call", "Has", [], []⟩,
    ⟨"ifBegin", "%1.·.Has(xUnportableCloseRead)", [], []⟩,
    ⟨"ifEnd", "", [], []⟩,
    ⟨"call", "register", [], []⟩,
    ⟨"ret", "%1.register(%2, %3, %4)", [], []⟩
]

def fn_inotify_Close : List SkOp := [
    ⟨"call", "close", [], []⟩,
    ⟨"ifBegin", "%1.shared.close()", [], []⟩,
    ⟨"ret", "nil", [], []⟩,
    ⟨"ifEnd", "", [], []⟩,
    ⟨"fileOp", "Close", [], []⟩,
    ⟨"ifBegin", "%1!=nil", [], []⟩,
    ⟨"ret", "%1", [], []⟩,
    ⟨"ifEnd", "", [], []⟩,
    ⟨"recv", "doneResp", [], []⟩,
    ⟨"ret", "nil", [], []⟩
]

def fn_inotify_Remove : List SkOp := [
    ⟨"call", "isClosed", [], []⟩,
    ⟨"ifBegin", "%1.isClosed()", [], []⟩,
    ⟨"ret", "nil", [], []⟩,
    ⟨"ifEnd", "", [], []⟩,
    ⟨"ifBegin", "debug", [], []⟩,
    ⟨"ifEnd", "", [], []⟩,
    ⟨"lock", "mu", [], []⟩,
    ⟨"deferUnlock", "mu", [], ["mu"]⟩,
    ⟨"call", "isClosed", [], ["mu"]⟩,
    ⟨"ifBegin", "%1.isClosed()", [], ["mu"]⟩,
    ⟨"ret", "nil", [], ["mu"]⟩,
    ⟨"ifEnd", "", [], ["mu"]⟩,
    ⟨"call", "remove", [], ["mu"]⟩,
    ⟨"ret", "%1.remove(filepath.Clean(%2))", [], ["mu"]⟩
]

def fn_inotify_WatchList : List SkOp := [
    ⟨"call", "isClosed", [], []⟩,
    ⟨"ifBegin", "%1.isClosed()", [], []⟩,
    ⟨"ret", "nil", [], []⟩,
    ⟨"ifEnd", "", [], []⟩,
    ⟨"lock", "mu", [], []⟩,
    ⟨"deferUnlock", "mu", [], ["mu"]⟩,
    ⟨"call", "len", [], ["mu"]⟩,
    ⟨"table", "watches.path", [], ["mu"]⟩,
    ⟨"loopBegin", "range %1.watches.path", [], ["mu"]⟩,
    ⟨"loopEnd", "", [], ["mu"]⟩,
    ⟨"ret", "%1", [], ["mu"]⟩
]

def fn_inotify_handleEvent : List SkOp := [
    ⟨"lock", "mu", [], []⟩,
    ⟨"deferUnlock", "mu", [], ["mu"]⟩,
    ⟨"call", "byWd", [], ["mu"]⟩,
    ⟨"ifBegin", "%1==nil", [], ["mu"]⟩,
    ⟨"ret", "Event{}, true", [], ["mu"]⟩,
    ⟨"ifEnd", "", [], ["mu"]⟩,
    ⟨"ifBegin", "uint32(%1.Len)>0", [], ["mu"]⟩,
    ⟨"ifEnd", "", [], ["mu"]⟩,
    ⟨"ifBegin", "debug", [], ["mu"]⟩,
    ⟨"ifEnd", "", [], ["mu"]⟩,
    ⟨"ifBegin", "%1.Mask&unix.IN_IGNORED!=0||%1.Mask&unix.IN_UNMOUNT!=0", [], ["mu"]⟩,
    ⟨"call", "remove", [], ["mu"]⟩,
    ⟨"ret", "Event{}, true", [], ["mu"]⟩,
    ⟨"ifEnd", "", [], ["mu"]⟩,
    ⟨"ifBegin", "%1.Mask&unix.IN_DELETE_SELF==unix.IN_DELETE_SELF", [], ["mu"]⟩,
    ⟨"call", "remove", [], ["mu"]⟩,
    ⟨"ifEnd", "", [], ["mu"]⟩,
    ⟨"ifBegin", "%1.Mask&unix.IN_MOVE_SELF==unix.IN_MOVE_SELF", [], ["mu"]⟩,
    ⟨"ifBegin", "%1.·", [], ["mu"]⟩,
    ⟨"ret", "Event{}, true", [], ["mu"]⟩,
    ⟨"ifEnd", "", [], ["mu"]⟩,
    ⟨"call", "remove", [], ["mu"]⟩,
    ⟨"ifBegin", "%1!=nil&&!errors.Is(%1, ErrNonExistentWatch)&&!errors.Is(%1, unix.EINVAL)", [], ["mu"]⟩,
    ⟨"call", "sendError", [], ["mu"]⟩,
    ⟨"ifBegin", "!%1.sendError(…)", [], ["mu"]⟩,
    ⟨"ret", "Event{}, false", [], ["mu"]⟩,
    ⟨"ifEnd", "", [], ["mu"]⟩,
    ⟨"ifEnd", "", [], ["mu"]⟩,
    ⟨"ifEnd", "", [], ["mu"]⟩,
    ⟨"ifBegin", "%1.Mask&unix.IN_DELETE_SELF!=0", [], ["mu"]⟩,
    ⟨"table", "watches.path", [], ["mu"]⟩,
    ⟨"ifBegin", "%1", [], ["mu"]⟩,
    ⟨"ret", "Event{}, true", [], ["mu"]⟩,
    ⟨"ifEnd", "", [], ["mu"]⟩,
    ⟨"ifEnd", "", [], ["mu"]⟩,
    ⟨"call", "newEvent", [], ["mu"]⟩,
    ⟨"ifBegin", "%1.·", [], ["mu"]⟩,
    ⟨"call", "Has", [], ["mu"]⟩,
    ⟨"ifBegin", "%1.Mask&unix.IN_ISDIR==unix.IN_ISDIR&&%2.Has(Create)", [], ["mu"]⟩,
    ⟨"call", "register", [], ["mu"]⟩,
    ⟨"call", "sendError", [], ["mu"]⟩,
    ⟨"ifBegin", "!%1.sendError(…)", [], ["mu"]⟩,
    ⟨"ret", "Event{}, false", [], ["mu"]⟩,
    ⟨"ifEnd", "", [], ["mu"]⟩,
    ⟨"ifBegin", "%1.·!=\"\"", [], ["mu"]⟩,
    ⟨"table", "watches.wd", [], ["mu"]⟩,
    ⟨"loopBegin", "range %1.watches.wd", [], ["mu"]⟩,
    ⟨"ifBegin", "%1.·==%2.·||strings.HasPrefix(%1.·, %2.·+\"/\")", [], ["mu"]⟩,
    ⟨"table", "watches.path", [], ["mu"]⟩,
    ⟨"table", "watches.path", [], ["mu"]⟩,
    ⟨"ifEnd", "", [], ["mu"]⟩,
    ⟨"loopEnd", "", [], ["mu"]⟩,
    ⟨"ifEnd", "", [], ["mu"]⟩,
    ⟨"ifEnd", "", [], ["mu"]⟩,
    ⟨"ifEnd", "", [], ["mu"]⟩,
    ⟨"ret", "%1, true", [], ["mu"]⟩
]

def fn_inotify_isRecursive : List SkOp := [
    ⟨"call", "byPath", [], []⟩,
    ⟨"ifBegin", "%1==nil", [], []⟩,
    ⟨"call", "byPath", [], []⟩,
    ⟨"ifEnd", "", [], []⟩,
    ⟨"ret", "%1!=nil&&%1.·", [], []⟩
]

def fn_inotify_newEvent : List SkOp := [
    ⟨"ifBegin", "%1&unix.IN_CREATE==unix.IN_CREATE||%1&unix.IN_MOVED_TO==unix.IN_MOVED_TO", [], []⟩,
    ⟨"ifEnd", "", [], []⟩,
    ⟨"ifBegin", "%1&unix.IN_DELETE_SELF==unix.IN_DELETE_SELF||%1&unix.IN_DELETE==unix.IN_DELETE", [], []⟩,
    ⟨"ifEnd", "", [], []⟩,
    ⟨"ifBegin", "%1&unix.IN_MODIFY==unix.IN_MODIFY", [], []⟩,
    ⟨"ifEnd", "", [], []⟩,
    ⟨"ifBegin", "%1&unix.IN_OPEN==unix.IN_OPEN", [], []⟩,
    ⟨"ifEnd", "", [], []⟩,
    ⟨"ifBegin", "%1&unix.IN_ACCESS==unix.IN_ACCESS", [], []⟩,
    ⟨"ifEnd", "", [], []⟩,
    ⟨"ifBegin", "%1&unix.IN_CLOSE_WRITE==unix.IN_CLOSE_WRITE", [], []⟩,
    ⟨"ifEnd", "", [], []⟩,
    ⟨"ifBegin", "%1&unix.IN_CLOSE_NOWRITE==unix.IN_CLOSE_NOWRITE", [], []⟩,
    ⟨"ifEnd", "", [], []⟩,
    ⟨"ifBegin", "%1&unix.IN_MOVE_SELF==unix.IN_MOVE_SELF||%1&unix.IN_MOVED_FROM==unix.IN_MOVED_FROM", [], []⟩,
    ⟨"ifEnd", "", [], []⟩,
    ⟨"ifBegin", "%1&unix.IN_ATTRIB==unix.IN_ATTRIB", [], []⟩,
    ⟨"ifEnd", "", [], []⟩,
    ⟨"ifBegin", "%1!=0", [], []⟩,
    ⟨"ifBegin", "%1&unix.IN_MOVED_FROM==unix.IN_MOVED_FROM", [], []⟩,
    ⟨"lock", "cookiesMu", [], []⟩,
    ⟨"table", "cookieIndex", [], ["cookiesMu"]⟩,
    ⟨"table", "cookies", [], ["cookiesMu"]⟩,
    ⟨"table", "cookieIndex", [], ["cookiesMu"]⟩,
    ⟨"table", "cookieIndex", [], ["cookiesMu"]⟩,
    ⟨"ifBegin", "%1.cookieIndex>9", [], ["cookiesMu"]⟩,
    ⟨"table", "cookieIndex", [], ["cookiesMu"]⟩,
    ⟨"ifEnd", "", [], ["cookiesMu"]⟩,
    ⟨"unlock", "cookiesMu", [], ["cookiesMu"]⟩,
    ⟨"elseBegin", "", [], []⟩,
    ⟨"ifBegin", "%1&unix.IN_MOVED_TO==unix.IN_MOVED_TO", [], []⟩,
    ⟨"lock", "cookiesMu", [], []⟩,
    ⟨"table", "cookies", [], ["cookiesMu"]⟩,
    ⟨"loopBegin", "range %1.cookies", [], ["cookiesMu"]⟩,
    ⟨"ifBegin", "%1.·==%2", [], ["cookiesMu"]⟩,
    ⟨"branch", "break", [], ["cookiesMu"]⟩,
    ⟨"ifEnd", "", [], ["cookiesMu"]⟩,
    ⟨"loopEnd", "", [], ["cookiesMu"]⟩,
    ⟨"unlock", "cookiesMu", [], ["cookiesMu"]⟩,
    ⟨"ifEnd", "", [], []⟩,
    ⟨"ifEnd", "", [], []⟩,
    ⟨"ifEnd", "", [], []⟩,
    ⟨"ret", "%1", [], []⟩
]

def fn_inotify_readEvents : List SkOp := [
    ⟨"deferBegin", "", [], []⟩,
    ⟨"close", "doneResp", [], []⟩,
    ⟨"close", "Errors", [], []⟩,
    ⟨"close", "Events", [], []⟩,
    ⟨"deferEnd", "", [], []⟩,
    ⟨"loopBegin", "", [], []⟩,
    ⟨"call", "isClosed", [], []⟩,
    ⟨"ifBegin", "%1.isClosed()", [], []⟩,
    ⟨"ret", "", [], []⟩,
    ⟨"ifEnd", "", [], []⟩,
    ⟨"fileOp", "Read", [], []⟩,
    ⟨"ifBegin", "%1!=nil", [], []⟩,
    ⟨"ifBegin", "errors.Is(%1, os.ErrClosed)", [], []⟩,
    ⟨"ret", "", [], []⟩,
    ⟨"ifEnd", "", [], []⟩,
    ⟨"call", "sendError", [], []⟩,
    ⟨"ifBegin", "!%1.sendError(…)", [], []⟩,
    ⟨"ret", "", [], []⟩,
    ⟨"ifEnd", "", [], []⟩,
    ⟨"branch", "continue", [], []⟩,
    ⟨"ifEnd", "", [], []⟩,
    ⟨"ifBegin", "%1<unix.SizeofInotifyEvent", [], []⟩,
    ⟨"ifBegin", "%1==0", [], []⟩,
    ⟨"ifEnd", "", [], []⟩,
    ⟨"call", "sendError", [], []⟩,
    ⟨"ifBegin", "!%1.sendError(…)", [], []⟩,
    ⟨"ret", "", [], []⟩,
    ⟨"ifEnd", "", [], []⟩,
    ⟨"branch", "continue", [], []⟩,
    ⟨"ifEnd", "", [], []⟩,
    ⟨"loopBegin", "%1<=uint32(%2-unix.SizeofInotifyEvent)", [], []⟩,
    ⟨"ifBegin", "%1.Mask&unix.IN_Q_OVERFLOW!=0", [], []⟩,
    ⟨"call", "sendError", [], []⟩,
    ⟨"ifBegin", "!%1.sendError(…)", [], []⟩,
    ⟨"ret", "", [], []⟩,
    ⟨"ifEnd", "", [], []⟩,
    ⟨"ifEnd", "", [], []⟩,
    ⟨"call", "handleEvent", [], []⟩,
    ⟨"ifBegin", "!%1", [], []⟩,
    ⟨"ret", "", [], []⟩,
    ⟨"ifEnd", "", [], []⟩,
    ⟨"call", "sendEvent", [], []⟩,
    ⟨"ifBegin", "!%1.sendEvent(…)", [], []⟩,
    ⟨"ret", "", [], []⟩,
    ⟨"ifEnd", "", [], []⟩,
    ⟨"loopEnd", "", [], []⟩,
    ⟨"loopEnd", "", [], []⟩
]

def fn_inotify_register : List SkOp := [
    ⟨"litBegin", "", [], []⟩,
    ⟨"ifBegin", "%1!=nil", [], []⟩,
    ⟨"ifEnd", "", [], []⟩,
    ⟨"sys", "InotifyAddWatch", ["w.fd"], []⟩,
    ⟨"ifBegin", "%1==-1", [], []⟩,
    ⟨"ret", "nil, %1", [], []⟩,
    ⟨"ifEnd", "", [], []⟩,
    ⟨"ifBegin", "%1!=nil&&%1.·!=uint32(%2)", [], []⟩,
    ⟨"sys", "InotifyRmWatch", ["w.fd"], []⟩,
    ⟨"ifEnd", "", [], []⟩,
    ⟨"table", "watches.wd", [], []⟩,
    ⟨"ifBegin", "%1", [], []⟩,
    ⟨"ret", "%1, nil", [], []⟩,
    ⟨"ifEnd", "", [], []⟩,
    ⟨"ifBegin", "%1==nil", [], []⟩,
    ⟨"ret", "&watch{ wd: uint32(%1), path: %2, flags: %3, recurse: %4, }, nil", [], []⟩,
    ⟨"ifEnd", "", [], []⟩,
    ⟨"ret", "%1, nil", [], []⟩,
    ⟨"litEnd", "", [], []⟩,
    ⟨"call", "updatePath", [], []⟩,
    ⟨"ret", "%1.watches.updatePath(%2, func(%3*watch) (*watch, error) { if %3!=nil { %4|= %3.·|unix.IN_MASK_ADD } %5, %6 := unix.InotifyAddWatch(%1.fd, %2, %4) if %5==-1 { return nil, %6 } if %3!=nil&&%3.·!=uint32(%5) { unix.InotifyRmWatch(%1.fd, %3.·) } if %7, %8 := %1.watches.wd[uint32(%5)]; %8 { return %7, nil } if %3==nil { return&watch{ wd: uint32(%5), path: %2, flags: %4, recurse: %9, }, nil } %3.· = uint32(%5) %3.· = %4 return %3, nil })", [], []⟩
]

def fn_inotify_remove : List SkOp := [
    ⟨"call", "removePath", [], []⟩,
    ⟨"ifBegin", "%1!=nil", [], []⟩,
    ⟨"ret", "%1", [], []⟩,
    ⟨"ifEnd", "", [], []⟩,
    ⟨"loopBegin", "range %1", [], []⟩,
    ⟨"sys", "InotifyRmWatch", ["w.fd"], []⟩,
    ⟨"ifBegin", "%1!=nil", [], []⟩,
    ⟨"ret", "%1", [], []⟩,
    ⟨"ifEnd", "", [], []⟩,
    ⟨"loopEnd", "", [], []⟩,
    ⟨"ret", "nil", [], []⟩
]

def fn_inotify_state : List SkOp := [
    ⟨"lock", "mu", [], []⟩,
    ⟨"deferUnlock", "mu", [], ["mu"]⟩,
    ⟨"table", "watches.wd", [], ["mu"]⟩,
    ⟨"loopBegin", "range %1.watches.wd", [], ["mu"]⟩,
    ⟨"loopEnd", "", [], ["mu"]⟩
]

def fn_inotify_xSupports : List SkOp := [
    ⟨"ret", "true", [], []⟩
]

def fn_newBackend : List SkOp := [
    ⟨"sys", "InotifyInit1", ["unix.IN_CLOEXEC | unix.IN_NONBLOCK"], []⟩,
    ⟨"ifBegin", "%1==-1", [], []⟩,
    ⟨"ret", "nil, %1", [], []⟩,
    ⟨"ifEnd", "", [], []⟩,
    ⟨"call", "newShared", [], []⟩,
    ⟨"fileOp", "NewFile", [], []⟩,
    ⟨"call", "newWatches", [], []⟩,
    ⟨"makeChan", "struct{}", ["0"], []⟩,
    ⟨"go", "readEvents", [], []⟩,
    ⟨"ret", "%1, nil", [], []⟩
]

def fn_newShared : List SkOp := [
    ⟨"makeChan", "struct{}", ["0"], []⟩,
    ⟨"ret", "&shared{ Events: %1, Errors: %2, done: make(chan struct{}), }", [], []⟩
]

def fn_newWatches : List SkOp := [
    ⟨"ret", "&watches{ wd: make(map[uint32]*watch), path: make(map[string]uint32), }", [], []⟩
]

def fn_shared_close : List SkOp := [
    ⟨"lock", "mu", [], []⟩,
    ⟨"deferUnlock", "mu", [], ["mu"]⟩,
    ⟨"call", "isClosed", [], ["mu"]⟩,
    ⟨"ifBegin", "%1.isClosed()", [], ["mu"]⟩,
    ⟨"ret", "true", [], ["mu"]⟩,
    ⟨"ifEnd", "", [], ["mu"]⟩,
    ⟨"close", "done", [], ["mu"]⟩,
    ⟨"ret", "false", [], ["mu"]⟩
]

def fn_shared_isClosed : List SkOp := [
    ⟨"select", "default|recv:done", [], []⟩,
    ⟨"caseBegin", "", [], []⟩,
    ⟨"ret", "false", [], []⟩,
    ⟨"caseEnd", "", [], []⟩,
    ⟨"caseBegin", "", [], []⟩,
    ⟨"ret", "true", [], []⟩,
    ⟨"caseEnd", "", [], []⟩
]

def fn_shared_sendError : List SkOp := [
    ⟨"ifBegin", "%1==nil", [], []⟩,
    ⟨"ret", "true", [], []⟩,
    ⟨"ifEnd", "", [], []⟩,
    ⟨"select", "recv:done|send:Errors", [], []⟩,
    ⟨"caseBegin", "", [], []⟩,
    ⟨"ret", "false", [], []⟩,
    ⟨"caseEnd", "", [], []⟩,
    ⟨"caseBegin", "", [], []⟩,
    ⟨"ret", "true", [], []⟩,
    ⟨"caseEnd", "", [], []⟩
]

def fn_shared_sendEvent : List SkOp := [
    ⟨"ifBegin", "%1.Op==0", [], []⟩,
    ⟨"ret", "true", [], []⟩,
    ⟨"ifEnd", "", [], []⟩,
    ⟨"select", "recv:done|send:Events", [], []⟩,
    ⟨"caseBegin", "", [], []⟩,
    ⟨"ret", "false", [], []⟩,
    ⟨"caseEnd", "", [], []⟩,
    ⟨"caseBegin", "", [], []⟩,
    ⟨"ret", "true", [], []⟩,
    ⟨"caseEnd", "", [], []⟩
]

def fn_watches_add : List SkOp := [
    ⟨"table", "watches.wd", [], []⟩,
    ⟨"table", "watches.path", [], []⟩
]

def fn_watches_byPath : List SkOp := [
    ⟨"table", "watches.path", [], []⟩,
    ⟨"table", "watches.wd", [], []⟩,
    ⟨"ret", "%1.wd[%1.path[%2]]", [], []⟩
]

def fn_watches_byWd : List SkOp := [
    ⟨"table", "watches.wd", [], []⟩,
    ⟨"ret", "%1.wd[%2]", [], []⟩
]

def fn_watches_len : List SkOp := [
    ⟨"table", "watches.wd", [], []⟩,
    ⟨"ret", "len(%1.wd)", [], []⟩
]

def fn_watches_remove : List SkOp := [
    ⟨"table", "watches.path", [], []⟩,
    ⟨"table", "watches.wd", [], []⟩
]

def fn_watches_removePath : List SkOp := [
    ⟨"call", "recursivePath", [], []⟩,
    ⟨"table", "watches.path", [], []⟩,
    ⟨"ifBegin", "!%1", [], []⟩,
    ⟨"ret", "nil, fmt.Errorf(\"%w: %s\", ErrNonExistentWatch, %1)", [], []⟩,
    ⟨"ifEnd", "", [], []⟩,
    ⟨"table", "watches.wd", [], []⟩,
    ⟨"ifBegin", "%1&&!%2.·", [], []⟩,
    ⟨"ret", "nil, fmt.Errorf(\"can't use/... with non-recursive watch %q\", %1)", [], []⟩,
    ⟨"ifEnd", "", [], []⟩,
    ⟨"table", "watches.path", [], []⟩,
    ⟨"table", "watches.wd", [], []⟩,
    ⟨"ifBegin", "!%1.·", [], []⟩,
    ⟨"ret", "[]uint32{%1}, nil", [], []⟩,
    ⟨"ifEnd", "", [], []⟩,
    ⟨"table", "watches.path", [], []⟩,
    ⟨"loopBegin", "range %1.path", [], []⟩,
    ⟨"ifBegin", "strings.HasPrefix(%1, %2+\"/\")", [], []⟩,
    ⟨"table", "watches.path", [], []⟩,
    ⟨"table", "watches.wd", [], []⟩,
    ⟨"ifEnd", "", [], []⟩,
    ⟨"loopEnd", "", [], []⟩,
    ⟨"ret", "%1, nil", [], []⟩
]

def fn_watches_updatePath : List SkOp := [
    ⟨"table", "watches.path", [], []⟩,
    ⟨"ifBegin", "%1", [], []⟩,
    ⟨"table", "watches.wd", [], []⟩,
    ⟨"ifEnd", "", [], []⟩,
    ⟨"callVar", "f", [], []⟩,
    ⟨"ifBegin", "%1!=nil", [], []⟩,
    ⟨"ret", "%1", [], []⟩,
    ⟨"ifEnd", "", [], []⟩,
    ⟨"ifBegin", "%1!=nil", [], []⟩,
    ⟨"table", "watches.wd", [], []⟩,
    ⟨"table", "watches.path", [], []⟩,
    ⟨"ifBegin", "%1.·!=%2", [], []⟩,
    ⟨"table", "watches.wd", [], []⟩,
    ⟨"ifBegin", "%1&&%2.·!=%3", [], []⟩,
    ⟨"table", "watches.path", [], []⟩,
    ⟨"ifEnd", "", [], []⟩,
    ⟨"ifEnd", "", [], []⟩,
    ⟨"ifEnd", "", [], []⟩,
    ⟨"ret", "nil", [], []⟩
]

/-- (function, via, channel, mutexes held): a send can happen while a mutex is held -/
def sendsWhileLocked : List (String × String × String × String) := [
  ("inotify.AddWith", "sendEvent", "Events", "mu"),
  ("inotify.handleEvent", "sendError", "Errors", "mu"),
  ("inotify.handleEvent", "sendError", "Errors", "mu")]

/-- functions that touch the watch tables (directly or through callees) without holding mu themselves -/
def needMuFromCaller : List String := ["inotify.AddWith$add", "inotify.isRecursive", "inotify.register", "inotify.remove", "watches.add", "watches.byPath", "watches.byWd", "watches.len", "watches.remove", "watches.removePath", "watches.updatePath"]
def needCookiesMuFromCaller : List String := []

def closers : List (String × String) := [("inotify.readEvents", "doneResp"), ("inotify.readEvents", "Errors"), ("inotify.readEvents", "Events"), ("shared.close", "done")]
def senders : List (String × String) := [("shared.sendError", "Errors"), ("shared.sendEvent", "Events")]
def goStmts : List (String × String) := [("newBackend", "readEvents")]
def syscalls : List (String × String × String) := [("inotify.register", "InotifyAddWatch", "w.fd"), ("inotify.register", "InotifyRmWatch", "w.fd"), ("inotify.remove", "InotifyRmWatch", "w.fd"), ("newBackend", "InotifyInit1", "unix.IN_CLOEXEC | unix.IN_NONBLOCK")]
def chanCaps : List (String × String × String) := [("NewBufferedWatcher", "Event", "sz"), ("NewBufferedWatcher", "error", "0"), ("NewWatcher", "Event", "defaultBufferSize"), ("NewWatcher", "error", "0"), ("newBackend", "struct{}", "0"), ("newShared", "struct{}", "0")]

def pkgVarsWritten : List (String × String) := []
def pkgVars : List String := ["ErrClosed : error", "ErrEventOverflow : error", "ErrNonExistentWatch : error", "debug : bool", "defaultBufferSize : int", "defaultOpts : withOpts", "enableRecurse : bool", "xErrUnsupported : error"]
def withCreateCallers : List String := []

def functions : List (String × List SkOp) := [
  ("NewBufferedWatcher", fn_NewBufferedWatcher),
  ("NewWatcher", fn_NewWatcher),
  ("inotify.Add", fn_inotify_Add),
  ("inotify.AddWith", fn_inotify_AddWith),
  ("inotify.AddWith$add", fn_inotify_AddWith_add),
  ("inotify.Close", fn_inotify_Close),
  ("inotify.Remove", fn_inotify_Remove),
  ("inotify.WatchList", fn_inotify_WatchList),
  ("inotify.handleEvent", fn_inotify_handleEvent),
  ("inotify.isRecursive", fn_inotify_isRecursive),
  ("inotify.newEvent", fn_inotify_newEvent),
  ("inotify.readEvents", fn_inotify_readEvents),
  ("inotify.register", fn_inotify_register),
  ("inotify.remove", fn_inotify_remove),
  ("inotify.state", fn_inotify_state),
  ("inotify.xSupports", fn_inotify_xSupports),
  ("newBackend", fn_newBackend),
  ("newShared", fn_newShared),
  ("newWatches", fn_newWatches),
  ("shared.close", fn_shared_close),
  ("shared.isClosed", fn_shared_isClosed),
  ("shared.sendError", fn_shared_sendError),
  ("shared.sendEvent", fn_shared_sendEvent),
  ("watches.add", fn_watches_add),
  ("watches.byPath", fn_watches_byPath),
  ("watches.byWd", fn_watches_byWd),
  ("watches.len", fn_watches_len),
  ("watches.remove", fn_watches_remove),
  ("watches.removePath", fn_watches_removePath),
  ("watches.updatePath", fn_watches_updatePath)]

end Expected
