import FsnVerif.Model.Skel
/-!
# Expected concurrency skeleton (hand-reviewed copy)

One definition per function of `backend_inotify.go` / `shared.go` / the constructors: the ordered
lock / unlock / select / send / close / go / syscall / table-access operations and the mutexes
lexically held at each. `Proofs/SkeletonTie.lean` proves the skeleton regenerated from the source
on every run equal to these; the protocol model (`Model/Proto.lean`) was written against them.
-/
namespace Expected
open Skel

def fn_NewBufferedWatcher : List SkOp := [
    ⟨"makeChan", "Event", ["sz"], []⟩,
    ⟨"makeChan", "error", ["0"], []⟩,
    ⟨"call", "newBackend", [], []⟩,
    ⟨"ifBegin", "err != nil", [], []⟩,
    ⟨"ret", "nil, err", [], []⟩,
    ⟨"ifEnd", "", [], []⟩,
    ⟨"ret", "&Watcher{b: b, Events: ev, Errors: errs}, nil", [], []⟩
]

def fn_NewWatcher : List SkOp := [
    ⟨"makeChan", "Event", ["defaultBufferSize"], []⟩,
    ⟨"makeChan", "error", ["0"], []⟩,
    ⟨"call", "newBackend", [], []⟩,
    ⟨"ifBegin", "err != nil", [], []⟩,
    ⟨"ret", "nil, err", [], []⟩,
    ⟨"ifEnd", "", [], []⟩,
    ⟨"ret", "&Watcher{b: b, Events: ev, Errors: errs}, nil", [], []⟩
]

def fn_inotify_Add : List SkOp := [
    ⟨"call", "AddWith", [], []⟩,
    ⟨"ret", "w.AddWith(name)", [], []⟩
]

def fn_inotify_AddWith : List SkOp := [
    ⟨"call", "isClosed", [], []⟩,
    ⟨"ifBegin", "w.isClosed()", [], []⟩,
    ⟨"ret", "ErrClosed", [], []⟩,
    ⟨"ifEnd", "", [], []⟩,
    ⟨"ifBegin", "debug", [], []⟩,
    ⟨"ifEnd", "", [], []⟩,
    ⟨"call", "getOptions", [], []⟩,
    ⟨"call", "xSupports", [], []⟩,
    ⟨"ifBegin", "!w.xSupports(with.op)", [], []⟩,
    ⟨"ret", "fmt.Errorf(\"%w: %s\", xErrUnsupported, with.op)", [], []⟩,
    ⟨"ifEnd", "", [], []⟩,
    ⟨"lock", "mu", [], []⟩,
    ⟨"deferUnlock", "mu", [], ["mu"]⟩,
    ⟨"call", "isClosed", [], ["mu"]⟩,
    ⟨"ifBegin", "w.isClosed()", [], ["mu"]⟩,
    ⟨"ret", "ErrClosed", [], ["mu"]⟩,
    ⟨"ifEnd", "", [], ["mu"]⟩,
    ⟨"call", "recursivePath", [], ["mu"]⟩,
    ⟨"ifBegin", "recurse", [], ["mu"]⟩,
    ⟨"litBegin", "", [], ["mu"]⟩,
    ⟨"ifBegin", "err != nil", [], ["mu"]⟩,
    ⟨"ret", "err", [], ["mu"]⟩,
    ⟨"ifEnd", "", [], ["mu"]⟩,
    ⟨"ifBegin", "!d.IsDir()", [], ["mu"]⟩,
    ⟨"ifBegin", "root == path", [], ["mu"]⟩,
    ⟨"ret", "fmt.Errorf(\"fsnotify: not a directory: %q\", path)", [], ["mu"]⟩,
    ⟨"ifEnd", "", [], ["mu"]⟩,
    ⟨"ret", "nil", [], ["mu"]⟩,
    ⟨"ifEnd", "", [], ["mu"]⟩,
    ⟨"ifBegin", "with.sendCreate && root != path", [], ["mu"]⟩,
    ⟨"call", "sendEvent", [], ["mu"]⟩,
    ⟨"ifEnd", "", [], ["mu"]⟩,
    ⟨"call", "AddWith$add", [], ["mu"]⟩,
    ⟨"ret", "add(root, with, true)", [], ["mu"]⟩,
    ⟨"litEnd", "", [], ["mu"]⟩,
    ⟨"ret", "filepath.WalkDir(path, func(root string, d fs.DirEntry, err error) error { if err != nil { return err } if !d.IsDir() { if root == path { return fmt.Errorf(\"fsnotify: not a directory: %q\", path) } return nil } if with.sendCreate && root != path { w.sendEvent(Event{Name: root, Op: Create}) } return add(root, with, true) })", [], ["mu"]⟩,
    ⟨"ifEnd", "", [], ["mu"]⟩,
    ⟨"call", "AddWith$add", [], ["mu"]⟩,
    ⟨"ret", "add(path, with, false)", [], ["mu"]⟩
]

def fn_inotify_AddWith_add : List SkOp := [
    ⟨"ifBegin", "with.noFollow", [], []⟩,
    ⟨"ifEnd", "", [], []⟩,
    ⟨"call", "Has", [], []⟩,
    ⟨"ifBegin", "with.op.Has(Create)", [], []⟩,
    ⟨"ifEnd", "", [], []⟩,
    ⟨"call", "Has", [], []⟩,
    ⟨"ifBegin", "with.op.Has(Write)", [], []⟩,
    ⟨"ifEnd", "", [], []⟩,
    ⟨"call", "Has", [], []⟩,
    ⟨"ifBegin", "with.op.Has(Remove)", [], []⟩,
    ⟨"ifEnd", "", [], []⟩,
    ⟨"call", "Has", [], []⟩,
    ⟨"ifBegin", "with.op.Has(Rename)", [], []⟩,
    ⟨"ifEnd", "", [], []⟩,
    ⟨"call", "Has", [], []⟩,
    ⟨"ifBegin", "with.op.Has(Chmod)", [], []⟩,
    ⟨"ifEnd", "", [], []⟩,
    ⟨"call", "Has", [], []⟩,
    ⟨"ifBegin", "with.op.Has(xUnportableOpen)", [], []⟩,
    ⟨"ifEnd", "", [], []⟩,
    ⟨"call", "Has", [], []⟩,
    ⟨"ifBegin", "with.op.Has(xUnportableRead)", [], []⟩,
    ⟨"ifEnd", "", [], []⟩,
    ⟨"call", "Has", [], []⟩,
    ⟨"ifBegin", "with.op.Has(xUnportableCloseWrite)", [], []⟩,
    ⟨"ifEnd", "", [], []⟩,
    ⟨"call", "Has", [], []⟩,
    ⟨"ifBegin", "with.op.Has(xUnportableCloseRead)", [], []⟩,
    ⟨"ifEnd", "", [], []⟩,
    ⟨"call", "register", [], []⟩,
    ⟨"ret", "w.register(path, flags, recurse)", [], []⟩
]

def fn_inotify_Close : List SkOp := [
    ⟨"call", "close", [], []⟩,
    ⟨"ifBegin", "w.shared.close()", [], []⟩,
    ⟨"ret", "nil", [], []⟩,
    ⟨"ifEnd", "", [], []⟩,
    ⟨"fileOp", "Close", [], []⟩,
    ⟨"ifBegin", "err != nil", [], []⟩,
    ⟨"ret", "err", [], []⟩,
    ⟨"ifEnd", "", [], []⟩,
    ⟨"recv", "doneResp", [], []⟩,
    ⟨"ret", "nil", [], []⟩
]

def fn_inotify_Remove : List SkOp := [
    ⟨"call", "isClosed", [], []⟩,
    ⟨"ifBegin", "w.isClosed()", [], []⟩,
    ⟨"ret", "nil", [], []⟩,
    ⟨"ifEnd", "", [], []⟩,
    ⟨"ifBegin", "debug", [], []⟩,
    ⟨"ifEnd", "", [], []⟩,
    ⟨"lock", "mu", [], []⟩,
    ⟨"deferUnlock", "mu", [], ["mu"]⟩,
    ⟨"call", "isClosed", [], ["mu"]⟩,
    ⟨"ifBegin", "w.isClosed()", [], ["mu"]⟩,
    ⟨"ret", "nil", [], ["mu"]⟩,
    ⟨"ifEnd", "", [], ["mu"]⟩,
    ⟨"call", "remove", [], ["mu"]⟩,
    ⟨"ret", "w.remove(filepath.Clean(name))", [], ["mu"]⟩
]

def fn_inotify_WatchList : List SkOp := [
    ⟨"call", "isClosed", [], []⟩,
    ⟨"ifBegin", "w.isClosed()", [], []⟩,
    ⟨"ret", "nil", [], []⟩,
    ⟨"ifEnd", "", [], []⟩,
    ⟨"lock", "mu", [], []⟩,
    ⟨"deferUnlock", "mu", [], ["mu"]⟩,
    ⟨"call", "len", [], ["mu"]⟩,
    ⟨"table", "watches.path", [], ["mu"]⟩,
    ⟨"loopBegin", "range w.watches.path", [], ["mu"]⟩,
    ⟨"loopEnd", "", [], ["mu"]⟩,
    ⟨"ret", "entries", [], ["mu"]⟩
]

def fn_inotify_handleEvent : List SkOp := [
    ⟨"lock", "mu", [], []⟩,
    ⟨"deferUnlock", "mu", [], ["mu"]⟩,
    ⟨"call", "byWd", [], ["mu"]⟩,
    ⟨"ifBegin", "watch == nil", [], ["mu"]⟩,
    ⟨"ret", "Event{}, true", [], ["mu"]⟩,
    ⟨"ifEnd", "", [], ["mu"]⟩,
    ⟨"ifBegin", "nameLen > 0", [], ["mu"]⟩,
    ⟨"ifEnd", "", [], ["mu"]⟩,
    ⟨"ifBegin", "debug", [], ["mu"]⟩,
    ⟨"ifEnd", "", [], ["mu"]⟩,
    ⟨"ifBegin", "inEvent.Mask&unix.IN_IGNORED != 0 || inEvent.Mask&unix.IN_UNMOUNT != 0", [], ["mu"]⟩,
    ⟨"call", "remove", [], ["mu"]⟩,
    ⟨"ret", "Event{}, true", [], ["mu"]⟩,
    ⟨"ifEnd", "", [], ["mu"]⟩,
    ⟨"ifBegin", "inEvent.Mask&unix.IN_DELETE_SELF == unix.IN_DELETE_SELF", [], ["mu"]⟩,
    ⟨"call", "remove", [], ["mu"]⟩,
    ⟨"ifEnd", "", [], ["mu"]⟩,
    ⟨"ifBegin", "inEvent.Mask&unix.IN_MOVE_SELF == unix.IN_MOVE_SELF", [], ["mu"]⟩,
    ⟨"ifBegin", "watch.recurse", [], ["mu"]⟩,
    ⟨"ret", "Event{}, true", [], ["mu"]⟩,
    ⟨"ifEnd", "", [], ["mu"]⟩,
    ⟨"call", "remove", [], ["mu"]⟩,
    ⟨"ifBegin", "err != nil && !errors.Is(err, ErrNonExistentWatch) && !errors.Is(err, unix.EINVAL)", [], ["mu"]⟩,
    ⟨"call", "sendError", [], ["mu"]⟩,
    ⟨"ifBegin", "!w.sendError(err)", [], ["mu"]⟩,
    ⟨"ret", "Event{}, false", [], ["mu"]⟩,
    ⟨"ifEnd", "", [], ["mu"]⟩,
    ⟨"ifEnd", "", [], ["mu"]⟩,
    ⟨"ifEnd", "", [], ["mu"]⟩,
    ⟨"ifBegin", "inEvent.Mask&unix.IN_DELETE_SELF != 0", [], ["mu"]⟩,
    ⟨"table", "watches.path", [], ["mu"]⟩,
    ⟨"ifBegin", "ok", [], ["mu"]⟩,
    ⟨"ret", "Event{}, true", [], ["mu"]⟩,
    ⟨"ifEnd", "", [], ["mu"]⟩,
    ⟨"ifEnd", "", [], ["mu"]⟩,
    ⟨"call", "newEvent", [], ["mu"]⟩,
    ⟨"ifBegin", "watch.recurse", [], ["mu"]⟩,
    ⟨"call", "Has", [], ["mu"]⟩,
    ⟨"ifBegin", "isDir && ev.Has(Create)", [], ["mu"]⟩,
    ⟨"call", "register", [], ["mu"]⟩,
    ⟨"call", "sendError", [], ["mu"]⟩,
    ⟨"ifBegin", "!w.sendError(err)", [], ["mu"]⟩,
    ⟨"ret", "Event{}, false", [], ["mu"]⟩,
    ⟨"ifEnd", "", [], ["mu"]⟩,
    ⟨"ifBegin", "ev.renamedFrom != \"\"", [], ["mu"]⟩,
    ⟨"table", "watches.wd", [], ["mu"]⟩,
    ⟨"loopBegin", "range w.watches.wd", [], ["mu"]⟩,
    ⟨"ifBegin", "ww.path == ev.renamedFrom || strings.HasPrefix(ww.path, ev.renamedFrom+\"/\")", [], ["mu"]⟩,
    ⟨"table", "watches.path", [], ["mu"]⟩,
    ⟨"table", "watches.path", [], ["mu"]⟩,
    ⟨"ifEnd", "", [], ["mu"]⟩,
    ⟨"loopEnd", "", [], ["mu"]⟩,
    ⟨"ifEnd", "", [], ["mu"]⟩,
    ⟨"ifEnd", "", [], ["mu"]⟩,
    ⟨"ifEnd", "", [], ["mu"]⟩,
    ⟨"ret", "ev, true", [], ["mu"]⟩
]

def fn_inotify_isRecursive : List SkOp := [
    ⟨"call", "byPath", [], []⟩,
    ⟨"ifBegin", "ww == nil", [], []⟩,
    ⟨"call", "byPath", [], []⟩,
    ⟨"ifEnd", "", [], []⟩,
    ⟨"ret", "ww != nil && ww.recurse", [], []⟩
]

def fn_inotify_newEvent : List SkOp := [
    ⟨"ifBegin", "mask&unix.IN_CREATE == unix.IN_CREATE || mask&unix.IN_MOVED_TO == unix.IN_MOVED_TO", [], []⟩,
    ⟨"ifEnd", "", [], []⟩,
    ⟨"ifBegin", "mask&unix.IN_DELETE_SELF == unix.IN_DELETE_SELF || mask&unix.IN_DELETE == unix.IN_DELETE", [], []⟩,
    ⟨"ifEnd", "", [], []⟩,
    ⟨"ifBegin", "mask&unix.IN_MODIFY == unix.IN_MODIFY", [], []⟩,
    ⟨"ifEnd", "", [], []⟩,
    ⟨"ifBegin", "mask&unix.IN_OPEN == unix.IN_OPEN", [], []⟩,
    ⟨"ifEnd", "", [], []⟩,
    ⟨"ifBegin", "mask&unix.IN_ACCESS == unix.IN_ACCESS", [], []⟩,
    ⟨"ifEnd", "", [], []⟩,
    ⟨"ifBegin", "mask&unix.IN_CLOSE_WRITE == unix.IN_CLOSE_WRITE", [], []⟩,
    ⟨"ifEnd", "", [], []⟩,
    ⟨"ifBegin", "mask&unix.IN_CLOSE_NOWRITE == unix.IN_CLOSE_NOWRITE", [], []⟩,
    ⟨"ifEnd", "", [], []⟩,
    ⟨"ifBegin", "mask&unix.IN_MOVE_SELF == unix.IN_MOVE_SELF || mask&unix.IN_MOVED_FROM == unix.IN_MOVED_FROM", [], []⟩,
    ⟨"ifEnd", "", [], []⟩,
    ⟨"ifBegin", "mask&unix.IN_ATTRIB == unix.IN_ATTRIB", [], []⟩,
    ⟨"ifEnd", "", [], []⟩,
    ⟨"ifBegin", "cookie != 0", [], []⟩,
    ⟨"ifBegin", "mask&unix.IN_MOVED_FROM == unix.IN_MOVED_FROM", [], []⟩,
    ⟨"lock", "cookiesMu", [], []⟩,
    ⟨"table", "cookieIndex", [], ["cookiesMu"]⟩,
    ⟨"table", "cookies", [], ["cookiesMu"]⟩,
    ⟨"table", "cookieIndex", [], ["cookiesMu"]⟩,
    ⟨"table", "cookieIndex", [], ["cookiesMu"]⟩,
    ⟨"ifBegin", "w.cookieIndex > 9", [], ["cookiesMu"]⟩,
    ⟨"table", "cookieIndex", [], ["cookiesMu"]⟩,
    ⟨"ifEnd", "", [], ["cookiesMu"]⟩,
    ⟨"unlock", "cookiesMu", [], ["cookiesMu"]⟩,
    ⟨"elseBegin", "", [], []⟩,
    ⟨"ifBegin", "mask&unix.IN_MOVED_TO == unix.IN_MOVED_TO", [], []⟩,
    ⟨"lock", "cookiesMu", [], []⟩,
    ⟨"table", "cookies", [], ["cookiesMu"]⟩,
    ⟨"loopBegin", "range w.cookies", [], ["cookiesMu"]⟩,
    ⟨"ifBegin", "c.cookie == cookie", [], ["cookiesMu"]⟩,
    ⟨"branch", "break", [], ["cookiesMu"]⟩,
    ⟨"ifEnd", "", [], ["cookiesMu"]⟩,
    ⟨"loopEnd", "", [], ["cookiesMu"]⟩,
    ⟨"unlock", "cookiesMu", [], ["cookiesMu"]⟩,
    ⟨"ifEnd", "", [], []⟩,
    ⟨"ifEnd", "", [], []⟩,
    ⟨"ifEnd", "", [], []⟩,
    ⟨"ret", "e", [], []⟩
]

def fn_inotify_readEvents : List SkOp := [
    ⟨"deferBegin", "", [], []⟩,
    ⟨"close", "doneResp", [], []⟩,
    ⟨"close", "Errors", [], []⟩,
    ⟨"close", "Events", [], []⟩,
    ⟨"deferEnd", "", [], []⟩,
    ⟨"loopBegin", "", [], []⟩,
    ⟨"call", "isClosed", [], []⟩,
    ⟨"ifBegin", "w.isClosed()", [], []⟩,
    ⟨"ret", "", [], []⟩,
    ⟨"ifEnd", "", [], []⟩,
    ⟨"fileOp", "Read", [], []⟩,
    ⟨"ifBegin", "err != nil", [], []⟩,
    ⟨"ifBegin", "errors.Is(err, os.ErrClosed)", [], []⟩,
    ⟨"ret", "", [], []⟩,
    ⟨"ifEnd", "", [], []⟩,
    ⟨"call", "sendError", [], []⟩,
    ⟨"ifBegin", "!w.sendError(err)", [], []⟩,
    ⟨"ret", "", [], []⟩,
    ⟨"ifEnd", "", [], []⟩,
    ⟨"branch", "continue", [], []⟩,
    ⟨"ifEnd", "", [], []⟩,
    ⟨"ifBegin", "n < unix.SizeofInotifyEvent", [], []⟩,
    ⟨"ifBegin", "n == 0", [], []⟩,
    ⟨"ifEnd", "", [], []⟩,
    ⟨"call", "sendError", [], []⟩,
    ⟨"ifBegin", "!w.sendError(err)", [], []⟩,
    ⟨"ret", "", [], []⟩,
    ⟨"ifEnd", "", [], []⟩,
    ⟨"branch", "continue", [], []⟩,
    ⟨"ifEnd", "", [], []⟩,
    ⟨"loopBegin", "offset <= uint32(n-unix.SizeofInotifyEvent)", [], []⟩,
    ⟨"ifBegin", "inEvent.Mask&unix.IN_Q_OVERFLOW != 0", [], []⟩,
    ⟨"call", "sendError", [], []⟩,
    ⟨"ifBegin", "!w.sendError(ErrEventOverflow)", [], []⟩,
    ⟨"ret", "", [], []⟩,
    ⟨"ifEnd", "", [], []⟩,
    ⟨"ifEnd", "", [], []⟩,
    ⟨"call", "handleEvent", [], []⟩,
    ⟨"ifBegin", "!ok", [], []⟩,
    ⟨"ret", "", [], []⟩,
    ⟨"ifEnd", "", [], []⟩,
    ⟨"call", "sendEvent", [], []⟩,
    ⟨"ifBegin", "!w.sendEvent(ev)", [], []⟩,
    ⟨"ret", "", [], []⟩,
    ⟨"ifEnd", "", [], []⟩,
    ⟨"loopEnd", "", [], []⟩,
    ⟨"loopEnd", "", [], []⟩
]

def fn_inotify_register : List SkOp := [
    ⟨"litBegin", "", [], []⟩,
    ⟨"ifBegin", "existing != nil", [], []⟩,
    ⟨"ifEnd", "", [], []⟩,
    ⟨"sys", "InotifyAddWatch", ["w.fd"], []⟩,
    ⟨"ifBegin", "wd == -1", [], []⟩,
    ⟨"ret", "nil, err", [], []⟩,
    ⟨"ifEnd", "", [], []⟩,
    ⟨"ifBegin", "existing != nil && existing.wd != uint32(wd)", [], []⟩,
    ⟨"sys", "InotifyRmWatch", ["w.fd"], []⟩,
    ⟨"ifEnd", "", [], []⟩,
    ⟨"table", "watches.wd", [], []⟩,
    ⟨"ifBegin", "ok", [], []⟩,
    ⟨"ret", "e, nil", [], []⟩,
    ⟨"ifEnd", "", [], []⟩,
    ⟨"ifBegin", "existing == nil", [], []⟩,
    ⟨"ret", "&watch{ wd: uint32(wd), path: path, flags: flags, recurse: recurse, }, nil", [], []⟩,
    ⟨"ifEnd", "", [], []⟩,
    ⟨"ret", "existing, nil", [], []⟩,
    ⟨"litEnd", "", [], []⟩,
    ⟨"call", "updatePath", [], []⟩,
    ⟨"ret", "w.watches.updatePath(path, func(existing *watch) (*watch, error) { if existing != nil { flags |= existing.flags | unix.IN_MASK_ADD } wd, err := unix.InotifyAddWatch(w.fd, path, flags) if wd == -1 { return nil, err } if existing != nil && existing.wd != uint32(wd) { unix.InotifyRmWatch(w.fd, existing.wd) } if e, ok := w.watches.wd[uint32(wd)]; ok { return e, nil } if existing == nil { return &watch{ wd: uint32(wd), path: path, flags: flags, recurse: recurse, }, nil } existing.wd = uint32(wd) existing.flags = flags return existing, nil })", [], []⟩
]

def fn_inotify_remove : List SkOp := [
    ⟨"call", "removePath", [], []⟩,
    ⟨"ifBegin", "err != nil", [], []⟩,
    ⟨"ret", "err", [], []⟩,
    ⟨"ifEnd", "", [], []⟩,
    ⟨"loopBegin", "range wds", [], []⟩,
    ⟨"sys", "InotifyRmWatch", ["w.fd"], []⟩,
    ⟨"ifBegin", "err != nil", [], []⟩,
    ⟨"ret", "err", [], []⟩,
    ⟨"ifEnd", "", [], []⟩,
    ⟨"loopEnd", "", [], []⟩,
    ⟨"ret", "nil", [], []⟩
]

def fn_inotify_state : List SkOp := [
    ⟨"lock", "mu", [], []⟩,
    ⟨"deferUnlock", "mu", [], ["mu"]⟩,
    ⟨"table", "watches.wd", [], ["mu"]⟩,
    ⟨"loopBegin", "range w.watches.wd", [], ["mu"]⟩,
    ⟨"loopEnd", "", [], ["mu"]⟩
]

def fn_inotify_xSupports : List SkOp := [
    ⟨"ret", "true", [], []⟩
]

def fn_newBackend : List SkOp := [
    ⟨"sys", "InotifyInit1", ["unix.IN_CLOEXEC | unix.IN_NONBLOCK"], []⟩,
    ⟨"ifBegin", "fd == -1", [], []⟩,
    ⟨"ret", "nil, errno", [], []⟩,
    ⟨"ifEnd", "", [], []⟩,
    ⟨"call", "newShared", [], []⟩,
    ⟨"fileOp", "NewFile", [], []⟩,
    ⟨"call", "newWatches", [], []⟩,
    ⟨"makeChan", "struct{}", ["0"], []⟩,
    ⟨"go", "readEvents", [], []⟩,
    ⟨"ret", "w, nil", [], []⟩
]

def fn_newShared : List SkOp := [
    ⟨"makeChan", "struct{}", ["0"], []⟩,
    ⟨"ret", "&shared{ Events: ev, Errors: errs, done: make(chan struct{}), }", [], []⟩
]

def fn_newWatches : List SkOp := [
    ⟨"ret", "&watches{ wd: make(map[uint32]*watch), path: make(map[string]uint32), }", [], []⟩
]

def fn_shared_close : List SkOp := [
    ⟨"lock", "mu", [], []⟩,
    ⟨"deferUnlock", "mu", [], ["mu"]⟩,
    ⟨"call", "isClosed", [], ["mu"]⟩,
    ⟨"ifBegin", "w.isClosed()", [], ["mu"]⟩,
    ⟨"ret", "true", [], ["mu"]⟩,
    ⟨"ifEnd", "", [], ["mu"]⟩,
    ⟨"close", "done", [], ["mu"]⟩,
    ⟨"ret", "false", [], ["mu"]⟩
]

def fn_shared_isClosed : List SkOp := [
    ⟨"select", "recv:done|default", [], []⟩,
    ⟨"caseBegin", "", [], []⟩,
    ⟨"ret", "true", [], []⟩,
    ⟨"caseEnd", "", [], []⟩,
    ⟨"caseBegin", "", [], []⟩,
    ⟨"ret", "false", [], []⟩,
    ⟨"caseEnd", "", [], []⟩
]

def fn_shared_sendError : List SkOp := [
    ⟨"ifBegin", "err == nil", [], []⟩,
    ⟨"ret", "true", [], []⟩,
    ⟨"ifEnd", "", [], []⟩,
    ⟨"select", "recv:done|send:Errors", [], []⟩,
    ⟨"caseBegin", "", [], []⟩,
    ⟨"ret", "false", [], []⟩,
    ⟨"caseEnd", "", [], []⟩,
    ⟨"caseBegin", "", [], []⟩,
    ⟨"ret", "true", [], []⟩,
    ⟨"caseEnd", "", [], []⟩
]

def fn_shared_sendEvent : List SkOp := [
    ⟨"ifBegin", "e.Op == 0", [], []⟩,
    ⟨"ret", "true", [], []⟩,
    ⟨"ifEnd", "", [], []⟩,
    ⟨"select", "recv:done|send:Events", [], []⟩,
    ⟨"caseBegin", "", [], []⟩,
    ⟨"ret", "false", [], []⟩,
    ⟨"caseEnd", "", [], []⟩,
    ⟨"caseBegin", "", [], []⟩,
    ⟨"ret", "true", [], []⟩,
    ⟨"caseEnd", "", [], []⟩
]

def fn_watches_add : List SkOp := [
    ⟨"table", "watches.wd", [], []⟩,
    ⟨"table", "watches.path", [], []⟩
]

def fn_watches_byPath : List SkOp := [
    ⟨"table", "watches.path", [], []⟩,
    ⟨"table", "watches.wd", [], []⟩,
    ⟨"ret", "w.wd[w.path[path]]", [], []⟩
]

def fn_watches_byWd : List SkOp := [
    ⟨"table", "watches.wd", [], []⟩,
    ⟨"ret", "w.wd[wd]", [], []⟩
]

def fn_watches_len : List SkOp := [
    ⟨"table", "watches.wd", [], []⟩,
    ⟨"ret", "len(w.wd)", [], []⟩
]

def fn_watches_remove : List SkOp := [
    ⟨"table", "watches.path", [], []⟩,
    ⟨"table", "watches.wd", [], []⟩
]

def fn_watches_removePath : List SkOp := [
    ⟨"call", "recursivePath", [], []⟩,
    ⟨"table", "watches.path", [], []⟩,
    ⟨"ifBegin", "!ok", [], []⟩,
    ⟨"ret", "nil, fmt.Errorf(\"%w: %s\", ErrNonExistentWatch, path)", [], []⟩,
    ⟨"ifEnd", "", [], []⟩,
    ⟨"table", "watches.wd", [], []⟩,
    ⟨"ifBegin", "recurse && !watch.recurse", [], []⟩,
    ⟨"ret", "nil, fmt.Errorf(\"can't use /... with non-recursive watch %q\", path)", [], []⟩,
    ⟨"ifEnd", "", [], []⟩,
    ⟨"table", "watches.path", [], []⟩,
    ⟨"table", "watches.wd", [], []⟩,
    ⟨"ifBegin", "!watch.recurse", [], []⟩,
    ⟨"ret", "[]uint32{wd}, nil", [], []⟩,
    ⟨"ifEnd", "", [], []⟩,
    ⟨"table", "watches.path", [], []⟩,
    ⟨"loopBegin", "range w.path", [], []⟩,
    ⟨"ifBegin", "strings.HasPrefix(p, path+\"/\")", [], []⟩,
    ⟨"table", "watches.path", [], []⟩,
    ⟨"table", "watches.wd", [], []⟩,
    ⟨"ifEnd", "", [], []⟩,
    ⟨"loopEnd", "", [], []⟩,
    ⟨"ret", "wds, nil", [], []⟩
]

def fn_watches_updatePath : List SkOp := [
    ⟨"table", "watches.path", [], []⟩,
    ⟨"ifBegin", "ok", [], []⟩,
    ⟨"table", "watches.wd", [], []⟩,
    ⟨"ifEnd", "", [], []⟩,
    ⟨"callVar", "f", [], []⟩,
    ⟨"ifBegin", "err != nil", [], []⟩,
    ⟨"ret", "err", [], []⟩,
    ⟨"ifEnd", "", [], []⟩,
    ⟨"ifBegin", "upd != nil", [], []⟩,
    ⟨"table", "watches.wd", [], []⟩,
    ⟨"table", "watches.path", [], []⟩,
    ⟨"ifBegin", "upd.wd != wd", [], []⟩,
    ⟨"table", "watches.wd", [], []⟩,
    ⟨"ifBegin", "ok && upd.path != path", [], []⟩,
    ⟨"table", "watches.path", [], []⟩,
    ⟨"ifEnd", "", [], []⟩,
    ⟨"ifEnd", "", [], []⟩,
    ⟨"ifEnd", "", [], []⟩,
    ⟨"ret", "nil", [], []⟩
]

def sendsWhileLocked : List (String × String × String × String) := [
  ("inotify.AddWith", "sendEvent", "Events", "mu"),
  ("inotify.handleEvent", "sendError", "Errors", "mu"),
  ("inotify.handleEvent", "sendError", "Errors", "mu")]

def needMuFromCaller : List String := ["inotify.AddWith$add", "inotify.isRecursive", "inotify.register", "inotify.remove", "watches.add", "watches.byPath", "watches.byWd", "watches.len", "watches.remove", "watches.removePath", "watches.updatePath"]

def needCookiesMuFromCaller : List String := []

def closers : List (String × String) := [("inotify.readEvents", "doneResp"), ("inotify.readEvents", "Errors"), ("inotify.readEvents", "Events"), ("shared.close", "done")]

def senders : List (String × String) := [("shared.sendError", "Errors"), ("shared.sendEvent", "Events")]

def goStmts : List (String × String) := [("newBackend", "readEvents")]

def syscalls : List (String × String × String) := [("inotify.register", "InotifyAddWatch", "w.fd"), ("inotify.register", "InotifyRmWatch", "w.fd"), ("inotify.remove", "InotifyRmWatch", "w.fd"), ("newBackend", "InotifyInit1", "unix.IN_CLOEXEC | unix.IN_NONBLOCK")]

def chanCaps : List (String × String × String) := [("NewBufferedWatcher", "Event", "sz"), ("NewBufferedWatcher", "error", "0"), ("NewWatcher", "Event", "defaultBufferSize"), ("NewWatcher", "error", "0"), ("newBackend", "struct{}", "0"), ("newShared", "struct{}", "0")]

def pkgVarsWritten : List (String × String) := []

def pkgVars : List String := ["ErrClosed : error", "ErrEventOverflow : error", "ErrNonExistentWatch : error", "debug : bool", "defaultBufferSize : int", "defaultOpts : withOpts", "enableRecurse : bool", "xErrUnsupported : error"]

def withCreateCallers : List String := []

def functions : List (String × List SkOp) := [
  ("NewBufferedWatcher", fn_NewBufferedWatcher),
  ("NewWatcher", fn_NewWatcher),
  ("inotify.Add", fn_inotify_Add),
  ("inotify.AddWith", fn_inotify_AddWith),
  ("inotify.AddWith$add", fn_inotify_AddWith_add),
  ("inotify.Close", fn_inotify_Close),
  ("inotify.Remove", fn_inotify_Remove),
  ("inotify.WatchList", fn_inotify_WatchList),
  ("inotify.handleEvent", fn_inotify_handleEvent),
  ("inotify.isRecursive", fn_inotify_isRecursive),
  ("inotify.newEvent", fn_inotify_newEvent),
  ("inotify.readEvents", fn_inotify_readEvents),
  ("inotify.register", fn_inotify_register),
  ("inotify.remove", fn_inotify_remove),
  ("inotify.state", fn_inotify_state),
  ("inotify.xSupports", fn_inotify_xSupports),
  ("newBackend", fn_newBackend),
  ("newShared", fn_newShared),
  ("newWatches", fn_newWatches),
  ("shared.close", fn_shared_close),
  ("shared.isClosed", fn_shared_isClosed),
  ("shared.sendError", fn_shared_sendError),
  ("shared.sendEvent", fn_shared_sendEvent),
  ("watches.add", fn_watches_add),
  ("watches.byPath", fn_watches_byPath),
  ("watches.byWd", fn_watches_byWd),
  ("watches.len", fn_watches_len),
  ("watches.remove", fn_watches_remove),
  ("watches.removePath", fn_watches_removePath),
  ("watches.updatePath", fn_watches_updatePath)]

end Expected
