/-!
# Model: operation bits, native flag tables, renderings (core Lean only)

Hand-written, table-form model of the pure fragment of fsnotify:
`Op.Has`, `Op.String`, the `newEvent` translators of the inotify, kqueue and
Windows backends, the inotify request table, `toWindowsFlags`,
`toFSnotifyFlags`, `xSupports`.

Tie: `Props/Bridge.lean` proves these equal to the definitions that
`tools/gotolean` regenerates from the Go source on every run (tie T); the
driver evaluates them against the running implementation (tie D).
-/
namespace Fsn

/-! ## Portable operations (`fsnotify.go`, `Op`) -/
def Create     : BitVec 32 := 0x1#32
def Write      : BitVec 32 := 0x2#32
def Remove     : BitVec 32 := 0x4#32
def Rename     : BitVec 32 := 0x8#32
def Chmod      : BitVec 32 := 0x10#32
def Open       : BitVec 32 := 0x20#32   -- xUnportableOpen
def Read       : BitVec 32 := 0x40#32   -- xUnportableRead
def CloseWrite : BitVec 32 := 0x80#32   -- xUnportableCloseWrite
def CloseRead  : BitVec 32 := 0x100#32  -- xUnportableCloseRead

/-- All defined operation bits. -/
def definedOps : BitVec 32 := 0x1ff#32
/-- The five operations `Add` subscribes to. -/
def defaultOps : BitVec 32 := 0x1f#32

/-- `Op.Has`: the two sets intersect. -/
def opHas (o h : BitVec 32) : Bool := (o &&& h) != 0#32

/-! ## inotify constants (Linux ABI, `inotify.h`) -/
def IN_ACCESS        : BitVec 32 := 0x1#32
def IN_MODIFY        : BitVec 32 := 0x2#32
def IN_ATTRIB        : BitVec 32 := 0x4#32
def IN_CLOSE_WRITE   : BitVec 32 := 0x8#32
def IN_CLOSE_NOWRITE : BitVec 32 := 0x10#32
def IN_OPEN          : BitVec 32 := 0x20#32
def IN_MOVED_FROM    : BitVec 32 := 0x40#32
def IN_MOVED_TO      : BitVec 32 := 0x80#32
def IN_CREATE        : BitVec 32 := 0x100#32
def IN_DELETE        : BitVec 32 := 0x200#32
def IN_DELETE_SELF   : BitVec 32 := 0x400#32
def IN_MOVE_SELF     : BitVec 32 := 0x800#32
def IN_UNMOUNT       : BitVec 32 := 0x2000#32
def IN_Q_OVERFLOW    : BitVec 32 := 0x4000#32
def IN_IGNORED       : BitVec 32 := 0x8000#32
def IN_DONT_FOLLOW   : BitVec 32 := 0x2000000#32
def IN_MASK_ADD      : BitVec 32 := 0x20000000#32
def IN_ISDIR         : BitVec 32 := 0x40000000#32

/-! ## Table form of a flag translator -/

/-- `mask & f == f` -/
def test (m f : BitVec 32) : Bool := (m &&& f) == f

/-- One row: any of the native `flags` present yields `op`. -/
structure Rule where
  flags : List (BitVec 32)
  op    : BitVec 32

/-- OR of the `op` of every rule one of whose flags is present. -/
def applyRules (rs : List Rule) (m : BitVec 32) : BitVec 32 :=
  rs.foldl (fun acc r => acc ||| (if r.flags.any (test m) then r.op else 0#32)) 0#32

/-- inotify `newEvent`, in source order. -/
def inotifyRules : List Rule := [
  ⟨[IN_CREATE, IN_MOVED_TO], Create⟩,
  ⟨[IN_DELETE_SELF, IN_DELETE], Remove⟩,
  ⟨[IN_MODIFY], Write⟩,
  ⟨[IN_OPEN], Open⟩,
  ⟨[IN_ACCESS], Read⟩,
  ⟨[IN_CLOSE_WRITE], CloseWrite⟩,
  ⟨[IN_CLOSE_NOWRITE], CloseRead⟩,
  ⟨[IN_MOVE_SELF, IN_MOVED_FROM], Rename⟩,
  ⟨[IN_ATTRIB], Chmod⟩]

def inotifyNewEventOp (mask : BitVec 32) : BitVec 32 := applyRules inotifyRules mask

/-- inotify request table (`AddWith`): requested op ↦ native flags subscribed. -/
def inotifyRequestRules : List Rule := [
  ⟨[Create], IN_CREATE⟩,
  ⟨[Write], IN_MODIFY⟩,
  ⟨[Remove], IN_DELETE ||| IN_DELETE_SELF⟩,
  ⟨[Rename], IN_MOVED_TO ||| IN_MOVED_FROM ||| IN_MOVE_SELF⟩,
  ⟨[Chmod], IN_ATTRIB⟩,
  ⟨[Open], IN_OPEN⟩,
  ⟨[Read], IN_ACCESS⟩,
  ⟨[CloseWrite], IN_CLOSE_WRITE⟩,
  ⟨[CloseRead], IN_CLOSE_NOWRITE⟩]

/-- Here a rule fires when the requested set *intersects* the (single) op. -/
def applyReq (rs : List Rule) (ops : BitVec 32) : BitVec 32 :=
  rs.foldl (fun acc r => acc ||| (if r.flags.any (opHas ops) then r.op else 0#32)) 0#32

def inotifyRequest (noFollow : Bool) (ops : BitVec 32) : BitVec 32 :=
  (if noFollow then IN_DONT_FOLLOW else 0#32) ||| applyReq inotifyRequestRules ops

/-! ## kqueue -/
def NOTE_DELETE : BitVec 32 := 0x1#32
def NOTE_WRITE  : BitVec 32 := 0x2#32
def NOTE_EXTEND : BitVec 32 := 0x4#32
def NOTE_ATTRIB : BitVec 32 := 0x8#32
def NOTE_LINK   : BitVec 32 := 0x10#32
def NOTE_RENAME : BitVec 32 := 0x20#32
def NOTE_REVOKE : BitVec 32 := 0x40#32

def kqueueRules : List Rule := [
  ⟨[NOTE_DELETE], Remove⟩,
  ⟨[NOTE_WRITE], Write⟩,
  ⟨[NOTE_RENAME], Rename⟩,
  ⟨[NOTE_ATTRIB], Chmod⟩]

/-- "No point sending a write and delete event at the same time". -/
def dropWriteIfRemove (o : BitVec 32) : BitVec 32 :=
  o &&& ~~~(if opHas o Write && opHas o Remove then Write else 0#32)

def kqueueNewEventOp (mask : BitVec 32) : BitVec 32 := dropWriteIfRemove (applyRules kqueueRules mask)

def noteAllEvents : BitVec 32 := NOTE_DELETE ||| NOTE_WRITE ||| NOTE_ATTRIB ||| NOTE_RENAME

/-! ## Windows -/
def sysFSCREATE     : BitVec 32 := 0x100#32
def sysFSDELETE     : BitVec 32 := 0x200#32
def sysFSDELETESELF : BitVec 32 := 0x400#32
def sysFSMODIFY     : BitVec 32 := 0x2#32
def sysFSMOVE       : BitVec 32 := 0xc0#32
def sysFSMOVEDFROM  : BitVec 32 := 0x40#32
def sysFSMOVEDTO    : BitVec 32 := 0x80#32
def sysFSMOVESELF   : BitVec 32 := 0x800#32

def winRules : List Rule := [
  ⟨[sysFSCREATE, sysFSMOVEDTO], Create⟩,
  ⟨[sysFSDELETE, sysFSDELETESELF], Remove⟩,
  ⟨[sysFSMODIFY], Write⟩,
  ⟨[sysFSMOVE, sysFSMOVESELF, sysFSMOVEDFROM], Rename⟩]

def winNewEventOp (mask : BitVec 32) : BitVec 32 := applyRules winRules mask

def FILE_NOTIFY_CHANGE_FILE_NAME  : BitVec 32 := 0x1#32
def FILE_NOTIFY_CHANGE_DIR_NAME   : BitVec 32 := 0x2#32
def FILE_NOTIFY_CHANGE_LAST_WRITE : BitVec 32 := 0x10#32

/-- `toWindowsFlags` (internal sysFS* mask, 64 bit ↦ `FILE_NOTIFY_CHANGE_*`). -/
def toWindowsFlags (mask : BitVec 64) : BitVec 32 :=
  (if (mask &&& 0x2#64) != 0#64 then FILE_NOTIFY_CHANGE_LAST_WRITE else 0#32) |||
  (if (mask &&& 0x3c0#64) != 0#64 then FILE_NOTIFY_CHANGE_FILE_NAME ||| FILE_NOTIFY_CHANGE_DIR_NAME else 0#32)

/-- `toFSnotifyFlags` (`FILE_ACTION_*` ↦ sysFS*). -/
def toFSnotifyFlags (action : BitVec 32) : BitVec 64 :=
  if action == 0x1#32 then 0x100#64       -- ADDED            ↦ sysFSCREATE
  else if action == 0x2#32 then 0x200#64  -- REMOVED          ↦ sysFSDELETE
  else if action == 0x3#32 then 0x2#64    -- MODIFIED         ↦ sysFSMODIFY
  else if action == 0x4#32 then 0x40#64   -- RENAMED_OLD_NAME ↦ sysFSMOVEDFROM
  else if action == 0x5#32 then 0x80#64   -- RENAMED_NEW_NAME ↦ sysFSMOVEDTO
  else 0#64

/-! ## xSupports -/
def unportableOps : BitVec 32 := Open ||| Read ||| CloseWrite ||| CloseRead
def xSupportsInotify (_op : BitVec 32) : Bool := true
/-- kqueue, Windows and FEN: everything but the four unportable operations. -/
def xSupportsPortableOnly (op : BitVec 32) : Bool := !(opHas op unportableOps)

/-! ## `Op.String` -/

def opNameTable : List (BitVec 32 × List Char) := [
  (Create, ['C', 'R', 'E', 'A', 'T', 'E']), (Remove, ['R', 'E', 'M', 'O', 'V', 'E']), (Write, ['W', 'R', 'I', 'T', 'E']),
  (Open, ['O', 'P', 'E', 'N']), (Read, ['R', 'E', 'A', 'D']), (CloseWrite, ['C', 'L', 'O', 'S', 'E', '_', 'W', 'R', 'I', 'T', 'E']),
  (CloseRead, ['C', 'L', 'O', 'S', 'E', '_', 'R', 'E', 'A', 'D']), (Rename, ['R', 'E', 'N', 'A', 'M', 'E']), (Chmod, ['C', 'H', 'M', 'O', 'D'])]

/-- Names of the defined operations present, in the fixed table order. -/
def opNames (o : BitVec 32) : List (List Char) :=
  opNameTable.flatMap (fun p => if opHas o p.1 then [p.2] else [])

def noEvents : List Char := ['[', 'n', 'o', ' ', 'e', 'v', 'e', 'n', 't', 's', ']']

def joinBar : List (List Char) → List Char
  | [] => []
  | [x] => x
  | x :: xs => x ++ '|' :: joinBar xs

def opString (o : BitVec 32) : List Char :=
  if (opNames o).isEmpty then noEvents else joinBar (opNames o)

/-! ## `Event.String` (with `%q` as a parameter) -/

/-- `%-13s`: pad on the right with spaces to at least 13 runes. -/
def pad13 (s : List Char) : List Char := s ++ List.replicate (13 - s.length) ' '

structure Event where
  name        : List Nat     -- bytes
  op          : BitVec 32
  renamedFrom : List Nat := []
deriving DecidableEq, Repr

def arrow : List Char := [' ', '←', ' ']

def eventString (quote : List Nat → List Char) (e : Event) : List Char :=
  if e.renamedFrom != [] then
    pad13 (opString e.op) ++ ' ' :: quote e.name ++ arrow ++ quote e.renamedFrom
  else
    pad13 (opString e.op) ++ ' ' :: quote e.name

end Fsn
