/-!
# Model: the concurrency protocol of the inotify backend (finite transition system)

Threads: the **reader** goroutine (`readEvents`), one distinguished API **caller** ("me": an
Add/Remove/WatchList call or a Close call), any number of **other** goroutines abstracted to what
they can do to shared state (take and release `mu`, mark the watcher closed, close the inotify
file), the **kernel** (makes data readable) and the **consumer** (receives from Events / Errors).
The Events buffer of *any* capacity is abstracted to `evFull` (a send can complete without a
consumer iff the buffer is not full; after it the buffer may or may not be full); Errors is
unbuffered (a send completes only together with a consumer receive).

Every transition is a `Label`; `step s l = none` means "not enabled". `Label.isSystem` tells
whether the step is taken by the library / kernel (as opposed to the consumer).
The shape of the transitions (who locks what, in which order channels are closed, which sends
select on `done`) is tied to the source by the regenerated skeleton (`Props/Skeleton.lean`).
-/
namespace Proto

inductive RPc
  | top            -- loop head: `if w.isClosed() { return }`
  | reading        -- blocked in `inotifyFile.Read`
  | errSend        -- `sendError` outside the lock (overflow, read error)
  | lockWait       -- `handleEvent`: `w.mu.Lock()`
  | inHandle       -- inside `handleEvent`, holding `mu`
  | errSendLocked  -- `sendError` inside `handleEvent` (mu held)
  | evSend         -- `sendEvent`
  | closing0 | closing1 | closing2   -- deferred closes: doneResp, Errors, Events
  | exited
deriving DecidableEq, Repr

inductive CPc
  | chk | lockWait | crit              -- Add / Remove / WatchList: isClosed test, Lock, critical section
  | cLock | cCrit | cFile | cWait      -- Close: shared.close() under mu, inotifyFile.Close(), <-doneResp
  | returned
deriving DecidableEq, Repr

inductive Holder | free | reader | me | other
deriving DecidableEq, Repr

structure S where
  r : RPc
  c : CPc
  mu : Holder
  doneClosed : Bool     -- `done` closed (watcher marked closed)
  fdOpen : Bool         -- inotify file still open
  respClosed : Bool
  erClosed : Bool
  evClosed : Bool
  evFull : Bool         -- Events buffer full (always "full" for capacity 0)
  dataReady : Bool      -- the kernel has something queued
deriving DecidableEq, Repr

inductive Label
  -- reader
  | rTop | rReadErr | rReadRec | rReadClosed
  | rErrDone | rErrRecv
  | rLock | rHandleOk | rHandleErr | rHandleErrDone | rHandleErrRecv
  | rEvSkipMore | rEvSkipTop | rEvDone | rEvEnqMore (full : Bool) | rEvEnqTop (full : Bool) | rEvRecvMore | rEvRecvTop
  | rClose0 | rClose1 | rClose2
  -- me
  | mChk | mLock | mCrit | mCLock | mCCrit | mCFile | mCWait
  -- others / kernel
  | oLock | oUnlock | oMark | oFile | kData
  -- consumer draining a buffered event
  | consDrain
deriving DecidableEq, Repr

/-- steps that need the consumer -/
def Label.isConsumer : Label → Bool
  | .rErrRecv | .rHandleErrRecv | .rEvRecvMore | .rEvRecvTop | .consDrain => true
  | _ => false

def Label.isSystem (l : Label) : Bool := !l.isConsumer

/-- `strictErr`: an error can be pending inside `handleEvent` only when the inotify file is closed
(EBADF) — true of the code once EINVAL is not forwarded (finding F1 repaired); `false` gives the
pre-repair protocol. -/
def step (strictErr : Bool) (s : S) : Label → Option S
  | .rTop => if s.r = .top then some { s with r := if s.doneClosed then .closing0 else .reading } else none
  | .rReadClosed => if s.r = .reading ∧ !s.fdOpen then some { s with r := .closing0 } else none
  | .rReadErr => if s.r = .reading ∧ s.fdOpen ∧ s.dataReady then some { s with r := .errSend, dataReady := false } else none
  | .rReadRec => if s.r = .reading ∧ s.fdOpen ∧ s.dataReady then some { s with r := .lockWait, dataReady := false } else none
  | .rErrDone => if s.r = .errSend ∧ s.doneClosed then some { s with r := .closing0 } else none
  | .rErrRecv => if s.r = .errSend then some { s with r := .lockWait } else none
  | .rLock => if s.r = .lockWait ∧ s.mu = .free then some { s with r := .inHandle, mu := .reader } else none
  | .rHandleOk => if s.r = .inHandle then some { s with r := .evSend, mu := .free } else none
  | .rHandleErr => if s.r = .inHandle ∧ (!strictErr || !s.fdOpen) then some { s with r := .errSendLocked } else none
  | .rHandleErrDone => if s.r = .errSendLocked ∧ s.doneClosed then some { s with r := .closing0, mu := .free } else none
  | .rHandleErrRecv => if s.r = .errSendLocked then some { s with r := .inHandle } else none
  | .rEvSkipMore => if s.r = .evSend then some { s with r := .lockWait } else none      -- Op == 0: nothing sent
  | .rEvSkipTop => if s.r = .evSend then some { s with r := .top } else none
  | .rEvDone => if s.r = .evSend ∧ s.doneClosed then some { s with r := .closing0 } else none
  | .rEvEnqMore f => if s.r = .evSend ∧ !s.evFull then some { s with r := .lockWait, evFull := f } else none
  | .rEvEnqTop f => if s.r = .evSend ∧ !s.evFull then some { s with r := .top, evFull := f } else none
  | .rEvRecvMore => if s.r = .evSend ∧ s.evFull then some { s with r := .lockWait } else none
  | .rEvRecvTop => if s.r = .evSend ∧ s.evFull then some { s with r := .top } else none
  | .rClose0 => if s.r = .closing0 then some { s with r := .closing1, respClosed := true } else none
  | .rClose1 => if s.r = .closing1 then some { s with r := .closing2, erClosed := true } else none
  | .rClose2 => if s.r = .closing2 then some { s with r := .exited, evClosed := true } else none
  | .mChk => if s.c = .chk then some { s with c := if s.doneClosed then .returned else .lockWait } else none
  -- Lock(); then the closed test is repeated under the mutex (finding F6 repaired): a call that
  -- lost the race against Close returns without touching the descriptor
  | .mLock => if s.c = .lockWait ∧ s.mu = .free then
      (if s.doneClosed then some { s with c := .returned } else some { s with c := .crit, mu := .me }) else none
  | .mCrit => if s.c = .crit then some { s with c := .returned, mu := .free } else none
  | .mCLock => if s.c = .cLock ∧ s.mu = .free then some { s with c := .cCrit, mu := .me } else none
  | .mCCrit => if s.c = .cCrit then
      (if s.doneClosed then some { s with c := .returned, mu := .free }
       else some { s with c := .cFile, mu := .free, doneClosed := true }) else none
  | .mCFile => if s.c = .cFile then some { s with c := .cWait, fdOpen := false } else none
  | .mCWait => if s.c = .cWait ∧ s.respClosed then some { s with c := .returned } else none
  | .oLock => if s.mu = .free then some { s with mu := .other } else none
  | .oUnlock => if s.mu = .other then some { s with mu := .free } else none
  | .oMark => if s.mu = .other then some { s with doneClosed := true } else none
  | .oFile => if s.doneClosed then some { s with fdOpen := false } else none
  | .kData => if s.fdOpen then some { s with dataReady := true } else none
  | .consDrain => some { s with evFull := false }

/-- the protocol invariant -/
def Inv (strictErr : Bool) (s : S) : Bool :=
  (decide (s.mu = .reader) == (decide (s.r = .inHandle) || decide (s.r = .errSendLocked))) &&
  (decide (s.mu = .me) == (decide (s.c = .crit) || decide (s.c = .cCrit))) &&
  (s.fdOpen || s.doneClosed) &&
  (s.respClosed == (decide (s.r = .closing1) || decide (s.r = .closing2) || decide (s.r = .exited))) &&
  (s.erClosed == (decide (s.r = .closing2) || decide (s.r = .exited))) &&
  (s.evClosed == decide (s.r = .exited)) &&
  (!(decide (s.r = .closing0) || s.respClosed) || s.doneClosed) &&
  (!(decide (s.c = .cFile) || decide (s.c = .cWait)) || s.doneClosed) &&
  (!decide (s.c = .cWait) || !s.fdOpen) &&
  (!decide (s.c = .crit) || (s.fdOpen && !s.doneClosed)) &&
  (!(strictErr && decide (s.r = .errSendLocked)) || !s.fdOpen)

def init (c : CPc) : S :=
  { r := .top, c := c, mu := .free, doneClosed := false, fdOpen := true, respClosed := false, erClosed := false,
    evClosed := false, evFull := false, dataReady := false }

/-! ## enumeration of the finite state and label spaces -/
def allRPc : List RPc := [.top, .reading, .errSend, .lockWait, .inHandle, .errSendLocked, .evSend, .closing0, .closing1, .closing2, .exited]
def allCPc : List CPc := [.chk, .lockWait, .crit, .cLock, .cCrit, .cFile, .cWait, .returned]
def allHolder : List Holder := [.free, .reader, .me, .other]
def allBool : List Bool := [true, false]
def allLabels : List Label :=
  [.rTop, .rReadErr, .rReadRec, .rReadClosed, .rErrDone, .rErrRecv, .rLock, .rHandleOk, .rHandleErr, .rHandleErrDone,
   .rHandleErrRecv, .rEvSkipMore, .rEvSkipTop, .rEvDone, .rEvEnqMore true, .rEvEnqMore false, .rEvEnqTop true, .rEvEnqTop false,
   .rEvRecvMore, .rEvRecvTop, .rClose0, .rClose1, .rClose2, .mChk, .mLock, .mCrit, .mCLock, .mCCrit, .mCFile, .mCWait,
   .oLock, .oUnlock, .oMark, .oFile, .kData, .consDrain]

/-- a state whose channel-closed flags are those the reader's position implies -/
def mk (r : RPc) (c : CPc) (mu : Holder) (d f e k : Bool) : S :=
  { r := r, c := c, mu := mu, doneClosed := d, fdOpen := f,
    respClosed := decide (r = .closing1) || decide (r = .closing2) || decide (r = .exited),
    erClosed := decide (r = .closing2) || decide (r = .exited), evClosed := decide (r = .exited),
    evFull := e, dataReady := k }

/-- every state in which the closed flags agree with the reader's position (5632 states) -/
def core : List S :=
  allRPc.flatMap fun r => allCPc.flatMap fun c => allHolder.flatMap fun mu =>
  allBool.flatMap fun d => allBool.flatMap fun f => allBool.flatMap fun e => allBool.map fun k => mk r c mu d f e k

/-! ## progress strategy: which system step to take next so that "me" returns -/

/-- a system step that brings the distinguished call closer to returning -/
def next (s : S) : Option Label :=
  match s.c with
  | .returned => none
  | .chk => some .mChk
  | .crit => some .mCrit
  | .cCrit => some .mCCrit
  | .cFile => some .mCFile
  | .lockWait | .cLock =>
    (match s.mu with
     | .free => some (if s.c = .lockWait then .mLock else .mCLock)
     | .other => some .oUnlock
     | .me => none
     | .reader => if s.r = .inHandle then some .rHandleOk else some .rHandleErrDone)
  | .cWait =>
    (match s.r with
     | .top => some .rTop
     | .reading => some .rReadClosed
     | .errSend => some .rErrDone
     | .lockWait => if s.mu = .free then some .rLock else if s.mu = .other then some .oUnlock else none
     | .inHandle => some .rHandleOk
     | .errSendLocked => some .rHandleErrDone
     | .evSend => some .rEvDone
     | .closing0 => some .rClose0
     | .closing1 => some .rClose1
     | .closing2 => some .rClose2
     | .exited => some .mCWait)

/-- follow the strategy for at most `n` steps; `true` iff the call has returned -/
def reach (strictErr : Bool) : Nat → S → Bool
  | 0, s => decide (s.c = .returned)
  | n + 1, s =>
    if s.c = .returned then true else
    match next s with
    | none => false
    | some l => if l.isSystem then (match step strictErr s l with | none => false | some s' => reach strictErr n s') else false

/-- same for the reader reaching `exited` once the watcher is marked closed and the file is closed
(C06: channels close; C13: the goroutine is gone) -/
def nextExit (s : S) : Option Label :=
  match s.r with
  | .top => some .rTop
  | .reading => some .rReadClosed
  | .errSend => some .rErrDone
  | .lockWait => (match s.mu with
      | .free => some .rLock
      | .other => some .oUnlock
      | .me => if s.c = .crit then some .mCrit else some .mCCrit
      | .reader => none)
  | .inHandle => some .rHandleOk
  | .errSendLocked => some .rHandleErrDone
  | .evSend => some .rEvDone
  | .closing0 => some .rClose0
  | .closing1 => some .rClose1
  | .closing2 => some .rClose2
  | .exited => none

def reachExit (strictErr : Bool) : Nat → S → Bool
  | 0, s => decide (s.r = .exited)
  | n + 1, s =>
    if s.r = .exited then true else
    match nextExit s with
    | none => false
    | some l => if l.isSystem then (match step strictErr s l with | none => false | some s' => reachExit strictErr n s') else false

end Proto
