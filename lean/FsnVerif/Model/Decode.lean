/-!
# Model: inotify record layout and the decode loop of `readEvents`

A read buffer is a list of bytes. `struct inotify_event` is a 16-byte header
(`wd : int32`, `mask, cookie, len : uint32`, little endian) followed by `len`
name bytes (NUL padded). `decodeBuf` mirrors the loop
`for offset <= n-16 { …; offset += 16 + len }` of `backend_inotify.go`.
`encode` is the kernel's layout (used to state round-trip theorems).
-/
namespace Fsn

structure Raw where
  wd     : Nat            -- as `uint32(inEvent.Wd)`; the overflow marker's -1 is 0xffffffff
  mask   : BitVec 32
  cookie : BitVec 32
  len    : Nat            -- the header's `len` field
  name   : List Nat       -- exactly `len` bytes as found in the buffer (padding included)
deriving DecidableEq, Repr

def le32 (bs : List Nat) : Nat :=
  bs.getD 0 0 + 256 * bs.getD 1 0 + 65536 * bs.getD 2 0 + 16777216 * bs.getD 3 0

def toLe32 (n : Nat) : List Nat :=
  [n % 256, n / 256 % 256, n / 65536 % 256, n / 16777216 % 256]

/-- parse one record at the head of `bs` (needs ≥ 16 bytes) -/
def parseHeader (bs : List Nat) : Raw :=
  let len := le32 (bs.drop 12)
  { wd := le32 bs, mask := BitVec.ofNat 32 (le32 (bs.drop 4)), cookie := BitVec.ofNat 32 (le32 (bs.drop 8)),
    len := len, name := (bs.drop 16).take len }

/-- outcome of decoding one read -/
inductive Decoded
  | ok (recs : List Raw)
  /-- a record's name extends past the bytes read: the real loop would use stale buffer
  contents; the model refuses instead of inventing them -/
  | outOfBounds (recs : List Raw)
deriving DecidableEq, Repr

/-- the decode loop; `fuel` bounds the number of iterations (every iteration consumes ≥ 16 bytes) -/
def decodeLoop : Nat → List Nat → List Raw → Decoded
  | 0, _, acc => .ok acc.reverse
  | fuel + 1, bs, acc =>
    if bs.length < 16 then .ok acc.reverse
    else
      let r := parseHeader bs
      if bs.length < 16 + r.len then .outOfBounds acc.reverse
      else decodeLoop fuel (bs.drop (16 + r.len)) (r :: acc)

def decodeBuf (bs : List Nat) : Decoded := decodeLoop (bs.length / 16 + 1) bs []

/-- `strings.TrimRight(s, "\x00")` -/
def trimNul (bs : List Nat) : List Nat := (bs.reverse.dropWhile (· == 0)).reverse

/-- the kernel's layout of one record -/
def encode (r : Raw) : List Nat :=
  toLe32 r.wd ++ toLe32 r.mask.toNat ++ toLe32 r.cookie.toNat ++ toLe32 r.len ++ r.name

/-- the padded name field the kernel writes for a name of `n` bytes: `roundup(n+1, 16)`, or none -/
def padLen (n : Nat) : Nat := if n == 0 then 0 else (n / 16 + 1) * 16

def padName (nm : List Nat) : List Nat := nm ++ List.replicate (padLen nm.length - nm.length) 0

end Fsn
