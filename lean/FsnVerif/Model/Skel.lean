/-! Data types for the concurrency skeleton emitted by `tools/gotolean`. -/
namespace Skel

structure SkOp where
  kind : String
  a    : String
  b    : List String
  held : List String
deriving DecidableEq, Repr

structure FnSkel where
  name : String
  file : String
  ops  : List SkOp
deriving DecidableEq, Repr

end Skel

namespace Skel

/-- calls the protocol model (`Model/Proto`) knows about: everything that can block, send, close or
re-enter the protocol functions -/
def protoCalls : List String :=
  ["sendEvent", "sendError", "isClosed", "close", "Close", "remove", "register", "readEvents", "handleEvent",
   "newShared", "newBackend", "AddWith", "Remove", "WatchList", "updatePath", "removePath"]

/-- dropped by `quiet`: table accesses and calls of functions that neither block nor touch the protocol -/
def SkOp.silent (o : SkOp) : Bool :=
  o.kind == "table" || (o.kind == "call" && !(protoCalls.contains o.a))

/-- emit `o` into the innermost open `if` block, or into the output -/
def quietEmit (os : List SkOp) : List (SkOp × List SkOp) × List SkOp → List (SkOp × List SkOp) × List SkOp
  | ([], out) => ([], out ++ os)
  | ((b, body) :: st, out) => ((b, body ++ os) :: st, out)

def quietStep (acc : List (SkOp × List SkOp) × List SkOp) (o : SkOp) : List (SkOp × List SkOp) × List SkOp :=
  if o.kind == "ifBegin" then ((o, []) :: acc.1, acc.2)
  else if o.kind == "ifEnd" then
    match acc.1 with
    | [] => quietEmit [o] acc
    | (b, body) :: st =>
      -- a conditional with nothing but returns inside is invisible to the protocol
      if body.all (fun x => x.kind == "ret") then (st, acc.2) else quietEmit (b :: body ++ [o]) (st, acc.2)
  else if o.silent then acc
  else if o.kind == "ret" then quietEmit [{ o with a := "" }] acc     -- which value is returned is not the protocol's business
  else quietEmit [o] acc

/-- the protocol's view of a function body that runs entirely under `mu` (`handleEvent`, `register`,
`remove`): locks, sends, closes, syscalls, calls of protocol functions and the conditionals around
them; bookkeeping-only conditionals, table accesses and helper calls are dropped -/
def quiet (ops : List SkOp) : List SkOp :=
  let r := ops.foldl quietStep ([], [])
  r.1.reverse.foldl (fun out blk => out ++ (blk.1 :: blk.2)) r.2

/-- the lighter view used for the protocol-level functions themselves (`readEvents`, `AddWith`, `Remove`,
`Close`, …): helper calls and table accesses are dropped, and so is a conditional with nothing left inside (a
debug print, a bookkeeping-only branch); everything else — locks, sends, closes, syscalls, protocol calls,
every conditional that contains one of them or a return, and WHAT is returned — stays -/
def liteStep (acc : List (SkOp × List SkOp) × List SkOp) (o : SkOp) : List (SkOp × List SkOp) × List SkOp :=
  if o.kind == "ifBegin" then ((o, []) :: acc.1, acc.2)
  else if o.kind == "ifEnd" then
    match acc.1 with
    | [] => quietEmit [o] acc
    | (b, body) :: st => if body.isEmpty then (st, acc.2) else quietEmit (b :: body ++ [o]) (st, acc.2)
  else if o.silent then acc
  else quietEmit [o] acc

def lite (ops : List SkOp) : List SkOp :=
  let r := ops.foldl liteStep ([], [])
  r.1.reverse.foldl (fun out blk => out ++ (blk.1 :: blk.2)) r.2

end Skel
