/-! Data types for the concurrency skeleton emitted by `tools/gotolean`. -/
namespace Skel

structure SkOp where
  kind : String
  a    : String
  b    : List String
  held : List String
deriving DecidableEq, Repr

structure FnSkel where
  name : String
  file : String
  ops  : List SkOp
deriving DecidableEq, Repr

end Skel
