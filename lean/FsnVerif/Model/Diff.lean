/-!
# Model: `internal/ztest/diff.go` (difflib port) — core Lean only

Lines are lists of characters (each ends in `'\n'` after `splitLines`). Mirrors
`splitLines`, `findLongestMatch`, `matchingBlocks`, `GetOpCodes`, `GetGroupedOpCodes(3)`,
`formatRangeUnified`, `makeUnifiedDiff` and `Diff` (the `strings.TrimSpace` calls are the caller's).
-/
namespace Diff

abbrev Line := List Char

/-- `strings.SplitAfter(s, "\n")` then `lines[len-1] += "\n"` -/
def splitAfterNL : List Char → List Line
  | [] => [[]]
  | c :: cs =>
    match splitAfterNL cs with
    | [] => [[c]]      -- unreachable
    | l :: ls => if c == '\n' then [c] :: l :: ls else (c :: l) :: ls

def splitLines (s : List Char) : List Line :=
  match (splitAfterNL s).reverse with
  | [] => []
  | l :: rest => rest.reverse ++ [l ++ ['\n']]

structure Match where
  a : Nat
  b : Nat
  size : Nat
deriving DecidableEq, Repr

/-- association list `j ↦ len` (Go: `map[int]int`, absent key = 0) -/
def j2get (m : List (Nat × Nat)) (j : Nat) : Nat :=
  match m.find? (fun p => p.1 == j) with
  | some p => p.2
  | none => 0

/-- one cell of the DP row `i`: `j` with `b[j] = a[i]`, `blo ≤ j < bhi` -/
def flmStep (a b : List Line) (i blo bhi : Nat) (j2len : List (Nat × Nat))
    (acc : List (Nat × Nat) × Match) (j : Nat) : List (Nat × Nat) × Match :=
  if b.getD j [] == a.getD i [] && blo ≤ j && j < bhi then
    -- Go reads `j2len[j-1]`; for j = 0 that is the absent key -1, i.e. 0
    let k := (if j = 0 then 0 else j2get j2len (j - 1)) + 1
    if k > acc.2.size then (acc.1 ++ [(j, k)], ⟨i + 1 - k, j + 1 - k, k⟩) else (acc.1 ++ [(j, k)], acc.2)
  else acc

/-- one row of the DP: all `j` with `b[j] = a[i]`, `blo ≤ j < bhi`, ascending -/
def flmRow (a b : List Line) (i blo bhi : Nat) (j2len : List (Nat × Nat)) (best : Match) :
    List (Nat × Nat) × Match :=
  (List.range b.length).foldl (flmStep a b i blo bhi j2len) ([], best)

def flmRows (a b : List Line) (blo bhi : Nat) : List Nat → List (Nat × Nat) → Match → Match
  | [], _, best => best
  | i :: is, j2len, best =>
    let r := flmRow a b i blo bhi j2len best
    flmRows a b blo bhi is r.1 r.2

def extendBack (a b : List Line) (alo blo : Nat) : Nat → Match → Match
  | 0, m => m
  | fuel + 1, m =>
    if m.a > alo && m.b > blo && a.getD (m.a - 1) [] == b.getD (m.b - 1) [] then
      extendBack a b alo blo fuel ⟨m.a - 1, m.b - 1, m.size + 1⟩
    else m

def extendFwd (a b : List Line) (ahi bhi : Nat) : Nat → Match → Match
  | 0, m => m
  | fuel + 1, m =>
    if m.a + m.size < ahi && m.b + m.size < bhi && a.getD (m.a + m.size) [] == b.getD (m.b + m.size) [] then
      extendFwd a b ahi bhi fuel { m with size := m.size + 1 }
    else m

/-- `findLongestMatch(alo, ahi, blo, bhi)` -/
def findLongestMatch (a b : List Line) (alo ahi blo bhi : Nat) : Match :=
  let best := flmRows a b blo bhi ((List.range (ahi - alo)).map (· + alo)) [] ⟨alo, blo, 0⟩
  let best := extendBack a b alo blo (a.length + b.length) best
  extendFwd a b ahi bhi (a.length + b.length) best

/-- the recursive `matchBlocks`; `fuel` bounds the recursion depth (each level shrinks the window) -/
def matchBlocks (a b : List Line) : Nat → Nat → Nat → Nat → Nat → List Match → List Match
  | 0, _, _, _, _, acc => acc
  | fuel + 1, alo, ahi, blo, bhi, acc =>
    let m := findLongestMatch a b alo ahi blo bhi
    if m.size > 0 then
      let acc1 := if alo < m.a && blo < m.b then matchBlocks a b fuel alo m.a blo m.b acc else acc
      let acc2 := acc1 ++ [m]
      if m.a + m.size < ahi && m.b + m.size < bhi then matchBlocks a b fuel (m.a + m.size) ahi (m.b + m.size) bhi acc2 else acc2
    else acc

def collapseStep (acc : List Match × Match) (m : Match) : List Match × Match :=
  let cur := acc.2
  if cur.a + cur.size == m.a && cur.b + cur.size == m.b then (acc.1, { cur with size := cur.size + m.size })
  else ((if cur.size > 0 then acc.1 ++ [cur] else acc.1), m)

/-- collapse adjacent blocks, append the sentinel -/
def collapse (la lb : Nat) (ms : List Match) : List Match :=
  let r := ms.foldl collapseStep ([], ⟨0, 0, 0⟩)
  (if r.2.size > 0 then r.1 ++ [r.2] else r.1) ++ [⟨la, lb, 0⟩]

def matchingBlocks (a b : List Line) : List Match :=
  collapse a.length b.length (matchBlocks a b (a.length + b.length + 1) 0 a.length 0 b.length [])

structure OpCode where
  tag : Char
  i1 : Nat
  i2 : Nat
  j1 : Nat
  j2 : Nat
deriving DecidableEq, Repr

/-- the opcode for the gap between the cursor `(i, j)` and the next block -/
def opGap (i j : Nat) (m : Match) : List OpCode :=
  if i < m.a && j < m.b then [⟨'r', i, m.a, j, m.b⟩]
  else if i < m.a then [⟨'d', i, m.a, j, m.b⟩]
  else if j < m.b then [⟨'i', i, m.a, j, m.b⟩]
  else []

def opEq (m : Match) : List OpCode :=
  if m.size > 0 then [⟨'e', m.a, m.a + m.size, m.b, m.b + m.size⟩] else []

def opStep (acc : List OpCode × Nat × Nat) (m : Match) : List OpCode × Nat × Nat :=
  (acc.1 ++ opGap acc.2.1 acc.2.2 m ++ opEq m, m.a + m.size, m.b + m.size)

/-- `GetOpCodes` from a list of matching blocks -/
def opCodesOf (ms : List Match) : List OpCode := (ms.foldl opStep ([], 0, 0)).1

def getOpCodes (a b : List Line) : List OpCode := opCodesOf (matchingBlocks a b)

def trimFirst (n : Nat) : List OpCode → List OpCode
  | c :: rest => if c.tag == 'e' then OpCode.mk c.tag (max c.i1 (c.i2 - n)) c.i2 (max c.j1 (c.j2 - n)) c.j2 :: rest else c :: rest
  | [] => []

def trimLast (n : Nat) (codes : List OpCode) : List OpCode :=
  match codes.reverse with
  | c :: rest => if c.tag == 'e' then (OpCode.mk c.tag c.i1 (min c.i2 (c.i1 + n)) c.j1 (min c.j2 (c.j1 + n)) :: rest).reverse else codes
  | [] => codes

def groupStep (n : Nat) (acc : List (List OpCode) × List OpCode) (c : OpCode) : List (List OpCode) × List OpCode :=
  if c.tag == 'e' && c.i2 - c.i1 > n + n then
    (acc.1 ++ [acc.2 ++ [OpCode.mk c.tag c.i1 (min c.i2 (c.i1 + n)) c.j1 (min c.j2 (c.j1 + n))]],
     [OpCode.mk c.tag (max c.i1 (c.i2 - n)) c.i2 (max c.j1 (c.j2 - n)) c.j2])
  else (acc.1, acc.2 ++ [c])

/-- `GetGroupedOpCodes(n)` -/
def groupOpCodes (n : Nat) (codes0 : List OpCode) : List (List OpCode) :=
  let codes : List OpCode := if codes0.isEmpty then [OpCode.mk 'e' 0 1 0 1] else codes0
  let codes : List OpCode := trimLast n (trimFirst n codes)
  let r := codes.foldl (groupStep n) ([], [])
  let group := r.2
  if group.length > 0 && !(group.length == 1 && (group.headD (OpCode.mk 'x' 0 0 0 0)).tag == 'e') then r.1 ++ [group] else r.1

def natStr (n : Nat) : List Char := (Nat.toDigits 10 n)

/-- `formatRangeUnified` -/
def formatRange (start stop : Nat) : List Char :=
  let beginning := start + 1
  let length := stop - start
  if length == 1 then natStr beginning
  else
    let beginning := if length == 0 then beginning - 1 else beginning
    natStr beginning ++ [','] ++ natStr length

def slice (l : List Line) (i j : Nat) : List Line := (l.drop i).take (j - i)

def renderGroup (a b : List Line) (g : List OpCode) : List Char :=
  match g.head?, g.getLast? with
  | some first, some last =>
    "@@ -".toList ++ formatRange first.i1 last.i2 ++ " +".toList ++ formatRange first.j1 last.j2 ++ " @@\n".toList ++
    g.flatMap fun c =>
      if c.tag == 'e' then (slice a c.i1 c.i2).flatMap fun l => "      ".toList ++ l
      else
        (if c.tag == 'r' || c.tag == 'd' then (slice a c.i1 c.i2).flatMap fun l => "-have ".toList ++ l else []) ++
        (if c.tag == 'r' || c.tag == 'i' then (slice b c.j1 c.j2).flatMap fun l => "+want ".toList ++ l else [])
  | _, _ => []

/-- `makeUnifiedDiff` with context 3 -/
def unifiedDiff (a b : List Line) : List Char :=
  let groups := groupOpCodes 3 (getOpCodes a b)
  if groups.isEmpty then [] else "--- have\n+++ want\n".toList ++ groups.flatMap (renderGroup a b)

/-- `Diff(have, want)` on already trimmed texts -/
def diff (have_ want : List Char) : List Char :=
  let d := unifiedDiff (splitLines have_) (splitLines want)
  if d.isEmpty then [] else '\n' :: d

end Diff
