import FsnVerif.Model.Inotify
/-!
# Model: the kqueue backend's bookkeeping (`backend_kqueue.go`, type `watches` + descriptors)

One open descriptor per watched path and per watched entry of a watched directory. The model keeps
the five tables and, as ghost state, the set of descriptors obtained from `unix.Open` and not yet
closed. File-system and kevent answers are inputs of the operations.
-/
namespace Kq
open Fsn

structure KW where
  wd : Nat
  name : Path
  linkName : Path
  isDir : Bool
deriving DecidableEq, Repr

structure KState where
  wd : List (Nat × KW) := []        -- descriptor ↦ watch
  path : List (Path × Nat) := []    -- path ↦ descriptor
  byDir : List (Path × List Nat) := []
  seen : List Path := []
  byUser : List Path := []
  openFds : List Nat := []          -- ghost: descriptors opened and not closed
  closed : Bool := false
deriving DecidableEq, Repr

/-- `watches.add` -/
def KState.tblAdd (s : KState) (p link : Path) (fd : Nat) (isDir : Bool) : KState :=
  let parent := dir p
  let cur := (alLookup parent s.byDir).getD []
  { s with path := alInsert p fd s.path, wd := alInsert fd ⟨fd, p, link, isDir⟩ s.wd,
           byDir := alInsert parent (if cur.contains fd then cur else cur ++ [fd]) s.byDir }

/-- `watches.remove(fd, path)` -/
def KState.tblRemove (s : KState) (fd : Nat) (p : Path) : KState :=
  let parent := dir p
  let cur := ((alLookup parent s.byDir).getD []).filter (· != fd)
  let isDir := match alLookup fd s.wd with | some w => w.isDir | none => false
  let path' := alErase p s.path
  { s with path := path', byUser := s.byUser.filter (· != p),
           byDir := if cur.isEmpty then alErase parent s.byDir else alInsert parent cur s.byDir,
           wd := alErase fd s.wd,
           seen := (s.seen.filter (· != p)).filter fun q => !(isDir && !(alHas q path') && dir q == p) }

/-- a successful `addWatch` of a path that is not yet watched: `Open` gave `fd`, registration succeeded -/
def KState.addOk (s : KState) (p link : Path) (fd : Nat) (isDir : Bool) : KState :=
  { (s.tblAdd p link fd isDir) with openFds := fd :: s.openFds }

/-- `rm(name, _)` for one path: `EV_DELETE` (its result is an input), `Close`, `watches.remove` -/
def KState.rmOne (s : KState) (name : Path) (evDeleteOk : Bool) : KState :=
  match alLookup name s.path with
  | none => s
  | some fd =>
    match alLookup fd s.wd with
    | none => s                                  -- ErrNonExistentWatch
    | some _ =>
      if !evDeleteOk then s
      else { (s.tblRemove fd name) with openFds := s.openFds.filter (· != fd) }

/-- `Close`: marks closed, then `rm` for every listed path (EV_DELETE succeeds: the knotes exist) -/
def KState.closeAll (s : KState) : KState :=
  (s.path.map (·.1)).foldl (fun acc p => acc.rmOne p true) { s with closed := true }

/-- `WatchList` -/
def KState.watchList (s : KState) : List Path := if s.closed then [] else s.byUser

/-- executable invariant (also evaluated on snapshots of the running implementation) -/
def KState.inv (s : KState) : Bool :=
  -- descriptors opened for watches are exactly the keys of the wd table
  s.openFds.all (fun fd => alHas fd s.wd) && s.wd.all (fun e => s.openFds.contains e.1) &&
  -- every entry is listed under its own name with its own descriptor
  s.wd.all (fun e => e.2.wd == e.1 && alLookup e.2.name s.path == some e.1) &&
  -- WatchList shows only paths that are watched (under their own name, or as the link name of an entry)
  s.byUser.all (fun p => alHas p s.path || s.wd.any (fun e => e.2.linkName == p))

/-- the same invariant, clause by clause, with the name of the first clause that fails (what the driver
prints for a snapshot). `links`: the listed user paths that are symbolic links on disk — an orphan
among those is finding F10's family (bookkeeping keyed by link name vs. resolved name). -/
def KState.invReport (s : KState) (links : List Path) : String :=
  if !(s.openFds.all (fun fd => alHas fd s.wd)) then "INV-VIOLATED descriptor-without-entry"
  else if !(s.wd.all (fun e => s.openFds.contains e.1)) then "INV-VIOLATED entry-without-descriptor"
  else if !(s.wd.all (fun e => e.2.wd == e.1 && alLookup e.2.name s.path == some e.1)) then "INV-VIOLATED entry-mislisted"
  else match s.byUser.find? (fun p => !(alHas p s.path || s.wd.any (fun e => e.2.linkName == p))) with
    | none => "ok"
    | some p => if links.contains p then "INV-VIOLATED watchlist-orphan-symlink" else "INV-VIOLATED watchlist-orphan"

end Kq
