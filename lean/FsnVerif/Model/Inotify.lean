import FsnVerif.Model.Bits
import FsnVerif.Model.Path
import FsnVerif.Model.Decode
/-!
# Model: the inotify backend's bookkeeping, sequentially

Mirrors `backend_inotify.go`: `watches.{add,remove,removePath,updatePath}`,
`register`, `AddWith`, `Remove`/`remove`, `WatchList`, `handleEvent`,
`newEvent` (cookie ring) and the per-record part of `readEvents`.
Go maps are association lists with replace-on-insert; what the kernel answers
to `inotify_add_watch` / `inotify_rm_watch` are *inputs* (external call ↦
parameter). Tied to the code by differential execution (tie D).
-/
namespace Fsn

structure Watch where
  wd      : Nat
  flags   : BitVec 32
  path    : Path
  recurse : Bool
deriving DecidableEq, Repr

/-! ## association lists as Go maps -/
section AL
variable {κ ν : Type} [DecidableEq κ]
def alLookup (k : κ) : List (κ × ν) → Option ν
  | [] => none
  | (k', v) :: t => if k' = k then some v else alLookup k t
def alErase (k : κ) (l : List (κ × ν)) : List (κ × ν) := l.filter (fun e => !(decide (e.1 = k)))
def alInsert (k : κ) (v : ν) : List (κ × ν) → List (κ × ν)
  | [] => [(k, v)]
  | (k', v') :: t => if k' = k then (k, v) :: t else (k', v') :: alInsert k v t
def alHas (k : κ) (l : List (κ × ν)) : Bool := (alLookup k l).isSome
end AL

/-! ## rename-cookie ring -/
structure Ring where
  slots : List (BitVec 32 × Path)   -- always 10 slots
  idx   : Nat
deriving DecidableEq, Repr

def Ring.empty : Ring := ⟨List.replicate 10 (0#32, []), 0⟩

def Ring.store (r : Ring) (c : BitVec 32) (p : Path) : Ring :=
  ⟨r.slots.set r.idx (c, p), if r.idx + 1 > 9 then 0 else r.idx + 1⟩

/-- first slot, front to back, holding this cookie -/
def Ring.find (r : Ring) (c : BitVec 32) : Path :=
  match r.slots.find? (fun s => s.1 == c) with
  | some s => s.2
  | none => []

/-! ## library state -/
inductive Err
  | closed | nonExistentWatch | overflow | errno (e : String) | badRecurse | notDir
deriving DecidableEq, Repr

structure Lib where
  wdT   : List (Nat × Watch) := []
  pathT : List (Path × Nat) := []
  ring  : Ring := Ring.empty
  enableRecurse : Bool := false
deriving DecidableEq, Repr

inductive Sys
  | addWatch (p : Path) (flags : BitVec 32)
  | rmWatch (wd : Nat)
deriving DecidableEq, Repr

structure Out where
  ret    : Option Err := none
  events : List Event := []
  errors : List Err := []
  sys    : List Sys := []
  panic  : Bool := false        -- nil dereference made explicit
deriving DecidableEq, Repr

def Out.append (a b : Out) : Out :=
  { ret := b.ret, events := a.events ++ b.events, errors := a.errors ++ b.errors, sys := a.sys ++ b.sys,
    panic := a.panic || b.panic }

/-- environment: what the kernel answers -/
structure Env where
  /-- `inotify_add_watch(path, flags)`: a wd or an errno class -/
  addWatch : Path → BitVec 32 → Except String Nat
  /-- kernel marks currently alive in this instance (for `inotify_rm_watch`: success iff present) -/
  marks : List Nat

def Env.rm (e : Env) (wd : Nat) : Env × Bool :=
  if e.marks.contains wd then ({ e with marks := e.marks.erase wd }, true) else (e, false)

/-! ## watches.* -/

/-- `watches.remove(watch)`: delete `path[watch.path]`, delete `wd[watch.wd]` -/
def Lib.dropWatch (l : Lib) (w : Watch) : Lib :=
  { l with pathT := alErase w.path l.pathT, wdT := alErase w.wd l.wdT }

inductive RemovePathRes
  | err (e : Err)
  | panic (l : Lib)       -- state at the moment of the nil dereference
  | ok (l : Lib) (wds : List Nat)

/-- `watches.removePath` -/
def Lib.removePath (l : Lib) (arg : Path) : RemovePathRes :=
  let (path, recurse) := recursivePath l.enableRecurse arg
  match alLookup path l.pathT with
  | none => .err .nonExistentWatch
  | some wd =>
    match alLookup wd l.wdT with
    | none =>
      -- nil *watch: with `recurse` the first test dereferences it; otherwise both tables have
      -- already been updated when `watch.recurse` is read
      if recurse then .panic l
      else .panic { l with pathT := alErase path l.pathT, wdT := alErase wd l.wdT }
    | some w =>
      if recurse && !w.recurse then .err .badRecurse
      else
        let l1 := { l with pathT := alErase path l.pathT, wdT := alErase wd l.wdT }
        if !w.recurse then .ok l1 [wd]
        else
          -- descendants: entries strictly below `path` (separator-aware; map order is unspecified,
          -- the model uses table order and outputs are compared as sets)
          let victims := l1.pathT.filter (fun e => hasPrefix e.1 (path ++ [slash]))
          let l2 := victims.foldl (fun (acc : Lib) e =>
            { acc with pathT := alErase e.1 acc.pathT, wdT := alErase e.2 acc.wdT }) l1
          .ok l2 (wd :: victims.map (·.2))

/-- `inotify.remove`: removePath, then `inotify_rm_watch` for each wd, stopping at the first error -/
def rmAll : Env → List Nat → Env × List Sys × Option Err
  | env, [] => (env, [], none)
  | env, wd :: rest =>
    match env.rm wd with
    | (env', true) =>
      let (env'', sys, e) := rmAll env' rest
      (env'', .rmWatch wd :: sys, e)
    | (env', false) => (env', [.rmWatch wd], some (.errno "EINVAL"))

def Lib.remove (l : Lib) (env : Env) (arg : Path) : Lib × Env × Out :=
  match l.removePath arg with
  | .err e => (l, env, { ret := some e })
  | .panic l' => (l', env, { panic := true })
  | .ok l' wds =>
    let (env', sys, e) := rmAll env wds
    (l', env', { ret := e, sys := sys })

/-- the table update of `updatePath`/`register` once the kernel answered `wd` -/
def Lib.applyAdd (l : Lib) (path : Path) (flags' : BitVec 32) (recurse : Bool) (wd : Nat) : Lib :=
  let oldWd : Nat := (alLookup path l.pathT).getD 0     -- Go: zero value when absent
  let existing : Option Watch := (alLookup path l.pathT).bind (fun wd => alLookup wd l.wdT)
  let upd : Watch :=
    match alLookup wd l.wdT with
    | some e => e
    | none =>
      match existing with
      | none => { wd := wd, path := path, flags := flags', recurse := recurse }
      | some e => { e with wd := wd, flags := flags' }
  let wdT1 := alInsert upd.wd upd l.wdT
  let pathT1 := alInsert upd.path upd.wd l.pathT
  let wdT2 := if upd.wd != oldWd then alErase oldWd wdT1 else wdT1
  -- the new file is already listed under another path: that entry wins, this path is dropped
  let pathT2 := if upd.wd != oldWd && alHas path l.pathT && upd.path != path then alErase path pathT1 else pathT1
  { l with wdT := wdT2, pathT := pathT2 }

/-- `inotify.register` inside `watches.updatePath` -/
def Lib.register (l : Lib) (env : Env) (path : Path) (flags : BitVec 32) (recurse : Bool) : Lib × Env × Out :=
  let existing : Option Watch := (alLookup path l.pathT).bind (fun wd => alLookup wd l.wdT)
  let flags' := match existing with
    | some e => flags ||| e.flags ||| IN_MASK_ADD
    | none => flags
  match env.addWatch path flags' with
  | .error e => (l, env, { ret := some (.errno e), sys := [.addWatch path flags'] })
  | .ok wd =>
    let env1 := if env.marks.contains wd then env else { env with marks := wd :: env.marks }
    -- the path was listed but now names another file: release the old kernel watch (errors ignored)
    let (env', rmSys) : Env × List Sys :=
      match existing with
      | some e => if e.wd != wd then ((env1.rm e.wd).1, [Sys.rmWatch e.wd]) else (env1, [])
      | none => (env1, [])
    (l.applyAdd path flags' recurse wd, env', { sys := .addWatch path flags' :: rmSys })

/-- `AddWith` without recursion (`ops`/`noFollow` as given by the options) -/
def Lib.add (l : Lib) (env : Env) (arg : Path) (ops : BitVec 32) (noFollow : Bool) : Lib × Env × Out :=
  let (path, _recurse) := recursivePath false arg
  l.register env path (inotifyRequest noFollow ops) false

/-- `AddWith("root/...")` with recursion enabled: `filepath.WalkDir` visits the directories of the
tree (`walk`, root first, supplied by the environment) and registers each; the first error stops it -/
def Lib.addRecWalk (l : Lib) (env : Env) (flags : BitVec 32) : List Path → Lib × Env × Out
  | [] => (l, env, {})
  | p :: ps =>
    let r := l.register env p flags true
    match r.2.2.ret with
    | some e => (r.1, r.2.1, { ret := some e, sys := r.2.2.sys })
    | none =>
      let rest := Lib.addRecWalk r.1 r.2.1 flags ps
      (rest.1, rest.2.1, { rest.2.2 with sys := r.2.2.sys ++ rest.2.2.sys })

def Lib.watchList (l : Lib) : List Path := l.pathT.map (·.1)

/-! ## newEvent / handleEvent -/

/-- `newEvent`: flag translation plus the cookie ring -/
def Lib.newEvent (l : Lib) (name : Path) (mask cookie : BitVec 32) : Lib × Event :=
  let op := inotifyNewEventOp mask
  if cookie != 0#32 then
    if test mask IN_MOVED_FROM then
      ({ l with ring := l.ring.store cookie name }, { name := name, op := op })
    else if test mask IN_MOVED_TO then
      (l, { name := name, op := op, renamedFrom := l.ring.find cookie })
    else (l, { name := name, op := op })
  else (l, { name := name, op := op })

/-- which branch of `handleEvent` a record takes (coverage bookkeeping for the evidence) -/
inductive Branch
  | unknownWd | ignored | moveSelfRecursive | moveSelfRemoved | moveSelfError | deleteSelfParentWatched
  | deleteSelf | plain | zeroOp
deriving DecidableEq, Repr

/-- result of handling one record -/
structure HRes where
  lib : Lib
  env : Env
  out : Out
  br  : Branch

/-- the name an event for record `r` on watch `w` carries -/
def nameOf (w : Watch) (r : Raw) : Path :=
  if r.len > 0 then w.path ++ slash :: trimNul r.name else w.path

def ignoredOrUnmount (m : BitVec 32) : Bool := (m &&& IN_IGNORED) != 0#32 || (m &&& IN_UNMOUNT) != 0#32

/-- tail of `handleEvent`: DELETE_SELF suppression when the parent is listed, then `newEvent`;
`sendEvent` drops `Op == 0` -/
def Lib.emit (l : Lib) (env : Env) (out : Out) (br : Branch) (w : Watch) (r : Raw) : HRes :=
  if (r.mask &&& IN_DELETE_SELF) != 0#32 && alHas (dir w.path) l.pathT then ⟨l, env, out, .deleteSelfParentWatched⟩
  else
    let res := l.newEvent (nameOf w r) r.mask r.cookie
    if res.2.op == 0#32 then ⟨res.1, env, out, if br == .plain then .zeroOp else br⟩
    else ⟨res.1, env, { out with events := [res.2] }, br⟩

/-! ### recursive watches (test-only feature, `enableRecurse`) -/

/-- `strings.Replace(p, old, new, 1)` when `old` is a prefix of `p` -/
def replacePrefix (p old new : Path) : Path := new ++ p.drop old.length

/-- is `p` the directory `dir` itself or something below it (separator-aware)? -/
def atOrBelow (p dir : Path) : Bool := p == dir || hasPrefix p (dir ++ [slash])

/-- after a directory inside a recursive tree was renamed `old → new`: every entry at or below
`old` gets its path rewritten and the path table re-keyed -/
def Lib.rewriteAfterRename (l : Lib) (old new : Path) : Lib :=
  let moved := l.wdT.filter fun e => atOrBelow e.2.path old
  let wdT' := l.wdT.map fun e => if atOrBelow e.2.path old then (e.1, { e.2 with path := replacePrefix e.2.path old new }) else e
  let pathT' := moved.foldl (fun pt e => alInsert (replacePrefix e.2.path old new) e.1 (alErase e.2.path pt)) l.pathT
  { l with wdT := wdT', pathT := pathT' }

/-- the tail of `handleEvent` for a recursive watch: a new directory (`IN_ISDIR` + Create) is
registered at once; if it arrived by a paired rename its descendants are re-pathed. An error of
the registration is sent on Errors (while `mu` is held). -/
def Lib.recurseAfter (h : HRes) (w : Watch) (r : Raw) (register : Lib → Env → Path → BitVec 32 → Bool → Lib × Env × Out) : HRes :=
  if w.recurse && test r.mask IN_ISDIR then
    match h.out.events with
    | [ev] =>
      if opHas ev.op Create then
        let res := register h.lib h.env ev.name w.flags true
        let errs := match res.2.2.ret with | some e => [e] | none => []
        let l2 := if ev.renamedFrom != [] then res.1.rewriteAfterRename ev.renamedFrom ev.name else res.1
        { h with lib := l2, env := res.2.1, out := { h.out with errors := h.out.errors ++ errs, sys := h.out.sys ++ res.2.2.sys } }
      else h
    | _ => h
  else h

/-- the `IN_MOVE_SELF` branch for a non-recursive watch: `w.remove(watch.path)`; every error but
`ErrNonExistentWatch` and `EINVAL` is forwarded to Errors; then the common tail -/
def Lib.afterMoveSelf (l1 : Lib) (env : Env) (w : Watch) (r : Raw) : HRes :=
  let res := l1.remove env w.path
  if res.2.2.panic then ⟨res.1, res.2.1, res.2.2, .moveSelfRemoved⟩
  else match res.2.2.ret with
    | none => res.1.emit res.2.1 { sys := res.2.2.sys } .moveSelfRemoved w r
    | some .nonExistentWatch => res.1.emit res.2.1 { sys := res.2.2.sys } .moveSelfRemoved w r
    | some e =>
      -- EINVAL: the kernel dropped the watch already (the moved file was deleted): not an error
      if e == .errno "EINVAL" then res.1.emit res.2.1 { sys := res.2.2.sys } .moveSelfRemoved w r
      else res.1.emit res.2.1 { sys := res.2.2.sys, errors := [e] } .moveSelfError w r

/-- the state after the `IN_DELETE_SELF` clean-up -/
def Lib.afterDeleteSelf (l : Lib) (w : Watch) (r : Raw) : Lib :=
  if test r.mask IN_DELETE_SELF then l.dropWatch w else l

/-- `handleEvent` for one record (non-recursive watches; a recursive watch only reaches the
`moveSelfRecursive` exit here, the rest of recursion is in `Model/Recurse.lean`). -/
def Lib.handle (l : Lib) (env : Env) (r : Raw) : HRes :=
  match alLookup r.wd l.wdT with
  | none => ⟨l, env, {}, .unknownWd⟩
  | some w =>
    if ignoredOrUnmount r.mask then ⟨l.dropWatch w, env, {}, .ignored⟩
    else if test r.mask IN_MOVE_SELF then
      if w.recurse then ⟨l.afterDeleteSelf w r, env, {}, .moveSelfRecursive⟩
      else (l.afterDeleteSelf w r).afterMoveSelf env w r
    else Lib.recurseAfter ((l.afterDeleteSelf w r).emit env {} (if test r.mask IN_DELETE_SELF then .deleteSelf else .plain) w r)
      w r Lib.register

/-- one record in `readEvents`: overflow report, then `handleEvent`, then `sendEvent` -/
def Lib.stepRecord (l : Lib) (env : Env) (r : Raw) : HRes :=
  let h := l.handle env r
  if (r.mask &&& IN_Q_OVERFLOW) != 0#32 then { h with out := { h.out with errors := .overflow :: h.out.errors } }
  else h

/-- a whole batch, front to back; stops at a panic -/
def Lib.stepRecords (l : Lib) (env : Env) : List Raw → Lib × Env × Out × List Branch
  | [] => (l, env, {}, [])
  | r :: rs =>
    let h := l.stepRecord env r
    if h.out.panic then (h.lib, h.env, h.out, [h.br]) else
    let rest := Lib.stepRecords h.lib h.env rs
    (rest.1, rest.2.1, h.out.append rest.2.2.1, h.br :: rest.2.2.2)

/-- one `Read` of the inotify file as the top of the `readEvents` loop sees it: nothing read is reported as
`io.EOF`, fewer bytes than one header as a short read — each on Errors, and the loop goes on with the
tables untouched; otherwise the records are handled (the decode loop is `Model/Decode`) -/
def Lib.stepRead (l : Lib) (env : Env) (bs : List Nat) : Lib × Env × Out × List Branch :=
  if bs.length = 0 then (l, env, { errors := [.errno "other:EOF"] }, [])
  else if bs.length < 16 then (l, env, { errors := [.errno "other:notify:_short_read_in_readEvents()"] }, [])
  else match decodeBuf bs with
    | .ok recs => l.stepRecords env recs
    | .outOfBounds recs => l.stepRecords env recs

end Fsn
