import FsnVerif.Model.Inotify
/-!
# Model: the whole kqueue backend (`backend_kqueue.go`), function by function

`Model/Kqueue` keeps only the tables. This module mirrors the control flow of `AddWith`/`addWatch`,
`Remove`/`remove`/`rm`, `Close`, `WatchList`, the body of `readEvents` for one batch of kevents,
`newEvent`, `watchDirectoryFiles`, `dirChange`, `sendCreateIfNew`, `internalWatch`, `register`
and every method of `watches`.

Everything the code asks its environment is a **parameter**: the answers of `os.Lstat`,
`os.Readlink`, `os.ReadDir` (+ `DirEntry.Info`), `unix.Open` and the batches `unix.Kevent` hands to
the reader form a *tape* that the model consumes in the order the code asks. A question that does
not match the next answer on the tape is recorded (`bad`): the implementation asked something else
than the model does. The kernel's descriptor table and knotes (`EV_ADD` on an open descriptor
succeeds, `EV_DELETE` fails with ENOENT iff there is no knote, `close` drops the knote) are a small
ghost state, so that "which descriptors are open" is an output of the model.

Go map iteration order (`watchesInDir`, `listPaths`) is modelled by list order; the final tables do
not depend on it (the driver prints them sorted).
-/
namespace KqF
open Fsn

inductive Kind | file | dir | symlink | fifo | socket | other
deriving DecidableEq, Repr

inductive FsErr | noent | acces | other
deriving DecidableEq, Repr

inductive Err | closed | nonExistent | fs (e : FsErr)
deriving DecidableEq, Repr

/-- one answer of the environment -/
inductive Ans
  | lstat (p : Path) (r : Except FsErr Kind)
  | readlink (p : Path) (r : Except FsErr Path)
  | opn (p : Path) (r : Except FsErr Nat)
  | readdir (p : Path) (r : Except FsErr (List (Path × Except FsErr Kind)))
  | kevent (evs : List (Nat × BitVec 32))

structure KW where
  wd : Nat := 0
  name : Path := []
  linkName : Path := []
  isDir : Bool := false
  dirFlags : BitVec 32 := 0#32
deriving DecidableEq, Repr

structure KS where
  wd : List (Nat × KW) := []
  path : List (Path × Nat) := []
  byDir : List (Path × List Nat) := []
  seen : List Path := []
  byUser : List Path := []
  closed : Bool := false
  -- ghost: the kernel's side
  openFds : List Nat := []
  knotes : List (Nat × BitVec 32) := []
deriving Repr

structure Ev where
  name : Path
  op : BitVec 32
deriving DecidableEq, Repr

/-- the world an operation runs in -/
structure W where
  s : KS := {}
  tape : List Ans := []
  events : List Ev := []      -- sent on Events, in order
  errors : List Err := []     -- sent on Errors, in order
  bad : Option String := none -- first question that did not match the tape

def M (α : Type) := W → α × W

instance : Monad M where
  pure a := fun w => (a, w)
  bind m f := fun w => let r := m w; f r.1 r.2

def get : M KS := fun w => (w.s, w)
def modify (f : KS → KS) : M Unit := fun w => ((), { w with s := f w.s })
def setBad (msg : String) : M Unit := fun w => ((), { w with bad := w.bad <|> some msg })

/-! ## environment questions -/

def askLstat (p : Path) : M (Except FsErr Kind) := fun w =>
  match w.tape with
  | .lstat q r :: t => if q = p then (r, { w with tape := t }) else (.error .other, { w with bad := w.bad <|> some "lstat: other path than the implementation" })
  | _ => (.error .other, { w with bad := w.bad <|> some "lstat: the implementation asked something else here" })

def askReadlink (p : Path) : M (Except FsErr Path) := fun w =>
  match w.tape with
  | .readlink q r :: t => if q = p then (r, { w with tape := t }) else (.error .other, { w with bad := w.bad <|> some "readlink: other path than the implementation" })
  | _ => (.error .other, { w with bad := w.bad <|> some "readlink: the implementation asked something else here" })

/-- `unix.Open`: a successful answer makes the descriptor open (ghost) -/
def askOpen (p : Path) : M (Except FsErr Nat) := fun w =>
  match w.tape with
  | .opn q r :: t =>
    if q = p then
      match r with
      | .ok fd =>
        -- the kernel never hands out a descriptor that is still open
        if w.s.openFds.contains fd then (.error .other, { w with tape := t, bad := w.bad <|> some "open: the tape answers a descriptor that is already open" })
        else (r, { w with tape := t, s := { w.s with openFds := fd :: w.s.openFds } })
      | .error _ => (r, { w with tape := t })
    else (.error .other, { w with bad := w.bad <|> some "open: other path than the implementation" })
  | _ => (.error .other, { w with bad := w.bad <|> some "open: the implementation asked something else here" })

def askReadDir (p : Path) : M (Except FsErr (List (Path × Except FsErr Kind))) := fun w =>
  match w.tape with
  | .readdir q r :: t => if q = p then (r, { w with tape := t }) else (.error .other, { w with bad := w.bad <|> some "readdir: other path than the implementation" })
  | _ => (.error .other, { w with bad := w.bad <|> some "readdir: the implementation asked something else here" })

/-! ## the kernel's side (ghost) -/

/-- `unix.Close(fd)`: the descriptor and its knote are gone -/
def closeFd (fd : Nat) : M Unit :=
  modify fun s => { s with openFds := s.openFds.filter (· != fd), knotes := alErase fd s.knotes }

/-- `register([fd], EV_ADD|EV_CLEAR|EV_ENABLE, fflags)`: EBADF unless the descriptor is open -/
def registerAdd (fd : Nat) (fflags : BitVec 32) : M (Except FsErr Unit) := do
  let s ← get
  if s.openFds.contains fd then
    modify fun s => { s with knotes := alInsert fd fflags s.knotes }
    pure (.ok ())
  else pure (.error .other)

/-- `register([fd], EV_DELETE, 0)`: ENOENT unless there is a knote -/
def registerDelete (fd : Nat) : M (Except FsErr Unit) := do
  let s ← get
  if alHas fd s.knotes then
    modify fun s => { s with knotes := alErase fd s.knotes }
    pure (.ok ())
  else pure (.error .noent)

/-! ## `watches` -/

def setInsert (p : Path) (l : List Path) : List Path := if l.contains p then l else l ++ [p]

def byPath (name : Path) : M (KW × Bool) := do
  let s ← get
  let fd := (alLookup name s.path).getD 0        -- a missing key reads as descriptor 0
  match alLookup fd s.wd with
  | some w => pure (w, true)
  | none => pure ({}, false)

def byWd (fd : Nat) : M (KW × Bool) := do
  let s ← get
  match alLookup fd s.wd with
  | some w => pure (w, true)
  | none => pure ({}, false)

def addUserWatch (p : Path) : M Unit := modify fun s => { s with byUser := setInsert p s.byUser }

def addLink (p : Path) (fd : Nat) : M Unit :=
  modify fun s => { s with path := alInsert p fd s.path, seen := setInsert p s.seen }

def watchesAdd (p link : Path) (fd : Nat) (isDir : Bool) : M Unit :=
  modify fun s =>
    let parent := dir p
    let cur := (alLookup parent s.byDir).getD []
    { s with path := alInsert p fd s.path,
             wd := alInsert fd { wd := fd, name := p, linkName := link, isDir := isDir } s.wd,
             byDir := alInsert parent (if cur.contains fd then cur else cur ++ [fd]) s.byDir }

def updateDirFlags (p : Path) (flags : BitVec 32) : M Bool := do
  let s ← get
  match alLookup p s.path with
  | none => pure false
  | some fd =>
    let info := (alLookup fd s.wd).getD {}
    modify fun s => { s with wd := alInsert fd { info with dirFlags := flags } s.wd }
    pure true

/-- `watches.remove(fd, path)`; returns `isDir` -/
def watchesRemove (fd : Nat) (p : Path) : M Bool := do
  let s ← get
  let isDir := match alLookup fd s.wd with | some w => w.isDir | none => false
  modify fun s =>
    let parent := dir p
    let path' := alErase p s.path
    let byDir' := match alLookup parent s.byDir with
      | none => s.byDir
      | some cur =>
        let cur' := cur.filter (· != fd)
        if cur'.isEmpty then alErase parent s.byDir else alInsert parent cur' s.byDir
    { s with path := path', byUser := s.byUser.filter (· != p), byDir := byDir', wd := alErase fd s.wd,
             seen := (s.seen.filter (· != p)).filter fun q => !(isDir && !(alHas q path') && dir q == p) }
  pure isDir

def markSeen (p : Path) (exists_ : Bool) : M Unit :=
  modify fun s => { s with seen := if exists_ then setInsert p s.seen else s.seen.filter (· != p) }

def seenBefore (p : Path) : M Bool := do
  let s ← get
  pure (s.seen.contains p)

/-- names of the watches in `p` that the user did not add -/
def watchesInDir (p : Path) : M (List Path) := do
  let s ← get
  let fds := (alLookup p s.byDir).getD []
  pure ((fds.map fun fd => ((alLookup fd s.wd).getD {}).name).filter fun n => !(s.byUser.contains n))

/-! ## channels (a sequential run: nobody has closed `done` while the reader works) -/

def sendEvent (e : Ev) : M Bool := fun w =>
  if e.op = 0#32 then (true, w)
  else if w.s.closed then (false, w)
  else (true, { w with events := w.events ++ [e] })

def sendError (e : Option Err) : M Bool := fun w =>
  match e with
  | none => (true, w)
  | some err => if w.s.closed then (false, w) else (true, { w with errors := w.errors ++ [err] })

/-! ## paths -/

def isAbs (p : Path) : Bool := p.head? == some slash
/-- `filepath.Join(a, b)` -/
def join (a b : Path) : Path := if a == [] then clean b else if b == [] then clean a else clean (a ++ slash :: b)

def isDirKind (k : Kind) : Bool := k == .dir

/-- run `f` on the elements until one returns `some` (an early `return` inside a `for`) -/
def forUntil {α β : Type} (f : α → M (Option β)) : List α → M (Option β)
  | [] => pure none
  | x :: xs => do
    match ← f x with
    | some r => pure (some r)
    | none => forUntil f xs

abbrev AddWatch := Path → BitVec 32 → Bool → M (Except Err Path)

/-- `internalWatch(name, fi)` -/
def internalWatch (aw : AddWatch) (name : Path) (k : Kind) : M (Except Err Path) := do
  if isDirKind k then
    let (info, _) ← byPath name
    aw name (info.dirFlags ||| NOTE_DELETE ||| NOTE_RENAME) true
  else aw name noteAllEvents true

/-- `watchDirectoryFiles(dirPath)`; `none` = nil error -/
def watchDirectoryFiles (aw : AddWatch) (dirPath : Path) : M (Option Err) := do
  match ← askReadDir dirPath with
  | .error e => pure (some (.fs e))
  | .ok files =>
    forUntil (fun (f : Path × Except FsErr Kind) => do
      let path := join dirPath f.1
      match f.2 with
      | .error e => pure (some (Err.fs e))
      | .ok k =>
        match ← internalWatch aw path k with
        | .error (.fs .acces) => do markSeen (clean path) true; pure none
        | .error e => pure (some e)
        | .ok cleanPath => do
          markSeen (if cleanPath == [] then clean path else cleanPath) true
          pure none) files

/-- what the first half of `addWatch` hands to the second: either the function's return value or
`(name, info, alreadyWatching)` -/
abbrev Pre := Except (Except Err Path) (Path × KW × Bool)

/-- the symlink branch of `addWatch` (only for paths added with `Add()`): the return value of
`addWatch`, or `(name, info, fi)` with the link resolved one step -/
def followLink (name : Path) (info0 : KW) : M (Except (Except Err Path) (Path × KW × Kind)) := do
  match ← askReadlink name with
  | .error e => pure (.error (.error (.fs e)))
  | .ok link0 =>
    -- (finding F15, repaired: the target is cleaned in both cases; `join` cleans)
    let link := clean (if isAbs link0 then link0 else join (dir name) link0)
    let (_, alreadyL) ← byPath link
    if alreadyL then do
      -- "Add to watches so we don't get spurious Create events later on when we diff the directories"
      addLink name 0
      pure (.error (.ok link))
    else do
      match ← askLstat link with
      | .error e => pure (.error (.error (.fs e)))
      | .ok fi2 => pure (.ok (link, { info0 with linkName := name }, fi2))

/-- the `if !alreadyWatching { … }` block of `addWatch`: Lstat, sockets and pipes skipped, links
followed, `unix.Open` -/
def openNew (name : Path) (info0 : KW) (listDir : Bool) : M Pre := do
  match ← askLstat name with
  | .error e => pure (.error (.error (.fs e)))
  | .ok fi =>
    if fi == .socket || fi == .fifo then pure (.error (.ok [])) else
    let r2 ← if !listDir && fi == .symlink then followLink name info0 else pure (.ok (name, info0, fi))
    match r2 with
    | .error r => pure (.error r)
    | .ok (name2, info2, fi2) =>
      match ← askOpen name2 with
      | .error e => pure (.error (.error (.fs e)))
      | .ok fd => pure (.ok (name2, { info2 with wd := fd, isDir := isDirKind fi2 }, false))

/-- the second half of `addWatch`: `register`, `watches.add`, directory handling. `wdf` is
`watchDirectoryFiles` (with the recursive `addWatch` inside) -/
def finishAdd (wdf : Path → M (Option Err)) (name : Path) (info : KW) (already : Bool) (flags : BitVec 32) :
    M (Except Err Path) := do
  match ← registerAdd info.wd flags with
  | .error e => do closeFd info.wd; pure (.error (.fs e))
  | .ok () => do
    if !already then watchesAdd name info.linkName info.wd info.isDir
    if info.isDir then
      let watchDir := (flags &&& NOTE_WRITE) == NOTE_WRITE && (!already || (info.dirFlags &&& NOTE_WRITE) != NOTE_WRITE)
      if !(← updateDirFlags name flags) then pure (.ok []) else
      if watchDir then
        let d := if info.linkName != [] then info.linkName else name
        match ← wdf d with
        | some e => pure (.error e)
        | none => pure (.ok name)
      else pure (.ok name)
    else pure (.ok name)

/-- `addWatch(name, flags, listDir)`; the fuel bounds the recursion through `watchDirectoryFiles`
(the real depth is at most 2: an internal watch never lists its own directory) -/
def addWatch : Nat → AddWatch
  | 0, _, _, _ => do setBad "addWatch: out of fuel"; pure (.error (.fs .other))
  | fuel + 1, name0, flags, listDir => do
    let s ← get
    if s.closed then pure (.error .closed) else
    let name := clean name0
    let (info0, already0) ← byPath name
    let pre : Pre ← if already0 then pure (.ok (name, info0, true)) else openNew name info0 listDir
    match pre with
    | .error r => pure r
    | .ok (name, info, already) => finishAdd (watchDirectoryFiles (addWatch fuel)) name info already flags

def fuel : Nat := 6

/-- `AddWith(name)` (default options: every op is supported) -/
def add (name : Path) : M (Option Err) := do
  match ← addWatch fuel name noteAllEvents false with
  | .error e => pure (some e)
  | .ok _ => do addUserWatch (clean name); pure none

/-- `rm` when `register(EV_DELETE)` failed: the error is returned — unless the Watcher is closed (finding F18,
repaired: `Close()` runs `rm` for every path after marking the Watcher closed, and the reader may have
closed the queue itself by then; the descriptor is closed and forgotten all the same. The loop over the
entries of a directory calls `Remove`, which returns at once on a closed Watcher: nothing to model) -/
def rmErr (e : FsErr) (info : KW) (name : Path) : M (Option Err) := do
  let s ← get
  if !s.closed then pure (some (.fs e)) else do
    closeFd info.wd
    let _ ← watchesRemove info.wd name
    pure none

/-- `rm(name, unwatchFiles)`; `Remove(name)` = `remove(name, true)` = closed-check + `rm` -/
def rm : Nat → Path → Bool → M (Option Err)
  | 0, _, _ => do setBad "rm: out of fuel"; pure none
  | fuel + 1, name0, unwatchFiles => do
    let name := clean name0
    let (info, ok) ← byPath name
    if !ok then pure (some .nonExistent) else
    match ← registerDelete info.wd with
    | .error e => rmErr e info name
    | .ok () => do
      closeFd info.wd
      let isDir ← watchesRemove info.wd name
      if unwatchFiles && isDir then
        let ps ← watchesInDir name
        let _ ← forUntil (fun (p : Path) => do
          let s ← get
          if s.closed then pure (none : Option Unit) else do
            let _ ← rm fuel p true
            pure none) ps
        pure none
      else pure none

def remove (name : Path) (unwatchFiles : Bool) : M (Option Err) := do
  let s ← get
  if s.closed then pure none else rm fuel name unwatchFiles

/-- `Close()` (the reader's exit and the queue's own descriptors are not part of this model) -/
def close : M Unit := do
  let s ← get
  if s.closed then pure () else do
    modify fun s => { s with closed := true }
    let paths := s.path.map (·.1)
    let _ ← forUntil (fun (p : Path) => do let _ ← rm fuel p false; pure (none : Option Unit)) paths
    pure ()

def watchList : M (List Path) := do
  let s ← get
  pure (if s.closed then [] else s.byUser)

/-- `newEvent(name, linkName, mask)` -/
def newEvent (name linkName : Path) (mask : BitVec 32) : Ev :=
  { name := if linkName != [] then linkName else name, op := kqueueNewEventOp mask }

/-- the Create of `sendCreateIfNew`: sent unless the path was seen before; `false` = the Watcher is closed -/
def announce (path : Path) : M Bool := do
  if !(← seenBefore path) then sendEvent { name := path, op := Create } else pure true

/-- `sendCreateIfNew(path, fi)` -/
def sendCreateIfNew (path : Path) (k : Kind) : M (Option Err) := do
  if !(← announce path) then pure none else
  match ← internalWatch (addWatch fuel) path k with
  | .error e => pure (some e)
  | .ok watched => do
    markSeen (if watched != [] then watched else path) true
    pure none

/-- `dirChange(dir)` -/
def dirChange (d : Path) : M (Option Err) := do
  match ← askReadDir d with
  | .error .noent => pure none
  | .error e => pure (some (.fs e))
  | .ok files =>
    let r ← forUntil (fun (f : Path × Except FsErr Kind) => do
      match f.2 with
      | .error .noent => pure (some (none : Option Err))
      | .error e => pure (some (some (Err.fs e)))
      | .ok k =>
        match ← sendCreateIfNew (join d f.1) k with
        | none => pure none
        | some (.fs .acces) => pure (some none)
        | some (.fs .noent) => pure (some none)
        | some e => pure (some (some e))) files
    pure (r.getD none)

/-- `if event.Has(Rename) || event.Has(Remove) { w.remove(event.Name, false); w.watches.markSeen(event.Name, false) }` -/
def dropIfGone (event : Ev) : M Unit := do
  if opHas event.op Rename || opHas event.op Remove then
    let _ ← remove event.name false
    markSeen event.name false
  else pure ()

/-- a directory's Write becomes `dirChange`; everything else is sent. `false` = the reader returns -/
def deliver (path : KW) (event : Ev) : M Bool := do
  if path.isDir && opHas event.op Write && !(opHas event.op Remove) then
    let _ ← dirChange event.name
    pure true
  else sendEvent event

/-- `if event.Has(Remove) { … }`: look for something that took the removed name -/
def afterRemove (path : KW) (event : Ev) : M Bool := do
  if opHas event.op Remove then
    if path.isDir then
      let fileDir := clean event.name
      let (_, found) ← byPath fileDir
      if found then do
        let err ← dirChange fileDir
        sendError err
      else pure true
    else
      let p := clean event.name
      match ← askLstat p with
      | .error _ => pure true
      | .ok fi => do
        let err ← sendCreateIfNew p fi
        sendError err
  else pure true

/-- the body of the `for _, kevent := range kevents` loop; `false` = the reader returns -/
def handleKevent (fd : Nat) (mask : BitVec 32) : M Bool := do
  let (path, _) ← byWd fd
  let event := newEvent path.name path.linkName mask
  dropIfGone event
  if !(← deliver path event) then pure false else afterRemove path event

def handleBatch : List (Nat × BitVec 32) → M Bool
  | [] => pure true
  | (fd, m) :: rest => do
    if ← handleKevent fd m then handleBatch rest else pure false

/-- everything the reader does with the batches on the tape: one `kevent` answer, its processing,
the next … until the tape holds no further batch -/
def reader : Nat → M Unit
  | 0 => pure ()
  | n + 1 => fun w =>
    match w.tape with
    | .kevent evs :: t =>
      let r := handleBatch evs { w with tape := t }
      if r.1 then reader n r.2 else ((), r.2)
    | _ => ((), w)

end KqF
