/-!
# Model: a Go channel of capacity `cap` as a FIFO buffer (core only)

`send` succeeds without a receiver iff the buffer has room; `recv` takes the oldest element; a
rendezvous (needed when the buffer is full, always for capacity 0) is a send immediately consumed.
-/
namespace Chan

structure Ch (α : Type) where
  cap : Nat
  buf : List α
deriving Repr

inductive Op (α : Type)
  | send (x : α)        -- completes without a receiver (needs room)
  | recv                -- receiver takes the head
  | rendezvous (x : α)  -- sender and receiver meet (buffer empty or capacity 0 … any time the receiver is ready and buffer empty)

/-- `none`: the operation is not enabled (would block) -/
def step {α : Type} (c : Ch α) : Op α → Option (Ch α × List α)   -- new channel, values delivered to the receiver
  | .send x => if c.buf.length < c.cap then some ({ c with buf := c.buf ++ [x] }, []) else none
  | .recv => match c.buf with
    | [] => none
    | y :: t => some ({ c with buf := t }, [y])
  | .rendezvous x => if c.buf = [] then some (c, [x]) else none

/-- run a sequence of operations; returns the channel, what was sent so far and what was received -/
def run {α : Type} (c : Ch α) : List (Op α) → Option (Ch α × List α × List α)
  | [] => some (c, [], [])
  | op :: ops =>
    match step c op with
    | none => none
    | some (c', got) =>
      match run c' ops with
      | none => none
      | some (c'', sent, recvd) =>
        let s := match op with | .send x => [x] | .rendezvous x => [x] | .recv => []
        some (c'', s ++ sent, got ++ recvd)

end Chan
