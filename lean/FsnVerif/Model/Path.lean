/-!
# Model: Unix path functions used by the backends (core Lean only)

Paths are byte strings (`List Nat`, every element < 256 on real inputs).
`clean` mirrors `path/filepath.Clean` for Unix, `dir`/`base` mirror
`filepath.Dir`/`filepath.Base`. These are *models of the Go standard library*;
they are validated differentially against the real functions (exhaustively over
a small alphabet and randomly) by the correspondence check, not proved equal.
-/
namespace Fsn
abbrev Path := List Nat

def slash : Nat := 47
def dot : Nat := 46

/-- split on `/` (like `strings.Split(p, "/")`) -/
def splitSlash (p : Path) : List Path :=
  p.foldr (fun c acc => if c == slash then [] :: acc else
    match acc with
    | [] => [[c]]
    | x :: xs => (c :: x) :: xs) [[]]

def joinSlash : List Path → Path
  | [] => []
  | [x] => x
  | x :: xs => x ++ slash :: joinSlash xs

def dotdot : Path := [dot, dot]

/-- process components left to right with a stack (kept reversed) -/
def cleanStep (rooted : Bool) (stack : List Path) (c : Path) : List Path :=
  if c == [] || c == [dot] then stack
  else if c == dotdot then
    match stack with
    | top :: rest => if top == dotdot then c :: stack else rest
    | [] => if rooted then [] else [c]
  else c :: stack

def clean (p : Path) : Path :=
  if p == [] then [dot] else
  let rooted := p.head? == some slash
  let stack := (splitSlash p).foldl (cleanStep rooted) []
  let body := joinSlash stack.reverse
  if rooted then slash :: body else if body == [] then [dot] else body

/-- index just past the last `/`, i.e. `strings.LastIndex(p, "/") + 1` -/
def lastSlashEnd (p : Path) : Nat :=
  (p.reverse.dropWhile (· != slash)).length

/-- `filepath.Dir` -/
def dir (p : Path) : Path := clean (p.take (lastSlashEnd p))

def stripTrailingSlashes (p : Path) : Path := (p.reverse.dropWhile (· == slash)).reverse

/-- `filepath.Base` -/
def base (p : Path) : Path :=
  if p == [] then [dot] else
  let q := stripTrailingSlashes p
  if q == [] then [slash] else
  let b := q.drop (lastSlashEnd q)
  if b == [] then [dot] else b

/-- `recursivePath` (fsnotify.go): clean; with recursion enabled a trailing `...` component
selects a recursive watch on its parent. -/
def recursivePath (enableRecurse : Bool) (p : Path) : Path × Bool :=
  let c := clean p
  if !enableRecurse then (c, false)
  else if base c == [dot, dot, dot] then (dir c, true)
  else (c, false)

def hasPrefix (p pre : Path) : Bool := pre.isPrefixOf p

end Fsn
