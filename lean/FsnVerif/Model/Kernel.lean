import FsnVerif.Model.Inotify
/-!
# Model: one inotify instance of the kernel, joined to the library model

`Model/Inotify` takes what the kernel answers as an unconstrained input. Here the kernel side of
one instance is modelled as well, so that "the kernel's marks and the library's tables agree" can be
*stated*: the marks of the instance (by watch descriptor), the notification queue, and the next
descriptor to hand out.

Kernel contract made explicit (fs/notify/inotify): `inotify_add_watch` answers the descriptor of
the inode's existing mark or a fresh one (`idr_alloc_cyclic`: ascending, not reused while this
model runs); `inotify_rm_watch` drops the mark and queues `IN_IGNORED` for it; when a mark dies
with its inode or file system the kernel queues `IN_DELETE_SELF` resp. `IN_UNMOUNT` and then
`IN_IGNORED`; every other record is about a live mark; records are read in queue order.
Queue overflow is **not** in this model (it discards records, `IN_IGNORED` included; C01 and C10 are
about what the library does then).
-/
namespace Kern
open Fsn

/-- what `inotify_add_watch` answers -/
inductive AddAns
  | err (e : String)
  | existing (wd : Nat)     -- the inode already has a mark in this instance
  | fresh                   -- a new mark
deriving DecidableEq, Repr

structure J where
  lib   : Lib := {}
  marks : List Nat := []
  queue : List Raw := []
  next  : Nat := 1
deriving Repr

def ignoredRec (wd : Nat) : Raw := { wd := wd, mask := IN_IGNORED, cookie := 0#32, len := 0, name := [] }

/-- a record after which the mark it names does not exist any more -/
def gone (m : BitVec 32) : Bool := ignoredOrUnmount m || test m IN_DELETE_SELF

def envOf (j : J) (ans : AddAns) : Env :=
  { addWatch := fun _ _ => match ans with
      | .err e => .error e
      | .existing wd => .ok wd
      | .fresh => .ok j.next,
    marks := j.marks }

/-- `IN_IGNORED` for every mark an API call or the reader released through `inotify_rm_watch` -/
def released (before after : List Nat) : List Raw := (before.filter fun wd => !(after.contains wd)).map ignoredRec

inductive Op
  | add (arg : Path) (ops : BitVec 32) (noFollow : Bool) (ans : AddAns)
  | remove (arg : Path)
  | note (r : Raw)                        -- the kernel reports something about a live mark
  | kill (wd : Nat) (unmount : Bool)      -- a mark dies with its inode / file system
  | read                                  -- the reader handles the oldest record

/-- what the kernel contract allows at state `j` -/
def admissible (j : J) : Op → Prop
  | .add _ _ _ (.existing wd) => wd ∈ j.marks
  | .add _ _ _ _ => True
  | .remove _ => True
  | .note r => r.wd ∈ j.marks ∧ gone r.mask = false
  | .kill wd _ => wd ∈ j.marks
  | .read => True

def step (j : J) : Op → J
  | .add arg ops nf ans =>
    let r := j.lib.add (envOf j ans) arg ops nf
    { lib := r.1, marks := r.2.1.marks, queue := j.queue ++ released j.marks r.2.1.marks,
      next := if ans = .fresh && r.2.2.ret.isNone then j.next + 1 else j.next }
  | .remove arg =>
    let r := j.lib.remove (envOf j (.err "")) (clean arg)
    { j with lib := r.1, marks := r.2.1.marks, queue := j.queue ++ released j.marks r.2.1.marks }
  | .note r => { j with queue := j.queue ++ [r] }
  | .kill wd unmount =>
    { j with marks := j.marks.erase wd,
             queue := j.queue ++ [{ wd := wd, mask := if unmount then IN_UNMOUNT else IN_DELETE_SELF, cookie := 0#32, len := 0, name := [] },
                                  ignoredRec wd] }
  | .read =>
    match j.queue with
    | [] => j
    | r :: q =>
      let h := j.lib.stepRecord (envOf j (.err "")) r
      { j with lib := h.lib, marks := h.env.marks, queue := q ++ released j.marks h.env.marks }

/-- every joint state the library and the kernel can reach together -/
inductive Reach : J → Prop
  | init : Reach {}
  | step (j : J) (op : Op) : Reach j → admissible j op → Reach (step j op)

end Kern
