import FsnVerif.Model.Inotify
import FsnVerif.Model.Diff
import FsnVerif.Model.Kqueue
import FsnVerif.Model.KqFull
import FsnVerif.Proofs.DiffLemmas
/-!
# Line-protocol driver (core-only, compiled): runs the executable model on the op lines the
Go harness produced and prints one canonical result line per op.
-/
open Fsn

def hexDigit (c : Char) : Nat :=
  if '0' ≤ c ∧ c ≤ '9' then c.toNat - '0'.toNat
  else if 'a' ≤ c ∧ c ≤ 'f' then c.toNat - 'a'.toNat + 10
  else if 'A' ≤ c ∧ c ≤ 'F' then c.toNat - 'A'.toNat + 10 else 0

def unhexL : List Char → List Nat
  | a :: b :: t => (hexDigit a * 16 + hexDigit b) :: unhexL t
  | _ => []

/-- "-" encodes the empty byte string -/
def unhex (s : String) : List Nat := if s == "-" then [] else unhexL s.toList

def hexNib (n : Nat) : Char := if n < 10 then Char.ofNat (48 + n) else Char.ofNat (87 + n)
def hex (bs : List Nat) : String :=
  if bs.isEmpty then "-" else String.ofList (bs.flatMap fun b => [hexNib (b / 16 % 16), hexNib (b % 16)])

def parseHexNat (s : String) : Nat := s.toList.foldl (fun acc c => acc * 16 + hexDigit c) 0
def bv32 (s : String) : BitVec 32 := BitVec.ofNat 32 (parseHexNat s)
def showBv {n : Nat} (b : BitVec n) : String := String.ofList (Nat.toDigits 16 b.toNat)
def natOf (s : String) : Nat := s.toNat?.getD 0

def csvNats (s : String) : List Nat := if s == "-" || s == "" then [] else (s.splitOn ",").map natOf

def chars (cs : List Char) : String := String.ofList cs

def errStr : Err → String
  | .closed => "ErrClosed" | .nonExistentWatch => "ErrNonExistentWatch" | .overflow => "ErrEventOverflow"
  | .errno e => e | .badRecurse => "badRecurse" | .notDir => "notDir"

def evStr (e : Event) : String := s!"{hex e.name}:{showBv e.op}:{hex e.renamedFrom}"

def insertSorted {α : Type} (lt : α → α → Bool) (x : α) : List α → List α
  | [] => [x]
  | y :: ys => if lt x y then x :: y :: ys else y :: insertSorted lt x ys
def sortBy {α : Type} (lt : α → α → Bool) (l : List α) : List α := l.foldr (insertSorted lt) []

def listLt : List Nat → List Nat → Bool
  | [], [] => false
  | [], _ => true
  | _, [] => false
  | a :: as, b :: bs => if a < b then true else if a > b then false else listLt as bs

def stateStr (l : Lib) : String :=
  let ws := sortBy (fun a b => a.1 < b.1) l.wdT
  let ps := sortBy (fun a b => listLt a.1 b.1) l.pathT
  let w := ";".intercalate (ws.map fun (k, w) => s!"{k}:{w.wd}:{showBv w.flags}:{hex w.path}:{if w.recurse then 1 else 0}")
  let p := ";".intercalate (ps.map fun (p, wd) => s!"{hex p}:{wd}")
  let c := ";".intercalate (l.ring.slots.map fun (c, p) => s!"{showBv c}:{hex p}")
  s!"W {w} | P {p} | C {l.ring.idx} {c}"

def outStr (o : Out) : String :=
  let r := if o.panic then "PANIC" else match o.ret with | none => "nil" | some e => errStr e
  let e := ",".intercalate (o.events.map evStr)
  let x := ",".intercalate (o.errors.map errStr)
  s!"R {r} | E {e} | X {x}"

def brStr : Branch → String
  | .unknownWd => "unknownWd" | .ignored => "ignored" | .moveSelfRecursive => "moveSelfRecursive"
  | .moveSelfRemoved => "moveSelfRemoved" | .moveSelfError => "moveSelfError"
  | .deleteSelfParentWatched => "deleteSelfParentWatched" | .deleteSelf => "deleteSelf" | .plain => "plain"
  | .zeroOp => "zeroOp"

/-- key=value arguments after the positional ones -/
def kv (args : List String) (k : String) : String :=
  match args.find? (fun a => a.startsWith (k ++ "=")) with
  | some a => (a.drop (k.length + 1)).toString
  | none => "-"

/-- "abca" ↦ lines ["a\n","b\n","c\n","a\n"]; "-" ↦ no lines -/
def tokLines (s : String) : List Diff.Line := if s == "-" then [] else s.toList.map fun c => [c, '\n']

def opStr (o : Diff.OpCode) : String := s!"{o.tag}{o.i1},{o.i2},{o.j1},{o.j2}"


/-! ## the full kqueue model (`Model/KqFull`): tape parsing and canonical printing -/
namespace KqDrv
open KqF

def fsErr (s : String) : FsErr := if s == "!noent" then .noent else if s == "!acces" then .acces else .other
def kindOf (s : String) : Kind :=
  if s == "f" then .file else if s == "d" then .dir else if s == "l" then .symlink
  else if s == "p" then .fifo else if s == "s" then .socket else .other
def resKind (s : String) : Except FsErr Kind := if s.startsWith "!" then .error (fsErr s) else .ok (kindOf s)

def parseAns (e : String) : Option Ans :=
  match e.splitOn ":" with
  | ["L", p, r] => some (.lstat (unhex p) (resKind r))
  | ["K", p, r] => some (.readlink (unhex p) (if r.startsWith "!" then .error (fsErr r) else .ok (unhex r)))
  | ["O", p, r] => some (.opn (unhex p) (if r.startsWith "!" then .error (fsErr r) else .ok (natOf r)))
  | ["D", p, r] =>
    if r.startsWith "!" then some (.readdir (unhex p) (.error (fsErr r)))
    else
      let body := (r.drop 1).toString
      let ents := if body == "" then [] else (body.splitOn ",").filterMap fun x =>
        match x.splitOn "~" with
        | [n, k] => some (unhex n, resKind k)
        | _ => none
      some (.readdir (unhex p) (.ok ents))
  | ["V", r] =>
    let evs := if r == "" then [] else (r.splitOn ",").filterMap fun x =>
      match x.splitOn "~" with
      | [fd, fl] => some (natOf fd, bv32 fl)
      | _ => none
    some (.kevent evs)
  | _ => none

def parseTape (s : String) : List Ans := if s == "-" || s == "" then [] else (s.splitOn "+").filterMap parseAns

def errS : KqF.Err → String
  | .closed => "ErrClosed" | .nonExistent => "ErrNonExistentWatch"
  | .fs .noent => "noent" | .fs .acces => "acces" | .fs .other => "other"

def semi (l : List String) : String := if l.isEmpty then "-" else ";".intercalate l

def tablesS (s : KS) : String :=
  let wd := (sortBy (fun a b => a.1 < b.1) s.wd).map fun (k, w) =>
    s!"{k}:{w.wd}:{hex w.name}:{hex w.linkName}:{if w.isDir then 1 else 0}:{showBv w.dirFlags}"
  let path := (sortBy (fun a b => listLt a.1 b.1) s.path).map fun (p, fd) => s!"{hex p}:{fd}"
  let bydir := (sortBy (fun a b => listLt a.1 b.1) s.byDir).map fun (d, fds) =>
    s!"{hex d}:{".".intercalate ((sortBy (fun a b => a < b) fds).map toString)}"
  let seen := (sortBy listLt s.seen).map hex
  let user := (sortBy listLt s.byUser).map hex
  s!"wd={semi wd} path={semi path} bydir={semi bydir} seen={semi seen} user={semi user}"

def answer (ret : String) (w : W) (wl : List Path) : String :=
  let e := ",".intercalate (w.events.map fun e => s!"{hex e.name}:{showBv e.op}")
  let x := ",".intercalate (w.errors.map errS)
  let f := ",".intercalate ((sortBy (fun a b => a < b) w.s.openFds).map toString)
  let k := ",".intercalate ((sortBy (fun a b => a.1 < b.1) w.s.knotes).map fun (fd, fl) => s!"{fd}:{showBv fl}")
  let b := match w.bad with
    | some m => m
    | none => if w.tape.isEmpty then "-" else s!"the implementation asked {w.tape.length} more question(s) than the model"
  s!"R {ret} | E {e} | X {x} | T {tablesS w.s} | F {f} | K {k} | L {semi ((sortBy listLt wl).map hex)} | B {b}"

def retS : Option KqF.Err → String
  | none => "nil" | some e => errS e

/-- one `kqf` line -/
def run (s : KS) (cmd : List String) : KS × String :=
  let w0 : W := { s := s }
  match cmd with
  | "add" :: p :: args =>
    let r := add (unhex p) { w0 with tape := parseTape (kv args "tape") }
    (r.2.s, answer (retS r.1) r.2 (watchList r.2).1)
  | "remove" :: p :: args =>
    let r := remove (unhex p) true { w0 with tape := parseTape (kv args "tape") }
    (r.2.s, answer (retS r.1) r.2 (watchList r.2).1)
  | "events" :: args =>
    let r := reader 64 { w0 with tape := parseTape (kv args "tape") }
    (r.2.s, answer "-" r.2 (watchList r.2).1)
  | "close" :: _ =>
    let r := close w0
    (r.2.s, answer "nil" r.2 (watchList r.2).1)
  | _ => (s, "bad-op")

end KqDrv

structure DState where
  lib : Lib := {}
  kq : KqF.KS := {}
  eventer : Lib := {}     -- detached ring for `newevent`
  branches : List (String × Nat) := []

def bump (bs : List (String × Nat)) (b : String) : List (String × Nat) :=
  match bs.find? (·.1 == b) with
  | some _ => bs.map fun (k, n) => if k == b then (k, n + 1) else (k, n)
  | none => bs ++ [(b, 1)]

/-- `kmap=<hexpath>:<wd>,…`: what inotify_add_watch answers per path (recursive stages) -/
def parseKmap (s : String) : List (List Nat × Nat) :=
  if s == "-" || s == "" then [] else
  (s.splitOn ",").filterMap fun e =>
    match e.splitOn ":" with
    | [p, wd] => some (unhex p, natOf wd)
    | _ => none

def mkEnv (args : List String) : Env :=
  let res := kv args "k"
  let km := parseKmap (kv args "kmap")
  { addWatch := fun p _ =>
      if res != "-" then
        (if res.startsWith "wd:" then .ok (natOf (res.drop 3).toString) else .error ((res.drop 4).toString))
      else match km.find? (fun e => e.1 == p) with
        | some e => .ok e.2
        | none => .error "ENOENT",
    marks := csvNats (kv args "marks") }

def step (st : DState) (line : String) : DState × String :=
  match (line.splitOn " ").filter (· != "") with
  | "reset" :: "kq" :: _ => ({ st with kq := {} }, "ok")
  | "kqf" :: cmd =>
    let (k, ans) := KqDrv.run st.kq cmd
    ({ st with kq := k }, ans)
  | "reset" :: rest =>
    ({ st with lib := { enableRecurse := rest.contains "recurse" }, eventer := {} }, "ok")
  | "add" :: p :: ops :: nf :: args =>
    let (l, _, o) := st.lib.add (mkEnv args) (unhex p) (bv32 ops) (nf == "1")
    ({ st with lib := l }, s!"{outStr o} | {stateStr l}")
  | "addrec" :: p :: ops :: args =>
    let walkS := kv args "walk"
    if walkS == "notdir" then (st, s!"R notDir | E  | X  | {stateStr st.lib}")
    else
      let walk := if walkS == "-" then [] else (walkS.splitOn ",").map unhex
      let (l, _, o) := st.lib.addRecWalk (mkEnv args) (inotifyRequest false (bv32 ops)) walk
      ({ st with lib := l }, s!"{outStr o} | {stateStr l}")
  | "remove" :: p :: args =>
    let (l, _, o) := st.lib.remove (mkEnv args) (clean (unhex p))
    ({ st with lib := l }, s!"{outStr o} | {stateStr l}")
  | ["watchlist"] =>
    (st, "L " ++ ";".intercalate ((sortBy listLt st.lib.watchList).map hex))
  | "rawread" :: bytes :: args =>
    -- exactly one read of the reader (may be empty or shorter than a header)
    match decodeBuf (unhex bytes) with
    | .outOfBounds _ => (st, "OUT-OF-BOUNDS")
    | .ok _ =>
      let (l, _, o, bs) := st.lib.stepRead (mkEnv args) (unhex bytes)
      let st' := { st with lib := l, branches := bs.foldl (fun acc b => bump acc (brStr b)) st.branches }
      (st', s!"{outStr o} | {stateStr l}")
  | "raw" :: bytes :: args =>
    match decodeBuf (unhex bytes) with
    | .outOfBounds _ => (st, "OUT-OF-BOUNDS")
    | .ok recs =>
      let (l, _, o, bs) := st.lib.stepRecords (mkEnv args) recs
      let st' := { st with lib := l, branches := bs.foldl (fun acc b => bump acc (brStr b)) st.branches }
      (st', s!"{outStr o} | {stateStr l}")
  | ["newevent", name, mask, cookie] =>
    let (l, e) := st.eventer.newEvent (unhex name) (bv32 mask) (bv32 cookie)
    ({ st with eventer := l }, evStr e)
  | ["opstring", o] => (st, chars (opString (bv32 o)))
  | ["has", a, b] => (st, if opHas (bv32 a) (bv32 b) then "1" else "0")
  | ["reqseq", a, b, c] =>
    -- the kernel keeps the union of what the calls requested (register ORs in IN_MASK_ADD for a listed path)
    let m1 := inotifyRequest false (bv32 a) &&& 0xfff#32
    let m2 := m1 ||| (inotifyRequest false (bv32 b) &&& 0xfff#32)
    let m3 := m2 ||| (inotifyRequest false (bv32 c) &&& 0xfff#32)
    (st, s!"{showBv m1},{showBv m2},{showBv m3}")
  | ["request", nf, ops] => (st, showBv (inotifyRequest (nf == "1") (bv32 ops)))
  | ["inotifyop", m] => (st, showBv (inotifyNewEventOp (bv32 m)))
  | ["kqop", m] => (st, showBv (kqueueNewEventOp (bv32 m)))
  | ["winop", m] => (st, showBv (winNewEventOp (bv32 m)))
  | ["winflags", m] => (st, showBv (toWindowsFlags (BitVec.ofNat 64 (parseHexNat m))))
  | ["winaction", a] => (st, showBv (toFSnotifyFlags (bv32 a)))
  | ["xsupports", be, op] =>
    (st, if (if be == "inotify" then xSupportsInotify (bv32 op) else xSupportsPortableOnly (bv32 op)) then "1" else "0")
  | ["evstring", op, name, frm, qn, qf] =>
    -- `%q` is a parameter of the model: the harness supplies strconv.Quote's answers
    let q : List Nat → List Char := fun bs => if bs == unhex name then (String.fromUTF8! (ByteArray.mk ((unhex qn).map (·.toUInt8)).toArray)).toList
      else (String.fromUTF8! (ByteArray.mk ((unhex qf).map (·.toUInt8)).toArray)).toList
    let s := eventString q { name := unhex name, op := bv32 op, renamedFrom := unhex frm }
    (st, hex ((chars s).toUTF8.toList.map (·.toNat)))
  | ["clean", p] => (st, hex (clean (unhex p)))
  | ["dir", p] => (st, hex (dir (unhex p)))
  | ["base", p] => (st, hex (base (unhex p)))
  | ["recpath", en, p] =>
    let (q, r) := recursivePath (en == "1") (unhex p)
    (st, s!"{hex q} {if r then 1 else 0}")
  | "scenario" :: _ => (st, "ok")
  | "kqstate" :: args =>
    -- the executable invariant of `Model/Kqueue` evaluated on a snapshot of the implementation
    let semi := fun (k : String) => let v := kv args k; if v == "-" || v == "" then [] else v.splitOn ";"
    let wd := (semi "wd").filterMap fun e => match e.splitOn ":" with
      | [fd, nm, d, ln] => some (natOf fd, ({ wd := natOf fd, name := unhex nm, linkName := unhex ln, isDir := d == "1" } : Kq.KW))
      | _ => none
    let path := (semi "path").filterMap fun e => match e.splitOn ":" with
      | [p, fd] => some (unhex p, natOf fd)
      | _ => none
    let ks : Kq.KState := { wd := wd, path := path, byUser := (semi "byuser").map unhex, openFds := csvNats (kv args "open") }
    (st, ks.invReport ((semi "links").map unhex))
  | ["dblocks", a, b] =>
    let ms := Diff.matchingBlocks (tokLines a) (tokLines b)
    (st, ";".intercalate (ms.map fun m => s!"{m.a},{m.b},{m.size}"))
  | ["dopcodes", a, b] =>
    (st, ";".intercalate ((Diff.getOpCodes (tokLines a) (tokLines b)).map opStr))
  | ["dgroups", a, b] =>
    (st, "|".intercalate ((Diff.groupOpCodes 3 (Diff.getOpCodes (tokLines a) (tokLines b))).map fun g => ";".intercalate (g.map opStr)))
  | ["dvalid", a, b] =>
    -- the proved-sufficient validity check (`C20.edit_script_correct`) on this pair's opcodes
    (st, if Diff.validOps (tokLines a) (tokLines b) (Diff.getOpCodes (tokLines a) (tokLines b)) then "1" else "0")
  | ["ddiff", a, b] =>
    let ta := (String.fromUTF8! (ByteArray.mk ((unhex a).map (·.toUInt8)).toArray)).toList
    let tb := (String.fromUTF8! (ByteArray.mk ((unhex b).map (·.toUInt8)).toArray)).toList
    (st, hex ((chars (Diff.diff ta tb)).toUTF8.toList.map (·.toNat)))
  | ["branches"] => (st, "B " ++ ";".intercalate (st.branches.map fun (k, n) => s!"{k}={n}"))
  | _ => (st, "bad-op")

partial def loop (h : IO.FS.Stream) (out : IO.FS.Stream) (st : DState) : IO Unit := do
  let line ← h.getLine
  if line.isEmpty then return ()
  let l := String.ofList (line.toList.reverse.dropWhile (fun c => c == '\n' || c == '\r')).reverse
  if l.isEmpty then loop h out st
  else
    -- "<seq> <op ...>"
    let (seq, rest) := match l.splitOn " " with
      | s :: r => (s, " ".intercalate r)
      | [] => ("?", "")
    let (st', res) := step st rest
    out.putStrLn s!"{seq} {res}"
    loop h out st'

def main : IO Unit := do
  let out ← IO.getStdout
  loop (← IO.getStdin) out {}
